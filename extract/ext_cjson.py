"""Cjson: constants of src/json/cJSON.[ch] -> lean/Cjet/Generated/Cjson.lean (regenerated on every run).

Extracted:
  nestingLimit    CJSON_NESTING_LIMIT (cJSON.h)
  numberBufSize   sizeof(number_c_string) in parse_number (the scan copies at most size-1 bytes)
  objCommaGuard   whether parse_object refuses, before it steps over the ',' (or the '{'), a buffer that
                  has nothing behind that character: `cannot_access_at_index(input_buffer, 1)` in front of
                  the name parse.  cJSON 1.7.13 as vendored has no such guard and reads one byte past
                  `length` for a text that ends right after a ',' inside an object; the model takes the
                  flag so that it follows the tree as it is (the correspondence decides whether it does).
  printNumberExact  whether print_number keeps the "%1.15g" candidate only when it scans back to the IDENTICAL double
                  (memcmp of the two doubles; repaired code, F65) rather than to one within compare_double's
                  relative epsilon (cJSON 1.7.13 as vendored: 0.30000000000000004 was printed as 0.3)
Raises when a pattern no longer matches (reported as a broken tie)."""
import os
import re

NAME = "Cjson"


def _strip_comments(txt):
    return re.sub(r"/\*.*?\*/", "", txt, flags=re.S)


def _function_body(txt, header_re):
    m = re.search(header_re, txt)
    if not m:
        raise ValueError("cJSON.c: function matching %r not found" % header_re)
    i = txt.index("{", m.end() - 1)
    depth = 0
    for j in range(i, len(txt)):
        if txt[j] == "{":
            depth += 1
        elif txt[j] == "}":
            depth -= 1
            if depth == 0:
                return txt[i:j + 1]
    raise ValueError("cJSON.c: unbalanced braces after %r" % header_re)


def values(repo):
    h = _strip_comments(open(os.path.join(repo, "src", "json", "cJSON.h")).read())
    c = _strip_comments(open(os.path.join(repo, "src", "json", "cJSON.c")).read())
    m = re.search(r"^\s*#\s*define\s+CJSON_NESTING_LIMIT\s+\(?\s*(\d+)", h, re.M)
    if not m:
        raise ValueError("cJSON.h: CJSON_NESTING_LIMIT not found")
    limit = int(m.group(1))
    pn = _function_body(c, r"static\s+cJSON_bool\s+parse_number\s*\([^)]*\)\s*\{")
    m = re.search(r"unsigned\s+char\s+number_c_string\s*\[\s*(\d+)\s*\]", pn)
    if not m:
        raise ValueError("cJSON.c: number_c_string[...] not found in parse_number")
    nbuf = int(m.group(1))
    if not re.search(r"i\s*<\s*\(\s*sizeof\s*\(\s*number_c_string\s*\)\s*-\s*1\s*\)", pn):
        raise ValueError("cJSON.c: parse_number scan bound is no longer sizeof(number_c_string) - 1")
    po = _function_body(c, r"static\s+cJSON_bool\s+parse_object\s*\([^)]*\)\s*\{")
    k = po.find("parse_string")
    if k < 0:
        raise ValueError("cJSON.c: parse_object no longer calls parse_string")
    loop = po.find("do")
    if loop < 0 or loop > k:
        raise ValueError("cJSON.c: parse_object's member loop not found")
    head = po[loop:k]
    guard = bool(re.search(r"cannot_access_at_index\s*\(\s*input_buffer\s*,\s*1\s*\)", head))
    return limit, nbuf, guard


def print_number_exact(repo):
    c = _strip_comments(open(os.path.join(repo, "src", "json", "cJSON.c")).read())
    pn = _function_body(c, r"static\s+cJSON_bool\s+print_number\s*\([^)]*\)\s*\{")
    if not re.search(r'"%1\.15g"', pn) or not re.search(r'"%1\.17g"', pn):
        raise ValueError("cJSON.c: print_number no longer tries %1.15g then %1.17g")
    m = re.search(r"if\s*\(\s*\(\s*sscanf\s*\([^;{]*?\)\s*!=\s*1\s*\)\s*\|\|(.*?)\)\s*\{", pn, re.S)
    if not m:
        raise ValueError("cJSON.c: print_number's acceptance test of the 15-digit candidate not found")
    cond = m.group(1)
    if "compare_double" in cond:
        return False
    if re.search(r"memcmp\s*\(\s*&test\s*,\s*&d\s*,", cond) or re.search(r"test\s*!=\s*d\b", cond):
        return True
    raise ValueError("cJSON.c: print_number's acceptance test is neither compare_double nor an exact comparison: %r" % cond)


def lean(repo):
    limit, nbuf, guard = values(repo)
    exact = print_number_exact(repo)
    return "\n".join([
        "",
        "namespace Cjet.Generated.Cjson",
        "",
        "/-- CJSON_NESTING_LIMIT (src/json/cJSON.h) -/",
        "def nestingLimit : Nat := %d" % limit,
        "/-- sizeof(number_c_string) in parse_number (src/json/cJSON.c) -/",
        "def numberBufSize : Nat := %d" % nbuf,
        "/-- parse_object checks `cannot_access_at_index(input_buffer, 1)` before it steps over the separator -/",
        "def objCommaGuard : Bool := %s" % ("true" if guard else "false"),
        "/-- print_number accepts the 15-digit candidate only when it scans back to the identical double -/",
        "def printNumberExact : Bool := %s" % ("true" if exact else "false"),
        "",
        "end Cjet.Generated.Cjson",
        "",
    ])


if __name__ == "__main__":
    import sys
    print(lean(sys.argv[1] if len(sys.argv) > 1 else "/repo"))
