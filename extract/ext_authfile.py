"""C20: constants of src/posix/auth_file.c regenerated on every run into
lean/Cjet/Generated/Authfile.lean: the crypt method table (prefix, min/max salt length), the
salt alphabet of fill_salt(), the size of the `salt` buffer in change_password().  The theorems
of Cjet.Props.C20 that mention them (salt_fits_buffer, …) are re-checked against these values."""
import os
import re

NAME = "Authfile"


def _bytes(s):
    return "[" + ", ".join(str(b) for b in s.encode("latin-1")) + "]"


def lean(repo):
    txt = open(os.path.join(repo, "src", "posix", "auth_file.c")).read()
    m = re.search(r"static const struct crypt_method methods\[\]\s*=\s*\{(.*?)\};", txt, re.S)
    if not m:
        raise ValueError("auth_file.c: crypt method table not found")
    rows = re.findall(r"\{\s*\"([^\"]*)\"\s*,\s*(\d+)\s*,\s*(\d+)\s*,\s*(\d+)\s*\}", m.group(1))
    if not rows:
        raise ValueError("auth_file.c: crypt method table has no rows")
    m = re.search(r"static const char valid_salts\[\]\s*=\s*((?:\"[^\"]*\"\s*)+);", txt)
    if not m:
        raise ValueError("auth_file.c: valid_salts not found")
    alphabet = "".join(re.findall(r"\"([^\"]*)\"", m.group(1)))
    if not re.search(r"valid_salts\s*\[\s*random_byte\s*%\s*\(\s*sizeof\s*\(?\s*valid_salts\s*\)?\s*-\s*1\s*\)\s*\]", txt):
        raise ValueError("auth_file.c: fill_salt no longer indexes valid_salts by random_byte % (sizeof - 1)")
    m = re.search(r"char salt\[(\d+)\];", txt)
    if not m:
        raise ValueError("auth_file.c: salt buffer not found")
    salt_buf = int(m.group(1))
    out = ["import Cjet.Basic", "namespace Cjet.Generated.Authfile", "",
           "/-- `methods[]` of auth_file.c: (prefix, minimum salt length, maximum salt length). -/",
           "def methods : List (Cjet.Bytes × Nat × Nat) := ["]
    out.append(",\n".join("  (%s, %s, %s)" % (_bytes(p), lo, hi) for p, lo, hi, _ in rows))
    out += ["]", "", "/-- `valid_salts` of fill_salt() without the terminating NUL. -/",
            "def validSalts : Cjet.Bytes := %s" % _bytes(alphabet), "",
            "/-- `char salt[N]` in change_password(). -/", "def saltBufSize : Nat := %d" % salt_buf, "",
            "end Cjet.Generated.Authfile", ""]
    return "\n".join(out)
