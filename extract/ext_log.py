"""LOG_BUFFER_SIZE and the clamp of log_peer_err/log_peer_info (src/peer.c) -> lean/Cjet/Generated/Log.lean"""
import os
import re

NAME = "Log"


def lean(repo):
    txt = open(os.path.join(repo, "src", "peer.c")).read()
    m = re.search(r"#define\s+LOG_BUFFER_SIZE\s+(\d+)", txt)
    if not m:
        raise ValueError("LOG_BUFFER_SIZE not found in peer.c")
    size = int(m.group(1))
    bodies = re.findall(r"void log_peer_(?:err|info)\(.*?\n}\n", txt, re.S)
    if len(bodies) != 2:
        raise ValueError("log_peer_err/log_peer_info not found")
    for b in bodies:
        if not re.search(r'snprintf\(buffer,\s*LOG_BUFFER_SIZE', b):
            raise ValueError("prefix snprintf pattern changed")
    return ("namespace Cjet.Generated.Log\n\n"
            "/-- `#define LOG_BUFFER_SIZE` of src/peer.c -/\n"
            "def logBufferSize : Nat := %d\n\n"
            "end Cjet.Generated.Log\n" % size)
