"""C18: constants of src/utf8_checker.c -> lean/Cjet/Generated/Utf8.lean (regenerated on every run).

Extracted: UC_FINISH and the FAST_ZONE* masks of the word fast paths (named `const` objects at the
top of the file).  The comparison literals inside the fast-path conditions are transcribed by hand in
Cjet/Utf8.lean and tied by the correspondence (exhaustive for the 32-bit path in the thorough tier).
Raises when a definition is no longer found (reported as a broken tie)."""
import os
import re

NAME = "Utf8"

CONSTS = [  # (C name, lean name, lean type, bits)
    ("UC_FINISH", "ucFinish", "UInt8", 8),
    ("FAST_ZONE1", "fastZone1", "UInt32", 32),
    ("FAST_ZONE21", "fastZone21", "UInt32", 32),
    ("FAST_ZONE22", "fastZone22", "UInt32", 32),
    ("FAST_ZONE23", "fastZone23", "UInt32", 32),
    ("FAST_ZONE24", "fastZone24", "UInt32", 32),
    ("FAST_ZONE1_64", "fastZone1_64", "UInt64", 64),
    ("FAST_ZONE2_64", "fastZone2_64", "UInt64", 64),
]


def lean(repo):
    txt = open(os.path.join(repo, "src", "utf8_checker.c")).read()
    txt = re.sub(r"/\*.*?\*/", "", txt, flags=re.S)
    out = ["", "namespace Cjet.Generated.Utf8", ""]
    for cname, lname, typ, bits in CONSTS:
        m = re.search(r"^\s*(?:static\s+)?(?:const\s+)?[\w\s]*?\b%s\s*=\s*(0[xX][0-9a-fA-F]+|\d+)\s*(?:[uUlL]*)\s*;" % re.escape(cname),
                      txt, re.M) or \
            re.search(r"^\s*#\s*define\s+%s\s+\(?\s*(0[xX][0-9a-fA-F]+|\d+)" % re.escape(cname), txt, re.M)
        if not m:
            raise ValueError("utf8_checker.c: definition of %s not found" % cname)
        v = int(m.group(1), 0)
        if v >= 1 << bits:
            raise ValueError("utf8_checker.c: %s = %#x does not fit %d bits" % (cname, v, bits))
        out.append("def %s : %s := 0x%X" % (lname, typ, v))
    out += ["", "end Cjet.Generated.Utf8", ""]
    return "\n".join(out)


if __name__ == "__main__":
    import sys
    print(lean(sys.argv[1] if len(sys.argv) > 1 else "/repo"))
