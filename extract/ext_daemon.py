"""Constants the daemon model depends on, regenerated from the source: JSON-RPC error codes (response.h), the minimum
timeout (timer.c), the default routed-request timeout and table / matcher limits (cmake defaults)."""
import os
import re
import struct

NAME = "Daemon"


def lean(repo):
    rh = open(os.path.join(repo, "src", "response.h")).read()
    codes = {}
    for n in ("INVALID_REQUEST", "METHOD_NOT_FOUND", "INVALID_PARAMS", "INTERNAL_ERROR"):
        m = re.search(r"#define\s+%s\s+(-?\d+)" % n, rh)
        if not m:
            raise ValueError("error code %s not found in response.h" % n)
        codes[n] = int(m.group(1))
    tc = open(os.path.join(repo, "src", "timer.c")).read()
    m = re.search(r"MIN_TIMEOUT_IN_S\s*=\s*([0-9.eE+-]+)\s*;", tc)
    if not m:
        raise ValueError("MIN_TIMEOUT_IN_S not found in timer.c")
    mn = float(m.group(1))
    bits = struct.unpack(">Q", struct.pack(">d", mn))[0]
    if not re.search(r"valuedouble\s*<\s*MIN_TIMEOUT_IN_S", tc):
        raise ValueError("the lower-bound comparison of get_timeout_in_nsec changed shape")
    dm = open(os.path.join(repo, "cmake", "defaults.cmake")).read()
    m2 = re.search(r"ELSE\(\)\s*SET\(CONFIG_ROUTED_MESSAGES_TIMEOUT\s+([0-9.]+)\)", dm)
    if not m2:
        raise ValueError("CONFIG_ROUTED_MESSAGES_TIMEOUT default not found")
    dflt_ns = int(float(m2.group(1)) * 1e9)
    out = ["namespace Cjet.Generated.Daemon", ""]
    for n, v in codes.items():
        out.append("def %s : Int := %d" % ("code" + "".join(w.capitalize() for w in n.split("_")), v))
    out += ["", "/-- IEEE-754 image of MIN_TIMEOUT_IN_S (%r) -/" % mn, "def minTimeoutBits : UInt64 := %d" % bits,
            "", "/-- CONFIG_ROUTED_MESSAGES_TIMEOUT in nanoseconds -/", "def defaultTimeoutNs : Nat := %d" % dflt_ns, "",
            "end Cjet.Generated.Daemon", ""]
    return "\n".join(out)
