"""fetch.c -> lean/Cjet/Generated/Matcher.lean  (property C16, component Matcher).

Regenerated on every run from the tree under test:
  * `optionKey`            bytes of `static const char case_insensitive[] = "..."`
  * `optionKeyCmpLen`      the length argument of the strncmp in add_matchers (must be
                           sizeof(case_insensitive) = strlen + 1, or a literal)
  * `CFn`                  one constructor per match function referenced by the matchers[] table
  * `table`                the matchers[] initialiser, in order: name bytes, case_sensitive function,
                           case_insensitive function, has_multiple_path_elements
  * `optionLookupCaseSensitive`  whether get_case_insensitive uses cJSON_GetObjectItemCaseSensitive
  * `cjsonGetObjectItemCaseSensitive`  the case flag cJSON_GetObjectItem passes to get_object_item in
                           THIS cJSON version (false = keys compared with tolower on both sides)
Each pattern is anchored on the C text; a pattern that no longer matches raises (= broken tie)."""
import os
import re

NAME = "Matcher"


def _read(repo, rel):
    return open(os.path.join(repo, rel)).read()


def _bytes(s):
    return "[" + ", ".join(str(b) for b in s.encode("latin-1")) + "]"


def _c_string(lit):
    """Decode a simple C string literal body (no octal/hex escapes expected in this table)."""
    if "\\" in lit:
        raise ValueError("escape sequence in matcher table string %r: extend the extractor" % lit)
    return lit


def extract(repo):
    txt = _read(repo, "src/fetch.c")
    m = re.search(r'static\s+const\s+char\s+case_insensitive\s*\[\s*\]\s*=\s*"([^"]*)"\s*;', txt)
    if not m:
        raise ValueError("fetch.c: definition of case_insensitive[] not found")
    option_key = _c_string(m.group(1))

    # the skip test of add_matchers
    m = re.search(r"static\s+int\s+add_matchers\s*\([^)]*\)\s*\{(.*?)\n\}", txt, re.S)
    if not m:
        raise ValueError("fetch.c: add_matchers not found")
    body = m.group(1)
    c = re.search(r"strncmp\s*\(\s*matcher->string\s*,\s*case_insensitive\s*,\s*(sizeof\s*\(\s*case_insensitive\s*\)|\d+)\s*\)\s*!=\s*0", body)
    c2 = re.search(r"strcmp\s*\(\s*matcher->string\s*,\s*case_insensitive\s*\)\s*!=\s*0", body)
    if c:
        cmp_len = len(option_key) + 1 if c.group(1).startswith("sizeof") else int(c.group(1))
    elif c2:
        cmp_len = len(option_key) + 1        # strcmp = strncmp over the whole string incl. terminator
    else:
        raise ValueError("fetch.c: add_matchers no longer skips the option key with str(n)cmp(matcher->string, case_insensitive…) != 0")

    # option lookup
    m = re.search(r"get_case_insensitive\s*\(\s*const\s+cJSON\s*\*\s*path\s*\)\s*\{\s*return\s+(cJSON_GetObjectItem(?:CaseSensitive)?)\s*\(\s*path\s*,\s*case_insensitive\s*\)\s*;", txt)
    if not m:
        raise ValueError("fetch.c: get_case_insensitive no longer a plain cJSON_GetObjectItem lookup")
    lookup_cs = m.group(1).endswith("CaseSensitive")

    cj = _read(repo, "src/json/cJSON.c")
    m = re.search(r"cJSON_GetObjectItem\s*\(\s*const\s+cJSON\s*\*\s*const\s+object\s*,\s*const\s+char\s*\*\s*const\s+string\s*\)\s*\{\s*return\s+get_object_item\s*\(\s*object\s*,\s*string\s*,\s*(false|true)\s*\)\s*;", cj)
    if not m:
        raise ValueError("cJSON.c: cJSON_GetObjectItem no longer delegates to get_object_item(object, string, <flag>)")
    cjson_cs = m.group(1) == "true"
    if not re.search(r"for\s*\(\s*;\s*tolower\(\*string1\)\s*==\s*tolower\(\*string2\)", cj):
        raise ValueError("cJSON.c: case_insensitive_strcmp no longer the tolower loop")

    # the table
    m = re.search(r"static\s+const\s+struct\s+supported_matcher\s+matchers\s*\[\s*\]\s*=\s*\{(.*?)\}\s*;", txt, re.S)
    if not m:
        raise ValueError("fetch.c: matchers[] table not found")
    entries = re.findall(r"\{([^{}]*)\}", m.group(1))
    if not entries:
        raise ValueError("fetch.c: matchers[] table is empty or not in designated-initialiser form")
    table = []
    for e in entries:
        f = dict((k, v.strip()) for k, v in re.findall(r"\.(\w+)\s*=\s*([^,]+)", e))
        if set(f) != {"matcher_name", "case_sensitive", "case_insensitive", "has_multiple_path_elements"}:
            raise ValueError("fetch.c: unexpected fields in matchers[] entry: %r" % e)
        nm = re.fullmatch(r'"([^"]*)"', f["matcher_name"])
        if not nm or f["has_multiple_path_elements"] not in ("true", "false"):
            raise ValueError("fetch.c: cannot read matchers[] entry: %r" % e)
        for fn in (f["case_sensitive"], f["case_insensitive"]):
            if not re.fullmatch(r"[A-Za-z_]\w*", fn):
                raise ValueError("fetch.c: match function is not an identifier: %r" % fn)
            if not re.search(r"static\s+int\s+%s\s*\(\s*const\s+struct\s+path_matcher\s*\*\s*pm\s*,\s*const\s+char\s*\*\s*state_path\s*\)" % fn, txt):
                raise ValueError("fetch.c: match function %s not defined with the expected signature" % fn)
        table.append((_c_string(nm.group(1)), f["case_sensitive"], f["case_insensitive"], f["has_multiple_path_elements"] == "true"))

    # the lookup loop of create_matcher must still be a strcmp over the table in order
    if not re.search(r"for\s*\(\s*unsigned\s+int\s+i\s*=\s*0\s*;\s*i\s*<\s*ARRAY_SIZE\(matchers\)\s*;\s*i\+\+\s*\)\s*\{\s*if\s*\(\s*strcmp\(matcher->string,\s*matchers\[i\]\.matcher_name\)\s*==\s*0\s*\)", txt):
        raise ValueError("fetch.c: create_matcher no longer looks names up with strcmp over matchers[] in order")
    return {"option_key": option_key, "cmp_len": cmp_len, "lookup_cs": lookup_cs, "cjson_cs": cjson_cs, "table": table}


def lean(repo):
    d = extract(repo)
    fns = []
    for _, cs, ci, _ in d["table"]:
        for fn in (cs, ci):
            if fn not in fns:
                fns.append(fn)
    b = lambda v: "true" if v else "false"
    out = ["namespace Cjet.Generated.Matcher", "",
           "/-- `static const char case_insensitive[]` of fetch.c (without the terminator). -/",
           "def optionKey : List UInt8 := %s  -- %r" % (_bytes(d["option_key"]), d["option_key"]),
           "/-- length argument of the `strncmp` by which `add_matchers` skips the option key. -/",
           "def optionKeyCmpLen : Nat := %d" % d["cmp_len"],
           "/-- `get_case_insensitive` uses `cJSON_GetObjectItemCaseSensitive`? -/",
           "def optionLookupCaseSensitive : Bool := %s" % b(d["lookup_cs"]),
           "/-- the `case_sensitive` flag `cJSON_GetObjectItem` passes on in this cJSON version. -/",
           "def cjsonGetObjectItemCaseSensitive : Bool := %s" % b(d["cjson_cs"]),
           "",
           "/-- the match functions the `matchers[]` table refers to (C identifiers). -/",
           "inductive CFn where"]
    out += ["  | %s" % fn for fn in fns]
    out += ["  deriving DecidableEq, Repr, Inhabited", "",
            "/-- one entry of `matchers[]`. -/",
            "structure Entry where",
            "  name : List UInt8",
            "  caseSensitive : CFn",
            "  caseInsensitive : CFn",
            "  multi : Bool",
            "  deriving DecidableEq, Repr", "",
            "/-- `static const struct supported_matcher matchers[]`, in source order. -/",
            "def table : List Entry := ["]
    rows = []
    for nm, cs, ci, multi in d["table"]:
        rows.append("  { name := %s, caseSensitive := .%s, caseInsensitive := .%s, multi := %s }  -- %r" % (
            _bytes(nm), cs, ci, b(multi), nm))
    # comments must follow the comma
    fixed = []
    for i, r in enumerate(rows):
        code, com = r.split("  -- ")
        fixed.append(code + ("," if i + 1 < len(rows) else "") + "  -- " + com)
    out += fixed
    out += ["]", "", "end Cjet.Generated.Matcher", ""]
    return "\n".join(out)


if __name__ == "__main__":
    import sys
    print(lean(sys.argv[1] if len(sys.argv) > 1 else "/repo"))
