"""C12 constants: src/websocket.{c,h}, websocket_peer.c, base64.c, sha1/sha1.c, http_connection.c,
http-parser/http_parser.h  ->  lean/Cjet/Generated/Ws.lean.

Every value is taken from the C text by a regex anchored on the construct it lives in; a pattern that
no longer matches raises (= broken tie).  The Lean theorems of Cjet.Props.C12 are stated over these
names, so a changed literal re-checks the proofs against what the code says now."""
import os
import re

NAME = "Ws"


def _read(repo, rel):
    return open(os.path.join(repo, "src", rel)).read()


def _must(pat, txt, what, flags=0):
    m = re.search(pat, txt, flags)
    if not m:
        raise ValueError("ext_ws: cannot extract %s" % what)
    return m


def _int(s):
    return int(s, 0)


def _lean_bytes(b):
    return "[" + ", ".join(str(x) for x in b) + "]"


def _func(txt, name):
    """Text of the C function `name` (from its signature line to the closing brace in column 0)."""
    m = _must(r"^[\w \*]+\b%s\s*\([^;{]*\)\s*\{.*?^\}" % re.escape(name), txt, "function " + name, re.M | re.S)
    return m.group(0)


def lean(repo):
    ws = _read(repo, "websocket.c")
    wsh = _read(repo, "websocket.h")
    wsp = _read(repo, "websocket_peer.c")
    b64 = _read(repo, "base64.c")
    sha = _read(repo, "sha1/sha1.c")
    hc = _read(repo, "http_connection.c")
    hch = _read(repo, "http_connection.h")
    hp = _read(repo, "http-parser/http_parser.h")
    out = ["namespace Cjet.Generated.Ws", ""]

    def nat(name, val, doc=None):
        if doc:
            out.append("/-- %s -/" % doc)
        out.append("abbrev %s : Nat := %d" % (name, val))

    def byts(name, b, doc=None):
        if doc:
            out.append("/-- %s -/" % doc)
        out.append("def %s : List UInt8 := %s" % (name, _lean_bytes(b)))

    # ---- static const literals of websocket.c
    for cname, lname in (("WS_MASK_SET", "wsMaskSet"), ("WS_HEADER_FIN", "wsHeaderFin"),
                         ("WS_SMALL_FRAME_SIZE", "wsSmallFrameSize"),
                         ("PER_MESSAGE_COMPRESSED_BIT", "perMessageCompressedBit"),
                         ("RSV_MASK", "rsvMask"), ("OPCODE_MASK", "opcodeMask")):
        m = _must(r"static\s+const\s+\w[\w ]*\b%s\s*=\s*(0[xX][0-9a-fA-F]+|\d+)\s*;" % cname, ws, cname)
        nat(lname, _int(m.group(1)), "websocket.c: %s" % cname)
    # opcodes (#define in websocket.c; websocket_peer.c repeats them: must agree)
    for cname, lname in (("WS_CONTINUATION_FRAME", "opContinuation"), ("WS_TEXT_FRAME", "opText"),
                         ("WS_BINARY_FRAME", "opBinary"), ("WS_CLOSE_FRAME", "opClose"),
                         ("WS_PING_FRAME", "opPing"), ("WS_PONG_FRAME", "opPong")):
        m = _must(r"#define\s+%s\s+(0[xX][0-9a-fA-F]+|\d+)" % cname, ws, cname)
        nat(lname, _int(m.group(1)), "websocket.c: %s" % cname)
    # rsv shift: rsv_field = rsv_field >> 4
    m = _must(r"rsv_field\s*=\s*rsv_field\s*>>\s*(\d+)\s*;", ws, "rsv shift")
    nat("rsvShift", _int(m.group(1)))

    # ---- status codes (websocket.h enum ws_status_code)
    en = _must(r"enum\s+ws_status_code\s*\{(.*?)\}", wsh, "enum ws_status_code", re.S).group(1)
    codes = dict((k, _int(v)) for k, v in re.findall(r"(WS_CLOSE_\w+)\s*=\s*(\d+)", en))
    need = ["WS_CLOSE_NORMAL", "WS_CLOSE_GOING_AWAY", "WS_CLOSE_PROTOCOL_ERROR", "WS_CLOSE_UNSUPPORTED",
            "WS_CLOSE_UNSUPPORTED_DATA", "WS_CLOSE_INTERNAL_ERROR", "WS_CLOSE_RESERVED_LOWER_BOUND",
            "WS_CLOSE_RESERVED_UPPER_BOUND"]
    for k in need:
        if k not in codes:
            raise ValueError("ext_ws: status code %s missing" % k)

    def camel(k):
        parts = k.lower().split("_")[2:]
        return "close" + "".join(p.capitalize() for p in parts)
    for k, v in codes.items():
        nat(camel(k), v, "websocket.h: %s" % k)
    # is_status_code_invalid: the list of (lower, upper) ranges that make a code valid
    fn = _func(ws, "is_status_code_invalid")
    rng = re.findall(r"status_code\s*>=\s*(\w+)\s*\)\s*&&\s*\(\s*status_code\s*<=\s*(\w+)\s*\)\s*\)\s*ret\s*=\s*false", fn)
    if not rng or not re.search(r"bool\s+ret\s*=\s*true", fn):
        raise ValueError("ext_ws: is_status_code_invalid no longer has the range form")
    out.append("/-- websocket.c is_status_code_invalid: a code is valid iff it lies in one of these closed ranges -/")
    out.append("def validStatusRanges : List (Nat × Nat) := [%s]" % ", ".join(
        "(%d, %d)" % (codes[a], codes[b]) for a, b in rng))

    # ---- length thresholds
    fl = _func(ws, "ws_get_first_length")
    m = _must(r"if\s*\(\s*field\s*<\s*(\d+)\s*\)\s*\{.*?else\s+if\s*\(\s*field\s*==\s*(\d+)\s*\)", fl, "receive length thresholds", re.S)
    nat("recvLen7Limit", _int(m.group(1)), "ws_get_first_length: `field < N` is a 7 bit length")
    nat("recvLen16Marker", _int(m.group(2)), "ws_get_first_length: `field == N` announces a 16 bit length")
    m = _must(r"read_exactly\([^,]+,\s*(\d+)\s*,\s*ws_get_length16", fl, "len16 size")
    nat("len16Bytes", _int(m.group(1)))
    m = _must(r"read_exactly\([^,]+,\s*(\d+)\s*,\s*ws_get_length64", fl, "len64 size")
    nat("len64Bytes", _int(m.group(1)))
    sf = _func(ws, "send_frame")
    m = _must(r"if\s*\(\s*length_comp\s*<\s*(\d+)\s*\)\s*\{.*?else\s+if\s*\(\s*length_comp\s*<\s*(\d+)\s*\)\s*\{.*?first_len\s*=\s*(\d+)\s*;.*?else\s*\{.*?first_len\s*=\s*(\d+)\s*;",
              sf, "send length thresholds", re.S)
    nat("sendLen7Limit", _int(m.group(1)), "send_frame: `length < N` uses the 7 bit form")
    nat("sendLen16Limit", _int(m.group(2)), "send_frame: `length < N` uses the 16 bit form")
    nat("sendLen16Marker", _int(m.group(3)))
    nat("sendLen64Marker", _int(m.group(4)))
    # mask key size: uint8_t mask[4] in struct websocket
    m = _must(r"uint8_t\s+mask\s*\[\s*(\d+)\s*\]\s*;", wsh, "mask size")
    nat("maskBytes", _int(m.group(1)))

    # ---- handshake literals
    for cname, lname in (("SEC_WEB_SOCKET_KEY_LENGTH", "secKeyLength"), ("SEC_WEB_SOCKET_GUID_LENGTH", "secGuidLength")):
        m = _must(r"#define\s+%s\s+(\d+)" % cname, wsh, cname)
        nat(lname, _int(m.group(1)), "websocket.h: %s" % cname)
    m = _must(r"ws_guid\s*\[[^\]]*\]\s*=\s*\"([^\"]*)\"", ws, "GUID")
    byts("wsGuid", m.group(1).encode(), "save_websocket_key: ws_guid")
    m = _must(r"static\s+const\s+char\s+version\[\]\s*=\s*\"([^\"]*)\"", _func(ws, "check_websocket_version"), "version")
    byts("wsVersion", m.group(1).encode(), "check_websocket_version")
    hf = _func(ws, "websocket_upgrade_on_header_field")
    names = re.findall(r"static\s+const\s+char\s+(\w+)\[\]\s*=\s*\"([^\"]*)\"", hf)
    want = {"sec_key": "hdrKey", "ws_version": "hdrVersion", "ws_protocol": "hdrProtocol", "ws_extensions": "hdrExtensions"}
    got = dict(names)
    for k, ln in want.items():
        if k not in got:
            raise ValueError("ext_ws: header name %s missing" % k)
        byts(ln, got[k].encode(), "websocket_upgrade_on_header_field: %s" % k)
    m = _must(r"static\s+const\s+char\s*\*\s*sub_protocol\s*=\s*\"([^\"]*)\"", wsp, "sub protocol")
    byts("subProtocol", m.group(1).encode(), "websocket_peer.c: the daemon's sub-protocol")
    # which callbacks websocket_peer.c installs
    inst = set(re.findall(r"ws_peer->websocket\.(\w+)\s*=", _func(wsp, "init_websocket_peer")))
    allcb = ["text_message_received", "text_frame_received", "binary_message_received", "binary_frame_received",
             "ping_received", "pong_received", "close_received"]
    unknown = inst - set(allcb)
    if unknown:
        raise ValueError("ext_ws: init_websocket_peer sets unknown callbacks %s" % sorted(unknown))
    for cb in allcb:
        out.append("def daemonSets_%s : Bool := %s" % (cb, "true" if cb in inst else "false"))

    def cstr(s):
        return s.replace("CRLF", "").strip()
    su = _func(ws, "send_upgrade_response")

    def ccat(name):
        m = _must(r"static\s+const\s+char\s+%s\[\]\s*=\s*((?:\s*(?:CRLF|\"[^\"]*\"))+)\s*;" % name, su, name)
        parts = re.findall(r"CRLF|\"[^\"]*\"", m.group(1))
        return b"".join(b"\r\n" if p == "CRLF" else p[1:-1].encode() for p in parts)
    byts("switchResponse", ccat("switch_response"))
    byts("switchProtocol", ccat("ws_protocol"))
    byts("switchExtensions", ccat("ws_extensions"))
    byts("switchEnd", ccat("switch_response_end"))
    m = _must(r"uint8_t\s+accept_value\[(\d+)\]", su, "accept_value size")
    nat("acceptValueSize", _int(m.group(1)))
    # http_connection.c error responses
    gr = _func(hc, "get_response")
    for code_name, lname in (("HTTP_BAD_REQUEST", "httpBadRequestResponse"), ("HTTP_NOT_FOUND", "httpNotFoundResponse")):
        m = _must(r"case\s+%s\s*:\s*return\s+\"([^\"]*)\"((?:\s*CRLF)*)\s*;" % code_name, gr, code_name)
        byts(lname, m.group(1).encode() + b"\r\n" * len(re.findall("CRLF", m.group(2))))
    m = _must(r"default\s*:\s*return\s+\"([^\"]*)\"((?:\s*CRLF)*)\s*;", gr, "default response")
    byts("httpInternalErrorResponse", m.group(1).encode() + b"\r\n" * len(re.findall("CRLF", m.group(2))))
    for cname, lname in (("HTTP_BAD_REQUEST", "httpBadRequest"), ("HTTP_NOT_FOUND", "httpNotFound")):
        m = _must(r"#define\s+%s\s+(\d+)" % cname, hch, cname)
        nat(lname, _int(m.group(1)))
    m = _must(r"XX\(\s*(\d+)\s*,\s*GET\s*,\s*GET\s*\)", hp, "HTTP_GET")
    nat("httpGet", _int(m.group(1)), "http_parser.h: HTTP_GET")

    # ---- base64 table
    m = _must(r"encode_table\[\]\s*=\s*\"([^\"]*)\"", b64, "base64 table")
    if len(m.group(1)) != 64:
        raise ValueError("ext_ws: base64 table is not 64 characters")
    byts("b64Table", m.group(1).encode(), "base64.c: encode_table")

    # ---- SHA-1 constants
    m = _must(r"const\s+uint32_t\s+K\[\]\s*=\s*\{(.*?)\}", sha, "sha1 K", re.S)
    ks = re.findall(r"0x[0-9A-Fa-f]+", re.sub(r"/\*.*?\*/", "", m.group(1), flags=re.S))
    if len(ks) != 4:
        raise ValueError("ext_ws: sha1 K[] does not have 4 entries")
    out.append("def sha1K : List UInt32 := [%s]" % ", ".join(str(int(k, 16)) for k in ks))
    hs = re.findall(r"Intermediate_Hash\[(\d)\]\s*=\s*(0x[0-9A-Fa-f]+)\s*;", _func(sha, "SHA1Reset"))
    if [int(i) for i, _ in hs] != [0, 1, 2, 3, 4]:
        raise ValueError("ext_ws: SHA1Reset initial hash not found")
    out.append("def sha1H0 : List UInt32 := [%s]" % ", ".join(str(int(v, 16)) for _, v in hs))
    m = _must(r"#define\s+SHA1HashSize\s+(\d+)", _read(repo, "sha1/sha1.h"), "SHA1HashSize")
    nat("sha1HashSize", _int(m.group(1)))

    out += ["", "end Cjet.Generated.Ws", ""]
    return "\n".join(out)


if __name__ == "__main__":
    import sys
    print(lean(sys.argv[1] if len(sys.argv) > 1 else "/repo"))
