"""C07: src/alloc.c (+ cmake default, config template) -> lean/Cjet/Generated/Alloc.lean.

Regenerated on every run.  Extracted:
  * capKByte   — the default of CONFIG_MAX_HEAPSIZE_IN_KBYTE (cmake/defaults.cmake), after checking
                 that src/cjet_config.h.in still binds the constant to that cmake variable as a
                 `size_t`;
  * capFactor  — the factor of the cap test `… > CONFIG_MAX_HEAPSIZE_IN_KBYTE * 1024` (must occur in
                 cjet_malloc and in cjet_calloc, with `allocated_memory + alloc_size` on the left);
  * headerSize — the size of what is added to a request: both functions must compute
                 `alloc_size = <request> + sizeof(size_t)`, and `struct memblock` must start with a
                 `size_t size` (8 bytes on the LP64 platform the harness runs on; the harness prints
                 sizeof(size_t) and the check compares it with this value);
  * sizeBits   — width of size_t (64: the arithmetic of the model is modulo 2^sizeBits).
A pattern that no longer matches raises: the tie is broken and `check` reports it."""
import os
import re

NAME = "Alloc"

SIZEOF_SIZE_T = 8      # LP64; compared with the harness's `info` line on every run


def _strip(txt):
    return re.sub(r"/\*.*?\*/", "", txt, flags=re.S)


def _func(txt, name):
    m = re.search(r"\b%s\s*\([^)]*\)\s*\{" % re.escape(name), txt)
    if not m:
        raise ValueError("alloc.c: function %s not found" % name)
    i = m.end() - 1
    depth, j = 0, i
    while j < len(txt):
        if txt[j] == "{":
            depth += 1
        elif txt[j] == "}":
            depth -= 1
            if depth == 0:
                return txt[i:j + 1]
        j += 1
    raise ValueError("alloc.c: unbalanced braces in " + name)


def lean(repo):
    txt = _strip(open(os.path.join(repo, "src", "alloc.c")).read())
    factors = set()
    for fn, req in (("cjet_malloc", r"size"), ("cjet_calloc", r"nmemb\s*\*\s*size")):
        body = _func(txt, fn)
        if not re.search(r"size_t\s+alloc_size\s*=\s*%s\s*\+\s*sizeof\s*\(\s*size_t\s*\)\s*;" % req, body):
            raise ValueError("alloc.c: %s no longer computes alloc_size = %s + sizeof(size_t)" % (fn, req))
        m = re.search(r"allocated_memory\s*\+\s*alloc_size\s*>\s*CONFIG_MAX_HEAPSIZE_IN_KBYTE\s*\*\s*(\d+)", body)
        if not m:
            raise ValueError("alloc.c: cap test of %s not found" % fn)
        factors.add(int(m.group(1)))
        if not re.search(r"ptr->size\s*=\s*alloc_size\s*;\s*allocated_memory\s*\+=\s*alloc_size\s*;", body):
            raise ValueError("alloc.c: %s no longer records and accounts alloc_size" % fn)
    if len(factors) != 1:
        raise ValueError("alloc.c: cjet_malloc and cjet_calloc use different cap factors %r" % (factors,))
    body = _func(txt, "cjet_free")
    if not re.search(r"allocated_memory\s*-=\s*mem->size\s*;", body):
        raise ValueError("alloc.c: cjet_free no longer subtracts the recorded size")
    if not re.search(r"struct\s+memblock\s*\{\s*size_t\s+size\s*;", txt):
        raise ValueError("alloc.c: struct memblock no longer starts with size_t size")
    if not re.search(r"static\s+size_t\s+allocated_memory\s*=\s*0\s*;", txt):
        raise ValueError("alloc.c: allocated_memory is no longer a size_t starting at 0")
    tmpl = open(os.path.join(repo, "src", "cjet_config.h.in")).read()
    if not re.search(r"size_t\s+CONFIG_MAX_HEAPSIZE_IN_KBYTE\s*=\s*\$\{CONFIG_MAX_HEAPSIZE_IN_KBYTE\}", tmpl):
        raise ValueError("cjet_config.h.in no longer binds CONFIG_MAX_HEAPSIZE_IN_KBYTE as a size_t")
    cm = open(os.path.join(repo, "cmake", "defaults.cmake")).read()
    m = re.search(r"ELSE\(\)\s*SET\(CONFIG_MAX_HEAPSIZE_IN_KBYTE\s+\"?(\d+)\"?\)", cm)
    if not m:
        raise ValueError("cmake/defaults.cmake: no default for CONFIG_MAX_HEAPSIZE_IN_KBYTE")
    out = ["", "namespace Cjet.Generated.Alloc", "",
           "def capKByte : Nat := %d" % int(m.group(1)),
           "def capFactor : Nat := %d" % factors.pop(),
           "def headerSize : Nat := %d" % SIZEOF_SIZE_T,
           "def sizeBits : Nat := %d" % (8 * SIZEOF_SIZE_T),
           "", "end Cjet.Generated.Alloc", ""]
    return "\n".join(out)


if __name__ == "__main__":
    import sys
    print(lean(sys.argv[1] if len(sys.argv) > 1 else "/repo"))
