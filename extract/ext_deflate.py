"""C19: constants of src/compression.c and of the permessage-deflate negotiation in src/websocket.c,
regenerated on every run into lean/Cjet/Generated/Deflate.lean.

  compression.c  reassembly buffer: `length * 3 + 4`, `memory - 4`, `avail_in <= length + 4`, `* 2` growth,
                 whether the growth is an `if` (once per fragment, F23) or a `while` (until it fits);
                 whether the frame functions refuse a final fragment without a buffer (F36);
                 inflate output `20 * length` and its doubling; deflate output `length * 2`;
                 the four tail bytes written behind the message and the four compared after deflate.
  websocket.c    `response_max_length = 128 + 1`, `parameter[5]`, the extension name, the four parameter
                 names, the single-digit/two-digit window-bits bounds of the offer parser, the per-level
                 defaults of websocket_init().
The theorems of Cjet.Props.C19 are stated over these names; a pattern that no longer matches raises (broken tie)."""
import os
import re

NAME = "Deflate"


def _one(pat, txt, what, flags=re.S):
    m = re.search(pat, txt, flags)
    if not m:
        raise ValueError("ext_deflate: cannot extract %s (pattern %r)" % (what, pat))
    return m


def _func(txt, name):
    """Body of a C function (from its header to the first line that is a lone closing brace)."""
    m = re.search(r"^[^\n;{}()]*\b%s\s*\((?:[^;{}]*?)\)\s*\{\n(.*?)\n\}" % re.escape(name), txt, re.S | re.M)
    if not m:
        raise ValueError("ext_deflate: function %s not found" % name)
    return m.group(1)


def _bytes(s):
    return "[" + ", ".join(str(b) for b in s.encode("latin-1")) + "]"


def lean(repo):
    comp = open(os.path.join(repo, "src", "compression.c")).read()
    ws = open(os.path.join(repo, "src", "websocket.c")).read()

    # ---------------------------------------------------------------- reassemble()
    rs = _func(comp, "reassemble")
    m = _one(r"\b(\w+)\s*=\s*length\s*\*\s*(\d+)\s*\+\s*(\d+)\s*;", rs, "initial reassembly size")
    memvar, factor, header = m.group(1), int(m.group(2)), int(m.group(3))
    m = _one(r"strm->avail_in\s*=\s*%s\s*-\s*(\d+)\s*;" % memvar, rs, "initial avail_in")
    if int(m.group(1)) != header:
        raise ValueError("ext_deflate: avail_in = memory - %s does not match the + %d header" % (m.group(1), header))
    m = _one(r"\b(if|while)\s*\(\s*strm->avail_in\s*<=\s*length\s*\+\s*(\d+)\s*\)\s*\{\s*(?:unsigned\s+int|uint32_t|size_t)\s+(\w+)\s*=\s*"
             r"read_int_from_array\(strm->next_in\)\s*\*\s*(\d+)\s*;", rs, "growth step")
    grow_kw, slack, nsvar, growf = m.group(1), int(m.group(2)), m.group(3), int(m.group(4))
    _one(r"strm->avail_in\s*\+=\s*%s\s*/\s*%d\s*;" % (nsvar, growf), rs, "avail_in += next_size / 2")
    m = _one(r"\b(\w+)\s*=\s*read_int_from_array\(strm->next_in\)\s*-\s*strm->avail_in\s*;", rs, "write offset")
    _one(r"memcpy\(strm->next_in\s*\+\s*%s,\s*msg,\s*length\)\s*;\s*strm->avail_in\s*-=\s*length\s*;" % m.group(1), rs,
         "memcpy / avail_in -= length")
    _one(r"if\s*\(\s*length\s*!=\s*0\s*\)\s*\{", rs, "empty fragments are skipped")
    # the two frame functions: is a final fragment without a buffer refused?
    guards = []
    for fn in ("text_frame_received_comp", "binary_frame_received_comp"):
        body = _func(comp, fn)
        m = _one(r"\b(\w+)\s*=\s*read_int_from_array\(strm->next_in\)\s*-\s*strm->avail_in\s*-\s*%d\s*;" % header, body,
                 fn + ": sumLen")
        _one(r"memmove\(strm->next_in,\s*strm->next_in\s*\+\s*%d,\s*%s\)" % (header, m.group(1)), body, fn + ": memmove")
        pre = body[:m.start()]
        guards.append(bool(re.search(r"if\s*\(\s*strm->avail_in\s*==\s*0\s*\)\s*\{?[^}]*return\s+WS_ERROR", pre, re.S)))
    if guards[0] != guards[1]:
        raise ValueError("ext_deflate: text and binary frame functions differ in the no-buffer guard")

    # ---------------------------------------------------------------- private_decompress()
    pd = _func(comp, "private_decompress")
    tail = []
    for i in range(4):
        idx = r"length" if i == 0 else r"length\s*\+\s*%d" % i
        tail.append(int(_one(r"in\[%s\]\s*=\s*(0x[0-9a-fA-F]+|\d+)\s*;" % idx, pd, "tail byte %d" % i).group(1), 0))
    _one(r"strm->avail_in\s*=\s*length\s*\+\s*4\s*;", pd, "avail_in = length + 4")
    m = _one(r"\b(\w+)\s*=\s*(\d+)\s*\*\s*length\s*;", pd, "inflate output factor")
    so, outf = m.group(1), int(m.group(2))
    _one(r"strm->avail_out\s*\+=\s*%s\s*;\s*%s\s*\*=\s*2\s*;" % (so, so), pd, "output doubling")
    _one(r"strm->next_out\s*=\s*\w+\s*\+\s*%s\s*/\s*2\s*;" % so, pd, "next_out after doubling")
    _one(r"\}\s*while\s*\(\s*strm->avail_out\s*==\s*0\s*\)\s*;", pd, "loop condition")
    _one(r"\*\w+\s*=\s*%s\s*-\s*strm->avail_out\s*;" % so, pd, "have")

    # ---------------------------------------------------------------- websocket_compress()
    wc = _func(comp, "websocket_compress")
    compf = int(_one(r"strm->avail_out\s*=\s*length\s*\*\s*(\d+)\s*;", wc, "deflate output factor").group(1))
    hv = _one(r"\b(\w+)\s*=\s*length\s*\*\s*%d\s*-\s*strm->avail_out\s*;" % compf, wc, "have").group(1)
    chk = []
    for i in range(4, 0, -1):
        chk.append(int(_one(r"dest\[%s\s*-\s*%d\]\s*!=\s*(0x[0-9a-fA-F]+|\d+)" % (hv, i), wc, "tail check %d" % i).group(1), 0))
    if chk != tail:
        raise ValueError("ext_deflate: tail appended %r differs from tail checked %r" % (tail, chk))
    strip = int(_one(r"\b%s\s*-=\s*(\d+)\s*;" % hv, wc, "tail strip length").group(1))
    send = _func(ws, "send_frame")
    sendf = int(_one(r"\w+\s*=\s*(?:cjet_)?malloc\(\s*length\s*\*\s*(\d+)\s*\)\s*;", send, "send_frame buffer").group(1))

    # ---------------------------------------------------------------- negotiation
    fre = _func(ws, "fill_requested_extension")
    m = _one(r"size_t response_max_length\s*=\s*(\d+)\s*\+\s*(\d+)\s*;", fre, "response_max_length")
    resp_max = int(m.group(1)) + int(m.group(2))
    maxpar = int(_one(r"const char \*parameter\[(\d+)\]\s*;", fre, "parameter[]").group(1))
    _one(r"if\s*\(\s*parameter_count\s*==\s*%d\s*\)\s*return\s*;" % maxpar, fre, "parameter count limit")
    m = _one(r"size_t parameter_length\[%d\]\s*=\s*\{([0-9,\s]*)\}\s*;" % maxpar, fre, "parameter_length init")
    plen_init = [int(x) for x in m.group(1).replace(" ", "").split(",")]
    names = re.findall(r"parameter_name\s*=\s*\"([a-z_]+)\"\s*;", fre)
    if names != ["client_max_window_bits", "server_max_window_bits", "client_no_context_takeover",
                 "server_no_context_takeover"]:
        raise ValueError("ext_deflate: parameter names/order changed: %r" % (names,))
    ext_name = _one(r"extension_compression\.name\s*=\s*\"([^\"]+)\"\s*;", ws, "extension name").group(1)
    # window bits bounds of the offer parser
    cm = fre.split('parameter_name = "server_max_window_bits"')[0]
    sm = fre.split('parameter_name = "server_max_window_bits"')[1].split('parameter_name = "client_no_context_takeover"')[0]
    m = _one(r"if\s*\(\(tmp\s*<\s*(\d+)\)\s*\|\|\s*\(tmp\s*>\s*(\d+)\)\)\s*return\s*;", cm, "client single digit bounds")
    c1lo, c1hi = int(m.group(1)), int(m.group(2))
    c2hi = int(_one(r"if\s*\(tmp\s*>\s*(\d+)\)\s*return\s*;", cm, "client two digit bound").group(1))
    m = _one(r"if\s*\(tmp\s*!=\s*(\d+)\)\s*return\s*;", sm, "server single digit")
    s1 = int(m.group(1))
    s2hi = int(_one(r"if\s*\(tmp\s*>\s*(\d+)\)\s*return\s*;", sm, "server two digit bound").group(1))
    for part, what in ((cm, "client"), (sm, "server")):
        _one(r"if\s*\(\(name_length\s*\+\s*3\)\s*<\s*parameter_length\[i\]\)\s*return\s*;", part, what + " value length limit")
        _one(r"10\s*\+\s*tmp", part, what + " two digit value")
    dflt = int(_one(r"if\s*\(!client_offered_c_max_window\)\s*s->extension_compression\.client_max_window_bits\s*=\s*(\d+)\s*;",
                    fre, "default client bits").group(1))
    sthr = int(_one(r"if\s*\(!client_offered_s_max_window\s*&&\s*\(s->extension_compression\.server_max_window_bits\s*<\s*(\d+)\)\)",
                    fre, "server bits threshold").group(1))
    # per level defaults of websocket_init
    wi = _func(ws, "websocket_init")
    levels = {}
    for m in re.finditer(r"((?:case\s+\d+\s*:\s*)+)((?:\s*ws->extension_compression\.\w+\s*=\s*\w+\s*;)+)\s*break\s*;", wi):
        vals = dict(re.findall(r"extension_compression\.(\w+)\s*=\s*(\w+)\s*;", m.group(2)))
        for lv in re.findall(r"case\s+(\d+)", m.group(1)):
            levels[int(lv)] = vals
    if sorted(levels) != [0, 1, 2, 3]:
        raise ValueError("ext_deflate: websocket_init levels changed: %r" % sorted(levels))
    ac = _func(comp, "alloc_compression")
    m = _one(r"if\s*\(ws->extension_compression\.server_max_window_bits\s*==\s*(\d+)\)\s*\{.*?server_max_window_bits\s*=\s*(\d+)\s*;",
             ac, "alloc_compression window 8 -> 9")
    fix_from, fix_to = int(m.group(1)), int(m.group(2))

    def b(v):
        return "true" if v == "true" else "false"

    o = ["import Cjet.Basic", "namespace Cjet.Generated.Deflate", "",
         "/-- reassemble(): first allocation is `length * reasmFactor + reasmHeader`. -/",
         "def reasmFactor : Nat := %d" % factor,
         "def reasmHeader : Nat := %d" % header,
         "/-- the buffer grows when `avail_in <= length + reasmSlack`, to `reasmGrow` times its size. -/",
         "def reasmSlack : Nat := %d" % slack,
         "def reasmGrow : Nat := %d" % growf,
         "/-- `true` when the growth is a `while` loop (grow until the fragment fits), `false` for the single `if` (F23). -/",
         "def reasmGrowLoops : Bool := %s" % ("true" if grow_kw == "while" else "false"),
         "/-- `true` when the frame functions refuse a final fragment that arrives without a reassembly buffer (F36). -/",
         "def reasmNoBufferGuard : Bool := %s" % ("true" if guards[0] else "false"),
         "/-- private_decompress(): the four bytes appended behind the message; `size_out = inflateOutFactor * length`. -/",
         "def tail : Cjet.Bytes := %s" % ("[" + ", ".join(str(t) for t in tail) + "]"),
         "def inflateOutFactor : Nat := %d" % outf,
         "/-- websocket_compress(): `avail_out = length * deflateOutFactor`; `tailStrip` bytes removed; send_frame allocates `length * sendBufFactor`. -/",
         "def deflateOutFactor : Nat := %d" % compf,
         "def tailStrip : Nat := %d" % strip,
         "def sendBufFactor : Nat := %d" % sendf,
         "/-- fill_requested_extension(): size of the response buffer, number of parameter slots, initial lengths. -/",
         "def responseMax : Nat := %d" % resp_max,
         "def maxParams : Nat := %d" % maxpar,
         "def paramLenInit : List Nat := %s" % ("[" + ", ".join(str(x) for x in plen_init) + "]"),
         "def extName : Cjet.Bytes := %s" % _bytes(ext_name),
         "def nameCmw : Cjet.Bytes := %s" % _bytes(names[0]),
         "def nameSmw : Cjet.Bytes := %s" % _bytes(names[1]),
         "def nameCnc : Cjet.Bytes := %s" % _bytes(names[2]),
         "def nameSnc : Cjet.Bytes := %s" % _bytes(names[3]),
         "/-- offer parser: accepted single digits / second digit of a two-digit value (`1x`). -/",
         "def cmwDigitLo : Nat := %d" % c1lo,
         "def cmwDigitHi : Nat := %d" % c1hi,
         "def cmwSecondHi : Nat := %d" % c2hi,
         "def smwDigit : Nat := %d" % s1,
         "def smwSecondHi : Nat := %d" % s2hi,
         "def cmwDefault : Nat := %d" % dflt,
         "def smwAnnounceBelow : Nat := %d" % sthr,
         "/-- alloc_compression(): a server window of `smwUnsupported` bits is replaced by `smwReplacement`. -/",
         "def smwUnsupported : Nat := %d" % fix_from,
         "def smwReplacement : Nat := %d" % fix_to,
         "/-- websocket_init(): (client_max_window_bits, client_no_context_takeover, server_max_window_bits, server_no_context_takeover) per level. -/",
         "def levelDefaults : List (Nat × Bool × Nat × Bool) := ["]
    o.append(",\n".join("  (%s, %s, %s, %s)" % (levels[l]["client_max_window_bits"], b(levels[l]["client_no_context_takeover"]),
                                               levels[l]["server_max_window_bits"], b(levels[l]["server_no_context_takeover"]))
                        for l in range(4)))
    o += ["]", "", "end Cjet.Generated.Deflate", ""]
    return "\n".join(o)
