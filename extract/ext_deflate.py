"""C19: constants of src/compression.c and of the permessage-deflate negotiation in src/websocket.c,
regenerated on every run into lean/Cjet/Generated/Deflate.lean.

  compression.c  reassembly buffer: `length * 3 + 4`, `memory - 4`, `avail_in <= length + 4`, `* 2` growth,
                 whether the growth is an `if` (once per fragment, F23) or a `while` (until it fits);
                 whether the frame functions refuse a final fragment without a buffer (F36);
                 inflate output `20 * length` and its doubling; the four tail bytes written behind the message and
                 the four compared after deflate; websocket_compress_bounded(): output size from `dest_size`, whether
                 an incomplete flush / a short output / a wrong tail are answered -1 (`compressStrict`, F37);
                 websocket_compress(): the `length * 2` wrapper; websocket_compress_bound(): deflateBound + 6 + 1.
  websocket.c    send_frame(): buffer of websocket_compress_bound() bytes, malloc and result checked (`sendChecked`, F37);
                 the offer scan bounded by `length` (F38; raises when the bounds are gone);
                 `response_max_length = 128 + 1`, `parameter[5]`, the extension name, the four parameter
                 names, the single-digit/two-digit window-bits bounds of the offer parser, the per-level
                 defaults of websocket_init();
                 ws_handle_frame(): the opcodes, PER_MESSAGE_COMPRESSED_BIT, WS_SMALL_FRAME_SIZE, the close codes it
                 answers with, and where `is_frag_compressed` is cleared: behind the last fragment only, or (also) for
                 frames picked by their opcode (`fragFlagClearedByOpcode`: control frames between the fragments of a
                 compressed message would then switch the decompression off).
The theorems of Cjet.Props.C19 are stated over these names; a pattern that no longer matches raises (broken tie)."""
import os
import re

NAME = "Deflate"


def _one(pat, txt, what, flags=re.S):
    m = re.search(pat, txt, flags)
    if not m:
        raise ValueError("ext_deflate: cannot extract %s (pattern %r)" % (what, pat))
    return m


def _func(txt, name):
    """Body of a C function (from its header to the first line that is a lone closing brace)."""
    m = re.search(r"^[^\n;{}()/]*\b%s\s*\((?:[^;{}/]*?)\)\s*\{\n(.*?)\n\}" % re.escape(name), txt, re.S | re.M)
    if not m:
        raise ValueError("ext_deflate: function %s not found" % name)
    return m.group(1)


def _bytes(s):
    return "[" + ", ".join(str(b) for b in s.encode("latin-1")) + "]"


def lean(repo):
    comp = open(os.path.join(repo, "src", "compression.c")).read()
    ws = open(os.path.join(repo, "src", "websocket.c")).read()

    # ---------------------------------------------------------------- reassemble()
    rs = _func(comp, "reassemble")
    m = _one(r"\b(\w+)\s*=\s*length\s*\*\s*(\d+)\s*\+\s*(\d+)\s*;", rs, "initial reassembly size")
    memvar, factor, header = m.group(1), int(m.group(2)), int(m.group(3))
    m = _one(r"strm->avail_in\s*=\s*%s\s*-\s*(\d+)\s*;" % memvar, rs, "initial avail_in")
    if int(m.group(1)) != header:
        raise ValueError("ext_deflate: avail_in = memory - %s does not match the + %d header" % (m.group(1), header))
    m = _one(r"\b(if|while)\s*\(\s*strm->avail_in\s*<=\s*length\s*\+\s*(\d+)\s*\)\s*\{\s*(?:unsigned\s+int|uint32_t|size_t)\s+(\w+)\s*=\s*"
             r"read_int_from_array\(strm->next_in\)\s*\*\s*(\d+)\s*;", rs, "growth step")
    grow_kw, slack, nsvar, growf = m.group(1), int(m.group(2)), m.group(3), int(m.group(4))
    _one(r"strm->avail_in\s*\+=\s*%s\s*/\s*%d\s*;" % (nsvar, growf), rs, "avail_in += next_size / 2")
    m = _one(r"\b(\w+)\s*=\s*read_int_from_array\(strm->next_in\)\s*-\s*strm->avail_in\s*;", rs, "write offset")
    _one(r"memcpy\(strm->next_in\s*\+\s*%s,\s*msg,\s*length\)\s*;\s*strm->avail_in\s*-=\s*length\s*;" % m.group(1), rs,
         "memcpy / avail_in -= length")
    _one(r"if\s*\(\s*length\s*!=\s*0\s*\)\s*\{", rs, "empty fragments are skipped")
    # the two frame functions: is a final fragment without a buffer refused?
    guards = []
    for fn in ("text_frame_received_comp", "binary_frame_received_comp"):
        body = _func(comp, fn)
        m = _one(r"\b(\w+)\s*=\s*read_int_from_array\(strm->next_in\)\s*-\s*strm->avail_in\s*-\s*%d\s*;" % header, body,
                 fn + ": sumLen")
        _one(r"memmove\(strm->next_in,\s*strm->next_in\s*\+\s*%d,\s*%s\)" % (header, m.group(1)), body, fn + ": memmove")
        pre = body[:m.start()]
        guards.append(bool(re.search(r"if\s*\(\s*strm->avail_in\s*==\s*0\s*\)\s*\{?[^}]*return\s+WS_ERROR", pre, re.S)))
    if guards[0] != guards[1]:
        raise ValueError("ext_deflate: text and binary frame functions differ in the no-buffer guard")

    # ---------------------------------------------------------------- private_decompress()
    pd = _func(comp, "private_decompress")
    tail = []
    for i in range(4):
        idx = r"length" if i == 0 else r"length\s*\+\s*%d" % i
        tail.append(int(_one(r"in\[%s\]\s*=\s*(0x[0-9a-fA-F]+|\d+)\s*;" % idx, pd, "tail byte %d" % i).group(1), 0))
    _one(r"strm->avail_in\s*=\s*length\s*\+\s*4\s*;", pd, "avail_in = length + 4")
    m = _one(r"\b(\w+)\s*=\s*(\d+)\s*\*\s*length\s*;", pd, "inflate output factor")
    so, outf = m.group(1), int(m.group(2))
    _one(r"strm->avail_out\s*\+=\s*%s\s*;\s*%s\s*\*=\s*2\s*;" % (so, so), pd, "output doubling")
    _one(r"strm->next_out\s*=\s*\w+\s*\+\s*%s\s*/\s*2\s*;" % so, pd, "next_out after doubling")
    _one(r"\}\s*while\s*\(\s*strm->avail_out\s*==\s*0\s*\)\s*;", pd, "loop condition")
    _one(r"\*\w+\s*=\s*%s\s*-\s*strm->avail_out\s*;" % so, pd, "have")

    # ---------------------------------------------------------------- websocket_compress_bounded() / _bound() / send_frame()
    # F37: before the repair websocket_compress() itself offered zlib `length * 2` bytes and checked nothing.
    try:
        wc = _func(comp, "websocket_compress_bounded")
    except ValueError:
        raise ValueError("ext_deflate: websocket_compress_bounded() is gone from compression.c (repair of F37 removed?)")
    osz = _one(r"strm->avail_out\s*=\s*(\w+)\s*;", wc, "deflate output size").group(1)
    if osz != "dest_size":
        _one(r"\b%s\s*=[^;]*\bdest_size\b[^;]*;" % osz, wc, "output size derived from dest_size")
    hv = _one(r"\b(\w+)\s*=\s*%s\s*-\s*strm->avail_out\s*;" % osz, wc, "have").group(1)
    _one(r"if\s*\(\s*ret\s*<\s*Z_OK\s*\)\s*\{.*?return\s+-1\s*;", wc, "deflate error -> -1")
    chk = []
    for i in range(4, 0, -1):
        chk.append(int(_one(r"dest\[%s\s*-\s*%d\]\s*!=\s*(0x[0-9a-fA-F]+|\d+)" % (hv, i), wc, "tail check %d" % i).group(1), 0))
    if chk != tail:
        raise ValueError("ext_deflate: tail appended %r differs from tail checked %r" % (tail, chk))
    strip = int(_one(r"\b%s\s*-=\s*(\d+)\s*;" % hv, wc, "tail strip length").group(1))
    first_read = re.search(r"dest\[%s\s*-" % hv, wc).start()
    pre = wc[:first_read]
    # strict = an incomplete flush (avail_out == 0), fewer than `strip` bytes and a wrong tail are all answered -1,
    # and the first two before dest[have - k] is read
    full_chk = re.search(r"if\s*\([^{;]*strm->avail_out\s*==\s*0[^{;]*\)\s*\{[^}]*return\s+-1\s*;", pre, re.S)
    short_chk = re.search(r"if\s*\([^{;]*\b%s\s*<\s*%d\b[^{;]*\)\s*\{[^}]*return\s+-1\s*;" % (hv, strip), pre, re.S)
    tail_chk = re.search(r"if\s*\([^{;]*dest\[%s\s*-\s*1\][^{;]*\)\s*\{[^}]*return\s+-1\s*;" % hv, wc, re.S)
    lvl0_chk = re.search(r"compression_level\s*==\s*0\s*\)\s*\{\s*if\s*\(\s*dest_size\s*<\s*length\s*\)\s*\{[^}]*return\s+-1\s*;[^}]*\}\s*memcpy\(dest,\s*src,\s*length\)",
                         wc, re.S)
    strict = bool(full_chk and short_chk and tail_chk and lvl0_chk)
    # the wrapper keeps the `length * 2` contract of the tests
    ww = _func(comp, "websocket_compress")
    compf = int(_one(r"return\s+websocket_compress_bounded\(\s*s\s*,\s*dest\s*,\s*length\s*\*\s*(\d+)\s*,\s*src\s*,\s*length\s*\)\s*;", ww,
                     "websocket_compress wrapper").group(1))
    wb = _func(comp, "websocket_compress_bound")
    _one(r"compression_level\s*==\s*0\s*\)\s*\{?\s*return\s+length\s*;", wb, "bound at level 0")
    m = _one(r"return\s+deflateBound\(\s*\*\(s->extension_compression\.strm_comp\)\s*,\s*length\s*\)\s*\+\s*(\w+)\s*\+\s*(\w+)\s*;", wb,
             "websocket_compress_bound = deflateBound + marker + spare")

    def _num(tok):
        if tok.isdigit():
            return int(tok)
        return int(_one(r"#define\s+%s\s+(\d+)" % re.escape(tok), comp, "value of " + tok).group(1))
    marker, spare = _num(m.group(1)), _num(m.group(2))
    send = _func(ws, "send_frame")
    sm_ = re.search(r"(\w+)\s*=\s*websocket_compress_bound\(\s*s\s*,\s*length\s*\)\s*;\s*(\w+)\s*=\s*(?:cjet_)?malloc\(\s*\1\s*\)\s*;", send)
    send_ok = False
    if sm_:
        szv, bufv = sm_.group(1), sm_.group(2)
        null_chk = re.search(r"if\s*\([^{;]*\b%s\s*==\s*NULL[^{;]*\)\s*\{[^}]*return\s+-1\s*;" % bufv, send, re.S)
        call = re.search(r"(\w+)\s*=\s*websocket_compress_bounded\(\s*s\s*,\s*%s\s*,\s*%s\s*,\s*payload\s*,\s*length\s*\)\s*;" % (bufv, szv), send)
        neg = call and re.search(r"if\s*\([^{;]*\b%s\s*<\s*0[^{;]*\)\s*\{[^}]*free\(%s\)\s*;[^}]*return\s+-1\s*;" % (call.group(1), bufv),
                                 send, re.S)
        send_ok = bool(null_chk and call and neg)
    elif not re.search(r"websocket_compress(?:_bounded)?\(", send):
        raise ValueError("ext_deflate: send_frame no longer calls the compressor")

    # ---------------------------------------------------------------- bounds of the offer scan (F38)
    fre0 = _func(ws, "fill_requested_extension")
    _one(r"while\s*\(\s*\(\s*i\s*<\s*length\s*\)\s*&&\s*isspace\(\*\(start\s*\+\s*i\)\)\s*\)\s*i\+\+\s*;", fre0,
         "blank skipping bounded by length (F38)")
    for part, what in ((fre0.split('parameter_name = "server_max_window_bits"')[0], "client"),
                       (fre0.split('parameter_name = "server_max_window_bits"')[1].split('parameter_name = "client_no_context_takeover"')[0], "server")):
        _one(r"if\s*\(parameter_length\[i\]\s*==\s*name_length\s*\+\s*2\)\s*\{", part, what + " one digit value")
        _one(r"\}\s*else\s+if\s*\(parameter_length\[i\]\s*==\s*name_length\s*\+\s*3\)\s*\{.*?\}\s*else\s*\{\s*return\s*;", part,
             what + " two digit value only for name_length + 3 (F38)")
        if what == "client":
            _one(r"if\s*\(parameter_length\[i\]\s*>\s*name_length\)\s*\{", part, "client value only behind the name")
        else:
            _one(r"if\s*\(parameter_length\[i\]\s*<=\s*name_length\)\s*return\s*;.*?\*value_start\s*!=\s*'='", part,
                 "server value required before it is read (F38)")

    # ---------------------------------------------------------------- ws_handle_frame(): the frame dispatch
    hf = _func(ws, "ws_handle_frame")
    ops = {}
    for nm in ("CONTINUATION", "TEXT", "BINARY", "CLOSE", "PING", "PONG"):
        ops[nm] = int(_one(r"#define\s+WS_%s_FRAME\s+(0x[0-9a-fA-F]+|\d+)" % nm, ws, "opcode " + nm).group(1), 0)
    small = int(_one(r"\bWS_SMALL_FRAME_SIZE\s*=\s*(\d+)\s*;", ws, "WS_SMALL_FRAME_SIZE").group(1))
    rsv_comp = int(_one(r"\bPER_MESSAGE_COMPRESSED_BIT\s*=\s*(0x[0-9a-fA-F]+|\d+)\s*;", ws, "PER_MESSAGE_COMPRESSED_BIT").group(1), 0)
    wsh = open(os.path.join(repo, "src", "websocket.h")).read()
    codes = {}
    for nm in ("NORMAL", "PROTOCOL_ERROR", "UNSUPPORTED_DATA", "INTERNAL_ERROR"):
        codes[nm] = int(_one(r"\bWS_CLOSE_%s\s*=\s*(\d+)" % nm, wsh, "WS_CLOSE_" + nm).group(1))
    _one(r"if\s*\(\s*compression_bit_set\s*\)\s*s->ws_flags\.is_frag_compressed\s*=\s*1\s*;", hf,
         "is_frag_compressed set by the first fragment")
    _one(r"binary_frame_received_comp\(\s*s->ws_flags\.is_frag_compressed\s*,", hf, "binary frames: flag handed to the decompressor")
    _one(r"text_frame_received_comp\(\s*s->ws_flags\.is_frag_compressed\s*,", hf, "text frames: flag handed to the decompressor")
    clears_last, clears_opcode = 0, 0
    for m in re.finditer(r"ws_flags\.is_frag_compressed\s*=\s*(?:0|false)\s*;", hf):
        depth, k = 0, m.start()
        while k > 0:              # the `{` that encloses the statement
            k -= 1
            if hf[k] == "}":
                depth += 1
            elif hf[k] == "{":
                if depth == 0:
                    break
                depth -= 1
        # the condition of the `if (...) {` that opens this block: the parenthesis that closes right in front of the brace
        e = k
        while e > 0 and hf[e - 1].isspace():
            e -= 1
        cond = ""
        if e > 0 and hf[e - 1] == ")":
            b, par = e - 1, 0
            while b >= 0:
                if hf[b] == ")":
                    par += 1
                elif hf[b] == "(":
                    par -= 1
                    if par == 0:
                        break
                b -= 1
            if b > 0 and re.search(r"\bif\s*$", hf[:b]):
                cond = hf[b + 1:e - 1]
        if re.fullmatch(r"\s*last_frame\s*", cond):
            clears_last += 1
        elif "opcode" in cond:
            clears_opcode += 1
        else:
            raise ValueError("ext_deflate: is_frag_compressed is cleared under an unknown condition %r" % cond[-80:])
    if clears_last != 1:
        raise ValueError("ext_deflate: is_frag_compressed is not cleared (exactly once) behind the last fragment")

    # ---------------------------------------------------------------- negotiation
    fre = _func(ws, "fill_requested_extension")
    m = _one(r"size_t response_max_length\s*=\s*(\d+)\s*\+\s*(\d+)\s*;", fre, "response_max_length")
    resp_max = int(m.group(1)) + int(m.group(2))
    maxpar = int(_one(r"const char \*parameter\[(\d+)\]\s*;", fre, "parameter[]").group(1))
    _one(r"if\s*\(\s*parameter_count\s*==\s*%d\s*\)\s*return\s*;" % maxpar, fre, "parameter count limit")
    m = _one(r"size_t parameter_length\[%d\]\s*=\s*\{([0-9,\s]*)\}\s*;" % maxpar, fre, "parameter_length init")
    plen_init = [int(x) for x in m.group(1).replace(" ", "").split(",")]
    names = re.findall(r"parameter_name\s*=\s*\"([a-z_]+)\"\s*;", fre)
    if names != ["client_max_window_bits", "server_max_window_bits", "client_no_context_takeover",
                 "server_no_context_takeover"]:
        raise ValueError("ext_deflate: parameter names/order changed: %r" % (names,))
    ext_name = _one(r"extension_compression\.name\s*=\s*\"([^\"]+)\"\s*;", ws, "extension name").group(1)
    # window bits bounds of the offer parser
    cm = fre.split('parameter_name = "server_max_window_bits"')[0]
    sm = fre.split('parameter_name = "server_max_window_bits"')[1].split('parameter_name = "client_no_context_takeover"')[0]
    m = _one(r"if\s*\(\(tmp\s*<\s*(\d+)\)\s*\|\|\s*\(tmp\s*>\s*(\d+)\)\)\s*return\s*;", cm, "client single digit bounds")
    c1lo, c1hi = int(m.group(1)), int(m.group(2))
    c2hi = int(_one(r"if\s*\(tmp\s*>\s*(\d+)\)\s*return\s*;", cm, "client two digit bound").group(1))
    m = _one(r"if\s*\(tmp\s*!=\s*(\d+)\)\s*return\s*;", sm, "server single digit")
    s1 = int(m.group(1))
    s2hi = int(_one(r"if\s*\(tmp\s*>\s*(\d+)\)\s*return\s*;", sm, "server two digit bound").group(1))
    for part, what in ((cm, "client"), (sm, "server")):
        _one(r"if\s*\(\(name_length\s*\+\s*3\)\s*<\s*parameter_length\[i\]\)\s*return\s*;", part, what + " value length limit")
        _one(r"10\s*\+\s*tmp", part, what + " two digit value")
    dflt = int(_one(r"if\s*\(!client_offered_c_max_window\)\s*s->extension_compression\.client_max_window_bits\s*=\s*(\d+)\s*;",
                    fre, "default client bits").group(1))
    sthr = int(_one(r"if\s*\(!client_offered_s_max_window\s*&&\s*\(s->extension_compression\.server_max_window_bits\s*<\s*(\d+)\)\)",
                    fre, "server bits threshold").group(1))
    # per level defaults of websocket_init
    wi = _func(ws, "websocket_init")
    levels = {}
    for m in re.finditer(r"((?:case\s+\d+\s*:\s*)+)((?:\s*ws->extension_compression\.\w+\s*=\s*\w+\s*;)+)\s*break\s*;", wi):
        vals = dict(re.findall(r"extension_compression\.(\w+)\s*=\s*(\w+)\s*;", m.group(2)))
        for lv in re.findall(r"case\s+(\d+)", m.group(1)):
            levels[int(lv)] = vals
    if sorted(levels) != [0, 1, 2, 3]:
        raise ValueError("ext_deflate: websocket_init levels changed: %r" % sorted(levels))
    ac = _func(comp, "alloc_compression")
    m = _one(r"if\s*\(ws->extension_compression\.server_max_window_bits\s*==\s*(\d+)\)\s*\{.*?server_max_window_bits\s*=\s*(\d+)\s*;",
             ac, "alloc_compression window 8 -> 9")
    fix_from, fix_to = int(m.group(1)), int(m.group(2))

    def b(v):
        return "true" if v == "true" else "false"

    o = ["import Cjet.Basic", "namespace Cjet.Generated.Deflate", "",
         "/-- reassemble(): first allocation is `length * reasmFactor + reasmHeader`. -/",
         "def reasmFactor : Nat := %d" % factor,
         "def reasmHeader : Nat := %d" % header,
         "/-- the buffer grows when `avail_in <= length + reasmSlack`, to `reasmGrow` times its size. -/",
         "def reasmSlack : Nat := %d" % slack,
         "def reasmGrow : Nat := %d" % growf,
         "/-- `true` when the growth is a `while` loop (grow until the fragment fits), `false` for the single `if` (F23). -/",
         "def reasmGrowLoops : Bool := %s" % ("true" if grow_kw == "while" else "false"),
         "/-- `true` when the frame functions refuse a final fragment that arrives without a reassembly buffer (F36). -/",
         "def reasmNoBufferGuard : Bool := %s" % ("true" if guards[0] else "false"),
         "/-- private_decompress(): the four bytes appended behind the message; `size_out = inflateOutFactor * length`. -/",
         "def tail : Cjet.Bytes := %s" % ("[" + ", ".join(str(t) for t in tail) + "]"),
         "def inflateOutFactor : Nat := %d" % outf,
         "/-- websocket_compress(): the wrapper offers `length * deflateOutFactor` bytes; `tailStrip` bytes are removed. -/",
         "def deflateOutFactor : Nat := %d" % compf,
         "def tailStrip : Nat := %d" % strip,
         "/-- websocket_compress_bound(): `deflateBound(length) + flushMarkerMax + flushSpare`. -/",
         "def flushMarkerMax : Nat := %d" % marker,
         "def flushSpare : Nat := %d" % spare,
         "/-- `true` when websocket_compress_bounded() answers -1 for an incomplete flush (`avail_out == 0`), for fewer than",
         "    `tailStrip` bytes (before reading `dest[have - k]`), for a wrong tail and for a too small buffer at level 0 (F37). -/",
         "def compressStrict : Bool := %s" % ("true" if strict else "false"),
         "/-- `true` when send_frame() allocates websocket_compress_bound() bytes, checks malloc and returns -1 for a negative result (F37). -/",
         "def sendChecked : Bool := %s" % ("true" if send_ok else "false"),
         "/-- fill_requested_extension(): size of the response buffer, number of parameter slots, initial lengths. -/",
         "def responseMax : Nat := %d" % resp_max,
         "def maxParams : Nat := %d" % maxpar,
         "def paramLenInit : List Nat := %s" % ("[" + ", ".join(str(x) for x in plen_init) + "]"),
         "def extName : Cjet.Bytes := %s" % _bytes(ext_name),
         "def nameCmw : Cjet.Bytes := %s" % _bytes(names[0]),
         "def nameSmw : Cjet.Bytes := %s" % _bytes(names[1]),
         "def nameCnc : Cjet.Bytes := %s" % _bytes(names[2]),
         "def nameSnc : Cjet.Bytes := %s" % _bytes(names[3]),
         "/-- offer parser: accepted single digits / second digit of a two-digit value (`1x`). -/",
         "def cmwDigitLo : Nat := %d" % c1lo,
         "def cmwDigitHi : Nat := %d" % c1hi,
         "def cmwSecondHi : Nat := %d" % c2hi,
         "def smwDigit : Nat := %d" % s1,
         "def smwSecondHi : Nat := %d" % s2hi,
         "def cmwDefault : Nat := %d" % dflt,
         "def smwAnnounceBelow : Nat := %d" % sthr,
         "/-- alloc_compression(): a server window of `smwUnsupported` bits is replaced by `smwReplacement`. -/",
         "def smwUnsupported : Nat := %d" % fix_from,
         "def smwReplacement : Nat := %d" % fix_to,
         "/-- ws_handle_frame(): opcodes, the RSV value of a compressed message, the control frame limit, close codes. -/",
         "def opContinuation : Nat := %d" % ops["CONTINUATION"],
         "def opText : Nat := %d" % ops["TEXT"],
         "def opBinary : Nat := %d" % ops["BINARY"],
         "def opClose : Nat := %d" % ops["CLOSE"],
         "def opPing : Nat := %d" % ops["PING"],
         "def opPong : Nat := %d" % ops["PONG"],
         "def rsvCompressed : Nat := %d" % rsv_comp,
         "def wsSmallFrame : Nat := %d" % small,
         "def closeNormal : Nat := %d" % codes["NORMAL"],
         "def closeProtocolError : Nat := %d" % codes["PROTOCOL_ERROR"],
         "def closeUnsupportedData : Nat := %d" % codes["UNSUPPORTED_DATA"],
         "def closeInternalError : Nat := %d" % codes["INTERNAL_ERROR"],
         "/-- `true` when ws_handle_frame() clears `is_frag_compressed` for frames picked by their opcode (and not only behind the",
         "    last fragment): a control frame between the fragments of a compressed message then switches the decompression off. -/",
         "def fragFlagClearedByOpcode : Bool := %s" % ("true" if clears_opcode else "false"),
         "/-- websocket_init(): (client_max_window_bits, client_no_context_takeover, server_max_window_bits, server_no_context_takeover) per level. -/",
         "def levelDefaults : List (Nat × Bool × Nat × Bool) := ["]
    o.append(",\n".join("  (%s, %s, %s, %s)" % (levels[l]["client_max_window_bits"], b(levels[l]["client_no_context_takeover"]),
                                               levels[l]["server_max_window_bits"], b(levels[l]["server_no_context_takeover"]))
                        for l in range(4)))
    o += ["]", "", "end Cjet.Generated.Deflate", ""]
    return "\n".join(o)
