"""src/hashtable.h -> lean/Cjet/Generated/Hoptable.lean

Regenerated on every run.  Every number the Lean model of the hopscotch table uses is read from the
C text here (hop-bitmap width, how table size and add range are derived from the order, the three
hash functions' shifts and multipliers, the return codes); the theorems of Props/C17.lean are stated
over these names, so a changed constant re-checks (or breaks) the proofs.  A pattern that no longer
matches raises: the tie is broken and `check` reports it."""
import os
import re

NAME = "Hoptable"


def _one(pat, txt, what, flags=re.S):
    m = re.search(pat, txt, flags)
    if not m:
        raise ValueError("hashtable.h: cannot extract %s (pattern %r)" % (what, pat))
    return m


def _int(s):
    s = s.strip().rstrip("uUlL")
    return int(s, 0)


def _body(txt, header_pat, what):
    """Text of the function whose header matches, up to the matching closing brace."""
    m = _one(header_pat, txt, what)
    i = txt.index("{", m.end() - 1)
    depth, j = 0, i
    while j < len(txt):
        if txt[j] == "{":
            depth += 1
        elif txt[j] == "}":
            depth -= 1
            if depth == 0:
                return txt[i:j + 1]
        j += 1
    raise ValueError("hashtable.h: unbalanced braces in " + what)


def extract(repo):
    txt = open(os.path.join(repo, "src", "hashtable.h")).read()
    # line continuations of the macro bodies are noise for the patterns
    flat = re.sub(r"\\\n", "\n", txt)
    c = {}

    # --- return codes
    for nm in ("HASHTABLE_SUCCESS", "HASHTABLE_FULL", "HASHTABLE_KEYINVAL", "HASHTABLE_INVALIDENTRY"):
        c[nm] = int(_one(r"#define\s+%s\s+(-?\d+)" % nm, flat, nm).group(1))

    # --- sizes
    m = _one(r"add_range_##name\s*=\s*\(\s*1\s*<<\s*\(\s*order\s*-\s*(\d+)\s*\)\s*\)", flat, "add_range")
    c["addRangeOrderSub"] = int(m.group(1))
    m = _one(r"table_size_##name\s*=\s*\(\s*1\s*<<\s*\(\s*order\s*(?:-\s*(\d+)\s*)?\)\s*\)", flat, "table_size")
    c["tableSizeOrderSub"] = int(m.group(1) or 0)
    _one(r"wrap_pos##name\s*\(\s*uint32_t\s+pos\s*\)\s*\{\s*return\s+pos\s*&\s*\(\s*table_size_##name\s*-\s*1\s*\)\s*;", flat,
         "wrap_pos = pos & (table_size - 1)")

    # --- hop bitmap width: every struct declares `uintN_t hop_info`, hop_range is sizeof(hop_info) * 8
    widths = set(re.findall(r"uint(\d+)_t\s+hop_info\s*;", flat))
    if len(widths) != 1:
        raise ValueError("hashtable.h: hop_info widths differ or missing: %r" % (widths,))
    m = _one(r"hop_range_##name\s*\(\s*void\s*\)\s*\{\s*return\s+sizeof\s*\(.*?->hop_info\s*\)\s*\*\s*(\d+)\s*;", flat, "hop_range")
    bits = int(widths.pop())
    if bits != (bits // 8) * int(m.group(1)):
        raise ValueError("hashtable.h: hop_range is not the bit width of hop_info")
    c["hopInfoBits"] = bits
    m = _one(r"check_distance\s*=\s*\(\s*hop_range_##name\s*\(\s*\)\s*-\s*(\d+)\s*\)", flat, "find_closer start distance")
    c["closerStartSub"] = int(m.group(1))

    # --- hs_hash32
    b = _body(flat, r"uint32_t\s+hs_hash32\s*\(\s*uint32_t\s+key\s*,\s*unsigned\s+int\s+order\s*\)\s*\{", "hs_hash32")
    m = _one(r"key\s*=\s*\(\s*key\s*\^\s*(\w+)\s*\)\s*\^\s*\(\s*key\s*>>\s*(\w+)\s*\)\s*;\s*"
             r"key\s*=\s*key\s*\+\s*\(\s*key\s*<<\s*(\w+)\s*\)\s*;\s*"
             r"key\s*=\s*key\s*\^\s*\(\s*key\s*>>\s*(\w+)\s*\)\s*;\s*"
             r"key\s*=\s*key\s*\*\s*(\w+)\s*;\s*"
             r"key\s*=\s*key\s*\^\s*\(\s*key\s*>>\s*(\w+)\s*\)\s*;\s*"
             r"return\s*\(\s*key\s*>>\s*\(\s*(\d+)\s*-\s*\(\s*order\s*\)\s*\)\s*\)\s*;", b, "hs_hash32 body")
    for nm, g in zip(("h32Xor", "h32Shr1", "h32Shl", "h32Shr2", "h32Mul", "h32Shr3", "h32Width"), m.groups()):
        c[nm] = _int(g)

    # --- hs_hash6432shift
    b = _body(flat, r"uint32_t\s+hs_hash6432shift\s*\(\s*uint64_t\s+key\s*,\s*unsigned\s+int\s+order\s*\)\s*\{", "hs_hash6432shift")
    m = _one(r"key\s*=\s*\(\s*~\s*key\s*\)\s*\+\s*\(\s*key\s*<<\s*(\w+)\s*\)\s*;\s*"
             r"key\s*=\s*key\s*\^\s*\(\s*key\s*>>\s*(\w+)\s*\)\s*;\s*"
             r"key\s*=\s*key\s*\*\s*(\w+)\s*;\s*"
             r"key\s*=\s*key\s*\^\s*\(\s*key\s*>>\s*(\w+)\s*\)\s*;\s*"
             r"key\s*=\s*key\s*\+\s*\(\s*key\s*<<\s*(\w+)\s*\)\s*;\s*"
             r"key\s*=\s*key\s*\^\s*\(\s*key\s*>>\s*(\w+)\s*\)\s*;\s*"
             r"return\s*\(\s*\(\s*uint32_t\s*\)\s*key\s*\)\s*>>\s*\(\s*(\d+)\s*-\s*\(\s*order\s*\)\s*\)\s*;", b,
             "hs_hash6432shift body")
    for nm, g in zip(("h64Shl1", "h64Shr1", "h64Mul", "h64Shr2", "h64Shl2", "h64Shr3", "h64Width"), m.groups()):
        c[nm] = _int(g)

    # --- string hash (sdbm step) followed by hs_hash32
    m = _one(r"hash\s*=\s*\(\s*\(\s*c\s*\+\s*\(\s*hash\s*<<\s*(\w+)\s*\)\s*\)\s*\+\s*\(\s*hash\s*<<\s*(\w+)\s*\)\s*\)\s*-\s*hash\s*;",
             flat, "string hash step")
    c["strShl1"], c["strShl2"] = _int(m.group(1)), _int(m.group(2))
    _one(r"hash_func_##name##_string\s*\(\s*const\s+char\s*\*\s*key\s*\)\s*\{\s*uint32_t\s+hash\s*=\s*0\s*;\s*uint32_t\s+c\s*=\s*\*key\s*;",
         flat, "string hash prologue (hash = 0; uint32_t c = *key)")
    _one(r"return\s+hs_hash32\s*\(\s*hash\s*,\s*order\s*\)\s*;", flat, "string hash ends in hs_hash32")
    _one(r"hash_func_##name##_uint32_t\s*\(\s*uint32_t\s+key\s*\)\s*\{\s*return\s+hs_hash32\s*\(\s*key\s*,\s*order\s*\)\s*;", flat,
         "uint32 hash = hs_hash32")
    _one(r"hash_func_##name##_uint64_t\s*\(\s*uint64_t\s+key\s*\)\s*\{\s*return\s+hs_hash6432shift\s*\(\s*key\s*,\s*order\s*\)\s*;", flat,
         "uint64 hash = hs_hash6432shift")
    return c


def lean(repo):
    c = extract(repo)
    L = ["", "/-! Constants of `src/hashtable.h` (hop bitmap width, size derivation, hash functions, return codes). -/",
         "namespace Cjet.Generated.Hoptable", ""]

    def nat(name, v, doc):
        L.append("/-- %s -/" % doc)
        L.append("def %s : Nat := %d" % (name, v))

    def intd(name, v, doc):
        L.append("/-- %s -/" % doc)
        L.append("def %s : Int := %s" % (name, ("(%d)" % v)))

    nat("hopInfoBits", c["hopInfoBits"], "`hop_range_##name()` = sizeof(hop_info) * 8")
    nat("closerStartSub", c["closerStartSub"], "`find_closer_entry` starts at check_distance = hop_range - this")
    nat("addRangeOrderSub", c["addRangeOrderSub"], "`add_range = 1 << (order - this)`")
    nat("tableSizeOrderSub", c["tableSizeOrderSub"], "`table_size = 1 << (order - this)`")
    intd("rcSuccess", c["HASHTABLE_SUCCESS"], "HASHTABLE_SUCCESS")
    intd("rcFull", c["HASHTABLE_FULL"], "HASHTABLE_FULL")
    intd("rcKeyInval", c["HASHTABLE_KEYINVAL"], "HASHTABLE_KEYINVAL")
    intd("rcInvalidEntry", c["HASHTABLE_INVALIDENTRY"], "HASHTABLE_INVALIDENTRY (also the key pattern of an empty slot)")
    for k, doc in (("h32Xor", "hs_hash32: key ^ this"), ("h32Shr1", "hs_hash32: first >>"), ("h32Shl", "hs_hash32: <<"),
                   ("h32Shr2", "hs_hash32: second >>"), ("h32Mul", "hs_hash32: multiplier"), ("h32Shr3", "hs_hash32: third >>"),
                   ("h32Width", "hs_hash32: result is key >> (this - order)"),
                   ("h64Shl1", "hs_hash6432shift: first <<"), ("h64Shr1", "hs_hash6432shift: first >>"),
                   ("h64Mul", "hs_hash6432shift: multiplier"), ("h64Shr2", "hs_hash6432shift: second >>"),
                   ("h64Shl2", "hs_hash6432shift: second <<"), ("h64Shr3", "hs_hash6432shift: third >>"),
                   ("h64Width", "hs_hash6432shift: result is (uint32_t)key >> (this - order)"),
                   ("strShl1", "string hash step: hash << this"), ("strShl2", "string hash step: hash << this")):
        nat(k, c[k], doc)
    L += ["", "end Cjet.Generated.Hoptable", ""]
    return "\n".join(L)


if __name__ == "__main__":
    import sys
    print(lean(sys.argv[1] if len(sys.argv) > 1 else "/repo"))
