"""Accept slice: src/linux/linux_io.c -> lean/Cjet/Generated/Accept.lean (regenerated on every run).

Extracted from the C text:
  * the `switch (errno)` of accept_common: every `case` group with what the group does
    (`return EL_ABORT_LOOP` = fatal, `continue` = retry, `return EL_CONTINUE_LOOP` = stop) and what
    `default:` does.  The shape that is understood is: case labels (fall-through groups), each group
    closed by exactly one of those three statements, one `default:`.  Anything else raises.
  * the byte patterns `is_localhost` compares with (`ipv4_localhost_bytes`,
    `mapped_ipv4_localhost_bytes`, `localhost_bytes`).
Taken from the system headers (`gcc -E -dM` on <errno.h>/<sys/socket.h>, the same headers the daemon is
compiled with): the number of every errno name (aliases such as EWOULDBLOCK -> EAGAIN resolved) and
AF_UNIX / AF_INET / AF_INET6.

The Lean theorems of Cjet.Props.Accept are stated over these names, so a case label moved to another
group, a changed byte of a pattern or a different header re-checks the proofs."""
import os
import re
import subprocess

NAME = "Accept"

# errno names that get a Lean constant even when the switch does not mention them (the transient
# errors the property speaks about and the ones accept(2) documents)
REFERENCE = ["EAGAIN", "EWOULDBLOCK", "EBADF", "EINVAL", "ENOTSOCK", "EOPNOTSUPP", "EFAULT", "ECONNABORTED", "EINTR",
             "EMFILE", "ENFILE", "ENOBUFS", "ENOMEM", "EPROTO", "EPERM", "ENETDOWN", "ENOPROTOOPT", "EHOSTDOWN",
             "ENONET", "EHOSTUNREACH", "ENETUNREACH", "ETIMEDOUT", "ECONNRESET"]

_macros = None


def macros():
    """name -> int for every object-like macro of <errno.h>, <sys/socket.h> that resolves to an integer."""
    global _macros
    if _macros is not None:
        return _macros
    p = subprocess.run(["gcc", "-E", "-dM", "-D_GNU_SOURCE", "-x", "c", "-"],
                       input=b"#include <errno.h>\n#include <sys/socket.h>\n", stdout=subprocess.PIPE,
                       stderr=subprocess.PIPE, timeout=60)
    if p.returncode != 0:
        raise ValueError("ext_accept: gcc -E -dM failed: %s" % p.stderr.decode("utf-8", "replace")[-400:])
    raw = {}
    for m in re.finditer(r"^#define\s+(\w+)\s+(\S+)\s*$", p.stdout.decode(), re.M):
        raw[m.group(1)] = m.group(2)

    def resolve(n, depth=0):
        v = raw.get(n)
        if v is None or depth > 8:
            return None
        if re.fullmatch(r"\d+|0[xX][0-9a-fA-F]+", v):
            return int(v, 0)
        return resolve(v, depth + 1)
    _macros = {n: resolve(n) for n in raw}
    _macros = {n: v for n, v in _macros.items() if v is not None}
    return _macros


def errno_table():
    """All errno names of <errno.h> with their numbers."""
    return {n: v for n, v in macros().items() if re.fullmatch(r"E[A-Z0-9]+", n)}


def func_text(txt, name):
    m = re.search(r"^static[\w \*]+\b%s\s*\([^;{]*\)\s*\{.*?^\}" % re.escape(name), txt, re.M | re.S)
    if not m:
        raise ValueError("ext_accept: function %s not found in linux_io.c" % name)
    return m.group(0)


def strip_c_comments(txt):
    return re.sub(r"//[^\n]*", "", re.sub(r"/\*.*?\*/", "", txt, flags=re.S))


ACTIONS = {"return EL_ABORT_LOOP": "abort", "continue": "retry", "return EL_CONTINUE_LOOP": "stop"}


def parse_switch(repo):
    """-> (groups: list of (names, action), default_action)"""
    txt = open(os.path.join(repo, "src", "linux", "linux_io.c")).read()
    body = strip_c_comments(func_text(txt, "accept_common"))
    if len(re.findall(r"\baccept\s*\(", body)) != 1 or not re.search(r"while\s*\(\s*(1|true)\s*\)|for\s*\(\s*;\s*;\s*\)", body):
        raise ValueError("ext_accept: accept_common is no longer one accept() call inside an endless loop")
    m = re.search(r"switch\s*\(\s*errno\s*\)\s*\{(.*?)\n\t\t\t\}", body, re.S) or \
        re.search(r"switch\s*\(\s*errno\s*\)\s*\{(.*?)\}", body, re.S)
    if not m:
        raise ValueError("ext_accept: `switch (errno)` not found in accept_common")
    toks = [t.strip() for t in re.split(r"[;:]", m.group(1)) if t.strip()]
    groups, cur, default, in_default = [], [], None, False
    for t in toks:
        mc = re.fullmatch(r"case\s+(\w+)", t)
        if mc:
            if in_default:
                raise ValueError("ext_accept: case label falls into default")
            cur.append(mc.group(1))
        elif t == "default":
            if cur:
                raise ValueError("ext_accept: case labels fall through into default: %s" % cur)
            in_default = True
        elif t in ACTIONS:
            if in_default:
                if default is not None:
                    raise ValueError("ext_accept: two statements under default")
                default = ACTIONS[t]
            elif cur:
                groups.append((cur, ACTIONS[t]))
                cur = []
            else:
                raise ValueError("ext_accept: statement `%s` without a case label" % t)
        else:
            raise ValueError("ext_accept: switch(errno) has a statement that is not understood: `%s`" % t[:60])
    if cur or default is None:
        raise ValueError("ext_accept: switch(errno) changed shape (open group %s, default %s)" % (cur, default))
    return groups, default


def byte_array(txt, name, n):
    m = re.search(r"\b%s\s*\[\s*\]\s*=\s*\{([^}]*)\}" % re.escape(name), txt)
    if not m:
        raise ValueError("ext_accept: byte pattern %s not found" % name)
    vals = [int(x.strip(), 0) for x in m.group(1).split(",") if x.strip()]
    if len(vals) != n or any(not 0 <= v < 256 for v in vals):
        raise ValueError("ext_accept: byte pattern %s has %d elements, expected %d" % (name, len(vals), n))
    return vals


def lean(repo):
    tab = errno_table()
    mac = macros()
    groups, default = parse_switch(repo)
    txt = open(os.path.join(repo, "src", "linux", "linux_io.c")).read()
    isl = strip_c_comments(func_text(txt, "is_localhost"))
    v4 = byte_array(isl, "ipv4_localhost_bytes", 4)
    v6m = byte_array(isl, "mapped_ipv4_localhost_bytes", 16)
    v6 = byte_array(isl, "localhost_bytes", 16)
    names = list(REFERENCE)
    seen = set()
    for ns, _ in groups:
        for n in ns:
            if n in seen:
                raise ValueError("ext_accept: %s appears in two case labels" % n)
            seen.add(n)
            if n not in names:
                names.append(n)
    out = ["namespace Cjet.Generated.Accept", "",
           "/-! errno numbers of the system headers (`gcc -E -dM` on <errno.h>) -/"]
    for n in names:
        if n not in tab:
            raise ValueError("ext_accept: errno name %s is not defined by <errno.h>" % n)
        out.append("def %s : Nat := %d" % (n, tab[n]))
    out.append("")
    for af in ("AF_UNIX", "AF_INET", "AF_INET6"):
        if af not in mac:
            raise ValueError("ext_accept: %s not defined by <sys/socket.h>" % af)
        out.append("def %s : Nat := %d" % (af, mac[af]))
    out.append("")

    def cls(action):
        return [n for ns, a in groups if a == action for n in ns]
    for lname, action, doc in (("fatalErrnos", "abort", "case labels of accept_common's switch(errno) whose group does `return EL_ABORT_LOOP`"),
                               ("retryErrnos", "retry", "case labels whose group does `continue` (call accept again)"),
                               ("stopErrnos", "stop", "case labels whose group does `return EL_CONTINUE_LOOP` (besides `default:`)")):
        out.append("/-- %s -/" % doc)
        out.append("def %s : List Nat := [%s]" % (lname, ", ".join(cls(action))))
        out.append("def %sNames : List String := [%s]" % (lname[:-6], ", ".join('"%s"' % n for n in cls(action))))
    out.append("/-- what `default:` does: 0 = `return EL_CONTINUE_LOOP`, 1 = `continue`, 2 = `return EL_ABORT_LOOP` -/")
    out.append("def defaultAction : Nat := %d" % {"stop": 0, "retry": 1, "abort": 2}[default])
    out.append("")
    out.append("/-! byte patterns of is_localhost -/")
    out.append("def ipv4LocalhostBytes : List UInt8 := [%s]" % ", ".join(map(str, v4)))
    out.append("def mappedIpv4LocalhostBytes : List UInt8 := [%s]" % ", ".join(map(str, v6m)))
    out.append("def localhostBytes : List UInt8 := [%s]" % ", ".join(map(str, v6)))
    out += ["", "end Cjet.Generated.Accept", ""]
    return "\n".join(out)


if __name__ == "__main__":
    import sys
    print(lean(sys.argv[1] if len(sys.argv) > 1 else "/repo"))
