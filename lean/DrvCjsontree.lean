import Cjet.Drv.Cjsontree
/-- Driver executable for component `cjsontree`: see `Cjet/Drv/Cjsontree.lean`. -/
def main (args : List String) : IO UInt32 := Cjet.Drv.Cjsontree.run args
