import Cjet.Drv.Cjson
/-- Driver executable for component `cjson`: see `Cjet/Drv/Cjson.lean`. -/
def main (args : List String) : IO UInt32 := Cjet.Drv.Cjson.run args
