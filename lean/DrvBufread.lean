import Cjet.Drv.Bufread
/-- Driver executable for component `bufread`: see `Cjet/Drv/Bufread.lean`. -/
def main (args : List String) : IO UInt32 := Cjet.Drv.Bufread.run args
