import Cjet.Drv.Bufwrite
/-- Driver executable for component `bufwrite`: see `Cjet/Drv/Bufwrite.lean`. -/
def main (args : List String) : IO UInt32 := Cjet.Drv.Bufwrite.run args
