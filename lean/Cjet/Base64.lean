import Cjet.Basic
import Cjet.Generated.Ws
/-!
# `b64_encode_buffer`, `b64_encoded_buffer_length` (src/base64.c) and a decoder as specification
-/
namespace Cjet.Base64
open Cjet.Generated.Ws

/-- `encode_table[i]` -/
def tableChar (i : Nat) : UInt8 := b64Table.getD i 0

/-- '=' -/
def pad : UInt8 := 61

/-- one round of the `while (in_len)` loop: up to three input bytes (`len` of them are real, the
    others are 0) give four output characters -/
def encTriple (t0 t1 t2 : Nat) (len : Nat) : Bytes :=
  [ tableChar (t0 >>> 2),
    tableChar (((t0 &&& 0x03) <<< 4) ||| ((t1 &&& 0xf0) >>> 4)),
    (if len > 1 then tableChar (((t1 &&& 0x0f) <<< 2) ||| ((t2 &&& 0xc0) >>> 6)) else pad),
    (if len > 2 then tableChar (t2 &&& 0x3f) else pad) ]

/-- `b64_encode_buffer` -/
def encode : Bytes → Bytes
  | [] => []
  | [a] => encTriple a.toNat 0 0 1
  | [a, b] => encTriple a.toNat b.toNat 0 2
  | a :: b :: c :: rest => encTriple a.toNat b.toNat c.toNat 3 ++ encode rest

/-- `b64_encoded_buffer_length` -/
def encodedLength (n : Nat) : Nat := 4 * ((n + 2) / 3)

/-! ## Specification decoder (RFC 4648 §4, canonical input only) -/

/-- the position of a character in the alphabet -/
def charIndex (c : UInt8) : Option Nat :=
  let i := b64Table.findIdx (· == c)
  if i < 64 then some i else none

/-- four characters back to up to three bytes -/
def decQuad (c0 c1 c2 c3 : UInt8) : Option Bytes :=
  match charIndex c0, charIndex c1 with
  | some v0, some v1 =>
    if c2 == pad && c3 == pad then
      some [UInt8.ofNat (v0 * 4 + v1 / 16)]
    else
      match charIndex c2 with
      | none => none
      | some v2 =>
        if c3 == pad then
          some [UInt8.ofNat (v0 * 4 + v1 / 16), UInt8.ofNat ((v1 % 16) * 16 + v2 / 4)]
        else
          match charIndex c3 with
          | none => none
          | some v3 =>
            some [UInt8.ofNat (v0 * 4 + v1 / 16), UInt8.ofNat ((v1 % 16) * 16 + v2 / 4),
                  UInt8.ofNat ((v2 % 4) * 64 + v3)]
  | _, _ => none

/-- decoder: groups of four characters; padding only in the last group -/
def decode : Bytes → Option Bytes
  | [] => some []
  | [c0, c1, c2, c3] => decQuad c0 c1 c2 c3
  | c0 :: c1 :: c2 :: c3 :: rest =>
    if c2 == pad || c3 == pad then none
    else match decQuad c0 c1 c2 c3, decode rest with
      | some a, some b => some (a ++ b)
      | _, _ => none
  | _ => none

end Cjet.Base64
