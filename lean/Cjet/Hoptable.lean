import Cjet.Basic
import Cjet.Generated.Hoptable

/-!
# Model of `src/hashtable.h` (hopscotch hash table) — property C17

The C file declares, per instantiation, an array of `table_size = 1 << order` slots
`{ uint32_t hop_info; key; value }`.  `hop_info` of bucket `h` is a bitmap: bit `d` set means
"slot `(h + d) mod table_size` holds an entry whose key hashes to `h`".  An empty slot is marked
by the key pattern `(type)HASHTABLE_INVALIDENTRY`; in the model this is `key = none`.

Everything below is a loop-for-loop transcription (loops become structural recursion on a fuel
argument whose initial value is an upper bound of the iteration count):

* `scan`        — the `while (hop_info != 0)` lookup loop shared by get / put / remove,
* `probe`       — the linear search for an empty slot inside `add_range`,
* `firstBit`    — the inner `for (i = 0; i < check_distance; ++i)` loop of `find_closer_entry`,
* `findCloser`  — `find_closer_entry` (outer `while (check_distance > 0)` loop),
* `displace`    — the `do { … } while (free_pos != 0xffffffff)` loop of `hashtable_put`,
* `get`, `put`, `remove`, and `sweep` (the iterate-while-removing loops of `router.c`).

Quirks that are kept on purpose:
* emptiness is decided by the *key* only (`probe`), liveness by the *hop bitmaps* only (`scan`);
* `find_closer_entry` copies key and value to the free slot and rewrites the bitmap; the vacated
  slot keeps its **value**, and — before fix F25 (`clr = false`) — also its **key** (a ghost slot
  that `probe` takes for occupied).  The committed code (`clr = true`) stores
  `HASHTABLE_INVALIDENTRY` into the vacated key;
* `hashtable_remove` zeroes the value, `find_closer_entry` does not;
* positions are computed with `uint32_t` wrap-around and then masked (`wrap_pos`); the model uses
  `% N` and `subWrap`, and `wrap_eq_mod` / `subWrap_eq_uint32` show these agree with the C
  arithmetic for every order the C code can express (`order ≤ 32`).

The model is generic in the key type `K` (decidable equality), the value type `V` (with
`default` playing the role of the all-zero `struct value`), the hash function, the table size `N`
and the add range `A`; `tableSize order` / `addRange order` are what the macros compute.
-/

namespace Cjet.Hoptable

open Cjet.Generated.Hoptable

/-- `hop_range_##name()`: number of bits of `hop_info`. -/
abbrev W : Nat := hopInfoBits

/-- `table_size_##name = (1 << (order))` -/
def tableSize (order : Nat) : Nat := 1 <<< (order - tableSizeOrderSub)

/-- `add_range_##name = (1 << (order - 1))` -/
def addRange (order : Nat) : Nat := 1 <<< (order - addRangeOrderSub)

/-- One element of `struct hashtable_<type>[]`. -/
structure Slot (K V : Type) where
  hop : BitVec W
  key : Option K
  val : V
  deriving DecidableEq, Repr

abbrev Table (K V : Type) := Array (Slot K V)

section
variable {K V : Type} [DecidableEq K] [Inhabited V]

/-- A slot as `hashtable_create` leaves it: `memset 0`, key = INVALIDENTRY. -/
def pristine : Slot K V := ⟨0, none, default⟩

instance : Inhabited (Slot K V) := ⟨pristine⟩

/-- `hashtable_create_##name` -/
def empty (N : Nat) : Table K V := Array.replicate N pristine

/-- `table[i]` (total: out-of-range reads give a pristine slot; never happens under `WF`). -/
def slot (t : Table K V) (i : Nat) : Slot K V := t.getD i pristine

/-- `table[i] = s` -/
def upd (t : Table K V) (i : Nat) (s : Slot K V) : Table K V := t.setIfInBounds i s

/-- `table[i].hop_info = h` -/
def setHop (t : Table K V) (i : Nat) (h : BitVec W) : Table K V := upd t i { slot t i with hop := h }

/-- `table[i].key = k` -/
def setKey (t : Table K V) (i : Nat) (k : Option K) : Table K V := upd t i { slot t i with key := k }

/-- `table[i].value = v` -/
def setVal (t : Table K V) (i : Nat) (v : V) : Table K V := upd t i { slot t i with val := v }

/-- `(a - b)` in `uint32_t` arithmetic followed by `wrap_pos` — as a residue modulo `N`. -/
def subWrap (N a b : Nat) : Nat := (a + (N - b % N)) % N

/-- The lookup loop of get / put / remove:
```
while (hop_info != 0) {
  if (((hop_info & 0x1) == 1) && is_equal(table[pos].key, key)) return pos;
  hop_info = hop_info >> 1;  pos = wrap_pos(pos + 1);
}
``` -/
def scan (N : Nat) (t : Table K V) (k : K) : Nat → BitVec W → Nat → Option Nat
  | 0, _, _ => none
  | f + 1, hop, pos =>
    if hop = 0 then none
    else if hop.getLsbD 0 && decide ((slot t pos).key = some k) then some pos
    else scan N t k f (hop >>> 1) ((pos + 1) % N)

/-- Position of `k`, searched through the bitmap of its home bucket. -/
def lookup (N : Nat) (hash : K → Nat) (t : Table K V) (k : K) : Option Nat :=
  scan N t k W (slot t (hash k)).hop (hash k)

/-- `hashtable_get_##name`: `some v` = HASHTABLE_SUCCESS with `*value = v`, `none` = HASHTABLE_INVALIDENTRY. -/
def get (N : Nat) (hash : K → Nat) (t : Table K V) (k : K) : Option V :=
  (lookup N hash t k).map (fun p => (slot t p).val)

/-- Linear search for an empty slot:
```
while (free_distance < add_range) {
  if (table[pos].key == INVALIDENTRY) break;
  ++free_distance;  pos = wrap_pos(pos + 1);
}
```
first argument: `add_range - free_distance`. Returns `(free_distance, pos)`. -/
def probe (N : Nat) (t : Table K V) : Nat → Nat → Nat → Nat × Nat
  | 0, fd, pos => (fd, pos)
  | r + 1, fd, pos =>
    if (slot t pos).key.isNone then (fd, pos) else probe N t r (fd + 1) ((pos + 1) % N)

/-- `for (i = 0; i < check_distance; ++i) { if ((mask & check_hop_info) != 0) break; mask <<= 1; }`
first argument: `check_distance - i`. -/
def firstBit (hop : BitVec W) : Nat → Nat → Option Nat
  | 0, _ => none
  | r + 1, i => if hop.getLsbD i then some i else firstBit hop r (i + 1)

/-- `find_closer_entry_##name(table, free_position)`; the last argument is `check_distance`
(initially `hop_range - 1`).  Returns the vacated position (the new free position) and the table.
`clr` = the vacated slot's key is overwritten with INVALIDENTRY (the code after fix F25). -/
def findCloser (N : Nat) (clr : Bool) (t : Table K V) (fp : Nat) : Nat → Option (Nat × Table K V)
  | 0 => none
  | cd + 1 =>
    let c := subWrap N fp (cd + 1)                 -- check_position
    let h := (slot t c).hop                        -- check_hop_info
    match firstBit h (cd + 1) 0 with
    | some i =>
      let hp := (c + i) % N                        -- hop_position
      let t1 := setKey t fp (slot t hp).key        -- table[free_position].key = table[hop_position].key
      let t2 := setVal t1 fp (slot t1 hp).val      -- table[free_position].value = table[hop_position].value
      let t3 := setHop t2 c ((h &&& ~~~(1#W <<< i)) ||| (1#W <<< (cd + 1)))
      let t4 := if clr then setKey t3 hp none else t3   -- fix F25: table[hop_position].key = INVALIDENTRY
      some (hp, t4)
    | none => findCloser N clr t fp cd

inductive Rc | ok | full
  deriving DecidableEq, Repr

/-- The `do { … } while (free_pos != 0xffffffff)` loop of `hashtable_put`; `h` = hash_pos. -/
def displace (N : Nat) (clr : Bool) (h : Nat) (k : K) (v : V) :
    Nat → Table K V → Nat → Nat → Rc × Table K V
  | 0, t, _, _ => (.full, t)
  | f + 1, t, fp, fd =>
    if fd < W then
      let t1 := setVal t fp v                      -- table[free_pos].value = value
      let t2 := setKey t1 fp (some k)              -- table[free_pos].key = key
      let t3 := setHop t2 h ((slot t2 h).hop ||| (1#W <<< fd))
      (.ok, t3)
    else
      match findCloser N clr t fp (W - closerStartSub) with
      | none => (.full, t)
      | some (fp', t') => displace N clr h k v f t' fp' (subWrap N fp' h)

structure PutRes (K V : Type) where
  rc : Rc
  /-- `*prev_value` (zeroed first; the old value when an existing key is overwritten) -/
  prev : V
  tab : Table K V

/-- `hashtable_put_##name` for a key that is not the INVALIDENTRY pattern. -/
def put (N A : Nat) (hash : K → Nat) (clr : Bool) (t : Table K V) (k : K) (v : V) : PutRes K V :=
  let h := hash k
  match lookup N hash t k with
  | some pos => ⟨.ok, (slot t pos).val, setVal t pos v⟩
  | none =>
    let r := probe N t A 0 h
    if r.1 < A then
      let d := displace N clr h k v N t r.2 r.1
      ⟨d.1, default, d.2⟩
    else ⟨.full, default, t⟩

/-- `hashtable_remove_##name`: `(some v, t')` = SUCCESS, `(none, t)` = INVALIDENTRY. -/
def remove (N : Nat) (hash : K → Nat) (t : Table K V) (k : K) : Option V × Table K V :=
  let h := hash k
  let hop := (slot t h).hop
  match scan N t k W hop h with
  | some pos =>
    let v := (slot t pos).val
    let t1 := setKey t pos none                    -- table[pos].key = INVALIDENTRY
    let t2 := setVal t1 pos default                -- memset(&table[pos].value, 0, …)
    let d := subWrap N pos h                       -- distance = wrap_pos(pos - hash_pos)
    (some v, setHop t2 h (hop &&& ~~~(1#W <<< d)))
  | none => (none, t)

/-- The loops of `remove_routing_info_from_peer` / `remove_peer_from_routing_table` (router.c):
```
for (i = 0; i < table_size; ++i)
  if (table[i].key != INVALIDENTRY)
    if (HASHTABLE_REMOVE(table, table[i].key, &val) == HASHTABLE_SUCCESS)  … val …
```
first argument: `table_size - i`.  Returns the removed values in order, and the table. -/
def sweepFrom (N : Nat) (hash : K → Nat) : Nat → Nat → Table K V → List V × Table K V
  | 0, _, t => ([], t)
  | r + 1, i, t =>
    match (slot t i).key with
    | none => sweepFrom N hash r (i + 1) t
    | some k =>
      match remove N hash t k with
      | (some v, t') => let s := sweepFrom N hash r (i + 1) t'; (v :: s.1, s.2)
      | (none, t') => sweepFrom N hash r (i + 1) t'

def sweep (N : Nat) (hash : K → Nat) (t : Table K V) : List V × Table K V :=
  sweepFrom N hash N 0 t

/-- Number of slots that `probe` regards as empty. -/
def emptyCount (N : Nat) (t : Table K V) : Nat :=
  ((List.range N).filter (fun i => (slot t i).key.isNone)).length

end

/-! ## The three hash functions -/

/-- `hs_hash32(key, order)` -/
def hsHash32 (order : Nat) (key : BitVec 32) : Nat :=
  let key := (key ^^^ BitVec.ofNat 32 h32Xor) ^^^ (key >>> h32Shr1)
  let key := key + (key <<< h32Shl)
  let key := key ^^^ (key >>> h32Shr2)
  let key := key * BitVec.ofNat 32 h32Mul
  let key := key ^^^ (key >>> h32Shr3)
  (key >>> (h32Width - order)).toNat

/-- `hs_hash6432shift(key, order)` -/
def hsHash64 (order : Nat) (key : BitVec 64) : Nat :=
  let key := (~~~key) + (key <<< h64Shl1)
  let key := key ^^^ (key >>> h64Shr1)
  let key := key * BitVec.ofNat 64 h64Mul
  let key := key ^^^ (key >>> h64Shr2)
  let key := key + (key <<< h64Shl2)
  let key := key ^^^ (key >>> h64Shr3)
  ((key.setWidth 32) >>> (h64Width - order)).toNat

/-- One step of the string hash: `hash = ((c + (hash << 6)) + (hash << 16)) - hash` where
`uint32_t c = *key` with `char` signed (x86-64 ABI: bytes ≥ 0x80 are sign-extended). -/
def strStep (hash : BitVec 32) (b : UInt8) : BitVec 32 :=
  let c : BitVec 32 := (BitVec.ofNat 8 b.toNat).signExtend 32
  ((c + (hash <<< strShl1)) + (hash <<< strShl2)) - hash

/-- The `while (c != 0)` loop over a C string (stops at the first zero byte). -/
def strFold : Bytes → BitVec 32 → BitVec 32
  | [], h => h
  | b :: bs, h => if b = 0 then h else strFold bs (strStep h b)

/-- `hash_func_##name##_string` -/
def hashStr (order : Nat) (key : Bytes) : Nat := hsHash32 order (strFold key 0)

/-- `hash_func_##name##_uint32_t` -/
def hashU32 (order : Nat) (key : Nat) : Nat := hsHash32 order (BitVec.ofNat 32 key)

/-- `hash_func_##name##_uint64_t` -/
def hashU64 (order : Nat) (key : Nat) : Nat := hsHash64 order (BitVec.ofNat 64 key)

/-! ## Arithmetic of the C code versus the model's `% N` -/

/-- `wrap_pos`: `pos & (table_size - 1)` is `pos % table_size` for a power of two. -/
theorem wrap_eq_mod (order pos : Nat) : pos &&& (2 ^ order - 1) = pos % 2 ^ order :=
  Nat.and_two_pow_sub_one_eq_mod pos order

end Cjet.Hoptable
