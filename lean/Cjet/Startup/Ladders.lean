/-
  Cjet.Startup.Ladders — run_io_only_local and run_io_all_interfaces once more, as `Cjet.Unwind` ladders
  with the goto labels of the C text (linux_io.c:598-765), for the single-failure audit of the existing
  interpreter.  This is a second, label-exact view of the same code; the trace model `Cjet.Startup` (which
  covers every combination of failures, the loops and the order of calls) is the one tied to the
  implementation.

  Resources: the listener descriptors.  Links: `(loop, fd)` = the descriptor is registered with the event
  loop.  A `create_…` step acquires the descriptor (its own internal `goto error` closes it again, so a
  failed create acquires nothing); `start_server` links it (a failed start leaves it unlinked) and the
  caller's `close(fd)` is the step's `failPre`.  The success path of both functions falls through the whole
  chain after run_jet, so `done` is the whole chain and nothing is intended to remain.
-/
import Cjet.Unwind

namespace Cjet.Startup.Ladders

open Cjet.Unwind Cjet.Unwind.Act

inductive R where
  | ipv6_jet_fd | ipv4_jet_fd | ipv6_http_fd | ipv4_http_fd | jet_fd | http_fd | uds_fd
  | loop
  deriving DecidableEq, Repr

/-- the labels of run_io_only_local, in textual order; `after_run_jet` is the statement after run_jet -/
inductive LLocal where
  | after_run_jet
  | start_uds_server_failed
  | start_ipv4_jetws_server_failed | create_ipv4_jetws_socket_failed
  | start_ipv6_jetws_server_failed | create_ipv6_jetws_socket_failed
  | start_ipv4_jet_server_failed | create_ipv4_jet_socket_failed
  deriving DecidableEq, Repr

/-- stop_server / stop_uds_server: remove from the loop, then close -/
def stop (fd : R) : List (Act R) := [unlink .loop fd, release fd]

def chainLocal : List (LLocal × List (Act R)) := [
  (.after_run_jet, stop .uds_fd),                       -- stop_uds_server(&uds_jet_server.ev)
  (.start_uds_server_failed, stop .ipv4_http_fd),
  (.start_ipv4_jetws_server_failed, []),
  (.create_ipv4_jetws_socket_failed, stop .ipv6_http_fd),
  (.start_ipv6_jetws_server_failed, []),
  (.create_ipv6_jetws_socket_failed, stop .ipv4_jet_fd),
  (.start_ipv4_jet_server_failed, []),
  (.create_ipv4_jet_socket_failed, stop .ipv6_jet_fd) ]

def ladderOnlyLocal : Ladder R LLocal where
  steps := [
    { name := "create_server_socket_bound(::1, jet)", ok := [acquire .ipv6_jet_fd] },             -- return -1
    { name := "start_server(ipv6_jet_server)", ok := [link .loop .ipv6_jet_fd],
      failPre := [release .ipv6_jet_fd] },                                                         -- close; return -1
    { name := "create_server_socket_bound(127.0.0.1, jet)", ok := [acquire .ipv4_jet_fd],
      failTo := some .create_ipv4_jet_socket_failed },
    { name := "start_server(ipv4_jet_server)", ok := [link .loop .ipv4_jet_fd],
      failPre := [release .ipv4_jet_fd], failTo := some .start_ipv4_jet_server_failed },
    { name := "create_server_socket_bound(::1, jetws)", ok := [acquire .ipv6_http_fd],
      failTo := some .create_ipv6_jetws_socket_failed },
    { name := "start_server(ipv6_http_server)", ok := [link .loop .ipv6_http_fd],
      failPre := [release .ipv6_http_fd], failTo := some .start_ipv6_jetws_server_failed },
    { name := "create_server_socket_bound(127.0.0.1, jetws)", ok := [acquire .ipv4_http_fd],
      failTo := some .create_ipv4_jetws_socket_failed },
    { name := "start_server(ipv4_http_server)", ok := [link .loop .ipv4_http_fd],
      failPre := [release .ipv4_http_fd], failTo := some .start_ipv4_jetws_server_failed },
    { name := "start_uds_server: create_server_unix_domain_socket", ok := [acquire .uds_fd],
      failTo := some .start_uds_server_failed },
    { name := "start_uds_server: start_server", ok := [link .loop .uds_fd],
      failPre := [release .uds_fd], failTo := some .start_uds_server_failed },
    { name := "run_jet (privileges, daemon, loop)", ok := [], failTo := some .after_run_jet } ]
  chain := chainLocal
  done := chainLocal.flatMap (·.2)

inductive LAll where
  | after_run_jet
  | start_local_uds_server_failed
  | start_jetws_server_failed | create_jetws_socket_failed
  deriving DecidableEq, Repr

def chainAll : List (LAll × List (Act R)) := [
  (.after_run_jet, stop .uds_fd),
  (.start_local_uds_server_failed, stop .http_fd),
  (.start_jetws_server_failed, []),
  (.create_jetws_socket_failed, stop .jet_fd) ]

def ladderAllInterfaces : Ladder R LAll where
  steps := [
    { name := "create_server_socket_all_interfaces(jet)", ok := [acquire .jet_fd] },
    { name := "start_server(jet_server)", ok := [link .loop .jet_fd], failPre := [release .jet_fd] },
    { name := "create_server_socket_all_interfaces(jetws)", ok := [acquire .http_fd],
      failTo := some .create_jetws_socket_failed },
    { name := "start_server(http_server)", ok := [link .loop .http_fd],
      failPre := [release .http_fd], failTo := some .start_jetws_server_failed },
    { name := "start_uds_server: create_server_unix_domain_socket", ok := [acquire .uds_fd],
      failTo := some .start_local_uds_server_failed },
    { name := "start_uds_server: start_server", ok := [link .loop .uds_fd],
      failPre := [release .uds_fd], failTo := some .start_local_uds_server_failed },
    { name := "run_jet (privileges, daemon, loop)", ok := [], failTo := some .after_run_jet } ]
  chain := chainAll
  done := chainAll.flatMap (·.2)

end Cjet.Startup.Ladders
