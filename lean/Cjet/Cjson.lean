/-
  Cjet.Cjson — the JSON text layer of cjet: cJSON 1.7.13 as vendored in /repo/src/json/cJSON.c.

  Parser: `cJSON_ParseWithLengthOpts(value, length, &end, require_null_terminated = 0)` exactly as
  src/parse.c calls it → skip_utf8_bom → buffer_skip_whitespace → parse_value → parse_string /
  utf16_literal_to_utf8 / parse_hex4 / parse_number / parse_array / parse_object.
  Printer: `cJSON_PrintUnformatted` → print_value / print_string_ptr / print_array / print_object.

  The transcription keeps the C as it is: the buffer is a byte list with an explicit offset
  (`PB.off` = `input_buffer->offset`, `PB.depth` = `input_buffer->depth`); nothing is required of
  the text after the value; `buffer_skip_whitespace` steps back onto the last byte when it runs
  into the end; control characters and bytes ≥ 0x80 inside strings are copied; `parse_hex4` answers
  0 for a non-hex digit (so `\uZZZZ` is `\u0000`); duplicate member names are kept in order.

  Memory reads.  A read the C text guards in the same expression
  (`can_access_at_index(b, i) && b[i] …`, the loop conditions of parse_number / parse_string's first
  pass / buffer_skip_whitespace) is `inp[i]?` with `none` = "guard false".  Every other read
  (parse_string's `buffer_at_offset[0]`, its second pass, parse_hex4, the surrogate look-ahead,
  strncmp of the literals, parse_array's first byte) is unguarded in C: in the model it yields the
  outcome `Res.oob i` when `i ≥ length` — a memory-safety violation made visible.  The theorems of
  `Cjet.Props.Cjson` say when that outcome is impossible.

  Numbers.  `parse_number` copies at most `numberBufSize - 1` bytes of the class `[0-9+-eE.]` and
  hands them to `strtod`; how many of them strtod consumes (`strtodLen`, the C grammar of a decimal
  floating constant) decides where parsing continues and IS modelled; the double it returns is an
  oracle (the tree keeps the consumed token).  `print_number` (`sprintf "%1.15g"/"%1.17g"`) is an
  oracle as well: `printValue` takes the text of a number token as a function argument.
-/
import Cjet.Basic
import Cjet.Generated.Cjson

namespace Cjet.Cjson

open Cjet.Generated.Cjson (nestingLimit numberBufSize objCommaGuard printNumberExact)

/-! ### trees -/

/-- What a cJSON item tree is to the daemon: strings are C strings (no interior NUL). -/
inductive Tree where
  | null
  | fls
  | tru
  /-- number: the token strtod consumed -/
  | num (tok : Bytes)
  | str (s : Bytes)
  | arr (items : List Tree)
  /-- members in document order, duplicates kept -/
  | obj (members : List (Bytes × Tree))
  deriving Repr, Inhabited

/-- `parse_buffer` minus the constant fields. -/
structure PB where
  off : Nat
  depth : Nat
  deriving Repr, DecidableEq, Inhabited

/-- Outcome of a parse function: `ok` = returned true, `fail` = returned false (with the buffer as
    left behind: its offset becomes the error position), `oob i` = the C code read `content[i]`
    with `i ≥ length`, `nofuel` = the model's recursion/loop fuel ran out (proved impossible). -/
inductive Res (α : Type) where
  | ok (a : α) (b : PB)
  | fail (b : PB)
  | oob (i : Nat)
  | nofuel
  deriving Repr, Inhabited

namespace Res
def map {α β : Type} (f : α → β) : Res α → Res β
  | .ok a b => .ok (f a) b
  | .fail b => .fail b
  | .oob i => .oob i
  | .nofuel => .nofuel

def isOob {α : Type} : Res α → Bool
  | .oob _ => true
  | _ => false
end Res

/-- the C view of a byte buffer: up to the first NUL -/
def cstr : Bytes → Bytes
  | [] => []
  | c :: r => if c = 0 then [] else c :: cstr r

/-! ### strncmp against a NUL-free literal (parse_value's literals, the BOM) -/

inductive Cmp where
  | eq
  | ne
  | oob (i : Nat)
  deriving Repr, DecidableEq

/-- `strncmp(content + o, lit, |lit|) == 0`, reading left to right up to the first difference;
    `rest` is the buffer from offset `o` on. -/
def cmpLit : Nat → Bytes → Bytes → Cmp
  | _, _, [] => .eq
  | o, [], _ :: _ => .oob o
  | o, x :: r, c :: cs => if x = c then cmpLit (o + 1) r cs else .ne

/-- `can_read(buffer, |lit|) && strncmp(buffer_at_offset(buffer), lit, |lit|) == 0` -/
def isLit (inp : Bytes) (b : PB) (lit : Bytes) : Cmp :=
  if b.off + lit.length ≤ inp.length then cmpLit b.off (inp.drop b.off) lit else .ne

/-! ### buffer_skip_whitespace, skip_utf8_bom -/

/-- number of leading bytes ≤ 32: `while (can_access_at_index(buffer, 0) && buffer_at_offset(buffer)[0] <= 32) offset++` -/
def wsCount : Bytes → Nat
  | [] => 0
  | c :: r => if c ≤ 32 then wsCount r + 1 else 0

def skipWs (inp : Bytes) (b : PB) : PB :=
  if b.off < inp.length then
    let o := b.off + wsCount (inp.drop b.off)
    { b with off := if o = inp.length then o - 1 else o }
  else b

def bom : Bytes := [0xEF, 0xBB, 0xBF]

/-- `can_access_at_index(buffer, 4) && strncmp(buffer_at_offset(buffer), "\xEF\xBB\xBF", 3) == 0` (offset is 0) -/
def skipBom (inp : Bytes) (b : PB) : Res Unit :=
  if b.off + 4 < inp.length then
    match cmpLit b.off (inp.drop b.off) bom with
    | .eq => .ok () { b with off := b.off + 3 }
    | .ne => .ok () b
    | .oob i => .oob i
  else .ok () b

/-! ### parse_hex4, utf16_literal_to_utf8 -/

def hexVal (c : UInt8) : Option Nat :=
  if 0x30 ≤ c ∧ c ≤ 0x39 then some (c.toNat - 0x30)
  else if 0x41 ≤ c ∧ c ≤ 0x46 then some (10 + c.toNat - 0x41)
  else if 0x61 ≤ c ∧ c ≤ 0x66 then some (10 + c.toNat - 0x61)
  else none

inductive HRes where
  | val (h : Nat)
  | oob (i : Nat)
  deriving Repr, DecidableEq

/-- `parse_hex4(content + p)`; `k` digits still to read, `h` the accumulator.  An invalid digit
    answers 0 without reading further. -/
def hex4Loop : Nat → Nat → Nat → Bytes → HRes
  | _, 0, h, _ => .val h
  | p, _ + 1, _, [] => .oob p
  | p, k + 1, h, c :: r =>
    match hexVal c with
    | none => .val 0
    | some d => hex4Loop (p + 1) k (if k = 0 then h + d else (h + d) * 16) r

def hex4 (p : Nat) (rest : Bytes) : HRes := hex4Loop p 4 0 rest

/-- the UTF-8 encoder at the end of utf16_literal_to_utf8, bit operations as in the C text -/
def utf8Encode (cp : Nat) : Option Bytes :=
  if cp < 0x80 then some [UInt8.ofNat (cp &&& 0x7F)]
  else if cp < 0x800 then
    some [UInt8.ofNat (((cp >>> 6) ||| 0xC0) &&& 0xFF), UInt8.ofNat ((cp ||| 0x80) &&& 0xBF)]
  else if cp < 0x10000 then
    some [UInt8.ofNat (((cp >>> 12) ||| 0xE0) &&& 0xFF), UInt8.ofNat (((cp >>> 6) ||| 0x80) &&& 0xBF),
          UInt8.ofNat ((cp ||| 0x80) &&& 0xBF)]
  else if cp ≤ 0x10FFFF then
    some [UInt8.ofNat (((cp >>> 18) ||| 0xF0) &&& 0xFF), UInt8.ofNat (((cp >>> 12) ||| 0x80) &&& 0xBF),
          UInt8.ofNat (((cp >>> 6) ||| 0x80) &&& 0xBF), UInt8.ofNat ((cp ||| 0x80) &&& 0xBF)]
  else none

inductive URes where
  /-- bytes stored through `*output_pointer`, and the returned sequence_length (6 or 12) -/
  | ok (bytes : Bytes) (len : Nat)
  | fail
  | oob (i : Nat)
  deriving Repr, DecidableEq

def encodeRes (cp len : Nat) : URes :=
  match utf8Encode cp with
  | some bs => .ok bs len
  | none => .fail

/-- `utf16_literal_to_utf8(content + p, input_end, &out)` with `n = input_end - (content + p)`;
    `rest` is the buffer from offset `p` (the backslash) on. -/
def utf16 (p n : Nat) (rest : Bytes) : URes :=
  if n < 6 then .fail
  else
    match hex4 (p + 2) (rest.drop 2) with
    | .oob i => .oob i
    | .val first =>
      if 0xDC00 ≤ first ∧ first ≤ 0xDFFF then .fail
      else if 0xD800 ≤ first ∧ first ≤ 0xDBFF then
        if n - 6 < 6 then .fail
        else
          match rest.drop 6 with
          | [] => .oob (p + 6)
          | s0 :: r7 =>
            if s0 ≠ 0x5C then .fail
            else
              match r7 with
              | [] => .oob (p + 7)
              | s1 :: r8 =>
                if s1 ≠ 0x75 then .fail
                else
                  match hex4 (p + 8) r8 with
                  | .oob i => .oob i
                  | .val second =>
                    if second < 0xDC00 ∨ second > 0xDFFF then .fail
                    else encodeRes (0x10000 + (((first &&& 0x3FF) <<< 10) ||| (second &&& 0x3FF))) 12
      else encodeRes first 6

/-! ### parse_string -/

/-- First pass: find the closing quote.  `body` is the buffer behind the opening quote.
    Result: (number of bytes before the closing quote, skipped_bytes); `none` = goto fail
    (ran into the end, or a backslash is the last byte of the buffer). -/
def scanEnd : Bytes → Option (Nat × Nat)
  | [] => none
  | c :: r =>
    if c = 0x22 then some (0, 0)
    else if c = 0x5C then
      match r with
      | [] => none
      | _ :: r2 =>
        match scanEnd r2 with
        | some (n, s) => some (n + 2, s + 1)
        | none => none
    else
      match scanEnd r with
      | some (n, s) => some (n + 1, s)
      | none => none

/-- the one-character escapes of the second pass -/
def simpleEsc (c : UInt8) : Option UInt8 :=
  if c = 0x62 then some 0x08        -- b
  else if c = 0x66 then some 0x0C   -- f
  else if c = 0x6E then some 0x0A   -- n
  else if c = 0x72 then some 0x0D   -- r
  else if c = 0x74 then some 0x09   -- t
  else if c = 0x22 ∨ c = 0x5C ∨ c = 0x2F then some c
  else none

/-- Outcome of the second pass: the bytes stored so far (on `fail` too: they were written before
    the failure was seen) and `input_pointer`. -/
inductive SRes where
  | ok (out : Bytes)
  | fail (out : Bytes) (p : Nat)
  | oob (i : Nat)
  | nofuel
  deriving Repr, DecidableEq

def SRes.push (pre : Bytes) : SRes → SRes
  | .ok out => .ok (pre ++ out)
  | .fail out p => .fail (pre ++ out) p
  | .oob i => .oob i
  | .nofuel => .nofuel

/-- Second pass: `while (input_pointer < input_end)`, `p` = input_pointer - content,
    `n` = input_end - input_pointer (0 also stands for the "one past" the loop can reach when a
    two-byte escape straddles input_end), `rest` = the buffer from offset `p` on. -/
def unesc : Nat → Nat → Nat → Bytes → SRes
  | 0, _, _, _ => .nofuel
  | fuel + 1, p, n, rest =>
    if n = 0 then .ok []
    else
      match rest with
      | [] => .oob p
      | c :: r1 =>
        if c ≠ 0x5C then (unesc fuel (p + 1) (n - 1) r1).push [c]
        else
          match r1 with
          | [] => .oob (p + 1)
          | c1 :: r2 =>
            match simpleEsc c1 with
            | some x => (unesc fuel (p + 2) (n - 2) r2).push [x]
            | none =>
              if c1 = 0x75 then
                match utf16 p n rest with
                | .ok bytes len => (unesc fuel (p + len) (n - len) (rest.drop len)).push bytes
                | .fail => .fail [] p
                | .oob i => .oob i
              else .fail [] p

structure StrOut where
  /-- the bytes stored in the allocation before the terminating NUL -/
  written : Bytes
  /-- `allocation_length`; the allocation has `alloc + 1` bytes -/
  alloc : Nat
  deriving Repr, DecidableEq

def parseString (inp : Bytes) (b : PB) : Res StrOut :=
  match inp.drop b.off with
  | [] => .oob b.off                       -- `buffer_at_offset(input_buffer)[0] != '\"'`, no guard
  | q :: body =>
    if q ≠ 0x22 then .fail { b with off := b.off + 1 }
    else
      match scanEnd body with
      | none => .fail { b with off := b.off + 1 }
      | some (n, skipped) =>
        match unesc (n + 1) (b.off + 1) n body with
        | .ok out => .ok ⟨out, n + 1 - skipped⟩ { b with off := b.off + 1 + n + 1 }
        | .fail _ p => .fail { b with off := p }
        | .oob i => .oob i
        | .nofuel => .nofuel

/-! ### parse_number -/

def isDigit (c : UInt8) : Bool := 0x30 ≤ c ∧ c ≤ 0x39

def isNumChar (c : UInt8) : Bool :=
  isDigit c || c = 0x2B || c = 0x2D || c = 0x65 || c = 0x45 || c = 0x2E

/-- the copy loop: at most `k` bytes of the number class -/
def numScan : Nat → Bytes → Bytes
  | 0, _ => []
  | _ + 1, [] => []
  | k + 1, c :: r => if isNumChar c then c :: numScan k r else []

def digitsLen : Bytes → Nat
  | [] => 0
  | c :: r => if isDigit c then digitsLen r + 1 else 0

def signLen : Bytes → Nat
  | [] => 0
  | c :: _ => if c = 0x2B ∨ c = 0x2D then 1 else 0

/-- digits with an optional '.' : (length, number of digits) -/
def mantLen (s : Bytes) : Nat × Nat :=
  let n1 := digitsLen s
  match s.drop n1 with
  | c :: r => if c = 0x2E then (n1 + 1 + digitsLen r, n1 + digitsLen r) else (n1, n1)
  | [] => (n1, n1)

def expLen : Bytes → Nat
  | [] => 0
  | c :: r =>
    if c = 0x65 ∨ c = 0x45 then
      let k := digitsLen (r.drop (signLen r))
      if k = 0 then 0 else 1 + signLen r + k
    else 0

/-- how many bytes of a string over `[0-9+-eE.]` strtod consumes (C11 7.22.1.3: optional sign,
    non-empty digit sequence optionally containing the radix character, optional exponent part) -/
def strtodLen (s : Bytes) : Nat :=
  let sg := signLen s
  let (m, digits) := mantLen (s.drop sg)
  if digits = 0 then 0
  else sg + m + expLen (s.drop (sg + m))

def parseNumber (inp : Bytes) (b : PB) : Res Tree :=
  let s := numScan (numberBufSize - 1) (inp.drop b.off)
  let n := strtodLen s
  if n = 0 then .fail b
  else .ok (.num (s.take n)) { b with off := b.off + n }

/-! ### parse_value, parse_array, parse_object -/

def litNull : Bytes := [0x6E, 0x75, 0x6C, 0x6C]
def litFalse : Bytes := [0x66, 0x61, 0x6C, 0x73, 0x65]
def litTrue : Bytes := [0x74, 0x72, 0x75, 0x65]

/-- the loop of parse_array; `b.off` is the byte in front of the next element ('[' or ','). -/
def arrLoop (inp : Bytes) (rec : PB → Res Tree) : Nat → PB → Res (List Tree)
  | 0, _ => .nofuel
  | g + 1, b =>
    match rec (skipWs inp { b with off := b.off + 1 }) with
    | .ok t b2 =>
      let b3 := skipWs inp b2
      match inp[b3.off]? with
      | some c =>
        if c = 0x2C then (arrLoop inp rec g b3).map (t :: ·)
        else if c = 0x5D then .ok [t] b3
        else .fail b3
      | none => .fail b3
    | .fail b' => .fail b'
    | .oob i => .oob i
    | .nofuel => .nofuel

def parseArray (inp : Bytes) (rec : PB → Res Tree) (b : PB) : Res Tree :=
  if b.depth ≥ nestingLimit then .fail b
  else
    let b := { b with depth := b.depth + 1 }
    match inp[b.off]? with                -- `buffer_at_offset(input_buffer)[0] != '['`, no guard
    | none => .oob b.off
    | some c0 =>
      if c0 ≠ 0x5B then .fail b
      else
        let b := skipWs inp { b with off := b.off + 1 }
        match inp[b.off]? with
        | none => .fail { b with off := b.off - 1 }
        | some c =>
          if c = 0x5D then .ok (.arr []) { off := b.off + 1, depth := b.depth - 1 }
          else
            match arrLoop inp rec (inp.length + 1) { b with off := b.off - 1 } with
            | .ok items b' => .ok (.arr items) { off := b'.off + 1, depth := b'.depth - 1 }
            | .fail b' => .fail b'
            | .oob i => .oob i
            | .nofuel => .nofuel

/-- the loop of parse_object; `b.off` is the byte in front of the next member ('{' or ',').
    `guard` = the check `cannot_access_at_index(input_buffer, 1)` in front of the name parse. -/
def objLoop (inp : Bytes) (guard : Bool) (rec : PB → Res Tree) : Nat → PB → Res (List (Bytes × Tree))
  | 0, _ => .nofuel
  | g + 1, b =>
    if guard ∧ ¬ (b.off + 1 < inp.length) then .fail b
    else
      match parseString inp (skipWs inp { b with off := b.off + 1 }) with
      | .ok name b2 =>
        let b3 := skipWs inp b2
        match inp[b3.off]? with
        | none => .fail b3
        | some c =>
          if c ≠ 0x3A then .fail b3
          else
            match rec (skipWs inp { b3 with off := b3.off + 1 }) with
            | .ok v b5 =>
              let b6 := skipWs inp b5
              match inp[b6.off]? with
              | some c' =>
                if c' = 0x2C then (objLoop inp guard rec g b6).map ((cstr name.written, v) :: ·)
                else if c' = 0x7D then .ok [(cstr name.written, v)] b6
                else .fail b6
              | none => .fail b6
            | .fail b' => .fail b'
            | .oob i => .oob i
            | .nofuel => .nofuel
      | .fail b' => .fail b'
      | .oob i => .oob i
      | .nofuel => .nofuel

def parseObject (inp : Bytes) (guard : Bool) (rec : PB → Res Tree) (b : PB) : Res Tree :=
  if b.depth ≥ nestingLimit then .fail b
  else
    let b := { b with depth := b.depth + 1 }
    match inp[b.off]? with
    | none => .fail b
    | some c0 =>
      if c0 ≠ 0x7B then .fail b
      else
        let b := skipWs inp { b with off := b.off + 1 }
        match inp[b.off]? with
        | none => .fail { b with off := b.off - 1 }
        | some c =>
          if c = 0x7D then .ok (.obj []) { off := b.off + 1, depth := b.depth - 1 }
          else
            match objLoop inp guard rec (inp.length + 1) { b with off := b.off - 1 } with
            | .ok ms b' => .ok (.obj ms) { off := b'.off + 1, depth := b'.depth - 1 }
            | .fail b' => .fail b'
            | .oob i => .oob i
            | .nofuel => .nofuel

/-- the scalar cases of parse_value that need no recursion; `none` = go on with '[' / '{' -/
def parseScalar (inp : Bytes) (b : PB) : Option (Res Tree) :=
  match isLit inp b litNull with
  | .oob i => some (.oob i)
  | .eq => some (.ok .null { b with off := b.off + 4 })
  | .ne =>
    match isLit inp b litFalse with
    | .oob i => some (.oob i)
    | .eq => some (.ok .fls { b with off := b.off + 5 })
    | .ne =>
      match isLit inp b litTrue with
      | .oob i => some (.oob i)
      | .eq => some (.ok .tru { b with off := b.off + 4 })
      | .ne =>
        match inp[b.off]? with
        | none => some (.fail b)
        | some c =>
          if c = 0x22 then some ((parseString inp b).map (fun s => .str (cstr s.written)))
          else if c = 0x2D ∨ isDigit c then some (parseNumber inp b)
          else if c = 0x5B ∨ c = 0x7B then none
          else some (.fail b)

/-- parse_value; the fuel is the number of nested parse_value frames still allowed. -/
def parseValue (inp : Bytes) (guard : Bool) : Nat → PB → Res Tree
  | 0, _ => .nofuel
  | f + 1, b =>
    match parseScalar inp b with
    | some r => r
    | none =>
      match inp[b.off]? with
      | some c =>
        if c = 0x5B then parseArray inp (parseValue inp guard f) b
        else parseObject inp guard (parseValue inp guard f) b
      | none => .fail b

/-! ### cJSON_ParseWithLengthOpts(value, length, &end, 0) -/

/-- What the caller sees: the tree and `end - value`, or NULL and the error position. -/
inductive Outcome where
  | ok (t : Tree) (endOff : Nat)
  | fail (errPos : Nat)
  | oob (i : Nat)
  | nofuel
  deriving Repr, Inhabited

def errPos (inp : Bytes) (off : Nat) : Nat :=
  if off < inp.length then off else if inp.length > 0 then inp.length - 1 else 0

def parseRes (inp : Bytes) (guard : Bool) (fuel : Nat) : Res Tree :=
  if inp.length = 0 then .fail ⟨0, 0⟩
  else
    match skipBom inp ⟨0, 0⟩ with
    | .ok _ b1 => parseValue inp guard fuel (skipWs inp b1)
    | .fail b => .fail b
    | .oob i => .oob i
    | .nofuel => .nofuel

def parseWith (inp : Bytes) (guard : Bool) (fuel : Nat) : Outcome :=
  match parseRes inp guard fuel with
  | .ok t b => .ok t b.off
  | .fail b => .fail (errPos inp b.off)
  | .oob i => .oob i
  | .nofuel => .nofuel

/-- parse with the guard flag taken from the source tree and the fuel proved sufficient -/
def parseG (guard : Bool) (inp : Bytes) : Outcome := parseWith inp guard (nestingLimit + 1)

def parse (inp : Bytes) : Outcome := parseG objCommaGuard inp

/-! ### printer (unformatted) -/

def hexLower (n : Nat) : UInt8 := if n < 10 then UInt8.ofNat (0x30 + n) else UInt8.ofNat (0x57 + n)

/-- what print_string_ptr's second loop stores for one byte -/
def escByte (c : UInt8) : Bytes :=
  if c = 0x22 then [0x5C, 0x22]
  else if c = 0x5C then [0x5C, 0x5C]
  else if c = 0x08 then [0x5C, 0x62]
  else if c = 0x0C then [0x5C, 0x66]
  else if c = 0x0A then [0x5C, 0x6E]
  else if c = 0x0D then [0x5C, 0x72]
  else if c = 0x09 then [0x5C, 0x74]
  else if c < 32 then [0x5C, 0x75, 0x30, 0x30, hexLower (c.toNat / 16), hexLower (c.toNat % 16)]
  else [c]

/-- what print_string_ptr's first loop adds to `escape_characters` for one byte -/
def escExtra (c : UInt8) : Nat :=
  if c = 0x22 ∨ c = 0x5C ∨ c = 0x08 ∨ c = 0x0C ∨ c = 0x0A ∨ c = 0x0D ∨ c = 0x09 then 1
  else if c < 32 then 5 else 0

def escBody : Bytes → Bytes
  | [] => []
  | c :: r => escByte c ++ escBody r

def escapeChars : Bytes → Nat
  | [] => 0
  | c :: r => escExtra c + escapeChars r

/-- print_string_ptr on a C string (the bytes before the NUL) -/
def printString (s : Bytes) : Bytes := 0x22 :: (escBody s ++ [0x22])

mutual
/-- print_value, `format = false`; `num` = the text print_number produces for a number token's value -/
def printValue (num : Bytes → Bytes) : Tree → Bytes
  | .null => litNull
  | .fls => litFalse
  | .tru => litTrue
  | .num tok => num tok
  | .str s => printString s
  | .arr [] => [0x5B, 0x5D]
  | .arr (t :: ts) => 0x5B :: (printValue num t ++ printItems num ts)
  | .obj [] => [0x7B, 0x7D]
  | .obj ((k, v) :: ms) => 0x7B :: (printString k ++ 0x3A :: (printValue num v ++ printMembers num ms))
/-- the rest of an array behind an element: `,item … ]` -/
def printItems (num : Bytes → Bytes) : List Tree → Bytes
  | [] => [0x5D]
  | t :: ts => 0x2C :: (printValue num t ++ printItems num ts)
/-- the rest of an object behind a member: `,"k":v … }` -/
def printMembers (num : Bytes → Bytes) : List (Bytes × Tree) → Bytes
  | [] => [0x7D]
  | (k, v) :: ms => 0x2C :: (printString k ++ 0x3A :: (printValue num v ++ printMembers num ms))
end

/-! ### print_number (the C library as an oracle) -/

/-- The C library functions parse_number / print_number rely on, as functions on IEEE-754 images. -/
structure NumOracle where
  /-- `sprintf("%1.15g", d)` -/
  fmt15 : UInt64 → Bytes
  /-- `sprintf("%1.17g", d)` -/
  fmt17 : UInt64 → Bytes
  /-- `strtod` / `sscanf("%lg")` of a complete number text -/
  scan : Bytes → UInt64
  /-- `compare_double` (relative epsilon; only the code before the repair F65 asks it) -/
  close : UInt64 → UInt64 → Bool

/-- neither NaN nor an infinity -/
def isFinite (d : UInt64) : Bool := (d >>> 52) &&& 0x7FF != 0x7FF

/-- print_number: NaN/Inf print as `null`; otherwise the 15-digit text when it is accepted, else the 17-digit
    text.  `exact` = the acceptance test compares the re-scanned double bit for bit (repaired code). -/
def printNumber (exact : Bool) (o : NumOracle) (d : UInt64) : Bytes :=
  if !isFinite d then litNull
  else if (if exact then o.scan (o.fmt15 d) == d else o.close (o.scan (o.fmt15 d)) d) then o.fmt15 d
  else o.fmt17 d

/-- the text print_value produces for a parsed number token, by the tree under test -/
def numText (o : NumOracle) (tok : Bytes) : Bytes := printNumber printNumberExact o (o.scan tok)

/-! ### tree measures used by the theorems -/

mutual
def Tree.depth : Tree → Nat
  | .arr items => Tree.depthList items + 1
  | .obj ms => Tree.depthMembers ms + 1
  | _ => 0
def Tree.depthList : List Tree → Nat
  | [] => 0
  | t :: ts => max t.depth (Tree.depthList ts)
def Tree.depthMembers : List (Bytes × Tree) → Nat
  | [] => 0
  | (_, v) :: ms => max v.depth (Tree.depthMembers ms)
end

def nulFree (s : Bytes) : Prop := ∀ c ∈ s, c ≠ 0

/-- a complete number token: what parse_number consumes entirely -/
def NumTok (s : Bytes) : Prop :=
  s.length < numberBufSize ∧ (∀ c ∈ s, isNumChar c = true) ∧ strtodLen s = s.length ∧
    (∃ c r, s = c :: r ∧ (c = 0x2D ∨ isDigit c = true))

mutual
/-- every string and member name is a C string, every number token prints (through `num`) as a complete number token -/
def Tree.Printable (num : Bytes → Bytes) : Tree → Prop
  | .num tok => NumTok (num tok)
  | .str s => nulFree s
  | .arr items => Tree.PrintableList num items
  | .obj ms => Tree.PrintableMembers num ms
  | _ => True
def Tree.PrintableList (num : Bytes → Bytes) : List Tree → Prop
  | [] => True
  | t :: ts => t.Printable num ∧ Tree.PrintableList num ts
def Tree.PrintableMembers (num : Bytes → Bytes) : List (Bytes × Tree) → Prop
  | [] => True
  | (k, v) :: ms => nulFree k ∧ v.Printable num ∧ Tree.PrintableMembers num ms
end

mutual
/-- the tree with every number token replaced by its printed text -/
def Tree.mapNum (num : Bytes → Bytes) : Tree → Tree
  | .num tok => .num (num tok)
  | .arr items => .arr (Tree.mapNumList num items)
  | .obj ms => .obj (Tree.mapNumMembers num ms)
  | t => t
def Tree.mapNumList (num : Bytes → Bytes) : List Tree → List Tree
  | [] => []
  | t :: ts => t.mapNum num :: Tree.mapNumList num ts
def Tree.mapNumMembers (num : Bytes → Bytes) : List (Bytes × Tree) → List (Bytes × Tree)
  | [] => []
  | (k, v) :: ms => (k, v.mapNum num) :: Tree.mapNumMembers num ms
end

mutual
/-- every number token of the tree satisfies `P` -/
def Tree.AllNum (P : Bytes → Prop) : Tree → Prop
  | .num tok => P tok
  | .arr items => Tree.AllNumList P items
  | .obj ms => Tree.AllNumMembers P ms
  | _ => True
def Tree.AllNumList (P : Bytes → Prop) : List Tree → Prop
  | [] => True
  | t :: ts => t.AllNum P ∧ Tree.AllNumList P ts
def Tree.AllNumMembers (P : Bytes → Prop) : List (Bytes × Tree) → Prop
  | [] => True
  | (_, v) :: ms => v.AllNum P ∧ Tree.AllNumMembers P ms
end

mutual
def Tree.hasNum : Tree → Bool
  | .num _ => true
  | .arr items => Tree.hasNumList items
  | .obj ms => Tree.hasNumMembers ms
  | _ => false
def Tree.hasNumList : List Tree → Bool
  | [] => false
  | t :: ts => t.hasNum || Tree.hasNumList ts
def Tree.hasNumMembers : List (Bytes × Tree) → Bool
  | [] => false
  | (_, v) :: ms => v.hasNum || Tree.hasNumMembers ms
end

end Cjet.Cjson
