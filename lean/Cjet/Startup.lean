/-
  Cjet.Startup — start-up and shut-down of the I/O layer: `run_io` and everything it calls in
  /repo/src/linux/linux_io.c except the acceptance path (that is `Cjet.Accept`):

    set_fd_non_blocking, create_server_socket_all_interfaces, create_server_unix_domain_socket,
    create_server_socket_bound, start_server, start_uds_server, stop_server, stop_uds_server,
    register_signal_handler, unregister_signal_handler, drop_privileges, run_jet,
    run_io_only_local, run_io_all_interfaces, run_io.

  The kernel / libc / the event loop are a *script*: every call whose result the C code looks at takes
  the next answer of the script (an exhausted script answers `ok`).  Calls whose result is ignored
  (close, unlink, loop->remove, loop->destroy, freeaddrinfo, signal(.., SIG_DFL), destroy_all_*) take no
  answer.  Descriptors are numbered by the kernel in increasing order (`next`), never reused, so
  "closed exactly once" is a statement about numbers.

  The model produces the trace of calls (`Ev`); `Led` is the ledger a monitor keeps over such a trace
  (open listener descriptors, what they are bound to, registrations with the loop, accepted
  connections that became peers, signal dispositions, addrinfo lists, and counters of violations).
  docs/Startup.md maps every model function to the C lines.
-/
namespace Cjet.Startup

/-- one scripted answer.  Generic calls: `ok` succeeds, anything else fails.
    `getaddrinfo`: `ok` = one entry, `addrs n` = `n` entries (all of the numeric literal's own family, as
    AI_NUMERICHOST guarantees), anything else fails.  `accept`: `retry` = ECONNABORTED/EINTR, `fail` = an errno
    of the fatal class, `conn` = a connection that becomes a peer, anything else = EAGAIN-like. -/
inductive Ans where
  | ok | fail | retry | conn
  | addrs (n : Nat)
  deriving DecidableEq, Repr

inductive Sig where | term | int | pipe deriving DecidableEq, Repr
inductive Disp where | handler | ign | dfl deriving DecidableEq, Repr
inductive Fam where | inet6 | inet | unix deriving DecidableEq, Repr
inductive Kind where | jet | http deriving DecidableEq, Repr
inductive Port where | jet | ws deriving DecidableEq, Repr
inductive Node where | lo6 | lo4 deriving DecidableEq, Repr
inductive Opt where | reuse | v6only deriving DecidableEq, Repr
inductive Fc where | getfl | setfl deriving DecidableEq, Repr

/-- what a listener is bound to -/
inductive Target where
  | any (p : Port) | lo6 (p : Port) | lo4 (p : Port)
  | udsAbstract                     -- "\0" ++ UDS_FILE: the abstract name, no file-system object
  deriving DecidableEq, Repr

inductive Acc where
  | again | retry | fatal | conn (pfd : Nat)
  deriving DecidableEq, Repr

inductive Ev where
  | signal (s : Sig) (d : Disp) (ok : Bool)
  | init (ok : Bool)
  | destroy
  | gai (n : Node) (p : Port) (entries : Option Nat)
  | freeai
  | socket (f : Fam) (fd : Option Nat)
  | sockopt (fd : Nat) (o : Opt) (ok : Bool)
  | fcntl (fd : Nat) (c : Fc) (ok : Bool)
  | bind (fd : Nat) (t : Target) (ok : Bool)
  | listen (fd : Nat) (ok : Bool)
  | add (fd : Nat) (k : Kind) (ok : Bool)
  | remove (fd : Nat)
  | accept (fd : Nat) (r : Acc)
  | peer (pfd : Nat) (k : Kind)
  | close (fd : Nat)
  | unlinkUds
  | getpwnam (ok : Bool) | setgid (ok : Bool) | setuid (ok : Bool) | daemon (ok : Bool)
  | run (ok : Bool)
  | destroyPeers | destroyConns
  deriving DecidableEq, Repr

/-- interpreter state: rest of the script, next descriptor number, trace so far (oldest first),
    the static `go_ahead` -/
structure K where
  script : List Ans
  next : Nat
  tr : List Ev
  goAhead : Bool
  deriving Repr

def K.emit (k : K) (e : Ev) : K := { k with tr := k.tr ++ [e] }
def K.ans (k : K) : Ans := k.script.headD .ok
def K.adv (k : K) : K := { k with script := k.script.tail }
/-- the kernel hands out descriptor `next` -/
def K.bump (k : K) : K := { k with next := k.next + 1 }

/-- a call that succeeds or fails -/
def K.sys (k : K) (mk : Bool → Ev) : Bool × K :=
  (decide (k.ans = .ok), k.adv.emit (mk (decide (k.ans = .ok))))

/-- `socket()` -/
def openSocket (f : Fam) (k : K) : Option Nat × K :=
  if k.ans = .ok then
    (some k.next, k.adv.bump.emit (.socket f (some k.next)))
  else (none, k.adv.emit (.socket f none))

/-- set_fd_non_blocking (linux_io.c:66-81) -/
def setNonBlocking (fd : Nat) (k : K) : Bool × K :=
  if (k.sys (.fcntl fd .getfl)).1 then (k.sys (.fcntl fd .getfl)).2.sys (.fcntl fd .setfl)
  else (false, (k.sys (.fcntl fd .getfl)).2)

/-- the body shared by create_server_socket_all_interfaces (:332-372) and
    create_server_unix_domain_socket (:374-418): socket, SO_REUSEADDR, non-blocking, bind, listen;
    every failure after `socket` does `goto error` = `close(listen_fd); return -1` -/
def createPlain (f : Fam) (t : Target) (k : K) : Option Nat × K :=
  match (openSocket f k).1 with
  | none => (none, (openSocket f k).2)
  | some fd =>
    let k1 := (openSocket f k).2
    let r2 := k1.sys (.sockopt fd .reuse)
    if r2.1 = false then (none, r2.2.emit (.close fd)) else
    let r3 := setNonBlocking fd r2.2
    if r3.1 = false then (none, r3.2.emit (.close fd)) else
    let r4 := r3.2.sys (.bind fd t)
    if r4.1 = false then (none, r4.2.emit (.close fd)) else
    let r5 := r4.2.sys (.listen fd)
    if r5.1 = false then (none, r5.2.emit (.close fd)) else
    (some fd, r5.2)

def createAll (p : Port) : K → Option Nat × K := createPlain .inet6 (.any p)
def createUds : K → Option Nat × K := createPlain .unix .udsAbstract

/-- the `for (rp = servinfo; …)` loop of create_server_socket_bound (:464-498) over `n` entries of
    family `v6`.  Result: the variable `listen_fd` (`none` = -1; it may name a descriptor that was
    closed again), `rp != NULL`, state. -/
def boundLoop (v6 : Bool) (p : Port) : Nat → Option Nat → K → Option Nat × Bool × K
  | 0, last, k => (last, false, k)
  | n + 1, _, k =>
    match (openSocket (if v6 then .inet6 else .inet) k).1 with
    | none => boundLoop v6 p n none (openSocket (if v6 then .inet6 else .inet) k).2
    | some fd =>
      let k1 := (openSocket (if v6 then .inet6 else .inet) k).2
      let r := k1.sys (.sockopt fd .reuse)
      if r.1 = false then boundLoop v6 p n (some fd) (r.2.emit (.close fd)) else
      let r6 := if v6 then r.2.sys (.sockopt fd .v6only) else (true, r.2)
      if r6.1 = false then boundLoop v6 p n (some fd) (r6.2.emit (.close fd)) else
      let r3 := setNonBlocking fd r6.2
      if r3.1 = false then boundLoop v6 p n (some fd) (r3.2.emit (.close fd)) else
      let r4 := r3.2.sys (.bind fd (if v6 then .lo6 p else .lo4 p))
      if r4.1 = true then (some fd, true, r4.2)
      else boundLoop v6 p n (some fd) (r4.2.emit (.close fd))

/-- the number of addrinfo entries `getaddrinfo` answers with -/
def gaiEntries : Ans → Option Nat
  | .ok => some 1
  | .addrs n => some n
  | _ => none

/-- create_server_socket_bound (:443-514) -/
def createBound (n : Node) (p : Port) (k : K) : Option Nat × K :=
  match gaiEntries k.ans with
  | none => (none, k.adv.emit (.gai n p none))
  | some cnt =>
    let l := boundLoop (decide (n = .lo6)) p cnt none (k.adv.emit (.gai n p (some cnt)))
    let k2 := l.2.2.emit .freeai
    match l.1, l.2.1 with
    | some fd, true =>
      let r := k2.sys (.listen fd)
      if r.1 = false then (none, r.2.emit (.close fd)) else (some fd, r.2)
    | _, _ => (none, k2)

/-- accept_common (:255-294) during the first pass of start_server, over the script.
    A connection goes through handle_new_jet_connection / handle_http (modelled in `Cjet.Accept`);
    here every such connection becomes a peer owning a fresh descriptor. -/
def acceptLoop (fd : Nat) (kind : Kind) : List Ans → Nat → List Ev → Bool × List Ans × Nat × List Ev
  | [], nx, tr => (true, [], nx, tr ++ [.accept fd .again])
  | .retry :: rest, nx, tr => acceptLoop fd kind rest nx (tr ++ [.accept fd .retry])
  | .fail :: rest, nx, tr => (false, rest, nx, tr ++ [.accept fd .fatal])
  | .conn :: rest, nx, tr =>
    acceptLoop fd kind rest (nx + 1) (tr ++ [.accept fd (.conn nx), .peer nx kind])
  | .ok :: rest, nx, tr => (true, rest, nx, tr ++ [.accept fd .again])
  | .addrs _ :: rest, nx, tr => (true, rest, nx, tr ++ [.accept fd .again])

def acceptPass (fd : Nat) (kind : Kind) (k : K) : Bool × K :=
  ((acceptLoop fd kind k.script k.next k.tr).1,
   { k with script := (acceptLoop fd kind k.script k.next k.tr).2.1,
            next := (acceptLoop fd kind k.script k.next k.tr).2.2.1,
            tr := (acceptLoop fd kind k.script k.next k.tr).2.2.2 })

/-- start_server (:318-330) -/
def startServer (fd : Nat) (kind : Kind) (k : K) : Bool × K :=
  if (k.sys (.add fd kind)).1 = false then (false, (k.sys (.add fd kind)).2) else
  if (acceptPass fd kind (k.sys (.add fd kind)).2).1 then (true, (acceptPass fd kind (k.sys (.add fd kind)).2).2)
  else (false, (acceptPass fd kind (k.sys (.add fd kind)).2).2.emit (.remove fd))

/-- the listeners of the two configurations, in start order -/
inductive LSpec where
  | bound (n : Node) (p : Port) (kind : Kind)
  | all (p : Port) (kind : Kind)
  | uds
  deriving DecidableEq, Repr

def LSpec.kind : LSpec → Kind
  | .bound _ _ k => k
  | .all _ k => k
  | .uds => .jet

def LSpec.target : LSpec → Target
  | .bound .lo6 p _ => .lo6 p
  | .bound .lo4 p _ => .lo4 p
  | .all p _ => .any p
  | .uds => .udsAbstract

def LSpec.create : LSpec → K → Option Nat × K
  | .bound n p _ => createBound n p
  | .all p _ => createAll p
  | .uds => createUds

/-- run_io_only_local (:598-705): ::1 jet, 127.0.0.1 jet, ::1 websocket, 127.0.0.1 websocket, unix -/
def listenersLocal : List LSpec :=
  [.bound .lo6 .jet .jet, .bound .lo4 .jet .jet, .bound .lo6 .ws .http, .bound .lo4 .ws .http, .uds]

/-- run_io_all_interfaces (:707-765) -/
def listenersAll : List LSpec := [.all .jet .jet, .all .ws .http, .uds]

/-- one listener: create the socket, start_server, and `close(fd)` when start_server fails
    (:603-618, :621-638, …, and start_uds_server :420-439) -/
def startListener (l : LSpec) (k : K) : Option Nat × K :=
  match (l.create k).1 with
  | none => (none, (l.create k).2)
  | some fd =>
    if (startServer fd l.kind (l.create k).2).1 then (some fd, (startServer fd l.kind (l.create k).2).2)
    else (none, (startServer fd l.kind (l.create k).2).2.emit (.close fd))

/-- stop_server (:516-520) / stop_uds_server (:522-527) -/
def stopListener (l : LSpec) (fd : Nat) (k : K) : K :=
  if l = .uds then ((k.emit (.remove fd)).emit (.close fd)).emit .unlinkUds
  else (k.emit (.remove fd)).emit (.close fd)

/-- the listeners are started in order; the first failure ends the phase.
    `acc`: listeners started so far, newest first. -/
def startAll : List LSpec → K → List (LSpec × Nat) → List (LSpec × Nat) × Bool × K
  | [], k, acc => (acc, true, k)
  | l :: ls, k, acc =>
    match (startListener l k).1 with
    | none => (acc, false, (startListener l k).2)
    | some fd => startAll ls (startListener l k).2 ((l, fd) :: acc)

/-- the fall-through chain of labels: stop what was started, newest first -/
def stopAll : List (LSpec × Nat) → K → K
  | [], k => k
  | (l, fd) :: rest, k => stopAll rest (stopListener l fd k)

/-- which version of two code paths is modelled.  `asIs` is linux_io.c as committed; the two flags are the
    candidate repairs /verif/fixes/Fstartup-1.diff and Fstartup-2.diff (the tie determines by a probe run which
    version the tree under test has). -/
structure Code where
  destroyAtEnd : Bool        -- run_io calls destroy_all_peers / destroy_all_http_connections before loop->destroy
  restoreOnPipeFail : Bool   -- register_signal_handler resets SIGINT / SIGTERM when ignoring SIGPIPE fails
  deriving DecidableEq, Repr

def Code.asIs : Code := ⟨false, false⟩
def Code.repaired : Code := ⟨true, true⟩

structure Cfg where
  localOnly : Bool
  user : Bool          -- config->user_name != NULL
  foreground : Bool
  code : Code
  deriving DecidableEq, Repr

def listeners (c : Cfg) : List LSpec := if c.localOnly then listenersLocal else listenersAll

/-- register_signal_handler (:536-552) -/
def registerSignals (restore : Bool) (k : K) : Bool × K :=
  let r1 := k.sys (.signal .term .handler)
  if r1.1 = false then (false, r1.2) else
  let r2 := r1.2.sys (.signal .int .handler)
  if r2.1 = false then (false, r2.2.emit (.signal .term .dfl true)) else
  let r3 := r2.2.sys (.signal .pipe .ign)
  if r3.1 = false then
    (false, if restore then (r3.2.emit (.signal .int .dfl true)).emit (.signal .term .dfl true) else r3.2)
  else (true, r3.2)

/-- unregister_signal_handler (:554-558) -/
def unregisterSignals (k : K) : K :=
  (k.emit (.signal .int .dfl true)).emit (.signal .term .dfl true)

/-- drop_privileges (:560-576) -/
def dropPrivileges (k : K) : Bool × K :=
  let r1 := k.sys .getpwnam
  if r1.1 = false then (false, r1.2) else
  let r2 := r1.2.sys .setgid
  if r2.1 = false then (false, r2.2) else
  r2.2.sys .setuid

/-- how far run_jet got -/
inductive JetEnd where
  | privFailed | daemonFailed | ran (ok : Bool)
  deriving DecidableEq, Repr

/-- run_jet (:578-596) -/
def runJet (c : Cfg) (k : K) : JetEnd × K :=
  let p := if c.user then dropPrivileges k else (true, k)
  if p.1 = false then (.privFailed, p.2) else
  let d := if c.foreground then (true, p.2) else p.2.sys .daemon
  if d.1 = false then (.daemonFailed, d.2) else
  let r := d.2.sys .run
  (.ran r.1, (r.2.emit .destroyPeers).emit .destroyConns)

def JetEnd.ret : JetEnd → Int
  | .ran true => 0
  | _ => -1

/-- where run_io_only_local / run_io_all_interfaces ended (ghost result) -/
inductive StackEnd where
  | startFailed (started : Nat)       -- listener number `started` (0-based) could not be started
  | jet (e : JetEnd)
  deriving DecidableEq, Repr

def StackEnd.ret : StackEnd → Int
  | .startFailed _ => -1
  | .jet e => e.ret

/-- the state when all listeners are up (before run_jet), or where the phase failed -/
def startPhase (ls : List LSpec) (k : K) : List (LSpec × Nat) × Bool × K := startAll ls k []

/-- run_io_only_local / run_io_all_interfaces -/
def runServers (c : Cfg) (ls : List LSpec) (k : K) : StackEnd × K :=
  let s := startPhase ls k
  if s.2.1 then
    let j := runJet c s.2.2
    (.jet j.1, stopAll s.1 j.2)
  else (.startFailed s.1.length, stopAll s.1 s.2.2)

/-- where run_io ended (ghost result) -/
inductive IoEnd where
  | signalFailed | initFailed
  | servers (e : StackEnd)
  deriving DecidableEq, Repr

def IoEnd.ret : IoEnd → Int
  | .servers e => e.ret
  | _ => -1

/-- the end of run_io: (repaired code: destroy what the first accept passes created,) destroy the loop,
    reset the handlers -/
def finish (c : Cfg) (k : K) : K :=
  unregisterSignals ((if c.code.destroyAtEnd then (k.emit .destroyPeers).emit .destroyConns else k).emit .destroy)

/-- run_io (:767-803) -/
def runIo (c : Cfg) (k : K) : IoEnd × K :=
  let s := registerSignals c.code.restoreOnPipeFail k
  if s.1 = false then (.signalFailed, s.2) else
  let i := s.2.sys .init
  if i.1 = false then (.initFailed, unregisterSignals { i.2 with goAhead := false }) else
  let r := runServers c (listeners c) i.2
  (.servers r.1, finish c r.2)

/-- run_io up to the point where every listener is up (or one failed): signal handlers, loop init, the
    start phase.  `none`: signal registration or loop init failed. -/
def bootPhase (c : Cfg) (k : K) : Option (List (LSpec × Nat) × Bool × K) :=
  if (registerSignals c.code.restoreOnPipeFail k).1 = false then none else
  if ((registerSignals c.code.restoreOnPipeFail k).2.sys .init).1 = false then none else
  some (startPhase (listeners c) ((registerSignals c.code.restoreOnPipeFail k).2.sys .init).2)

/-- first descriptor number the scripted kernel hands out -/
def firstFd : Nat := 10

def K.start (script : List Ans) : K := ⟨script, firstFd, [], true⟩

def run (c : Cfg) (script : List Ans) : IoEnd × K := runIo c (K.start script)

/-! ## the ledger (reference monitor over a trace) -/

structure Led where
  opn : List Nat := []                 -- listener descriptors that are open
  bnd : List (Nat × Target) := []       -- … successfully bound to
  lis : List Nat := []                  -- … listening
  reg : List (Nat × Kind) := []         -- registered with the event loop, with the accept function
  peers : List (Nat × Kind) := []       -- accepted connections that became peers and were not destroyed
  term : Disp := .dfl
  int : Disp := .dfl
  pipe : Disp := .dfl
  loopUp : Bool := false
  ai : Nat := 0                         -- addrinfo lists not yet freed
  unlinks : Nat := 0                    -- unlink(UDS_FILE) calls
  dbl : Nat := 0                        -- close of a descriptor that is not open (double close, never opened)
  early : Nat := 0                      -- close of a descriptor that is still registered with the loop
  misuse : Nat := 0                     -- system call on a descriptor that is not open; number handed out twice; stray freeaddrinfo
  regbad : Nat := 0                     -- add of a closed / already registered descriptor or without a loop; remove of an unregistered one; destroy with registrations
  deriving DecidableEq, Repr

def Led.use (L : Led) (fd : Nat) : Led :=
  if fd ∈ L.opn then L else { L with misuse := L.misuse + 1 }

def Led.setSig (L : Led) : Sig → Disp → Led
  | .term, d => { L with term := d }
  | .int, d => { L with int := d }
  | .pipe, d => { L with pipe := d }

def step (L : Led) : Ev → Led
  | .signal s d ok => if ok then L.setSig s d else L
  | .init ok => { L with loopUp := ok }
  | .destroy =>
    if L.reg = [] then { L with loopUp := false } else { L with loopUp := false, regbad := L.regbad + 1 }
  | .gai _ _ e => if e.isSome then { L with ai := L.ai + 1 } else L
  | .freeai => if L.ai = 0 then { L with misuse := L.misuse + 1 } else { L with ai := L.ai - 1 }
  | .socket _ none => L
  | .socket _ (some fd) =>
    if fd ∈ L.opn then { L with misuse := L.misuse + 1 } else { L with opn := fd :: L.opn }
  | .sockopt fd _ _ => L.use fd
  | .fcntl fd _ _ => L.use fd
  | .bind fd t ok =>
    if fd ∈ L.opn then (if ok then { L with bnd := (fd, t) :: L.bnd } else L)
    else { L with misuse := L.misuse + 1 }
  | .listen fd ok =>
    if fd ∈ L.opn then (if ok then { L with lis := fd :: L.lis } else L)
    else { L with misuse := L.misuse + 1 }
  | .add fd k ok =>
    if fd ∈ L.opn ∧ fd ∉ L.reg.map (·.1) ∧ L.loopUp = true then
      (if ok then { L with reg := (fd, k) :: L.reg } else L)
    else { L with regbad := L.regbad + 1 }
  | .remove fd =>
    if fd ∈ L.reg.map (·.1) then { L with reg := L.reg.filter (fun p => p.1 ≠ fd) }
    else { L with regbad := L.regbad + 1 }
  | .accept fd _ => L.use fd
  | .peer pfd k =>
    if pfd ∈ L.opn ∨ pfd ∈ L.peers.map (·.1) then { L with misuse := L.misuse + 1 }
    else { L with peers := (pfd, k) :: L.peers }
  | .close fd =>
    if fd ∈ L.opn then
      { L with opn := L.opn.filter (fun x => x ≠ fd), bnd := L.bnd.filter (fun p => p.1 ≠ fd),
               lis := L.lis.filter (fun x => x ≠ fd),
               early := if fd ∈ L.reg.map (·.1) then L.early + 1 else L.early }
    else { L with dbl := L.dbl + 1 }
  | .unlinkUds => { L with unlinks := L.unlinks + 1 }
  | .getpwnam _ => L
  | .setgid _ => L
  | .setuid _ => L
  | .daemon _ => L
  | .run _ => L
  | .destroyPeers => { L with peers := L.peers.filter (fun p => p.2 ≠ .jet) }
  | .destroyConns => { L with peers := L.peers.filter (fun p => p.2 ≠ .http) }

/-- no connection was accepted (and made a peer) in this trace -/
def noPeerAccepted (tr : List Ev) : Bool :=
  tr.all (fun e => match e with | .peer _ _ => false | _ => true)

def ledOf (tr : List Ev) : Led := tr.foldl step {}

def K.led (k : K) : Led := ledOf k.tr

/-! ## second monitor: steps that fail for good

A failing `socket` / `setsockopt` / `fcntl` / `bind` inside create_server_socket_bound's loop over the
addresses getaddrinfo returned is not an error by itself: the next address is tried.  It counts only when no
address of that list could be bound.  Everything else that fails counts. -/

structure HF where
  win : Option Bool := none       -- inside a getaddrinfo … freeaddrinfo window: has an address been bound?
  hard : Nat := 0
  deriving DecidableEq, Repr

/-- failures of the per-address steps -/
def Ev.perAddress : Ev → Bool
  | .socket _ none => true
  | .sockopt _ _ false => true
  | .fcntl _ _ false => true
  | .bind _ _ false => true
  | _ => false

/-- failures of every other step -/
def Ev.failedHard : Ev → Bool
  | .signal _ _ false => true
  | .init false => true
  | .gai _ _ none => true
  | .listen _ false => true
  | .add _ _ false => true
  | .accept _ .fatal => true
  | .getpwnam false => true
  | .setgid false => true
  | .setuid false => true
  | .daemon false => true
  | .run false => true
  | _ => false

def hfStep (s : HF) (e : Ev) : HF :=
  match e with
  | .gai _ _ (some _) => { s with win := some false }
  | .freeai => { win := none, hard := if s.win = some false then s.hard + 1 else s.hard }
  | .bind _ _ true => { s with win := s.win.map (fun _ => true) }
  | e =>
    if e.failedHard then { s with hard := s.hard + 1 }
    else if e.perAddress ∧ s.win = none then { s with hard := s.hard + 1 }
    else s

/-- number of steps of a trace that failed for good -/
def hardFailures (tr : List Ev) : Nat := (tr.foldl hfStep {}).hard

end Cjet.Startup
