/-
  Cjet.Utf8 — executable model of /repo/src/utf8_checker.c (property C18).

  * `Checker`      = struct cjet_utf8_checker { start_byte, length, next_byte }
  * `isByteValid`  = static is_byte_valid(), transcribed branch for branch
  * `textSeq`, `byteSeq`, `word32Seq`, `word64Seq`, `autoAligned` = the five public entry points
    (cjet_is_text_valid, cjet_is_byte_sequence_valid, cjet_is_word_sequence_valid,
     cjet_is_word64_sequence_valid, cjet_is_word_sequence_valid_auto_alligned)
  * `fastSkip32`, `fastSkip64` = the `continue` conditions of the word fast paths with the exact
    mask/compare logic (masks from Cjet.Generated.Utf8, regenerated from the source on every run)
  * `wellFormed`   = the specification, written from the ABNF of RFC 3629 §4.

  Every entry point returns `(verdict, checker afterwards)`.
-/
import Cjet.Basic
import Cjet.Generated.Utf8

namespace Cjet.Utf8
open Cjet.Generated.Utf8

/-- `struct cjet_utf8_checker`. -/
structure Checker where
  start : UInt8
  length : UInt8
  next : UInt8
deriving DecidableEq, Repr, Inhabited

/-- `cjet_init_checker`. -/
def init : Checker := ⟨ucFinish, 1, 1⟩

/-- `(byte & 0xC0) != 0x80` -/
@[inline] def notCont (byte : UInt8) : Bool := (byte &&& 0xC0) != 0x80

/-- `case 2:` of `is_byte_valid`: the value of `ret` after the continuation test and the
    `switch (c->start_byte)` with its four restricted second-byte ranges. -/
def secondRet (start byte : UInt8) : Bool :=
  let ret := if notCont byte then false else true
  if start == 0xE0 then (if byte < 0xA0 || byte > 0xBF then false else ret)
  else if start == 0xED then (if byte < 0x80 || byte > 0x9F then false else ret)
  else if start == 0xF0 then (if byte < 0x90 || byte > 0xBF then false else ret)
  else if start == 0xF4 then (if byte < 0x80 || byte > 0x8F then false else ret)
  else ret

/-- The `switch (c->next_byte)` of `is_byte_valid`: `(ret, finished, checker with the fields the
    case body wrote)`. -/
def switchNext (c : Checker) (byte : UInt8) : Bool × Bool × Checker :=
  if c.next == 1 then
    let c := { c with start := byte }
    if byte ≤ 0x7F then (true, true, c)
    else if byte ≤ 0xC1 then (false, false, c)
    else if byte ≤ 0xDF then (true, false, { c with length := 2 })
    else if byte ≤ 0xEF then (true, false, { c with length := 3 })
    else if byte ≤ 0xF4 then (true, false, { c with length := 4 })
    else (false, false, c)
  else if c.next == 2 then
    (secondRet c.start byte, c.length == 2, c)
  else if c.next == 3 then
    if notCont byte then (false, true, c) else (true, c.length == 3, c)
  else if c.next == 4 then
    ((if notCont byte then false else true), true, c)
  else
    (false, false, c)

/-- `static bool is_byte_valid(struct cjet_utf8_checker *c, uint8_t byte)`. -/
def isByteValid (c : Checker) (byte : UInt8) : Bool × Checker :=
  match switchNext c byte with
  | (ret, finished, c1) =>
    if finished || !ret then (ret, ⟨ucFinish, 1, 1⟩)
    else (ret, { c1 with next := c1.next + 1 })

/-- The `for` loop shared by all entry points: feed bytes, `return false` at the first rejected one. -/
def runBytes (c : Checker) : List UInt8 → Bool × Checker
  | [] => (true, c)
  | b :: bs =>
    match isByteValid c b with
    | (true, c') => runBytes c' bs
    | (false, c') => (false, c')

/-- `cjet_is_byte_sequence_valid`. -/
def byteSeq (c : Checker) (bs : List UInt8) (complete : Bool) : Bool × Checker :=
  match runBytes c bs with
  | (false, c') => (false, c')
  | (true, c') => if complete && c'.start != ucFinish then (false, init) else (true, c')

/-- `cjet_is_text_valid` (same loop; an incomplete tail is rejected without re-initialising). -/
def textSeq (c : Checker) (bs : List UInt8) (complete : Bool) : Bool × Checker :=
  match runBytes c bs with
  | (false, c') => (false, c')
  | (true, c') => if complete && c'.start != ucFinish then (false, c') else (true, c')

/-! ### 32-bit fast path -/

/-- `tmp = tmp >> j * 8; tmp &= 0xFF; (uint8_t) tmp` -/
@[inline] def byteAt32 (w : UInt32) (j : UInt32) : UInt8 := ((w >>> (j * 8)) &&& 0xFF).toUInt8

/-- The four bytes the inner `for (j = 0; j < sizeof(tmp); j++)` loop feeds, in that order. -/
def bytes32 (w : UInt32) : List UInt8 := [byteAt32 w 0, byteAt32 w 1, byteAt32 w 2, byteAt32 w 3]

/-- The five `continue` conditions of `cjet_is_word_sequence_valid` (code after the F22 fix:
    the FAST_ZONE24 shortcut compares each lead-byte field on its own). -/
def fastSkip32 (tmp : UInt32) : Bool :=
  (tmp &&& fastZone1) == 0
  || ((tmp &&& fastZone21) == 0x80C0 && decide ((tmp &&& 0x1F) > 0x01))
  || ((tmp &&& fastZone22) == 0x80C000 && decide ((tmp &&& 0x1F00) > 0x0100))
  || ((tmp &&& fastZone23) == 0x80C00000 && decide ((tmp &&& 0x1F0000) > 0x010000))
  || ((tmp &&& fastZone24) == 0x80C080C0 && decide ((tmp &&& 0x1F) > 0x01)
        && decide ((tmp &&& 0x1F0000) > 0x010000))

/-- The FAST_ZONE24 shortcut as it was before the F22 fix (one packed comparison). -/
def fastSkip32Old (tmp : UInt32) : Bool :=
  (tmp &&& fastZone1) == 0
  || ((tmp &&& fastZone21) == 0x80C0 && decide ((tmp &&& 0x1F) > 0x01))
  || ((tmp &&& fastZone22) == 0x80C000 && decide ((tmp &&& 0x1F00) > 0x0100))
  || ((tmp &&& fastZone23) == 0x80C00000 && decide ((tmp &&& 0x1F0000) > 0x010000))
  || ((tmp &&& fastZone24) == 0x80C080C0 && decide ((tmp &&& 0x1F001F) > 0x010001))

/-- Outer loop of the word entry points, generic in the word type: `skip` is the fast-path
    predicate, `bytesOf` the bytes of a word in the order the inner loop feeds them. -/
def wordLoop {W : Type} (skip : W → Bool) (bytesOf : W → List UInt8) (c : Checker) :
    List W → Bool × Checker
  | [] => (true, c)
  | w :: ws =>
    if c.next == 1 && skip w then wordLoop skip bytesOf c ws
    else
      match runBytes c (bytesOf w) with
      | (true, c') => wordLoop skip bytesOf c' ws
      | (false, c') => (false, c')

/-- The `if (is_complete)` epilogue of the byte/word entry points. -/
def finish (r : Bool × Checker) (complete : Bool) : Bool × Checker :=
  match r with
  | (false, c') => (false, c')
  | (true, c') => if complete && c'.start != ucFinish then (false, init) else (true, c')

/-- `cjet_is_word_sequence_valid`. -/
def word32Seq (c : Checker) (ws : List UInt32) (complete : Bool) : Bool × Checker :=
  finish (wordLoop fastSkip32 bytes32 c ws) complete

/-- `cjet_is_word_sequence_valid` before the F22 fix. -/
def word32SeqOld (c : Checker) (ws : List UInt32) (complete : Bool) : Bool × Checker :=
  finish (wordLoop fastSkip32Old bytes32 c ws) complete

/-! ### 64-bit fast path -/

@[inline] def byteAt64 (w : UInt64) (j : UInt64) : UInt8 := ((w >>> (j * 8)) &&& 0xFF).toUInt8

def bytes64 (w : UInt64) : List UInt8 :=
  [byteAt64 w 0, byteAt64 w 1, byteAt64 w 2, byteAt64 w 3,
   byteAt64 w 4, byteAt64 w 5, byteAt64 w 6, byteAt64 w 7]

/-- The two `continue` conditions of `cjet_is_word64_sequence_valid` (after the F22 fix). -/
def fastSkip64 (tmp : UInt64) : Bool :=
  (tmp &&& fastZone1_64) == 0
  || ((tmp &&& fastZone2_64) == 0x80C080C080C080C0
        && decide ((tmp &&& 0x1F) > 0x01) && decide ((tmp &&& 0x1F0000) > 0x010000)
        && decide ((tmp &&& 0x1F00000000) > 0x0100000000)
        && decide ((tmp &&& 0x1F000000000000) > 0x01000000000000))

/-- Before the F22 fix. -/
def fastSkip64Old (tmp : UInt64) : Bool :=
  (tmp &&& fastZone1_64) == 0
  || ((tmp &&& fastZone2_64) == 0x80C080C080C080C0
        && decide ((tmp &&& 0x001F001F001F001F) > 0x0001000100010001))

/-- `cjet_is_word64_sequence_valid`. -/
def word64Seq (c : Checker) (ws : List UInt64) (complete : Bool) : Bool × Checker :=
  finish (wordLoop fastSkip64 bytes64 c ws) complete

def word64SeqOld (c : Checker) (ws : List UInt64) (complete : Bool) : Bool × Checker :=
  finish (wordLoop fastSkip64Old bytes64 c ws) complete

/-! ### Memory: what a little-endian host loads from an aligned word pointer -/

/-- `*(const uint32_t *)p` for memory bytes `b0 b1 b2 b3` at `p` (little-endian host). -/
def le32 (b0 b1 b2 b3 : UInt8) : UInt32 :=
  UInt32.ofNat (b0.toNat + 256 * b1.toNat + 65536 * b2.toNat + 16777216 * b3.toNat)

/-- `*(const uint64_t *)p` for the eight memory bytes at `p` (little-endian host). -/
def le64 (b0 b1 b2 b3 b4 b5 b6 b7 : UInt8) : UInt64 :=
  UInt64.ofNat (b0.toNat + 256 * b1.toNat + 65536 * b2.toNat + 16777216 * b3.toNat
    + 4294967296 * b4.toNat + 1099511627776 * b5.toNat + 281474976710656 * b6.toNat
    + 72057594037927936 * b7.toNat)

/-- The words of a byte array (whole words only; a shorter tail is not read). -/
def words32 : List UInt8 → List UInt32
  | b0 :: b1 :: b2 :: b3 :: rest => le32 b0 b1 b2 b3 :: words32 rest
  | _ => []

def words64 : List UInt8 → List UInt64
  | b0 :: b1 :: b2 :: b3 :: b4 :: b5 :: b6 :: b7 :: rest =>
    le64 b0 b1 b2 b3 b4 b5 b6 b7 :: words64 rest
  | _ => []

/-! ### Auto-aligned front end -/

/-- `case 8:` of the auto-aligned front end: bytes up to the next 8-byte boundary (all 8 when the
    pointer is already aligned), whole 64-bit words, remaining bytes.  The three calls are made
    unconditionally and their results and-ed, exactly as in the C code (`ret = …; ret &= …;
    ret &= …`).  `size_t` subtraction cannot wrap: this case is entered only with
    `byte_length ≥ 8 ≥ pre_length`. -/
def autoWords64 (addr : Nat) (c : Checker) (bs : List UInt8) : Bool × Checker :=
  let preLength := 8 - addr % 8
  let mainLength := (bs.length - preLength) >>> 3
  let r1 := byteSeq c (bs.take preLength) false
  let r2 := word64Seq r1.2 (words64 ((bs.drop preLength).take (mainLength <<< 3))) false
  let r3 := byteSeq r2.2 (bs.drop (preLength + (mainLength <<< 3))) false
  (r1.1 && r2.1 && r3.1, r3.2)

/-- `case 4:` of the auto-aligned front end. -/
def autoWords32 (addr : Nat) (c : Checker) (bs : List UInt8) : Bool × Checker :=
  let preLength := 4 - addr % 4
  let mainLength := (bs.length - preLength) >>> 2
  let r1 := byteSeq c (bs.take preLength) false
  let r2 := word32Seq r1.2 (words32 ((bs.drop preLength).take (mainLength <<< 2))) false
  let r3 := byteSeq r2.2 (bs.drop (preLength + (mainLength <<< 2))) false
  (r1.1 && r2.1 && r3.1, r3.2)

/-- `switch (bytewidth)` of the auto-aligned front end. -/
def autoSwitch (bytewidth addr : Nat) (c : Checker) (bs : List UInt8) (complete : Bool) :
    Bool × Checker :=
  if bytewidth == 8 then autoWords64 addr c bs
  else if bytewidth == 4 then autoWords32 addr c bs
  else byteSeq c bs complete

/-- The `if (is_complete)` epilogue of the auto-aligned front end. -/
def autoEpilogue (r : Bool × Checker) (complete : Bool) : Bool × Checker :=
  if complete && r.2.start != ucFinish then (false, init) else r

/-- `cjet_is_word_sequence_valid_auto_alligned`.
    `width` = `sizeof(uint_fast16_t)` of the platform (8 on x86-64 glibc), `addr` = the numeric value
    of `sequence` (only `addr % 8` resp. `addr % 4` matters), `bs` = the `byte_length` bytes there. -/
def autoAligned (width : Nat) (addr : Nat) (c : Checker) (bs : List UInt8) (complete : Bool) :
    Bool × Checker :=
  let bytewidth := if bs.length < 8 then 1 else width
  autoEpilogue (autoSwitch bytewidth addr c bs complete) complete

/-- `case 8:` over the pre-fix 64-bit word path (used for the F22 counterexample). -/
def autoWords64Old (addr : Nat) (c : Checker) (bs : List UInt8) : Bool × Checker :=
  let preLength := 8 - addr % 8
  let mainLength := (bs.length - preLength) >>> 3
  let r1 := byteSeq c (bs.take preLength) false
  let r2 := word64SeqOld r1.2 (words64 ((bs.drop preLength).take (mainLength <<< 3))) false
  let r3 := byteSeq r2.2 (bs.drop (preLength + (mainLength <<< 3))) false
  (r1.1 && r2.1 && r3.1, r3.2)

/-- The front end (width 8) over the pre-fix word path. -/
def autoAlignedOld (addr : Nat) (c : Checker) (bs : List UInt8) (complete : Bool) : Bool × Checker :=
  autoEpilogue (if bs.length < 8 then byteSeq c bs complete else autoWords64Old addr c bs) complete

/-! ### Specification: RFC 3629 §4

```
UTF8-octets = *( UTF8-char )
UTF8-char   = UTF8-1 / UTF8-2 / UTF8-3 / UTF8-4
UTF8-1      = %x00-7F
UTF8-2      = %xC2-DF UTF8-tail
UTF8-3      = %xE0 %xA0-BF UTF8-tail / %xE1-EC 2( UTF8-tail ) /
              %xED %x80-9F UTF8-tail / %xEE-EF 2( UTF8-tail )
UTF8-4      = %xF0 %x90-BF 2( UTF8-tail ) / %xF1-F3 3( UTF8-tail ) /
              %xF4 %x80-8F 2( UTF8-tail )
UTF8-tail   = %x80-BF
```
-/

/-- `%xLO-HI` -/
@[inline] def inRange (lo hi b : UInt8) : Bool := decide (lo ≤ b) && decide (b ≤ hi)

def utf8Tail (b : UInt8) : Bool := inRange 0x80 0xBF b

def utf8_1 (b0 : UInt8) : Bool := inRange 0x00 0x7F b0

def utf8_2 (b0 b1 : UInt8) : Bool := inRange 0xC2 0xDF b0 && utf8Tail b1

def utf8_3 (b0 b1 b2 : UInt8) : Bool :=
  (b0 == 0xE0 && inRange 0xA0 0xBF b1 && utf8Tail b2)
  || (inRange 0xE1 0xEC b0 && utf8Tail b1 && utf8Tail b2)
  || (b0 == 0xED && inRange 0x80 0x9F b1 && utf8Tail b2)
  || (inRange 0xEE 0xEF b0 && utf8Tail b1 && utf8Tail b2)

def utf8_4 (b0 b1 b2 b3 : UInt8) : Bool :=
  (b0 == 0xF0 && inRange 0x90 0xBF b1 && utf8Tail b2 && utf8Tail b3)
  || (inRange 0xF1 0xF3 b0 && utf8Tail b1 && utf8Tail b2 && utf8Tail b3)
  || (b0 == 0xF4 && inRange 0x80 0x8F b1 && utf8Tail b2 && utf8Tail b3)

/-- `UTF8-octets = *( UTF8-char )`: the text is a concatenation of UTF8-1 … UTF8-4 characters. -/
def wellFormed : List UInt8 → Bool
  | [] => true
  | b0 :: rest =>
    (utf8_1 b0 && wellFormed rest) ||
    (match rest with
     | [] => false
     | b1 :: r1 =>
       (utf8_2 b0 b1 && wellFormed r1) ||
       (match r1 with
        | [] => false
        | b2 :: r2 =>
          (utf8_3 b0 b1 b2 && wellFormed r2) ||
          (match r2 with
           | [] => false
           | b3 :: r3 => utf8_4 b0 b1 b2 b3 && wellFormed r3)))

/-- One `UTF8-char` of the grammar, as a byte list. -/
def isUtf8Char : List UInt8 → Bool
  | [b0] => utf8_1 b0
  | [b0, b1] => utf8_2 b0 b1
  | [b0, b1, b2] => utf8_3 b0 b1 b2
  | [b0, b1, b2, b3] => utf8_4 b0 b1 b2 b3
  | _ => false

/-- The checker is between two characters (`c->start_byte == UC_FINISH`). -/
def atBoundary (c : Checker) : Bool := c.start == ucFinish

/-- The states a checker can be in after `cjet_init_checker` and any number of calls
    (proved equal to reachability in `Cjet.Lemmas.Utf8`). -/
def Checker.ok (c : Checker) : Bool :=
  (c.start == ucFinish && c.length == 1 && c.next == 1)
  || (inRange 0xC2 0xDF c.start && c.length == 2 && c.next == 2)
  || (inRange 0xE0 0xEF c.start && c.length == 3 && (c.next == 2 || c.next == 3))
  || (inRange 0xF0 0xF4 c.start && c.length == 4 && (c.next == 2 || c.next == 3 || c.next == 4))

/-- Reachability: the states a checker can be in after `cjet_init_checker` and any number of bytes. -/
inductive Reachable : Checker → Prop
  | init : Reachable init
  | step (c : Checker) (b : UInt8) : Reachable c → Reachable (isByteValid c b).2

end Cjet.Utf8
