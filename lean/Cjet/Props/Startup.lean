import Cjet.Startup
import Cjet.Lemmas.Startup
import Cjet.Lemmas.StartupErr
import Cjet.Startup.Ladders
/-!
Property theorems of the `Startup` component (C07 / C15): start-up and shut-down paths of
/repo/src/linux/linux_io.c, for BOTH configurations (`localOnly`), with / without a user name, foreground
or daemonised, and for EVERY script of kernel / libc / event-loop answers (every single failure, every
combination of failures where later calls still run, any number of addrinfo entries and of
ECONNABORTED / EINTR / accepted connections in the first accept passes).  No bounds.

`run c script : IoEnd × K`: `.1` = where run_io ended (ghost), `.2.tr` = trace of calls,
`.2.led` = the ledger of the reference monitor over that trace.
-/
namespace Cjet.Props.Startup

open Cjet.Startup

/-- At EVERY return of run_io (error or not): every listener descriptor opened was closed (none open, none
    closed twice, none closed that was not open), every registration removed (and none closed while
    registered), every addrinfo list freed, the loop destroyed iff it was initialised, and the signal
    dispositions are as coded.  Per descriptor number: handed out as often as closed. -/
theorem startup_releases_all_listeners (c : Cfg) (script : List Ans) :
    ListenersReleased (run c script).2.led ∧
    SignalsAsCoded c.code.restoreOnPipeFail (run c script).1 (run c script).2.tr (run c script).2.led ∧
    ∀ fd, opens fd (run c script).2.tr = closes fd (run c script).2.tr := by
  have h := runIo_spec c (K.start script) rfl
  have key : ListenersReleased (run c script).2.led ∧
      SignalsAsCoded c.code.restoreOnPipeFail (run c script).1 (run c script).2.tr (run c script).2.led := by
    unfold run
    generalize runIo c (K.start script) = r at h
    obtain ⟨e, k⟩ := r
    dsimp only at h ⊢
    cases e with
    | signalFailed =>
      dsimp only at h
      rcases h.2 with h | ⟨hr, h, hp⟩
      · rw [show k.led = ({} : Led) from h]; exact ⟨by simp [ListenersReleased], Or.inl ⟨rfl, rfl⟩⟩
      · rw [show k.led = _ from h]
        exact ⟨by simp [ListenersReleased], Or.inr ⟨hr, rfl, hp, rfl, rfl⟩⟩
    | initFailed =>
      dsimp only at h
      rw [show k.led = _ from h.2]
      exact ⟨finalLed_released _ _, Or.inl ⟨rfl, rfl⟩⟩
    | servers s =>
      cases s with
      | startFailed m =>
        dsimp only at h
        obtain ⟨_, _, ps, hl, _⟩ := h
        rw [show k.led = _ from hl]
        exact ⟨finalLed_released _ _, Or.inl ⟨rfl, rfl⟩⟩
      | jet j =>
        cases j with
        | ran b =>
          dsimp only at h
          rw [show k.led = _ from h.2]
          exact ⟨finalLed_released _ _, Or.inl ⟨rfl, rfl⟩⟩
        | privFailed =>
          dsimp only at h
          obtain ⟨_, ps, hl, _⟩ := h
          rw [show k.led = _ from hl]
          exact ⟨finalLed_released _ _, Or.inl ⟨rfl, rfl⟩⟩
        | daemonFailed =>
          dsimp only at h
          obtain ⟨_, ps, hl, _⟩ := h
          rw [show k.led = _ from hl]
          exact ⟨finalLed_released _ _, Or.inl ⟨rfl, rfl⟩⟩
  refine ⟨key.1, key.2, fun fd => ?_⟩
  obtain ⟨ho, _, _, _, _, _, hd, _, hm, _⟩ := key.1
  exact opens_eq_closes _ hd hm ho fd

/-- C07 / C15, failure at start-up, FULL strength for the repaired code (fixes/Fstartup-1.diff: run_io destroys
    peers and connections before it destroys the loop): whatever fails, and whatever was accepted before,
    nothing is left when run_io returns. -/
theorem startup_failure_releases_all (c : Cfg) (script : List Ans) (hcode : c.code.destroyAtEnd = true) :
    ListenersReleased (run c script).2.led ∧ (run c script).2.led.peers = [] ∧
    SignalsAsCoded c.code.restoreOnPipeFail (run c script).1 (run c script).2.tr (run c script).2.led ∧
    ∀ fd, opens fd (run c script).2.tr = closes fd (run c script).2.tr := by
  have h := startup_releases_all_listeners c script
  refine ⟨h.1, ?_, h.2.1, h.2.2⟩
  have hs := runIo_spec c (K.start script) rfl
  unfold run
  generalize runIo c (K.start script) = r at hs
  obtain ⟨e, k⟩ := r
  dsimp only at hs ⊢
  cases e with
  | signalFailed =>
    dsimp only at hs
    rcases hs.2 with h | ⟨_, h, _⟩ <;> rw [show k.led = _ from h]
  | initFailed => dsimp only at hs; rw [show k.led = _ from hs.2]; rfl
  | servers s =>
    cases s with
    | startFailed m =>
      dsimp only at hs
      obtain ⟨_, _, ps, hl, hp⟩ := hs
      rw [show k.led = _ from hl, hp hcode]; rfl
    | jet j =>
      cases j with
      | ran b => dsimp only at hs; rw [show k.led = _ from hs.2]; rfl
      | privFailed => dsimp only at hs; obtain ⟨_, ps, hl, hp⟩ := hs; rw [show k.led = _ from hl, hp hcode]; rfl
      | daemonFailed => dsimp only at hs; obtain ⟨_, ps, hl, hp⟩ := hs; rw [show k.led = _ from hl, hp hcode]; rfl

-- the script of the counterexample below, on the repaired code: nothing is left
example : (run ⟨false, false, true, .repaired⟩ ((List.replicate 11 Ans.ok) ++ [.conn, .ok, .fail])).1.ret = -1 ∧
    (run ⟨false, false, true, .repaired⟩ ((List.replicate 11 Ans.ok) ++ [.conn, .ok, .fail])).2.led = finalLed [] 0 := by
  decide +kernel

/-- with both repairs the handlers are restored on every path -/
theorem signals_restored (c : Cfg) (script : List Ans) (hcode : c.code.restoreOnPipeFail = true) :
    (run c script).2.led.term = .dfl ∧ (run c script).2.led.int = .dfl := by
  rcases (startup_releases_all_listeners c script).2.1 with h | ⟨h, _⟩
  · exact h
  · rw [hcode] at h; cases h

/-- C07 / C15, failure at start-up, partial form: when run_io returns an error and no connection was
    accepted during the first accept passes, NOTHING is left: no descriptor, no registration, no addrinfo
    list, no peer, handlers as coded.
    Full statement (false for the code as it is — `Code.asIs` —, see the counterexample; true for the repaired
    code, `startup_failure_releases_all`): the same without the hypothesis `hno`. -/
theorem startup_failure_releases_all_partial (c : Cfg) (script : List Ans)
    (_hret : (run c script).1.ret ≠ 0)
    (hno : noPeerAccepted (run c script).2.tr = true) :
    ListenersReleased (run c script).2.led ∧ (run c script).2.led.peers = [] ∧
    SignalsAsCoded c.code.restoreOnPipeFail (run c script).1 (run c script).2.tr (run c script).2.led ∧
    ∀ fd, opens fd (run c script).2.tr = closes fd (run c script).2.tr := by
  have h := startup_releases_all_listeners c script
  exact ⟨h.1, peers_nil_of_noPeerAccepted _ hno, h.2.1, h.2.2⟩

-- the hypotheses are satisfiable: bind of the second listener fails
example : (run ⟨false, false, true, .asIs⟩ ((List.replicate 16 Ans.ok) ++ [.fail])).1.ret ≠ 0 ∧
    noPeerAccepted (run ⟨false, false, true, .asIs⟩ ((List.replicate 16 Ans.ok) ++ [.fail])).2.tr = true := by
  decide +kernel

/-- FINDING: a connection accepted by the first accept pass of a listener is never released when a LATER
    start-up step fails: destroy_all_peers / destroy_all_http_connections are only called by run_jet after the
    loop ran.  Here: all interfaces, foreground; the jet listener comes up, its first accept pass accepts
    one connection (descriptor 11), then `socket()` for the websocket listener fails: run_io returns -1 with
    descriptor 11 (and its peer) still alive. -/
theorem startup_failure_releases_all_counterexample :
    (run ⟨false, false, true, .asIs⟩ ((List.replicate 11 Ans.ok) ++ [.conn, .ok, .fail])).1.ret = -1 ∧
    (run ⟨false, false, true, .asIs⟩ ((List.replicate 11 Ans.ok) ++ [.conn, .ok, .fail])).2.led.peers = [(11, .jet)] := by
  decide +kernel

/-- the same leak through run_jet's own early returns: every listener is up, a connection was accepted,
    then `daemon()` fails (or privileges cannot be dropped): run_jet returns before destroy_all_peers -/
theorem startup_failure_leaks_peer_when_daemon_fails :
    (run ⟨false, false, false, .asIs⟩ ((List.replicate 11 Ans.ok) ++ [.conn] ++ List.replicate 17 Ans.ok ++ [.fail])).1 =
      .servers (.jet .daemonFailed) ∧
    (run ⟨false, false, false, .asIs⟩ ((List.replicate 11 Ans.ok) ++ [.conn] ++ List.replicate 17 Ans.ok ++ [.fail])).2.led.peers =
      [(11, .jet)] := by
  decide +kernel

/-- OBSERVATION: when `signal(SIGPIPE, SIG_IGN)` fails, register_signal_handler returns -1 with the SIGTERM and
    SIGINT handlers still installed (the SIGINT failure path does restore SIGTERM). -/
theorem signals_restored_counterexample :
    (run ⟨false, false, true, .asIs⟩ [.ok, .ok, .fail]).1 = .signalFailed ∧
    (run ⟨false, false, true, .asIs⟩ [.ok, .ok, .fail]).2.led.term = .handler ∧
    (run ⟨false, false, true, .asIs⟩ [.ok, .ok, .fail]).2.led.int = .handler := by
  decide

/-- Descriptor hygiene, at every point of every run: a `close(fd)` happens only on a descriptor that is
    open (never twice, never on a number that was not handed out) and that is NOT registered with the event
    loop at that moment (remove comes before close). -/
theorem remove_before_close (c : Cfg) (script : List Ans) (pre post : List Ev) (fd : Nat)
    (h : (run c script).2.tr = pre ++ Ev.close fd :: post) :
    fd ∈ (ledOf pre).opn ∧ fd ∉ (ledOf pre).reg.map (·.1) := by
  obtain ⟨_, _, _, _, _, _, hd, he, _, _⟩ := (startup_releases_all_listeners c script).1
  have e : (run c script).2.tr = (pre ++ [Ev.close fd]) ++ post := by rw [h]; simp
  have hm := prefix_counters (pre ++ [Ev.close fd]) post
  rw [← e] at hm
  have hd' : (ledOf (pre ++ [Ev.close fd])).dbl = 0 := by
    have : (run c script).2.led = ledOf (run c script).2.tr := rfl
    rw [this] at hd; omega
  have he' : (ledOf (pre ++ [Ev.close fd])).early = 0 := by
    have : (run c script).2.led = ledOf (run c script).2.tr := rfl
    rw [this] at he; omega
  rw [ledOf_snoc] at hd' he'
  have m1 := prefix_counters pre [Ev.close fd]
  by_cases ho : fd ∈ (ledOf pre).opn
  · refine ⟨ho, fun hr => ?_⟩
    simp only [step, ho, if_true, hr] at he'
    omega
  · simp only [step, ho, if_false] at hd'
    omega

example : ∃ pre post, (run ⟨false, false, true, .asIs⟩ []).2.tr = pre ++ Ev.close 12 :: post := by
  refine ⟨(run ⟨false, false, true, .asIs⟩ []).2.tr.take 32, (run ⟨false, false, true, .asIs⟩ []).2.tr.drop 33, ?_⟩
  decide

/-- every system call on a listener descriptor (setsockopt, fcntl, bind, listen, accept, loop add) is made
    while that descriptor is open; nothing is registered twice or removed when not registered; the loop is
    not destroyed with registrations -/
theorem no_use_after_close (c : Cfg) (script : List Ans) (pre post : List Ev) :
    (run c script).2.tr = pre ++ post → (ledOf pre).misuse = 0 ∧ (ledOf pre).regbad = 0 := by
  intro h
  obtain ⟨_, _, _, _, _, _, _, _, hm, hr⟩ := (startup_releases_all_listeners c script).1
  have := prefix_counters pre post
  rw [← h] at this
  have e : (run c script).2.led = ledOf (run c script).2.tr := rfl
  rw [e] at hm hr
  omega

/-- On success of the start phase (all listeners up, just before run_jet) the open descriptors, their
    bindings, the listening set and the registrations are EXACTLY the listeners the configuration asks
    for, in start order, on pairwise different descriptors; handlers installed, loop up, nothing else. -/
theorem startup_success_owns_exactly (c : Cfg) (script : List Ans) (acc : List (LSpec × Nat)) (k1 : K)
    (h : bootPhase c (K.start script) = some (acc, true, k1)) :
    acc.map (·.1) = (listeners c).reverse ∧ (acc.map (·.2)).Nodup ∧
    k1.led.opn = acc.map (·.2) ∧ k1.led.lis = acc.map (·.2) ∧
    k1.led.bnd = acc.map (fun x => (x.2, x.1.target)) ∧
    k1.led.reg = acc.map (fun x => (x.2, x.1.kind)) ∧
    k1.led.term = .handler ∧ k1.led.int = .handler ∧ k1.led.pipe = .ign ∧ k1.led.loopUp = true ∧
    k1.led.ai = 0 ∧ k1.led.unlinks = 0 ∧ k1.led.dbl = 0 ∧ k1.led.early = 0 ∧ k1.led.misuse = 0 ∧
    k1.led.regbad = 0 ∧
    (run c script).1 = .servers (.jet (runJet c k1).1) := by
  obtain ⟨_, _, hA, ⟨ps, hl, _⟩, m, hm, hacc, hiff⟩ := bootPhase_spec c (K.start script) rfl acc true k1 h
  have hm' : m = (listeners c).length := hiff.1 rfl
  rw [hm', List.take_length] at hacc
  have hrun : (run c script).1 = .servers (.jet (runJet c k1).1) := by
    unfold run; rw [runIo_of_boot_some c _ acc true k1 h]; rfl
  refine ⟨hacc, hA.nodup, ?_, ?_, ?_, ?_, ?_, ?_, ?_, ?_, ?_, ?_, ?_, ?_, ?_, ?_, hrun⟩ <;> rw [hl] <;>
    simp only [Led.addPeers]
  · rw [ups_opn]; simp [bootLed]
  · rw [ups_lis]; simp [bootLed]
  · rw [ups_bnd]; simp [bootLed]
  · rw [ups_reg]; simp [bootLed]
  all_goals (
    obtain ⟨r1, r2, r3, r4, r5, r6, r7, r8, r9⟩ := ups_rest bootLed acc
    have hu := ups_loopUp bootLed acc
    first | exact r1 | exact r2 | exact r3 | exact hu | exact r4 | exact r5 | exact r6 | exact r7 | exact r8 | exact r9)

example : ∃ acc k1, bootPhase ⟨true, false, true, .asIs⟩ (K.start []) = some (acc, true, k1) ∧
    acc.map (·.2) = [14, 13, 12, 11, 10] := ⟨_, _, rfl, by decide⟩

/-- run_io returns 0 only if every listener of the configuration had been started -/
theorem success_implies_all_up (c : Cfg) (script : List Ans) (h : (run c script).1.ret = 0) :
    ∃ acc k1, bootPhase c (K.start script) = some (acc, true, k1) := by
  cases hb : bootPhase c (K.start script) with
  | none =>
    rcases runIo_of_boot_none c _ hb with h' | h' <;>
      (unfold run at h; rw [h'] at h; simp [IoEnd.ret] at h)
  | some r =>
    obtain ⟨acc, okk, k1⟩ := r
    cases okk
    · unfold run at h
      rw [runIo_of_boot_some c _ acc false k1 hb] at h
      simp [IoEnd.ret, StackEnd.ret] at h
    · exact ⟨acc, k1, rfl⟩

/-- Orderly shutdown: when the loop has run and returned (0 or -1), everything is released — listeners,
    registrations, the peers and HTTP connections accepted at any time before, the loop, the handlers
    (SIGPIPE stays ignored) —, the unix socket path is unlinked once, and run_io's result is the loop's. -/
theorem shutdown_releases_all (c : Cfg) (script : List Ans) (b : Bool)
    (h : (run c script).1 = .servers (.jet (.ran b))) :
    (run c script).2.led = finalLed [] 1 ∧ (run c script).1.ret = (if b then 0 else -1) ∧
    (run c script).2.goAhead = true ∧
    ∀ fd, opens fd (run c script).2.tr = closes fd (run c script).2.tr := by
  have hs := runIo_spec c (K.start script) rfl
  unfold run at h ⊢
  rw [h] at hs
  dsimp only at hs
  refine ⟨by rw [hs.2, udsIn_listeners], ?_, hs.1, (startup_releases_all_listeners c script).2.2⟩
  rw [h]; cases b <;> rfl

example : (run ⟨true, true, false, .asIs⟩ []).1 = .servers (.jet (.ran true)) := by decide
example : (run ⟨false, false, true, .asIs⟩ ((List.replicate 28 Ans.ok) ++ [.fail])).1 = .servers (.jet (.ran false)) := by decide

/-- … in the intended order: after the loop returns, peers and HTTP connections are destroyed first, then the
    listeners are stopped newest first (unix socket: remove, close, unlink; then the websocket and jet
    listeners: remove, close), then the loop is destroyed, then SIGINT and SIGTERM are reset. -/
theorem shutdown_order (c : Cfg) (script : List Ans) (b : Bool)
    (h : (run c script).1 = .servers (.jet (.ran b))) :
    ∃ acc k1 mid, bootPhase c (K.start script) = some (acc, true, k1) ∧
      acc.map (·.1) = (listeners c).reverse ∧
      (run c script).2.tr = k1.tr ++ mid ++ [.run b, .destroyPeers, .destroyConns] ++ stopEvents acc ++
        (if c.code.destroyAtEnd then [.destroyPeers, .destroyConns] else []) ++
        [.destroy, .signal .int .dfl true, .signal .term .dfl true] ∧
      ∀ e ∈ mid, e = .getpwnam true ∨ e = .setgid true ∨ e = .setuid true ∨ e = .daemon true := by
  cases hb : bootPhase c (K.start script) with
  | none =>
    rcases runIo_of_boot_none c _ hb with h' | h' <;> (unfold run at h; rw [h'] at h; simp at h)
  | some r =>
    obtain ⟨acc, okk, k1⟩ := r
    have he := runIo_of_boot_some c _ acc okk k1 hb
    cases okk
    · unfold run at h; rw [he] at h; simp at h
    · simp only [if_true] at he
      have hj : (runJet c k1).1 = .ran b := by
        unfold run at h; rw [he] at h; simpa using h
      obtain ⟨mid, ht, hmid⟩ := runJet_tr c k1 b hj
      refine ⟨acc, k1, mid, rfl, (startup_success_owns_exactly c script acc k1 hb).1, ?_, hmid⟩
      unfold run; rw [he]
      unfold finish
      split <;> simp [unregisterSignals, K.emit, stopAll_tr, ht]

/-- The unix socket: it is bound to the ABSTRACT name (the model has no other target for it; the tie checks
    the sockaddr on the real code), so no file is ever created.  `unlink(UDS_FILE)` is executed exactly once
    iff every listener — the unix one last — had been started, i.e. on every path through stop_uds_server
    (orderly shutdown, failed drop of privileges, failed daemon()); on every start-up failure, including
    listen / add / first-accept failures of the unix listener itself after its bind, it is not executed. -/
theorem unix_path_unlinked (c : Cfg) (script : List Ans) :
    (run c script).2.led.unlinks = (match (run c script).1 with | .servers (.jet _) => 1 | _ => 0) := by
  have hs := runIo_spec c (K.start script) rfl
  unfold run
  generalize runIo c (K.start script) = r at hs
  obtain ⟨e, k⟩ := r
  dsimp only at hs ⊢
  cases e with
  | signalFailed =>
    dsimp only at hs ⊢
    rcases hs.2 with h | ⟨_, h, _⟩ <;> rw [show k.led = _ from h]
  | initFailed => dsimp only at hs ⊢; rw [show k.led = _ from hs.2]; rfl
  | servers s =>
    cases s with
    | startFailed m =>
      dsimp only at hs ⊢
      obtain ⟨_, hm, ps, hl, _⟩ := hs
      rw [show k.led = _ from hl, udsIn_take c m hm]; rfl
    | jet j =>
      cases j with
      | ran b => dsimp only at hs ⊢; rw [show k.led = _ from hs.2, udsIn_listeners]; rfl
      | privFailed => dsimp only at hs ⊢; obtain ⟨_, ps, hl, _⟩ := hs; rw [show k.led = _ from hl, udsIn_listeners]; rfl
      | daemonFailed => dsimp only at hs ⊢; obtain ⟨_, ps, hl, _⟩ := hs; rw [show k.led = _ from hl, udsIn_listeners]; rfl

/-- Any step that fails for good makes run_io return non-zero: when run_io returns 0 the monitor of hard
    failures (`hardFailures`: every failing call counts, except that failing socket / setsockopt / fcntl / bind
    calls inside create_server_socket_bound's loop over the getaddrinfo results count only when no address of
    that list could be bound) is at 0.  run_io returns 0 exactly when it got through everything and the loop
    returned 0; every other end — a signal handler that cannot be installed, loop init, any listener that
    cannot be created / registered / whose first accept pass aborts, privileges, daemon(), a failing loop —
    returns -1; a failed loop init also clears go_ahead. -/
theorem error_reported (c : Cfg) (script : List Ans) :
    (0 < hardFailures (run c script).2.tr → (run c script).1.ret ≠ 0) ∧
    ((run c script).1.ret = 0 ↔ (run c script).1 = .servers (.jet (.ran true))) ∧
    ((run c script).1.ret ≠ 0 → (run c script).1.ret = -1) ∧
    ((run c script).1.ret = 0 → Ev.run true ∈ (run c script).2.tr) ∧
    ((run c script).2.goAhead = false ↔ (run c script).1 = .initFailed) := by
  refine ⟨fun hh hr => by have := run_ok_no_hard_failure c script hr; omega, ?_⟩
  have hs := runIo_spec c (K.start script) rfl
  have hord := shutdown_order c script true
  unfold run at hord ⊢
  generalize runIo c (K.start script) = r at hs hord
  obtain ⟨e, k⟩ := r
  dsimp only at hs hord ⊢
  have hg0 : (K.start script).goAhead = true := rfl
  rw [hg0] at hs
  cases e with
  | signalFailed => dsimp only at hs; simp [IoEnd.ret, hs.1]
  | initFailed => dsimp only at hs; simp [IoEnd.ret, hs.1]
  | servers s =>
    cases s with
    | startFailed m => dsimp only at hs; simp [IoEnd.ret, StackEnd.ret, hs.1]
    | jet j =>
      cases j with
      | privFailed => dsimp only at hs; simp [IoEnd.ret, StackEnd.ret, JetEnd.ret, hs.1]
      | daemonFailed => dsimp only at hs; simp [IoEnd.ret, StackEnd.ret, JetEnd.ret, hs.1]
      | ran b =>
        dsimp only at hs
        cases b
        · simp [IoEnd.ret, StackEnd.ret, JetEnd.ret, hs.1]
        · obtain ⟨acc, k1, mid, _, _, ht, _⟩ := hord rfl
          simp [IoEnd.ret, StackEnd.ret, JetEnd.ret, hs.1, ht]

/-- C15 view: run_io_only_local and run_io_all_interfaces transcribed as `Cjet.Unwind` ladders with the goto
    labels of the C text pass the single-failure audit of that interpreter: on the success path and for every
    failing step no descriptor is acquired twice or released when not held, no registration is removed that
    does not exist, every label that is jumped to exists, and at return nothing is held or registered. -/
theorem goto_ladders_audit :
    Cjet.Unwind.audit Cjet.Startup.Ladders.ladderOnlyLocal = true ∧
    Cjet.Unwind.audit Cjet.Startup.Ladders.ladderAllInterfaces = true := by
  decide

-- the monitor counts: a failing bind of the second listener; two of three addresses failing does not count
example : hardFailures (run ⟨false, false, true, .asIs⟩ ((List.replicate 16 Ans.ok) ++ [.fail])).2.tr = 1 := by
  decide +kernel
example : hardFailures (run ⟨true, false, true, .asIs⟩ ((List.replicate 4 Ans.ok) ++ [.addrs 3, .fail, .ok, .fail])).2.tr = 0 ∧
    (run ⟨true, false, true, .asIs⟩ ((List.replicate 4 Ans.ok) ++ [.addrs 3, .fail, .ok, .fail])).1.ret = 0 := by
  decide +kernel

end Cjet.Props.Startup
