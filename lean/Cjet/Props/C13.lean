import Cjet.Http
import Cjet.Lemmas.Http
/-!
# C13 — HTTP front door: non-upgrades get an error and leave nothing behind

Model: `Cjet.Http` — the lifecycle of one connection on the HTTP/WebSocket port as a ledger over
its primitive objects (descriptor, buffered socket, http_connection + connection list,
websocket_peer + peer list + peer count, routing table), transcribed statement by statement from
`handle_http`, `init_http_connection2`, `on_url`, `read_start_line`, `alloc_websocket_peer`,
`websocket_read_header_line`, `handle_error`, `websocket_close`, `free_connection`,
`free_websocket_peer*`, the buffered socket's end-of-stream / error callbacks and the shutdown
sequence of `run_jet`.

Every theorem quantifies over

* `o c : List Nat` — the peers and HTTP connections that exist when the connection is accepted,
* `evs : List Event` — every sequence of events of any length, where each event carries what the
  environment decided: the accept outcome (5 cases), for a request line what http-parser,
  `find_url_handler` and the handler's `create` returned and whether header data rode along, for a header line what http-parser
  returned, whether `parser.upgrade` was set and whether the 101 was written, the three reader-level
  endings, the end of the WebSocket phase, and SIGTERM.  Events that the current phase cannot
  produce leave the state unchanged (`Cjet.Http.step`), so quantifying over all lists is
  quantifying over all admissible sequences (`Cjet.Http.enabled`) with arbitrary junk interleaved.

The version parameter is `fixed` (the code as it is); the three `…_counterexample_before_…`
theorems evaluate the historic variants of the same transcription.
-/
namespace Cjet.Props.C13

open Cjet.Http

/-! ## the property -/

/-- **non_upgrade_leaves_nothing.**  For every accept outcome and every event sequence after it:
    when the connection has ended and no 101 was written, then the descriptor was closed exactly
    once, every object is released exactly as often as it was acquired (at most once), this
    connection is in neither global list, no statement ever went through a released object,
    released or closed anything twice, or released a node that was still linked (the fault list is
    sticky, so "empty at the end" is "empty at every moment") — and the peer list, the connection
    list and the peer count are what they were before the accept (after SIGTERM, which also closes
    everybody else: empty and zero). -/
theorem non_upgrade_leaves_nothing (o c : List Nat) (a : Accept) (evs : List Event) :
    let s := run fixed (before o c) (.accept a :: evs)
    s.phase = .done → s.sent101 = false →
      s.fd = ⟨false, 1, 1⟩ ∧ s.allSettled ∧ s.faults = [] ∧
      s.connList.contains .mine = false ∧ s.peerList.contains .mine = false ∧
      (evs.any isTerm = false →
        s.peerList = o.map .other ∧ s.connList = c.map .other ∧ s.peerCount = o.length) ∧
      (evs.any isTerm = true → s.peerList = [] ∧ s.connList = [] ∧ s.peerCount = 0) := by
  obtain ⟨tm, htm, h⟩ := inv_of_accepted o c a evs
  dsimp only
  generalize run fixed (before o c) (.accept a :: evs) = s at h ⊢
  intro hph _
  cases h with
  | start h' => rw [h'.ph] at hph; cases hph
  | peer up h' => rw [h'.ph] at hph; cases up <;> cases hph
  | done _ _ h' =>
    obtain ⟨l1, l2, l3⟩ := h'.lists
    refine ⟨by simpa [gone1] using h'.fd, settled_of_done h', h'.fl, ?_, ?_, ?_, ?_⟩
    · rw [l1]; split <;> simp
    · rw [l2]; split <;> simp
    · intro ht; rw [ht] at htm; subst htm; simp at l1 l2 l3; exact ⟨l2, l1, l3⟩
    · intro ht; rw [ht] at htm; subst htm; simp at l1 l2 l3; exact ⟨l2, l1, l3⟩

/-- non-vacuity: a request line that names the target and then turns out to be malformed (the
    F17 trigger) ends the connection with nothing left, two other peers and one other connection
    untouched. -/
example :
    let s := run fixed (before [7, 9] [3]) [.accept .ok, .startLine false true true false .ok]
    s.phase = .done ∧ s.sent101 = false ∧ s.sent = [400] ∧ s.peerList = [.other 7, .other 9] ∧
      s.connList = [.other 3] ∧ s.peerCount = 2 := by decide

/-- **no_orphan_peer.**  At every point of every event sequence: if this connection's peer is in
    the peer list (so other peers' notifications and the shutdown sequence can reach it), then its
    descriptor is open and its buffered socket, connection object, peer object and routing table
    are live, and the connection is in the connection list. -/
theorem no_orphan_peer (o c : List Nat) (evs : List Event) :
    let s := run fixed (before o c) evs
    s.peerRegistered = true →
      s.fd.live = true ∧ s.bs.live = true ∧ s.conn.live = true ∧ s.peer.live = true ∧ s.rt.live = true ∧
      s.connList.contains .mine = true := by
  obtain ⟨acc, tm, htm, h⟩ := inv_of_run o c evs
  dsimp only
  generalize run fixed (before o c) evs = s at h ⊢
  intro hreg
  have hreg' : s.peerList.contains Ref.mine = true := hreg
  cases h with
  | listening h' => rw [h'.pl, not_mine_mem] at hreg'; cases hreg'
  | start h' => rw [h'.pl, not_mine_mem] at hreg'; cases hreg'
  | peer up h' => simp [h'.fd, h'.bs, h'.conn, h'.peer, h'.rt, h'.cl, live1]
  | done _ _ h' =>
    obtain ⟨_, l2, _⟩ := h'.lists
    rw [l2] at hreg'
    split at hreg' <;> simp at hreg'

example :
    let s := run fixed (before [1] []) [.accept .ok, .startLine true true true false .ok, .headerLine true false none]
    s.peerRegistered = true ∧ s.phase = .headers := by decide

/-- **no_fault_ever.**  No event sequence makes any statement of the transcribed code go through a
    released object, release or close twice, or release a linked node. -/
theorem no_fault_ever (o c : List Nat) (evs : List Event) :
    (run fixed (before o c) evs).faults = [] := by
  obtain ⟨acc, tm, htm, h⟩ := inv_of_run o c evs
  cases h with
  | listening h' => exact h'.fl
  | start h' => exact h'.fl
  | peer up h' => exact h'.fl
  | done _ _ h' => exact h'.fl

/-- **error_status_or_close.**  A connection that ended without a 101 wrote at most one status
    line, and that line is 400, 404 or 500. -/
theorem error_status_or_close (o c : List Nat) (evs : List Event) :
    let s := run fixed (before o c) evs
    s.phase = .done → s.sent101 = false →
      s.sent = [] ∨ s.sent = [400] ∨ s.sent = [404] ∨ s.sent = [500] := by
  obtain ⟨acc, tm, htm, h⟩ := inv_of_run o c evs
  dsimp only
  generalize run fixed (before o c) evs = s at h ⊢
  intro hph h101
  cases h with
  | listening h' => rw [h'.ph] at hph; cases hph
  | start h' => rw [h'.ph] at hph; cases hph
  | peer up h' => rw [h'.ph] at hph; cases up <;> cases hph
  | done _ _ h' =>
    obtain ⟨pre, hpre, hs⟩ := h'.se
    have hnil : pre = [] := by
      cases pre with
      | nil => rfl
      | cons x xs =>
        exfalso
        have hx : x = 101 := hpre x (by simp)
        have hm : (101 : Nat) ∈ s.sent := by
          rcases hs with e | ⟨_, _, e⟩ <;> rw [e, hx] <;> simp
        simp [St.sent101, hm] at h101
    subst hnil
    rcases hs with e | ⟨code, hc, e⟩
    · exact Or.inl (by simpa using e)
    · rcases hc with rfl | rfl | rfl
      · exact Or.inr (Or.inl (by simpa using e))
      · exact Or.inr (Or.inr (Or.inl (by simpa using e)))
      · exact Or.inr (Or.inr (Or.inr (by simpa using e)))

example :
    let s := run fixed (before [] []) [.accept .ok, .startLine false false true false .ok]
    s.phase = .done ∧ s.sent101 = false ∧ s.sent = [404] := by decide

example :
    let s := run fixed (before [] []) [.accept .ok, .startLine true true true false .noTableMem]
    s.phase = .done ∧ s.sent101 = false ∧ s.sent = [500] := by decide

example :
    let s := run fixed (before [] [])
      [.accept .ok, .startLine true true true false .ok, .headerLine true false none, .lineTooLong]
    s.phase = .done ∧ s.sent101 = false ∧ s.sent = [] := by decide

/-- **term_releases_all.**  SIGTERM at any point of any event sequence: the connection has ended,
    the ledger is empty, both global lists are empty, the peer count is zero, and nothing was
    touched after its release. -/
theorem term_releases_all (o c : List Nat) (evs : List Event) :
    let s := run fixed (before o c) (evs ++ [.term])
    s.phase = .done ∧ s.allSettled ∧ s.peerList = [] ∧ s.connList = [] ∧ s.peerCount = 0 ∧ s.faults = [] := by
  obtain ⟨acc, tm, htm, h⟩ := inv_of_run o c (evs ++ [.term])
  have ht : tm = true := by rw [htm]; simp [isTerm]
  subst ht
  dsimp only
  generalize run fixed (before o c) (evs ++ [.term]) = s at h ⊢
  cases h with
  | done _ _ h' =>
    obtain ⟨l1, l2, l3⟩ := h'.lists
    exact ⟨h'.ph, settled_of_done h', by simpa using l2, by simpa using l1, by simpa using l3, h'.fl⟩

/-- **upgrade_keeps_exactly_one_peer.**  While a connection on which a 101 was written is alive,
    exactly one peer is registered for it (the list has this connection's node once, the count is
    one more than before the accept), every object is live, and the buffered socket's error
    callback is the peer-level one (`free_websocket_peer_on_error`), so that every later ending
    releases peer and connection together. -/
theorem upgrade_keeps_exactly_one_peer (o c : List Nat) (evs : List Event) :
    let s := run fixed (before o c) evs
    s.sent101 = true → s.phase ≠ .done →
      s.peerList.count .mine = 1 ∧ s.peerCount = o.length + 1 ∧ s.handler = .peer ∧
      s.fd.live = true ∧ s.bs.live = true ∧ s.conn.live = true ∧ s.peer.live = true := by
  obtain ⟨acc, tm, htm, h⟩ := inv_of_run o c evs
  dsimp only
  generalize run fixed (before o c) evs = s at h ⊢
  intro h101 hph
  cases h with
  | listening h' => simp [St.sent101, h'.se] at h101
  | start h' => simp [St.sent101, h'.se] at h101
  | peer up h' =>
    refine ⟨?_, by simpa using h'.pc, h'.ha, by simp [h'.fd, live1], by simp [h'.bs, live1],
      by simp [h'.conn, live1], by simp [h'.peer, live1]⟩
    rw [h'.pl, List.count_append]
    have : List.count Ref.mine (o.map Ref.other) = 0 := List.count_eq_zero.mpr (mine_not_mem_others o)
    simp [this]
  | done _ _ h' => exact absurd h'.ph hph

example :
    let s := run fixed (before [4] [])
      [.accept .ok, .startLine true true true false .ok, .headerLine true false none, .headerLine true true (some true)]
    s.sent101 = true ∧ s.phase = .ws ∧ s.peerCount = 2 := by decide

/-! ## the defects that were repaired, on the same transcription -/

/-- **orphan_peer_counterexample_before_fix** (F17, repaired by b38244f).  With `on_url` as it
    was — the handler's `create` called as soon as the URL matched — the two-event history
    "accept; request line with the matching URL whose rest does not parse" ends the connection
    with a 400 and leaves the peer registered while its connection, buffered socket and
    descriptor are released: `no_orphan_peer` and `non_upgrade_leaves_nothing` fail.  SIGTERM then
    walks the peer list into the released connection (use after release, second close of the
    descriptor, double free). -/
theorem orphan_peer_counterexample_before_fix :
    let s := run original (before [] []) [.accept .ok, .startLine false true true false .ok]
    s.phase = .done ∧ s.sent101 = false ∧ s.sent = [400] ∧
      s.peerRegistered = true ∧ s.peerCount = 1 ∧ s.peer.live = true ∧
      s.conn.live = false ∧ s.bs.live = false ∧ s.fd.live = false ∧
      (step original s .term).faults =
        [.useAfterRelease .conn, .useAfterRelease .bs, .useAfterRelease .bs, .useAfterRelease .fd,
         .doubleClose, .doubleRelease .bs, .useAfterRelease .conn, .doubleRelease .conn] := by
  decide

/-- The same history on the code as it is. -/
example :
    let s := run fixed (before [] []) [.accept .ok, .startLine false true true false .ok]
    s.phase = .done ∧ s.sent = [400] ∧ s.peerRegistered = false ∧ s.peerCount = 0 ∧ s.peer.acq = 0 ∧
      (step fixed s .term).faults = [] := by decide

/-- **stale_connection_counterexample_before_F54** (repaired by 10a3299).  With
    `init_http_connection2` as it was, a failing event loop registration released the connection
    while its node stayed in `connection_list`; SIGTERM then releases it a second time. -/
theorem stale_connection_counterexample_before_F54 :
    let s := run beforeF54 (before [] []) [.accept .addFails]
    s.phase = .done ∧ s.conn.live = false ∧ s.connList = [.mine] ∧
      s.faults = [.releasedWhileListed .conn] ∧
      (step beforeF54 s .term).conn.rel = 2 := by
  decide

example :
    let s := run fixed (before [] []) [.accept .addFails]
    s.phase = .done ∧ s.connList = [] ∧ s.faults = [] ∧ s.fd = ⟨false, 1, 1⟩ := by decide

/-- **wild_header_callback_counterexample_before_F55** (repaired by 9bd242d).  After b38244f the
    peer is created when the whole start line has parsed, but `on_url` still installed the handler's
    header callbacks at once: a request line ended by a bare LF with header data before the first
    CRLF makes http-parser call them inside `read_start_line`'s `http_parser_execute`, through the
    peer object that does not exist yet (`connection->parser.data` is uninitialised). -/
theorem wild_header_callback_counterexample_before_F55 :
    let s := run beforeF55 (before [] []) [.accept .ok, .startLine true true true true .ok]
    s.faults = [.useAfterRelease .peer] ∧ s.trace.take 10 =
      [.acquire .fd, .acquire .conn, .acquire .bs, .setHandler .conn, .touch .conn, .listConn,
       .setReader .startLine, .epollAdd, .touch .conn, .touch .peer] := by
  decide

/-- The same line on the code as it is: the refusing callbacks stop the parser, 400, nothing left. -/
example :
    let s := run fixed (before [] []) [.accept .ok, .startLine false true true true .ok]
    s.phase = .done ∧ s.sent = [400] ∧ s.faults = [] ∧ s.peer.acq = 0 ∧ s.allSettled := by decide

end Cjet.Props.C13
