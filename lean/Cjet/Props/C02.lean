import Cjet.Lemmas.DaemonC02Examples

/-!
# C02 — JSON-RPC discipline: one response per request id, none for notifications

Model: `Cjet.Daemon.Model` (`parseMessage` → `parseJsonArray` → `parseJsonRpc` → `handleMethod`,
`sendResponse`, `routingResponse`, `timeoutFired`, `closePeer`).  Every statement quantifies over all
configurations, all contexts/states (no reachability assumption is needed except where the
invariant `RoutesOwned` is named, which holds in every reachable state: `routes_owned_reachable`),
all JSON values and all oracle values.

Vocabulary (`Cjet.Lemmas.DaemonC02Basic`, `…Step`, `…Close`):
* `has j key`      — `cJSON_GetObjectItem(j, key) != NULL` (first match, ASCII case folded);
* `hasMethod j`    — `j` has a "method" member (notification or routed request);
* `isResponse j`   — `j` has a "result" or an "error" member and no "method" member;
* `respId j`       — the "id" member of `j`;
* `idOk id`        — `id` is a string or a number;   `Answerable req` — `req` has such an id;
* `WellFormed id j`— `j` is exactly `{"id": id, "result": v}` or `{"id": id, "error": v}`;
* `outsTo c obs`   — the JSON values of the `Obs.send c j _` entries of `obs`, in order;
* `AcceptedRouted new` — some `Obs.send _ j true` in `new` carries "method" and "id"
  (a set/call handed to the element's owner with success);
* `RequestLike m`  — `m` has a "method" member, or neither "result" nor "error";
* `IsRelayOf r m d j` — `m` is a response object whose id is the string `r.rid`, `d = r.requester`
  and `j = {"id": r.originId, typ: m[typ]}` with `typ` ∈ {"result","error"};
* `IsShutdownOf c r o`, `timeoutAnswer oid` — the "peer shuts down" / "timeout" error responses.

Output lists inside a `Ctx` are newest first (`x'.out = new ++ x.out`); `new.reverse` is
chronological.  `step` returns chronological lists.
-/

namespace Cjet.Daemon.C02

open Cjet Cjet.Json Cjet.Daemon

/-! ## 1. what response.c builds -/

/-- Every value built by `errorResponse` / `resultResponse` is an object with exactly the members
    "id" and "error" resp. the result type, in this order; the id member IS the id it was built from;
    a value is built exactly for string and number ids. -/
theorem response_shape (id : Json) :
    (∀ code tag reason r, errorResponse id code tag reason = some r →
        r = .obj [(k "id", id), (k "error", errorObject code tag reason)]) ∧
    (∀ v typ r, resultResponse id v typ = some r → r = .obj [(k "id", id), (k typ, v)]) ∧
    (idOk id = true → (∀ code tag reason, (errorResponse id code tag reason).isSome = true) ∧
        ∀ v typ, (resultResponse id v typ).isSome = true) ∧
    (idOk id = false → (∀ code tag reason, errorResponse id code tag reason = none) ∧
        ∀ v typ, resultResponse id v typ = none) := by
  refine ⟨fun _ _ _ _ h => (errorResponse_eq h).1, fun _ _ _ h => (resultResponse_eq h).1, ?_, ?_⟩
  · intro h
    exact ⟨fun code tag reason => by simp [errorResponse_of_idOk h],
      fun v typ => by simp [resultResponse_of_idOk h]⟩
  · intro h
    exact ⟨fun code tag reason => errorResponse_none h .., fun v typ => resultResponse_none h ..⟩

/-- The id of a built response equals the id it was built from: the same bytes for a string, the same
    number (`bits` AND `vint`, i.e. no detour through the int field) for a number. -/
theorem id_echo :
    (∀ s code tag reason r, errorResponse (.str s) code tag reason = some r → respId r = some (.str s)) ∧
    (∀ n code tag reason r, errorResponse (.num n) code tag reason = some r → respId r = some (.num n)) ∧
    (∀ s v typ r, resultResponse (.str s) v typ = some r → respId r = some (.str s)) ∧
    (∀ n v typ r, resultResponse (.num n) v typ = some r → respId r = some (.num n)) := by
  refine ⟨?_, ?_, ?_, ?_⟩
  · intro s code tag reason r h
    rw [(errorResponse_eq h).1]; exact WellFormed.respId ⟨_, Or.inr rfl⟩
  · intro n code tag reason r h
    rw [(errorResponse_eq h).1]; exact WellFormed.respId ⟨_, Or.inr rfl⟩
  · intro s v typ r h
    rw [(resultResponse_eq h).1]; simp [respId, getItem, findItem, keyEq_id_id]
  · intro n v typ r h
    rw [(resultResponse_eq h).1]; simp [respId, getItem, findItem, keyEq_id_id]

/-- What the `…FromRequest` constructors return is a response object with exactly one of
    "result"/"error", no "method", and the request's own id. -/
theorem response_from_request (req : Json) (r : Option Json) (j : Json) (h : FromReq req r) (hj : r = some j) :
    ∃ id, req.getItem (k "id") = some id ∧ idOk id = true ∧ WellFormed id j ∧
      isResponse j = true ∧ respId j = some id ∧ (has j "result" != has j "error") = true := by
  rcases h.respFor with hn | ⟨id, j', hid, hok, hj', hwf⟩
  · rw [hn] at hj; cases hj
  · rw [hj] at hj'; cases hj'
    exact ⟨id, hid, hok, hwf, hwf.isResponse, hwf.respId, hwf.one_of⟩

example : FromReq Ex.infoReq (successFromRequest Ex.infoReq) ∧ (successFromRequest Ex.infoReq).isSome = true :=
  ⟨FromReq.success _, by decide +kernel⟩

/-! ## 2. one request object -/

/-- Processing ONE request-like object `req` (a "method" member of any type — in particular a
    string, the case of the property — or none of "method"/"result"/"error") from a live peer `c`:
    * every other connection receives only values with a "method" member;
    * `c` receives values with a "method" member, followed by at most one more value `resp`;
    * `resp` exists iff `req` carries a string/number id and the request was not handed to an
      element's owner (accepted routed set/call); it is well formed and carries `req`'s id. -/
theorem immediate_discipline (cfg : Config) (x : Ctx) (c : Nat) (req : Json)
    (hlive : (findPeer x.st.peers c).isSome = true) (hreq : RequestLike req) :
    ∃ new, (parseJsonRpc cfg x c req).1.out = new ++ x.out ∧
      (∀ d, d ≠ c → ∀ j ∈ outsTo d new.reverse, hasMethod j = true) ∧
      ∃ others fin, outsTo c new.reverse = others ++ fin ∧ (∀ j ∈ others, hasMethod j = true) ∧
        ((fin = [] ∧ (Answerable req → AcceptedRouted new)) ∨
         (∃ id resp, fin = [resp] ∧ req.getItem (k "id") = some id ∧ idOk id = true ∧ WellFormed id resp ∧
            ¬ AcceptedRouted new)) := by
  obtain ⟨p, hp⟩ := Option.isSome_iff_exists.1 hlive
  exact (parseJsonRpc_request cfg x c p req hp hreq).discipline

example : (findPeer (mkCtx Ex.sRouted {}).st.peers 1).isSome = true ∧ RequestLike Ex.infoReq :=
  ⟨by decide +kernel, Or.inl (by decide +kernel)⟩

/-- The count form: among the values sent to `c` there is at most one response object; exactly one
    if `req` has a string/number id and was not accepted as a routed request; none if `req` has no
    such id; and that response echoes `req`'s id. -/
theorem immediate_response_count (cfg : Config) (x : Ctx) (c : Nat) (req : Json)
    (hlive : (findPeer x.st.peers c).isSome = true) (hreq : RequestLike req) :
    ∃ new, (parseJsonRpc cfg x c req).1.out = new ++ x.out ∧
      ((outsTo c new.reverse).filter isResponse).length ≤ 1 ∧
      (∀ j ∈ (outsTo c new.reverse).filter isResponse, respId j = req.getItem (k "id")) ∧
      (Answerable req → ¬ AcceptedRouted new → ((outsTo c new.reverse).filter isResponse).length = 1) ∧
      (¬ Answerable req → (outsTo c new.reverse).filter isResponse = []) ∧
      (AcceptedRouted new → (outsTo c new.reverse).filter isResponse = []) := by
  obtain ⟨new, hout, _, others, fin, hsplit, hoth, hfin⟩ := immediate_discipline cfg x c req hlive hreq
  refine ⟨new, hout, ?_⟩
  rw [hsplit, List.filter_append, filter_isResponse_of_method hoth, List.nil_append]
  rcases hfin with ⟨rfl, hacc⟩ | ⟨id, resp, rfl, hid, hok, hwf, hna⟩
  · refine ⟨by simp, by simp, fun ha hn => absurd (hacc ha) hn, fun _ => rfl, fun _ => rfl⟩
  · have hf : [resp].filter isResponse = [resp] := by simp [hwf.isResponse]
    rw [hf]
    refine ⟨by simp, ?_, fun _ _ => rfl, fun hna' => absurd ⟨id, hid, hok⟩ hna', fun ha => absurd ha hna⟩
    intro j hj
    simp only [List.mem_singleton] at hj
    rw [hj, hwf.respId, hid]

example : Answerable Ex.infoReq := Ex.answerable_of_bool (by decide +kernel)

/-- Only "set" and "call" are ever handed to another peer: for every other method name the
    "accepted routed" exception of `immediate_discipline` does not arise, so a request with a
    string/number id gets exactly one response. -/
theorem only_set_call_are_routed (cfg : Config) (x : Ctx) (c : Nat) (req : Json) (m : Bytes)
    (hm : req.getItem (k "method") = some (.str m))
    (hs : (m == k "set") = false) (hc : (m == k "call") = false)
    (new : List Obs) (hnew : (parseJsonRpc cfg x c req).1.out = new ++ x.out) : ¬ AcceptedRouted new :=
  not_routed_of_other_method cfg x c req m hm hs hc new hnew

example : (k "info" == k "set") = false ∧ (k "info" == k "call") = false := ⟨by decide +kernel, by decide +kernel⟩

/-! ## 3. responses never reach another connection, except as the answer of a routed request -/

/-- In a `.message c …` operation a response object is written to a connection `d ≠ c` only as the
    final answer of a routed request of `d`: there is a record `r` with requester `d` in `c`'s own
    table in the PRE-state, and the value is either the relay of a response member of the message
    whose id is `r.rid` (id replaced by `r.originId`, payload unchanged), or — when `c` is dropped in
    this operation — the "peer shuts down" error for `r.originId`. -/
theorem no_response_to_others (cfg : Config) (s : State) (c : Nat) (msg : Option Json) (o : Oracle)
    (d : Nat) (j : Json) (b : Bool) (h : Obs.send d j b ∈ (step cfg s (.message c msg o)).2)
    (hr : isResponse j = true) (hd : d ≠ c) :
    ∃ p0 r, findPeer s.peers c = some p0 ∧ r ∈ p0.routes ∧ r.requester = d ∧
      ((∃ m ∈ members msg, IsRelayOf r m d j) ∨
       (IsShutdownOf c r (.send d j b) ∧ Obs.closed c ∈ (step cfg s (.message c msg o)).2 ∧
          ∀ q ∈ (step cfg s (.message c msg o)).1.peers, q.conn ≠ c)) := by
  have hnm := isResponse_not_hasMethod hr
  rcases step_message_class cfg s c msg o d j b h with hcl | ⟨⟨p0, r, hp0, hr0, hs⟩, hclosed, hgone⟩
  · rcases hcl with hm | ⟨hdc, _⟩ | ⟨m, hm, r, hrel, hor⟩
    · rw [hnm] at hm; cases hm
    · exact absurd hdc hd
    · have hreq : r.requester = d := hrel.2.2.1.symm
      rcases hor with ⟨p0, hp0, hr0⟩ | hself
      · exact ⟨p0, r, hp0, hr0, hreq, Or.inl ⟨m, hm, hrel⟩⟩
      · exact absurd (hreq.symm.trans hself) hd
  · obtain ⟨hne, oid, b', ho, hok, heq⟩ := hs
    have hreq : r.requester = d := by injection heq with h1 _ _; exact h1.symm
    exact ⟨p0, r, hp0, hr0, hreq, Or.inr ⟨⟨hne, oid, b', ho, hok, heq⟩, hclosed, hgone⟩⟩

example : ∃ d j b, Obs.send d j b ∈ (step {} Ex.sRouted (.message 1 (some Ex.replyA) {})).2 ∧
    isResponse j = true ∧ d ≠ 1 := Ex.respToOther_exists (by decide +kernel)

/-- In a `.disconnect c` operation every value sent is a notification, or the "peer shuts down"
    answer of a record `r` of `c`'s table (sent to `r.requester ≠ c`, id = `r.originId`); `c`'s table
    is gone afterwards. -/
theorem no_response_to_others_disconnect (cfg : Config) (s : State) (c : Nat) (o : Oracle)
    (d : Nat) (j : Json) (b : Bool) (h : Obs.send d j b ∈ (step cfg s (.disconnect c o)).2)
    (hr : isResponse j = true) :
    ∃ p0 r oid, findPeer s.peers c = some p0 ∧ r ∈ p0.routes ∧ r.requester = d ∧ d ≠ c ∧
      r.originId = some oid ∧ idOk oid = true ∧ j = shutdownAnswer oid ∧
      ∀ q ∈ (step cfg s (.disconnect c o)).1.peers, q.conn ≠ c := by
  have hnm := isResponse_not_hasMethod hr
  rcases step_disconnect_class cfg s c o d j b h with hm | ⟨⟨p0, r, hp0, hr0, hne, oid, b', ho, hok, heq⟩, hgone⟩
  · rw [hnm] at hm; cases hm
  · injection heq with h1 h2 _
    exact ⟨p0, r, oid, hp0, hr0, h1.symm, h1 ▸ hne, ho, hok, h2, hgone⟩

example : ∃ d j b, Obs.send d j b ∈ (step {} Ex.sRouted (.disconnect 1 {})).2 ∧
    isResponse j = true ∧ d ≠ 1 := Ex.respToOther_exists (by decide +kernel)

/-- In a `.timerFire t` operation the only value sent is the timeout error of the record `r` the
    timer belongs to: to `r.requester`, with id `r.originId`; the operation removes every record
    with `r`'s rid from `r.owner`'s table — under `RoutesOwned` that is the table `r` is in. -/
theorem no_response_to_others_timer (cfg : Config) (s : State) (t : Nat) (o : Oracle)
    (d : Nat) (j : Json) (b : Bool) (h : Obs.send d j b ∈ (step cfg s (.timerFire t o)).2) :
    ∃ p r oid, p ∈ s.peers ∧ r ∈ p.routes ∧ r.timer = t ∧ d = r.requester ∧ r.originId = some oid ∧
      idOk oid = true ∧ j = timeoutAnswer oid ∧
      (step cfg s (.timerFire t o)).2 = [.send d j b, .timerDestroy t] ∧
      (step cfg s (.timerFire t o)).1.peers = removeRoute s.peers r.owner r.rid ∧
      (RoutesOwned s.peers → ∀ q ∈ (step cfg s (.timerFire t o)).1.peers, ∀ r' ∈ q.routes,
        ¬ (r'.owner = r.owner ∧ r'.rid = r.rid)) := by
  obtain ⟨p, r, oid, hp, hr, ht, hd, ho, hok, hj, hst, hobs⟩ := step_timer_class cfg s t o d j b h
  refine ⟨p, r, oid, hp, hr, ht, hd, ho, hok, hj, hobs, hst, fun hinv => ?_⟩
  rw [hst]
  exact removeRoute_gone hinv _ _

example : ∃ d j b, Obs.send d j b ∈ (step {} Ex.sRouted (.timerFire 0 {})).2 ∧
    isResponse j = true ∧ d ≠ 1 := Ex.respToOther_exists (by decide +kernel)

/-- A `.connect` operation sends nothing. -/
theorem connect_silent (cfg : Config) (s : State) (c : Nat) (ws isLocal : Bool) (addr : Bytes) :
    (step cfg s (.connect c ws isLocal addr)).2 = [] := by
  unfold step
  dsimp only
  split <;> rfl

/-- `RoutesOwned` (every routing record sits in the table of the peer named as its owner) holds in
    every state reachable from an initial state with an arbitrary user table. -/
theorem routes_owned_reachable (cfg : Config) (us : List User) (ops : List Op) :
    RoutesOwned (run cfg { users := us } ops).1.peers :=
  run_routesOwned cfg ops _ (fun p hp => by cases hp)

/-! ## 4. incoming response objects are not answered -/

/-- An incoming object without "method" that has a "result" or "error" member (a response object)
    causes at most one send: the relay for the record `r` of `c`'s own table whose rid is the
    object's (string) id — to `r.requester`, with id `r.originId` — and `r` leaves the table.
    In particular `c` itself gets something only if it is the recorded requester (`c` replying to its
    own call), and no INVALID_REQUEST or other error is ever produced for a response object. -/
theorem responses_never_answered (cfg : Config) (x : Ctx) (c : Nat) (p : Peer) (req : Json)
    (hp : findPeer x.st.peers c = some p) (hm : req.getItem (k "method") = none)
    (hre : (req.getItem (k "result")).isSome = true ∨ (req.getItem (k "error")).isSome = true) :
    ∃ new, (parseJsonRpc cfg x c req).1.out = new ++ x.out ∧ (sendsOf new).length ≤ 1 ∧
      ∀ d j b, Obs.send d j b ∈ new →
        ∃ r ∈ p.routes, IsRelayOf r req d j ∧
          (parseJsonRpc cfg x c req).1.st.peers = removeRoute x.st.peers c r.rid :=
  parseJsonRpc_response_spec cfg x c p req hp hm hre

example : (∃ p, findPeer (mkCtx Ex.sRouted {}).st.peers 1 = some p) ∧ Ex.replyA.getItem (k "method") = none ∧
    (Ex.replyA.getItem (k "result")).isSome = true :=
  ⟨Option.isSome_iff_exists.1 (by decide +kernel), Option.isNone_iff_eq_none.1 (by decide +kernel),
    by decide +kernel⟩

/-- An incoming object with none of "method", "result", "error" is answered by exactly the
    INVALID_REQUEST error built from it (so: only if it has a string/number id — see
    `immediate_discipline`, which applies to it), and nothing else happens. -/
theorem neither_request_nor_response (cfg : Config) (x : Ctx) (c : Nat) (req : Json)
    (hlive : (findPeer x.st.peers c).isSome = true) (hm : req.getItem (k "method") = none)
    (h1 : req.getItem (k "result") = none) (h2 : req.getItem (k "error") = none) :
    parseJsonRpc cfg x c req =
      sendResponse x c (errorFromRequest req INVALID_REQUEST "reason" (k "neither request nor response")) := by
  obtain ⟨p, hp⟩ := Option.isSome_iff_exists.1 hlive
  simp only [parseJsonRpc, hp, hm, h1, h2]

example : (findPeer (mkCtx Ex.sRouted {}).st.peers 1).isSome = true ∧ Ex.junk.getItem (k "method") = none ∧
    Ex.junk.getItem (k "result") = none ∧ Ex.junk.getItem (k "error") = none :=
  ⟨by decide +kernel, Option.isNone_iff_eq_none.1 (by decide +kernel),
    Option.isNone_iff_eq_none.1 (by decide +kernel), Option.isNone_iff_eq_none.1 (by decide +kernel)⟩

/-! ## 5. a batch is its members, one by one -/

/-- `parse_json_array` is the left fold of `parse_json_rpc` over the members in order, with the
    early exit: after the first failing member, or the first member that is not an object, nothing
    more is processed and the result is "failed" (the connection is then dropped by `step`). -/
theorem batch_as_sequence (cfg : Config) (x : Ctx) (c : Nat) (l : List Json) :
    parseMessage cfg x c (some (.arr l)) = l.foldl (batchStep cfg c) (x, true) :=
  parseJsonArray_eq_foldl cfg c l x

/-- At the level of operations: if the first member is processed successfully, the batch
    `a :: rest` is the message `a` followed by the message `rest`, with the oracle values the first
    one left over; the states agree and the outputs are concatenated. -/
theorem batch_first_ok (cfg : Config) (s : State) (c : Nat) (la : List (Bytes × Json)) (rest : List Json)
    (o : Oracle) (hlive : (findPeer s.peers c).isSome = true)
    (hok : (parseJsonRpc cfg (mkCtx s o) c (.obj la)).2 = true) :
    step cfg s (.message c (some (.arr (.obj la :: rest))) o) =
      ((step cfg (step cfg s (.message c (some (.obj la)) o)).1
          (.message c (some (.arr rest)) (restOracle (parseJsonRpc cfg (mkCtx s o) c (.obj la)).1))).1,
       (step cfg s (.message c (some (.obj la)) o)).2 ++
        (step cfg (step cfg s (.message c (some (.obj la)) o)).1
          (.message c (some (.arr rest)) (restOracle (parseJsonRpc cfg (mkCtx s o) c (.obj la)).1))).2) :=
  step_batch_cons_ok cfg s c la rest o hlive hok

example : (findPeer Ex.sRouted.peers 1).isSome = true ∧
    (parseJsonRpc {} (mkCtx Ex.sRouted {}) 1 Ex.infoReq).2 = true := ⟨by decide +kernel, by decide +kernel⟩

/-- If the first member fails, the batch is that member alone (the connection is dropped, the rest
    is never looked at). -/
theorem batch_first_fails (cfg : Config) (s : State) (c : Nat) (la : List (Bytes × Json)) (rest : List Json)
    (o : Oracle) (hok : (parseJsonRpc cfg (mkCtx s o) c (.obj la)).2 = false) :
    step cfg s (.message c (some (.arr (.obj la :: rest))) o) = step cfg s (.message c (some (.obj la)) o) :=
  step_batch_cons_fail cfg s c la rest o hok

example : (parseJsonRpc {} (mkCtx Ex.sRouted { sends := [false] }) 1 Ex.infoReq).2 = false := by decide +kernel

/-- Two-element batch against two single-object messages (first one not failing). -/
theorem batch_two (cfg : Config) (s : State) (c : Nat) (la lb : List (Bytes × Json)) (o : Oracle)
    (hlive : (findPeer s.peers c).isSome = true)
    (hok : (parseJsonRpc cfg (mkCtx s o) c (.obj la)).2 = true) :
    step cfg s (.message c (some (.arr [.obj la, .obj lb])) o) =
      ((step cfg (step cfg s (.message c (some (.obj la)) o)).1
          (.message c (some (.obj lb)) (restOracle (parseJsonRpc cfg (mkCtx s o) c (.obj la)).1))).1,
       (step cfg s (.message c (some (.obj la)) o)).2 ++
        (step cfg (step cfg s (.message c (some (.obj la)) o)).1
          (.message c (some (.obj lb)) (restOracle (parseJsonRpc cfg (mkCtx s o) c (.obj la)).1))).2) := by
  rw [step_batch_cons_ok cfg s c la [.obj lb] o hlive hok, step_batch_single]

/-- With the empty oracle (every send succeeds, no table refuses) nothing is left over: the second
    message can be given the empty oracle again. -/
theorem batch_two_all_sends_succeed (cfg : Config) (s : State) (c : Nat) (la lb : List (Bytes × Json))
    (hlive : (findPeer s.peers c).isSome = true)
    (hok : (parseJsonRpc cfg (mkCtx s {}) c (.obj la)).2 = true)
    (hrest : restOracle (parseJsonRpc cfg (mkCtx s {}) c (.obj la)).1 = {}) :
    step cfg s (.message c (some (.arr [.obj la, .obj lb])) {}) =
      ((step cfg (step cfg s (.message c (some (.obj la)) {})).1 (.message c (some (.obj lb)) {})).1,
       (step cfg s (.message c (some (.obj la)) {})).2 ++
        (step cfg (step cfg s (.message c (some (.obj la)) {})).1 (.message c (some (.obj lb)) {})).2) := by
  rw [batch_two cfg s c la lb {} hlive hok, hrest]

example : (findPeer Ex.sRouted.peers 1).isSome = true ∧
    (parseJsonRpc {} (mkCtx Ex.sRouted {}) 1 Ex.infoReq).2 = true ∧
    restOracle (parseJsonRpc {} (mkCtx Ex.sRouted {}) 1 Ex.infoReq).1 = {} :=
  ⟨by decide +kernel, by decide +kernel, by decide +kernel⟩

/-! ## 6. at most one final answer per routed request (joint with C03) -/

/-- A relay consumes its routing record: under `RoutesOwned` (true in every reachable state) no record
    with the same owner and rid is left after the response object has been processed. -/
theorem relay_removes_route (cfg : Config) (x : Ctx) (c : Nat) (p : Peer) (req : Json)
    (hp : findPeer x.st.peers c = some p) (hm : req.getItem (k "method") = none)
    (hre : (req.getItem (k "result")).isSome = true ∨ (req.getItem (k "error")).isSome = true)
    (hinv : RoutesOwned x.st.peers)
    (new : List Obs) (hnew : (parseJsonRpc cfg x c req).1.out = new ++ x.out)
    (d : Nat) (j : Json) (b : Bool) (hsend : Obs.send d j b ∈ new) :
    ∃ r ∈ p.routes, IsRelayOf r req d j ∧ r.owner = c ∧
      ∀ q ∈ (parseJsonRpc cfg x c req).1.st.peers, ∀ r' ∈ q.routes, ¬ (r'.owner = r.owner ∧ r'.rid = r.rid) := by
  obtain ⟨new', hnew', _, hcl⟩ := responses_never_answered cfg x c p req hp hm hre
  have : new = new' := List.append_cancel_right (hnew.symm.trans hnew')
  subst this
  obtain ⟨r, hr, hrel, hst⟩ := hcl d j b hsend
  have hown : r.owner = c := (hinv p (findPeer_mem hp) r hr).trans (findPeer_conn hp)
  refine ⟨r, hr, hrel, hown, ?_⟩
  rw [hst, hown]
  exact removeRoute_gone hinv c r.rid

/-- A response object whose id matches no record of the sender's own table is dropped silently: a
    record that has been removed is never answered again. -/
theorem unknown_id_not_answered (cfg : Config) (x : Ctx) (c : Nat) (p : Peer) (req : Json)
    (hp : findPeer x.st.peers c = some p) (hm : req.getItem (k "method") = none)
    (hre : (req.getItem (k "result")).isSome = true ∨ (req.getItem (k "error")).isSome = true)
    (hno : ∀ r ∈ p.routes, req.getItem (k "id") ≠ some (.str r.rid))
    (new : List Obs) (hnew : (parseJsonRpc cfg x c req).1.out = new ++ x.out) : sendsOf new = [] := by
  obtain ⟨new', hnew', _, hcl⟩ := responses_never_answered cfg x c p req hp hm hre
  have : new = new' := List.append_cancel_right (hnew.symm.trans hnew')
  subst this
  have hnone : ∀ o ∈ new, ∀ d j b, o ≠ Obs.send d j b := by
    intro o ho d j b heq
    subst heq
    obtain ⟨r, hr, hrel, _⟩ := hcl d j b ho
    exact hno r hr hrel.2.1
  exact sendsOf_nil_of_no_send hnone

example : (∃ p, findPeer (mkCtx Ex.sRouted {}).st.peers 2 = some p) ∧ Ex.replyA.getItem (k "method") = none ∧
    (Ex.replyA.getItem (k "result")).isSome = true :=
  ⟨Option.isSome_iff_exists.1 (by decide +kernel), Option.isNone_iff_eq_none.1 (by decide +kernel),
    by decide +kernel⟩

/-- The invariant of the ledger (`RoutesOwned` and pairwise distinct connection numbers) holds in
    every state reachable from an initial state with an arbitrary user table. -/
theorem ledger_invariant_reachable (cfg : Config) (us : List User) (ops : List Op) :
    Inv (run cfg { users := us } ops).1 :=
  run_inv cfg ops _ (inv_init us)

/-- The ledger of one operation: the response objects sent, plus the routing records that still
    owe an answer afterwards, are covered by the records that owed one before plus the request
    objects with a string/number id delivered by this operation.  Since a request object gets at
    most one immediate response (`immediate_response_count`), every further response consumes a
    record that owed an answer — a record is answered at most once. -/
theorem final_answer_ledger (cfg : Config) (s : State) (op : Op) (h : Inv s) :
    respCount (step cfg s op).2 + pendingA (step cfg s op).1.peers ≤ pendingA s.peers + opReqN op :=
  step_ledger cfg s op h

example : Inv Ex.sRouted := run_inv {} Ex.setup _ (inv_init [])

/-- Over any run from the initial state: the number of response objects the daemon sends (to
    anybody, immediate answers, relays, timeout and shutdown answers together) never exceeds the
    number of request objects with a string/number id it was given; the difference covers at least
    the routed requests still pending at the end. -/
theorem at_most_one_final_answer (cfg : Config) (us : List User) (ops : List Op) :
    totalResp (run cfg { users := us } ops).2 + pendingA (run cfg { users := us } ops).1.peers ≤
      (ops.map opReqN).sum := by
  have := run_ledger cfg ops { users := us } (inv_init us)
  simpa [pendingA] using this

end Cjet.Daemon.C02
