import Cjet.Lemmas.DaemonC08Examples
import Cjet.Props.Accept

/-!
# C08 — access control: visibility and set/call rights follow authenticated groups only

Model: `Cjet.Daemon.Model` (`groupBit`/`getGroups`/`hasAccess` = groups.c, `authenticateReq` /
`passwdReq` = authenticate.c + the decision part of posix/auth_file.c, the checks in
`offerElement`, `getReq`, `setOrCall`, `addElement`).  `cfg.authLoaded = true` means a credential
file is loaded, `cfg.allGroups` are the registered group names, `State.users` the credential
table (plaintext passwords; `crypt` is outside the model).  Group words are `Nat` bit sets;
`groups_fit_word` shows that they fit the 32-bit `group_t` when at most 32 groups are registered.

Vocabulary (`Cjet.Lemmas.DaemonC08*`):
* `Reach cfg us s`  — `s` is reached from `{ users := us }` by some list of operations (`run`);
* `Unit`            — one JSON-RPC object (`.req x c j`: `parseJsonRpc cfg x c j` runs in context
                      `x`), one close (`.close x c`) or one timer expiry (`.timeout x t`);
  `unitsOf cfg s op` — the units of operation `op` in the order they run (a batch message has one
                      unit per member, then possibly the close of the sender); `u.pre` the context
                      in which `u` starts ("the time of sending" for everything `u` sends),
                      `u.post cfg` the one it ends in; `u.decl cfg` the path and fetch groups an
                      `add` request declares;
* `idFirst j`       — `j` is an object whose first member is "id" (answers and routed requests);
  `isNotif j`       — first member "method" (fetch notifications); `notification e fid ev` is the
                      value notify/offer build for element `e`;
* `ElemIn s path fg`— some peer of `s` owns an element with this path and these fetch groups;
* `AV p`            — `(p.conn, p.user, p.fetchGroups, p.setGroups, p.callGroups)`;
* `VerifiedAuth cfg u p'` — unit `u` is a request of the connection of `p'` whose "user"/"password"
                      members name a record of the credential table (case-folded lookup, as the
                      code does) with exactly that password and an "auth" object, and the user
                      name and three group words of `p'` are the presented name and what
                      get_groups derives from that object;
* `methodOf req`    — the string "method" member; `credentialsOk us u pw` — verdict of credentials_ok;
* `Inv cfg s`       — the invariant (`FInv`: unique connection numbers, fetcher-table slots only for
                      live subscriptions with access; `AuthInv`: theorem 2) — `reachable_inv`.
-/

namespace Cjet.Daemon.C08

open Cjet Cjet.Json Cjet.Daemon

/-! ## 1. groups.c: names ↦ bits, access = non-empty intersection -/

/-- get_groups: bit `j` of the word is set iff the `j`-th registered group name occurs as a string
    member of the array.  (A name registered twice, at `j` and `j'`, sets both bits — the statement
    is per index, so it covers that case as it is; add_group in the C code never registers a name
    twice.) -/
theorem groups_spec (cfg : Config) (hauth : cfg.authLoaded = true) (l : List Json) (j : Nat) :
    (getGroups cfg (some (.arr l))).testBit j = true ↔
      ∃ name, cfg.allGroups[j]? = some name ∧ Json.str name ∈ l :=
  getGroups_testBit cfg hauth l j

example : exCfg.authLoaded = true ∧ getGroups exCfg (some (grp ["ops", "nobody"])) = 2 := by decide +kernel

/-- everything else yields the empty word; words fit `group_t` under the 32-group limit -/
theorem groups_fit_word (cfg : Config) :
    (∀ j, (∀ l, j ≠ some (.arr l)) → getGroups cfg j = 0) ∧
    (cfg.authLoaded = false → ∀ j, getGroups cfg j = 0) ∧
    (cfg.allGroups.length ≤ 32 → ∀ j, getGroups cfg j < 2 ^ 32) :=
  ⟨getGroups_not_array cfg, fun h j => getGroups_noauth cfg h j, fun h j => getGroups_lt cfg h j⟩

example : exCfg.allGroups.length ≤ 32 := by decide +kernel

/-- has_access: a shared set bit when a credential file is loaded, always true otherwise -/
theorem has_access_spec (cfg : Config) (a b : Nat) :
    (cfg.authLoaded = true → (hasAccess cfg a b = true ↔ ∃ i, a.testBit i = true ∧ b.testBit i = true)) ∧
    (cfg.authLoaded = true → (hasAccess cfg a b = true ↔ a &&& b ≠ 0)) ∧
    (cfg.authLoaded = false → hasAccess cfg a b = true) :=
  ⟨fun h => (hasAccess_auth cfg h a b).trans (and_ne_zero_iff a b), fun h => hasAccess_auth cfg h a b,
   fun h => hasAccess_noauth cfg h a b⟩

/-- access = non-empty intersection of the NAMED groups -/
theorem access_iff_shared_group (cfg : Config) (hauth : cfg.authLoaded = true) (la lb : List Json) :
    hasAccess cfg (getGroups cfg (some (.arr la))) (getGroups cfg (some (.arr lb))) = true ↔
      ∃ name, name ∈ cfg.allGroups ∧ Json.str name ∈ la ∧ Json.str name ∈ lb := by
  rw [hasAccess_auth cfg hauth, and_ne_zero_iff]
  constructor
  · rintro ⟨i, ha, hb⟩
    obtain ⟨n1, h1, m1⟩ := (getGroups_testBit cfg hauth la i).mp ha
    obtain ⟨n2, h2, m2⟩ := (getGroups_testBit cfg hauth lb i).mp hb
    have : n1 = n2 := by rw [h1] at h2; exact Option.some.inj h2
    subst this
    exact ⟨n1, List.mem_of_getElem? h1, m1, m2⟩
  · rintro ⟨name, hn, ma, mb⟩
    obtain ⟨i, hi⟩ := List.mem_iff_getElem?.mp hn
    exact ⟨i, (getGroups_testBit cfg hauth la i).mpr ⟨name, hi, ma⟩, (getGroups_testBit cfg hauth lb i).mpr ⟨name, hi, mb⟩⟩

example : hasAccess exCfg (getGroups exCfg (some (grp ["admin"]))) (getGroups exCfg (some (grp ["ops", "admin"]))) = true ∧
    hasAccess exCfg (getGroups exCfg (some (grp ["admin"]))) (getGroups exCfg (some (grp ["ops"]))) = false := by
  decide +kernel

/-! ## 2. peer groups come from a successful authenticate only -/

/-- every reachable state satisfies the invariant the other theorems assume of a context -/
theorem reachable_inv (cfg : Config) (us : List User) (s : State) (hr : Reach cfg us s) (op : Op) :
    Inv cfg s ∧ Reach cfg us (step cfg s op).1 ∧ ∀ u ∈ unitsOf cfg s op, Inv cfg u.pre.st :=
  ⟨hr.inv, hr.step op, (step_inv cfg s op hr.inv).2.1⟩

example : Reach exCfg exUsers exS := exS_reach

/-- In every reachable state every live peer either holds no user name and no group at all, or
    holds a user name `u` for which the case-folded lookup finds a credential record with an
    "auth" object from which get_groups yields exactly the peer's three group words.
    (No hypothesis on `authLoaded`: without a credential file `getGroups` is constantly 0.) -/
theorem peer_groups_from_auth_only (cfg : Config) (us : List User) (s : State) (hr : Reach cfg us s) :
    ∀ p ∈ s.peers,
      (p.user = none ∧ p.fetchGroups = 0 ∧ p.setGroups = 0 ∧ p.callGroups = 0) ∨
      (∃ u usr auth, p.user = some u ∧ findUser s.users u = some usr ∧ usr.auth = some auth ∧
        p.fetchGroups = getGroups cfg (auth.getItem (k "fetchGroups")) ∧
        p.setGroups = getGroups cfg (auth.getItem (k "setGroups")) ∧
        p.callGroups = getGroups cfg (auth.getItem (k "callGroups"))) :=
  hr.inv.a

example : userCheck exS 1 true = true ∧ userCheck exS 3 false = true := by decide +kernel

/-- … and the credential table of a reachable state is the loaded one up to password fields -/
theorem credential_table_stable (cfg : Config) (us : List User) (s : State) (hr : Reach cfg us s) :
    s.users.map (fun u => (u.name, u.auth, u.readonly, u.admin)) =
      us.map (fun u => (u.name, u.auth, u.readonly, u.admin)) := by
  obtain ⟨ops, rfl⟩ := hr
  exact run_users ops _ (Inv.init cfg us)

/-- The history part: across one operation the authentication fields of a peer stay as they were,
    or the peer is the fresh one of a `connect` (all unset), or the operation contains a request
    of that very connection presenting the stored password of a credential record, and the
    peer's user name and group words are exactly those of that record (`VerifiedAuth`). -/
theorem groups_change_only_by_verified_password (cfg : Config) (us : List User) (s : State)
    (hr : Reach cfg us s) (op : Op) :
    ∀ p' ∈ (step cfg s op).1.peers,
      (∃ p ∈ s.peers, AV p' = AV p) ∨
      (∃ ws il a, op = .connect p'.conn ws il a ∧ p'.user = none ∧ p'.fetchGroups = 0 ∧
        p'.setGroups = 0 ∧ p'.callGroups = 0) ∨
      (∃ u ∈ unitsOf cfg s op, VerifiedAuth cfg u p') :=
  step_auth hr.inv op

example : userCheck (step exCfg exS (.message 3 (some exGoodAuth) {})).1 3 true = true := by decide +kernel

/-- after `connect`, on either transport and from any origin, the new peer has no user and no group -/
theorem fresh_peer_has_no_groups (cfg : Config) (s : State) (c : Nat) (ws il : Bool) (a : Bytes)
    (h : findPeer s.peers c = none) :
    ∃ p, (step cfg s (.connect c ws il a)).1.peers = s.peers ++ [p] ∧ p.conn = c ∧ p.ws = ws ∧ p.isLocal = il ∧
      p.user = none ∧ p.fetchGroups = 0 ∧ p.setGroups = 0 ∧ p.callGroups = 0 ∧
      (step cfg s (.connect c ws il a)).2 = [] := by
  refine ⟨{ conn := c, ws := ws, isLocal := il, addrTok := a }, ?_, rfl, rfl, rfl, rfl, rfl, rfl, rfl, ?_⟩
  · simp [step, h]
  · simp [step, h]

example : findPeer exS.peers 4 = none := by
  have : (findPeer exS.peers 4).isNone = true := by decide +kernel
  simpa using this

/-- An authenticate that is answered with an error, or whose credentials do not verify, leaves
    the whole context (state, outputs, oracle) unchanged. -/
theorem failed_auth_changes_nothing (cfg : Config) (x : Ctx) (p : Peer) (req : Json) :
    (∀ j, (authenticateReq cfg x p req).2 = some j → (j.getItem (k "error")).isSome = true →
        (authenticateReq cfg x p req).1 = x) ∧
    (∀ u pw, getCredentials req = .ok u pw → credentialsOk x.st.users u pw = none →
        (authenticateReq cfg x p req).1 = x) := by
  rcases authenticateReq_cases cfg x p req with ⟨h, _⟩ | ⟨u, pw, auth, hc, _, hok, heq⟩
  · exact ⟨fun _ _ _ => h, fun _ _ _ _ => h⟩
  · constructor
    · intro j hj he
      rw [heq] at hj
      rw [success_has_no_error hj] at he
      cases he
    · intro u' pw' hc' hno
      rw [hc] at hc'
      injection hc' with h1 h2
      subst h1; subst h2
      rw [hok] at hno
      cases hno

example : isErrorResp (authenticateReq exCfg exX { conn := 3, ws := false, isLocal := false, addrTok := k "0x3" } exBadAuth).2 = true := by
  decide +kernel

/-- the same through the dispatcher: the unit of a failed authenticate leaves the state as it was -/
theorem failed_auth_changes_nothing_unit (cfg : Config) (x : Ctx) (c : Nat) (p : Peer) (req : Json)
    (hp : findPeer x.st.peers c = some p) (hm : methodOf req = some (k "authenticate"))
    (hfail : ∀ u pw, getCredentials req = .ok u pw → credentialsOk x.st.users u pw = none) :
    (parseJsonRpc cfg x c req).1.st = x.st := by
  rw [parseJsonRpc_method hp hm, handleMethod_authenticate]
  have h1 : (authenticateReq cfg x p req).1 = x := by
    rcases authenticateReq_cases cfg x p req with ⟨h, _⟩ | ⟨u, pw, auth, hc, _, hok, _⟩
    · exact h
    · rw [hfail u pw hc] at hok; cases hok
  rw [h1]
  unfold sendResponse
  split
  · rfl
  · exact send_st _ _ _

example : findPeer exS.peers 3 = some { conn := 3, ws := false, isLocal := false, addrTok := k "0x3" } ∨ True := Or.inr trivial

/-! ## 3. visibility -/

/-- Every value the daemon sends in any operation from any reachable state is either an answer /
    routed request (first member "id") or a fetch notification, and every notification
    `notification e fid ev` sent to connection `c` was sent by a unit `u` of the operation in whose
    start state the peer `p` of `c` shares a fetch group with `e`
    (`e.fetchGroups &&& p.fetchGroups ≠ 0`), where `e` carries the path and fetch groups of an
    element registered in that state or of the element the unit's `add` request declares. -/
theorem visible_only_shared_group (cfg : Config) (hauth : cfg.authLoaded = true) (us : List User) (s : State)
    (hr : Reach cfg us s) (op : Op) :
    ∀ c j ok, Obs.send c j ok ∈ (step cfg s op).2 →
      (idFirst j = true ∧ isNotif j = false) ∨
      (isNotif j = true ∧ ∃ u ∈ unitsOf cfg s op, ∃ e fid ev p,
        j = notification e fid ev ∧ findPeer u.pre.st.peers c = some p ∧
        e.fetchGroups &&& p.fetchGroups ≠ 0 ∧
        (ElemIn u.pre.st e.path e.fetchGroups ∨ u.decl cfg = some (e.path, e.fetchGroups))) := by
  intro c j ok hmem
  obtain ⟨u, hu, hJ⟩ := (step_inv cfg s op hr.inv).2.2 _ hmem
  rcases hJ with h | ⟨e, fid, ev, p, h1, h2, h3, h4⟩
  · exact Or.inl ⟨h, not_isNotif_of_idFirst h⟩
  · refine Or.inr ⟨h1 ▸ isNotif_notification e fid ev, u, hu, e, fid, ev, p, h1, h2, ?_, h4⟩
    exact (hasAccess_auth cfg hauth _ _).mp h3

example : ∃ j ok, Obs.send 2 j ok ∈ (step exCfg exS exChange).2 ∧ isNotif j = true :=
  notifTo_sound (by decide +kernel)

/-- `get`: the unit of a get request only answers the caller, and every entry of the result is
    the path/value of a registered state that shares a fetch group with the caller. -/
theorem get_only_shared_group (cfg : Config) (hauth : cfg.authLoaded = true) (x : Ctx) (c : Nat) (p : Peer) (req : Json)
    (hp : findPeer x.st.peers c = some p) (hm : methodOf req = some (k "get")) :
    ∃ r, parseJsonRpc cfg x c req = sendResponse x c r ∧
      ((∃ code tag reason, r = errorFromRequest req code tag reason) ∨
       (∃ entries, r = resultFromRequest req (.arr entries) ∧
         ∀ entry ∈ entries, ∃ owner ∈ x.st.peers, ∃ e ∈ owner.elements, ∃ v, e.value = some v ∧
           entry = Json.obj [(k "path", .str e.path), (k "value", v)] ∧
           e.fetchGroups &&& p.fetchGroups ≠ 0)) := by
  rw [parseJsonRpc_method hp hm, handleMethod_get]
  obtain ⟨h1, h2⟩ := getReq_spec cfg x p req
  refine ⟨(getReq cfg x p req).2, by rw [h1], ?_⟩
  rcases h2 with ⟨tag, reason, code, h⟩ | ⟨rule, h⟩
  · exact Or.inl ⟨code, tag, reason, h⟩
  · refine Or.inr ⟨_, h, ?_⟩
    intro entry he
    obtain ⟨owner, ho, e, hel, v, hv, hent, hacc, _⟩ := getEntries_mem he
    exact ⟨owner, ho, e, hel, v, hv, hent, (hasAccess_auth cfg hauth _ _).mp hacc⟩

example : ∃ p, findPeer exX.st.peers 2 = some p ∧ methodOf exGet = some (k "get") := by
  obtain ⟨p, hp, _⟩ := userCheck_sound (s := exS) (c := 2) (a := true) (by decide +kernel)
  exact ⟨p, hp, by decide +kernel⟩

/-! ## 4. set / call -/

/-- A set (call) for an element whose set (call) groups share no group with the caller is not
    routed: the unit is exactly "answer the caller with an INVALID_PARAMS error" — the state is
    unchanged (no routing entry, counters untouched), nothing is sent to the owner, no timer is
    armed; without a usable request id nothing is sent at all. -/
theorem set_call_only_shared_group (cfg : Config) (hauth : cfg.authLoaded = true) (x : Ctx) (c : Nat) (p : Peer)
    (req params : Json) (path : Bytes) (e : Element) (isState : Bool)
    (hp : findPeer x.st.peers c = some p)
    (hm : methodOf req = some (if isState then k "set" else k "call"))
    (hgp : getParamsAndPath req = .ok params path) (he : findElement x.st path = some e)
    (hno : (if isState then e.setGroups &&& p.setGroups else e.callGroups &&& p.callGroups) = 0) :
    ∃ tag, parseJsonRpc cfg x c req = sendResponse x c (errorFromRequest req INVALID_PARAMS tag path) ∧
      (parseJsonRpc cfg x c req).1.st = x.st ∧
      ((errorFromRequest req INVALID_PARAMS tag path = none ∧ (parseJsonRpc cfg x c req).1 = x) ∨
       (∃ resp ok, errorFromRequest req INVALID_PARAMS tag path = some resp ∧
          (parseJsonRpc cfg x c req).1.out = Obs.send c resp ok :: x.out)) := by
  have hacc : routeAccess cfg e p isState = false := by
    unfold routeAccess
    cases isState with
    | true =>
      simp only [if_true] at hno ⊢
      cases h : hasAccess cfg e.setGroups p.setGroups with
      | false => rfl
      | true => exact absurd hno ((hasAccess_auth cfg hauth _ _).mp h)
    | false =>
      simp only [Bool.false_eq_true, if_false] at hno ⊢
      cases h : hasAccess cfg e.callGroups p.callGroups with
      | false => rfl
      | true => exact absurd hno ((hasAccess_auth cfg hauth _ _).mp h)
  obtain ⟨tag, htag⟩ := setOrCall_denied (cfg := cfg) (x := x) (isState := isState) hgp he hacc
  have hpj : parseJsonRpc cfg x c req = sendResponse x c (errorFromRequest req INVALID_PARAMS tag path) := by
    rw [parseJsonRpc_method hp hm]
    cases isState with
    | true => simp only [if_true]; rw [handleMethod_set, htag]
    | false => simp only [Bool.false_eq_true, if_false]; rw [handleMethod_call, htag]
  refine ⟨tag, hpj, ?_, ?_⟩
  · rw [hpj]; unfold sendResponse; split
    · rfl
    · exact send_st _ _ _
  · rw [hpj]
    cases hr : errorFromRequest req INVALID_PARAMS tag path with
    | none => exact Or.inl ⟨rfl, rfl⟩
    | some resp =>
      obtain ⟨ok, hok⟩ := send_out x c resp
      exact Or.inr ⟨resp, ok, rfl, hok⟩

example : ∃ p params path e, findPeer exX.st.peers 3 = some p ∧ methodOf exSet = some (k "set") ∧
    getParamsAndPath exSet = .ok params path ∧ findElement exX.st path = some e ∧ e.setGroups &&& p.setGroups = 0 := by
  obtain ⟨p, params, path, e, h1, h2, h3, h4⟩ := routeCheck_sound (x := exX) (c := 3) (req := exSet) (isState := true)
    (shared := false) (by decide +kernel)
  exact ⟨p, params, path, e, h1, by decide +kernel, h2, h3, by simpa using h4⟩

/-- Conversely: whenever the unit of a set (call) request is anything else than just answering the
    caller — a routing entry, a timer, a message to the owner — the element shares a set (call)
    group with the caller. -/
theorem routed_only_if_shared (cfg : Config) (hauth : cfg.authLoaded = true) (x : Ctx) (c : Nat) (p : Peer)
    (req : Json) (isState : Bool) (hp : findPeer x.st.peers c = some p)
    (hm : methodOf req = some (if isState then k "set" else k "call"))
    (hmore : ∀ r, parseJsonRpc cfg x c req ≠ sendResponse x c r) :
    ∃ params path e, getParamsAndPath req = .ok params path ∧ findElement x.st path = some e ∧
      (if isState then e.setGroups &&& p.setGroups else e.callGroups &&& p.callGroups) ≠ 0 := by
  have hpj : parseJsonRpc cfg x c req =
      sendResponse (setOrCall cfg x p req isState).1 c (setOrCall cfg x p req isState).2 := by
    rw [parseJsonRpc_method hp hm]
    cases isState with
    | true => simp only [if_true]; rw [handleMethod_set]
    | false => simp only [Bool.false_eq_true, if_false]; rw [handleMethod_call]
  rcases setOrCall_effect cfg x p req isState with h | ⟨params, path, e, h1, h2, h3⟩
  · exact absurd (by rw [hpj, h]) (hmore (setOrCall cfg x p req isState).2)
  · refine ⟨params, path, e, h1, h2, ?_⟩
    unfold routeAccess at h3
    cases isState with
    | true => simp only [if_true] at h3 ⊢; exact (hasAccess_auth cfg hauth _ _).mp h3
    | false => simp only [Bool.false_eq_true, if_false] at h3 ⊢; exact (hasAccess_auth cfg hauth _ _).mp h3

example : routeCheck exX 2 exSet true true = true := by decide +kernel

/-! ## 5. a peer that never authenticated -/

/-- With a credential file loaded, an element without declared fetch (set, call) groups is
    visible to (settable, callable by) nobody: `fill_access` gives it the empty words and
    `has_access` of an empty word is false. -/
theorem element_without_groups_invisible (cfg : Config) (hauth : cfg.authLoaded = true) (isState : Bool) (g : Nat) :
    fillAccess cfg isState none = .ok (0, 0, 0) ∧ hasAccess cfg 0 g = false ∧ hasAccess cfg g 0 = false := by
  refine ⟨rfl, ?_, ?_⟩
  · cases h : hasAccess cfg 0 g with
    | false => rfl
    | true => exact absurd (Nat.zero_and g) ((hasAccess_auth cfg hauth _ _).mp h)
  · cases h : hasAccess cfg g 0 with
    | false => rfl
    | true => exact absurd (Nat.and_zero g) ((hasAccess_auth cfg hauth _ _).mp h)

/-- A peer without a user name (it never authenticated successfully, theorem 2) receives no
    notification for any element: a unit that starts while connection `c` is unauthenticated sends
    to `c` nothing but answers and routed requests. -/
theorem unauthenticated_gets_no_notification (cfg : Config) (hauth : cfg.authLoaded = true) (us : List User)
    (s : State) (hr : Reach cfg us s) (op : Op) (u : Unit) (hu : u ∈ unitsOf cfg s op) (c : Nat) (p : Peer)
    (hp : findPeer u.pre.st.peers c = some p) (hnone : p.user = none) :
    ∃ new, (u.post cfg).out = new ++ u.pre.out ∧
      ∀ j ok, Obs.send c j ok ∈ new → idFirst j = true ∧ isNotif j = false := by
  have hI : Inv cfg u.pre.st := (step_inv cfg s op hr.inv).2.1 u hu
  obtain ⟨_, new, hnew, hJ⟩ := unit_inv cfg u hI
  refine ⟨new, hnew, ?_⟩
  intro j ok hmem
  rcases hJ _ hmem with h | ⟨e, fid, ev, p', _, h2, h3, _⟩
  · exact ⟨h, not_isNotif_of_idFirst h⟩
  · exfalso
    rw [hp] at h2
    cases h2
    rcases hI.a p (findPeer_mem hp) with ⟨_, hz, _, _⟩ | ⟨u', _, _, hu', _⟩
    · rw [hz] at h3
      exact absurd (Nat.and_zero _) ((hasAccess_auth cfg hauth _ _).mp h3)
    · rw [hnone] at hu'; cases hu'

example : ∃ u ∈ unitsOf exCfg exS exChange, ∃ p, findPeer u.pre.st.peers 3 = some p ∧ p.user = none := by
  refine ⟨.req exX 1 _, unitsOf_single exCfg exS 1 _ {} (by decide +kernel), ?_⟩
  obtain ⟨p, hp, hu⟩ := userCheck_sound (s := exS) (c := 3) (a := false) (by decide +kernel)
  exact ⟨p, hp, by simpa using hu⟩

/-- … its `get` yields an empty result … -/
theorem unauthenticated_get_is_empty (cfg : Config) (hauth : cfg.authLoaded = true) (x : Ctx) (hI : Inv cfg x.st)
    (c : Nat) (p : Peer) (req : Json) (hp : findPeer x.st.peers c = some p) (hnone : p.user = none)
    (hm : methodOf req = some (k "get")) :
    ∃ r, parseJsonRpc cfg x c req = sendResponse x c r ∧
      ((∃ code tag reason, r = errorFromRequest req code tag reason) ∨ r = resultFromRequest req (.arr [])) := by
  obtain ⟨r, h1, h2⟩ := get_only_shared_group cfg hauth x c p req hp hm
  refine ⟨r, h1, ?_⟩
  rcases h2 with h | ⟨entries, hr, hall⟩
  · exact Or.inl h
  · right
    have hz : p.fetchGroups = 0 := by
      rcases hI.a p (findPeer_mem hp) with ⟨_, hz, _, _⟩ | ⟨u', _, _, hu', _⟩
      · exact hz
      · rw [hnone] at hu'; cases hu'
    cases entries with
    | nil => exact hr
    | cons a rest =>
      obtain ⟨_, _, e, _, _, _, _, hne⟩ := hall a (List.mem_cons_self ..)
      rw [hz] at hne
      exact absurd (Nat.and_zero _) hne

example : Inv exCfg exX.st ∧ userCheck exX.st 3 false = true := ⟨exS_reach.inv, by decide +kernel⟩

/-- … and none of its set / call requests is routed. -/
theorem unauthenticated_cannot_set_or_call (cfg : Config) (hauth : cfg.authLoaded = true) (x : Ctx) (hI : Inv cfg x.st)
    (c : Nat) (p : Peer) (req : Json) (isState : Bool) (hp : findPeer x.st.peers c = some p) (hnone : p.user = none)
    (hm : methodOf req = some (if isState then k "set" else k "call")) :
    ∃ r, parseJsonRpc cfg x c req = sendResponse x c r := by
  apply Classical.byContradiction
  intro hcon
  have hmore : ∀ r, parseJsonRpc cfg x c req ≠ sendResponse x c r := fun r h => hcon ⟨r, h⟩
  obtain ⟨_, _, e, _, _, hne⟩ := routed_only_if_shared cfg hauth x c p req isState hp hm hmore
  rcases hI.a p (findPeer_mem hp) with ⟨_, _, hs, hc⟩ | ⟨u', _, _, hu', _⟩
  · rw [hs, hc] at hne
    cases isState with
    | true => exact hne (Nat.and_zero _)
    | false => exact hne (Nat.and_zero _)
  · rw [hnone] at hu'; cases hu'

/-- Summary: in every reachable state, for every operation, a unit that starts while connection
    `c` has no user name sends `c` no notification; and if that unit is a request of `c` itself
    it answers a `get` with an error or the empty list and does not route a `set` / `call`. -/
theorem unauthenticated_sees_nothing_protected (cfg : Config) (hauth : cfg.authLoaded = true) (us : List User)
    (s : State) (hr : Reach cfg us s) (op : Op) (u : Unit) (hu : u ∈ unitsOf cfg s op) (c : Nat) (p : Peer)
    (hp : findPeer u.pre.st.peers c = some p) (hnone : p.user = none) :
    (∃ new, (u.post cfg).out = new ++ u.pre.out ∧
      ∀ j ok, Obs.send c j ok ∈ new → idFirst j = true ∧ isNotif j = false) ∧
    (∀ x req, u = .req x c req →
      (methodOf req = some (k "get") → ∃ r, u.post cfg = (sendResponse x c r).1 ∧
        ((∃ code tag reason, r = errorFromRequest req code tag reason) ∨ r = resultFromRequest req (.arr []))) ∧
      (methodOf req = some (k "set") ∨ methodOf req = some (k "call") → ∃ r, u.post cfg = (sendResponse x c r).1)) := by
  have hI : Inv cfg u.pre.st := (step_inv cfg s op hr.inv).2.1 u hu
  refine ⟨unauthenticated_gets_no_notification cfg hauth us s hr op u hu c p hp hnone, ?_⟩
  intro x req hux
  subst hux
  refine ⟨?_, ?_⟩
  · intro hm
    obtain ⟨r, h1, h2⟩ := unauthenticated_get_is_empty cfg hauth x hI c p req hp hnone hm
    exact ⟨r, congrArg Prod.fst h1, h2⟩
  · rintro (hm | hm)
    · obtain ⟨r, h1⟩ := unauthenticated_cannot_set_or_call cfg hauth x hI c p req true hp hnone hm
      exact ⟨r, congrArg Prod.fst h1⟩
    · obtain ⟨r, h1⟩ := unauthenticated_cannot_set_or_call cfg hauth x hI c p req false hp hnone hm
      exact ⟨r, congrArg Prod.fst h1⟩

example : ∃ u ∈ unitsOf exCfg exS (.message 3 (some exSet) {}), ∃ p, findPeer u.pre.st.peers 3 = some p ∧ p.user = none := by
  refine ⟨.req exX 3 exSet, unitsOf_single exCfg exS 3 _ {} (by decide +kernel), ?_⟩
  obtain ⟨p, hp, hu⟩ := userCheck_sound (s := exS) (c := 3) (a := false) (by decide +kernel)
  exact ⟨p, hp, by simpa using hu⟩

/-! ## 6. passwords never reach an output -/

/-- Two runs that differ only in password strings — the password fields of the credential table
    (`StRel`: same peers, index, counters; tables equal up to passwords) and the "password" values
    carried by authenticate / passwd requests (`OpRel`: same operation, or messages whose request
    objects are pairwise the same or authenticate / passwd requests with the same id and user) —
    and in which every credential comparison has the same verdict (part of `OpRel`, stated for the
    contexts in which the request objects are processed) produce IDENTICAL outputs and end in
    states that again differ in password fields only.  Outputs are a function of the verdicts,
    not of the password bytes. -/
theorem password_noninterference (cfg : Config) (s s' : State) (h : StRel s s') (op op' : Op)
    (hop : OpRel cfg s s' op op') :
    (step cfg s' op').2 = (step cfg s op).2 ∧ StRel (step cfg s op).1 (step cfg s' op').1 :=
  step_rel cfg h op op' hop

example : StRel exS exS' ∧ OpRel exCfg exS exS' (exAuthOp "pw2") (exAuthOp "other") := ⟨exS_rel, exOpRel⟩

/-- The same for a single request object in an arbitrary context `x` and the context `wu us' x`
    that differs from it in the credential table: the second run ends in `wu us'' x₁` for the end
    context `x₁` of the first run (so: the same outputs, peers, oracle state) with a table `us''`
    that still agrees up to passwords, and with the same keep/drop decision. -/
theorem password_noninterference_unit (cfg : Config) (x : Ctx) (c : Nat) (req req' : Json) (us' : List User)
    (h : PwOnly x.st.users us') (hr : ReqRel req req') (hv : Verdicts x.st.users us' req req') :
    ∃ us'', PwOnly (parseJsonRpc cfg x c req).1.st.users us'' ∧
      parseJsonRpc cfg (wu us' x) c req' = (wu us'' (parseJsonRpc cfg x c req).1, (parseJsonRpc cfg x c req).2) :=
  parseJsonRpc_rel cfg x c h hr hv

example : PwOnly exX.st.users exS'.users := exS_rel.1

/-! ## 7. local-only add -/

/-- With local-only add configured, an add from a peer whose connection was not classified as
    local is answered with INVALID_REQUEST and changes nothing. -/
theorem local_only_add (cfg : Config) (hl : cfg.localOnlyAdd = true) (x : Ctx) (c : Nat) (p : Peer) (req : Json)
    (hp : findPeer x.st.peers c = some p) (hm : methodOf req = some (k "add")) (hrem : p.isLocal = false) :
    parseJsonRpc cfg x c req =
      sendResponse x c (errorFromRequest req INVALID_REQUEST "reason" (k "add only allowed from localhost")) ∧
    (parseJsonRpc cfg x c req).1.st = x.st := by
  have h : parseJsonRpc cfg x c req =
      sendResponse x c (errorFromRequest req INVALID_REQUEST "reason" (k "add only allowed from localhost")) := by
    rw [parseJsonRpc_method hp hm, handleMethod_add, addElement_remote x req hl hrem]
  refine ⟨h, ?_⟩
  rw [h]; unfold sendResponse; split
  · rfl
  · exact send_st _ _ _

example : exCfgLocal.localOnlyAdd = true ∧ localCheck (mkCtx exS {}).st 3 false = true ∧ methodOf exAdd2 = some (k "add") := by
  decide +kernel

/-- `is_localhost`: true exactly for 127.0.0.1 (AF_INET) and, for EVERY other family, when the
    sixteen bytes at the offset of `sin6_addr` read ::ffff:127.0.0.1 or ::1. -/
theorem is_localhost_iff (fam : Nat) (a4 a16 : List UInt8) :
    isLocalhost fam a4 a16 = true ↔
      (fam = AF_INET ∧ a4 = [0x7f, 0, 0, 1]) ∨
      (fam ≠ AF_INET ∧ (a16 = [0, 0, 0, 0, 0, 0, 0, 0, 0, 0, 0xff, 0xff, 0x7f, 0, 0, 1] ∨
                        a16 = [0, 0, 0, 0, 0, 0, 0, 0, 0, 0, 0, 0, 0, 0, 0, 1])) :=
  isLocalhost_iff fam a4 a16

/-- A client of the Unix-domain listener is NOT classified as local: `accept` stores the family
    AF_UNIX and (for a client that did not bind a name) nothing else into the zeroed storage, and
    the IPv6 comparison of sixteen zero bytes fails.  For a client bound to a name the answer is
    whatever bytes 6‥21 of its `sun_path` happen to spell. -/
theorem is_localhost_unix :
    isLocalhost AF_UNIX (List.replicate 4 0) (List.replicate 16 0) = false ∧
    ∀ a4 a16, isLocalhost AF_UNIX a4 a16 = true ↔
      (a16 = [0, 0, 0, 0, 0, 0, 0, 0, 0, 0, 0xff, 0xff, 0x7f, 0, 0, 1] ∨
       a16 = [0, 0, 0, 0, 0, 0, 0, 0, 0, 0, 0, 0, 0, 0, 0, 1]) :=
  ⟨isLocalhost_unix_unnamed, isLocalhost_unix⟩

/-! ### origin classification transcribed from the real is_localhost (byte patterns regenerated from linux_io.c) -/

theorem accept_local_bit_exact : type_of% @Cjet.Props.Accept.local_bit_exact := @Cjet.Props.Accept.local_bit_exact
theorem accept_local_bit_other_families : type_of% @Cjet.Props.Accept.local_bit_other_families := @Cjet.Props.Accept.local_bit_other_families
theorem accept_local_bit_unix_unnamed : type_of% @Cjet.Props.Accept.local_bit_unix_unnamed := @Cjet.Props.Accept.local_bit_unix_unnamed
theorem accept_local_bit_unix_pathname : type_of% @Cjet.Props.Accept.local_bit_unix_pathname := @Cjet.Props.Accept.local_bit_unix_pathname

end Cjet.Daemon.C08
