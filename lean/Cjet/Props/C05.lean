import Cjet.Lemmas.DaemonC05Run
/-!
# C05 — a connection's end removes every trace of the peer and disturbs nobody else

Theorems about the daemon model `Cjet.Daemon` (`step` / `run`).  At this level a peer and its
connection have one lifetime: the peer is in `s.peers` from `connect` until the step that emits
`Obs.closed c` — an EOF / error `disconnect`, or a message the daemon rejects.

Vocabulary (defined in `Cjet.Lemmas.DaemonC05*`):
* `Reachable cfg s` — `s` is reached from an initial state (any user table) by some operation list;
* `Closes cfg s op c x` — the step `op` from `s` tears connection `c` down; `x` is the working
  context when the teardown begins (`mkCtx s o` for a `disconnect`; for a rejected message the state
  and outputs produced by the members of the message that were accepted before the failing one);
* `afterClose st c`, `scrub c q`, `unsub c e` — the state, a surviving peer's record and an
  element after `c` has gone (closed forms, a few lines each);
* `closeTrace st c` — what the teardown emits, in order; `routeActs`, `notifyActs` its pieces;
* `strip` erases the result flag of a send (what is sent to whom).
-/

namespace Cjet.Props.C05

open Cjet Cjet.Json Cjet.Daemon Cjet.Daemon.C05

/-! ## concrete history used by the non-vacuity examples
  peer 1 owns state "a" and method "m"; peer 2 fetches everything, has a `set` in flight to peer 1
  and owns state "b", to which peer 1 has a `set` in flight; peer 3 fetches everything. -/

def exNum (i : Int) : Json := .num ⟨0, i⟩
def exReq (method : String) (id : Int) (params : List (Bytes × Json)) : Json :=
  .obj [(k "method", mkStr method), (k "id", exNum id), (k "params", .obj params)]
def exOps : List Op :=
  [.connect 1 false true [49], .connect 2 false true [50], .connect 3 true false [51],
   .message 1 (some (exReq "add" 1 [(k "path", mkStr "a"), (k "value", exNum 1)])) {},
   .message 1 (some (exReq "add" 2 [(k "path", mkStr "m")])) {},
   .message 2 (some (exReq "add" 3 [(k "path", mkStr "b"), (k "value", exNum 1)])) {},
   .message 2 (some (exReq "fetch" 4 [(k "id", mkStr "f2")])) {},
   .message 3 (some (exReq "fetch" 5 [(k "id", exNum 7)])) {},
   .message 1 (some (exReq "fetch" 6 [(k "id", mkStr "f1")])) {},
   .message 2 (some (exReq "set" 7 [(k "path", mkStr "a"), (k "value", exNum 2)])) {},
   .message 1 (some (exReq "set" 8 [(k "path", mkStr "b"), (k "value", exNum 3)])) {}]
def exS : State := (run {} {} exOps).1
theorem exS_reachable : Reachable {} exS := ⟨[], exOps, rfl⟩

/-- what the example state looks like: (conn, #elements, #fetches, #routes) -/
example : exS.peers.map (fun p => (p.conn, p.elements.length, p.fetches.length, p.routes.length)) =
    [(1, 2, 1, 1), (2, 1, 1, 1), (3, 0, 1, 0)] := by decide +kernel

example : Obs.closed 1 ∈ (step {} exS (.disconnect 1 {})).2 :=
  (closed_iff_closes exS_reachable.inv _ _).2 ⟨mkCtx exS {}, by decide +kernel, Or.inl ⟨_, rfl, rfl⟩⟩

/-- a message that is not JSON-RPC (here: unparsable text) makes the daemon drop the sender -/
example : Obs.closed 2 ∈ (step {} exS (.message 2 none {})).2 :=
  (closed_iff_closes exS_reachable.inv _ _).2 ⟨mkCtx exS {}, by decide +kernel, Or.inr ⟨none, {}, rfl, rfl⟩⟩

/-! ## 0. which steps end a connection -/

/-- A step reports `closed c` exactly when it is a `disconnect c` of a live connection or a
    message of `c` that the daemon rejects (`Closes`); in both cases the step is: the accepted part
    of the message (nothing, for a disconnect), then `closePeer`. -/
theorem closing_steps (cfg : Config) (s : State) (hr : Reachable cfg s) (op : Op) (c : Nat) :
    (Obs.closed c ∈ (step cfg s op).2 ↔ ∃ x, Closes cfg s op c x) ∧
    (∀ x, Closes cfg s op c x →
      step cfg s op = ((closePeer x c).st, (closePeer x c).out.reverse) ∧
      conns x.st.peers = conns s.peers ∧ ∃ p, findPeer x.st.peers c = some p) :=
  ⟨closed_iff_closes hr.inv op c,
   fun _ hx => ⟨hx.step_eq, hx.conns hr.inv, hx.findPeer hr.inv⟩⟩

/-! ## 1. disconnect_post -/

/-- the error a caller gets for a request routed to a peer that goes away -/
def shutdownError (oid : Json) : Json :=
  .obj [(k "id", oid), (k "error", errorObject INTERNAL_ERROR "reason" (k "peer shuts down"))]

theorem errorResponse_shutdown (oid : Json) (h : oid.isString = true ∨ oid.isNumber = true) :
    errorResponse oid INTERNAL_ERROR "reason" (k "peer shuts down") = some (shutdownError oid) := by
  cases oid <;> simp [Json.isString, Json.isNumber] at h <;> rfl

/-- After any step that reports `closed c` (let `x` be the context in which the teardown began and
    `p` the record of `c` at that moment):
    * `c` is no longer a peer; no element is owned by `c` and no index entry maps to `c`; no
      fetcher slot of any element names a fetch of `c`; no routing entry anywhere was requested by
      `c` or is owned by `c`;
    * the outputs of the step are, send results erased: what the accepted part of the message
      produced, then — in this order — for every entry of c's routing table its timer destruction
      followed by at most one "peer shuts down" error to its requester (`routeActs`), the timer
      destructions of c's own requests in the other peers' tables, the "remove" notifications of
      c's elements, and finally `closed c`;
    * in particular every entry `r` of c's table has its timer destroyed, and if `r` was requested
      by another peer with a string or number id that peer is sent the INTERNAL_ERROR response with
      `id = r.originId`; every request of `c` in another table has its timer destroyed. -/
theorem disconnect_post (cfg : Config) (s : State) (hr : Reachable cfg s) (op : Op) (c : Nat)
    (hcl : Obs.closed c ∈ (step cfg s op).2) :
    ∃ x p, Closes cfg s op c x ∧ findPeer x.st.peers c = some p ∧
      let s' := (step cfg s op).1
      let out := (step cfg s op).2
      c ∉ conns s'.peers ∧
      (∀ q ∈ s'.peers, ∀ e ∈ q.elements, e.owner ≠ c) ∧
      (∀ pa o, (pa, o) ∈ s'.index → o ≠ c) ∧
      (∀ q ∈ s'.peers, ∀ e ∈ q.elements, ∀ fk, some fk ∈ e.fetchers → fk.peer ≠ c) ∧
      (∀ q ∈ s'.peers, ∀ r ∈ q.routes, r.requester ≠ c ∧ r.owner ≠ c) ∧
      out.map strip =
        x.out.reverse.map strip ++
        (p.routes.flatMap (routeActs c) ++
         ((x.st.peers.filter (·.conn != c)).flatMap (fun q => q.routes.filter (·.requester == c))).map
            (fun r => Obs.timerDestroy r.timer) ++
         p.elements.flatMap (fun e => notifyActs x.st.peers (unsub c e) "remove")) ++
        [Obs.closed c] ∧
      (∀ r ∈ p.routes, Obs.timerDestroy r.timer ∈ out ∧
        (r.requester ≠ c → ∀ oid, r.originId = some oid → (oid.isString = true ∨ oid.isNumber = true) →
          Obs.send r.requester (shutdownError oid) true ∈ out.map strip)) ∧
      (∀ q ∈ x.st.peers, q.conn ≠ c → ∀ r ∈ q.routes, r.requester = c → Obs.timerDestroy r.timer ∈ out) := by
  obtain ⟨x, hx⟩ := (closed_iff_closes hr.inv op c).1 hcl
  obtain ⟨p, hp⟩ := hx.findPeer hr.inv
  have hIx := hx.inv hr.inv
  have hpm := (findPeer_some hp).1
  have hpc := (findPeer_some hp).2
  refine ⟨x, p, hx, hp, ?_⟩
  have hst : (step cfg s op).1 = afterClose x.st c := by
    rw [hx.step_eq, closePeer_eq hIx hp]; rfl
  have hI' : Inv (afterClose x.st c) := inv_afterClose hIx c
  have hout : (step cfg s op).2.map strip =
      x.out.reverse.map strip ++ closeTrace x.st c ++ [Obs.closed c] := by
    rw [hx.step_eq]
    show (closePeer x c).out.reverse.map strip = _
    rw [closePeer_out hIx hp, closeTrace_strip]
  have htr : closeTrace x.st c =
      p.routes.flatMap (routeActs c) ++
      ((x.st.peers.filter (·.conn != c)).flatMap (fun q => q.routes.filter (·.requester == c))).map
        (fun r => Obs.timerDestroy r.timer) ++
      p.elements.flatMap (fun e => notifyActs x.st.peers (unsub c e) "remove") := by
    unfold closeTrace; rw [hp]
  -- membership of a timer destruction in the raw outputs from membership in the stripped ones
  have hraw : ∀ t, Obs.timerDestroy t ∈ (step cfg s op).2.map strip → Obs.timerDestroy t ∈ (step cfg s op).2 := by
    intro t ht
    obtain ⟨o', ho', heq⟩ := List.mem_map.1 ht
    cases o' <;> simp [strip] at heq
    subst heq; exact ho'
  dsimp only
  rw [hst]
  refine ⟨?_, ?_, ?_, ?_, ?_, ?_, ?_, ?_⟩
  · intro hc
    exact (mem_conns_afterClose.1 hc).2 rfl
  · intro q' hq' e' he'
    obtain ⟨q, hq, hne, rfl⟩ := mem_afterClose_peers hq'
    obtain ⟨e, he, rfl⟩ := List.mem_map.1 he'
    rw [unsub_owner, hIx.owner q hq e he]; exact hne
  · intro pa o hm
    unfold afterClose at hm
    simpa using (List.mem_filter.1 hm).2
  · intro q' hq' e' he' fk hfk
    obtain ⟨q, hq, hne, rfl⟩ := mem_afterClose_peers hq'
    obtain ⟨e, he, rfl⟩ := List.mem_map.1 he'
    exact (mem_unsub_fetchers hfk).2
  · intro q' hq' r hr'
    have h1 := hI'.routes q' hq' r hr'
    obtain ⟨q, hq, hne, rfl⟩ := mem_afterClose_peers hq'
    refine ⟨?_, ?_⟩
    · have := (List.mem_filter.1 (show r ∈ q.routes.filter (·.requester != c) from hr')).2
      simpa using this
    · rw [h1.1]; exact hne
  · rw [hout, htr]
  · intro r hr'
    have hmem : ∀ o ∈ routeActs c r, o ∈ (step cfg s op).2.map strip := by
      intro o ho
      rw [hout, htr]
      simp only [List.mem_append, List.mem_flatMap]
      exact Or.inl (Or.inr (Or.inl (Or.inl ⟨r, hr', ho⟩)))
    refine ⟨hraw _ (hmem _ (by unfold routeActs; exact List.mem_cons_self)), ?_⟩
    intro hne oid hoid hty
    apply hmem
    unfold routeActs
    have : (r.requester == c) = false := by simpa using hne
    simp only [this, Bool.false_eq_true, if_false, hoid, errorResponse_shutdown oid hty]
    simp
  · intro q hq hne r hr' hreq
    apply hraw
    rw [hout, htr]
    simp only [List.mem_append, List.mem_map, List.mem_flatMap, List.mem_filter]
    refine Or.inl (Or.inr (Or.inl (Or.inr ⟨r, ⟨q, ⟨hq, by simpa using hne⟩, hr', by simpa using hreq⟩, rfl⟩)))

example : Reachable {} exS ∧ Obs.closed 1 ∈ (step {} exS (.disconnect 1 {})).2 :=
  ⟨exS_reachable,
   (closed_iff_closes exS_reachable.inv _ _).2 ⟨mkCtx exS {}, by decide +kernel, Or.inl ⟨_, rfl, rfl⟩⟩⟩

/-! ## 2. subscribers_see_remove -/

/-- In a step that tears `c` down from context `x` (where `p` is c's record): for every element
    `e` of `c` and every occupied fetcher slot naming a fetch of another peer, that fetch exists and
    its peer is sent the "remove" notification for `e` carrying that fetch's id.  These
    notifications are the last outputs before `closed c`, in element-list order and, within an
    element, in slot order (slots of c's own fetches are skipped: its fetches were dropped first). -/
theorem subscribers_see_remove (cfg : Config) (s : State) (hr : Reachable cfg s) (op : Op) (c : Nat)
    (x : Ctx) (p : Peer) (hx : Closes cfg s op c x) (hp : findPeer x.st.peers c = some p) :
    let out := (step cfg s op).2
    (∀ e ∈ p.elements, ∀ fk, some fk ∈ e.fetchers → fk.peer ≠ c →
      ∃ f, findFetch x.st.peers fk = some f ∧
        Obs.send fk.peer (notification e f.fid "remove") true ∈ out.map strip) ∧
    (∃ before, out.map strip = before ++
      p.elements.flatMap (fun e => e.fetchers.filterMap (fun sl => match sl with
        | some fk => if fk.peer == c then none
                     else (findFetch x.st.peers fk).map
                       (fun f => Obs.send fk.peer (notification e f.fid "remove") true)
        | none => none)) ++ [Obs.closed c]) := by
  have hIx := hx.inv hr.inv
  have hpm := (findPeer_some hp).1
  have hout := hx.out_eq hr.inv hp
  have hnot : p.elements.flatMap (fun e => notifyActs x.st.peers (unsub c e) "remove") =
      p.elements.flatMap (fun e => e.fetchers.filterMap (fun sl => match sl with
        | some fk => if fk.peer == c then none
                     else (findFetch x.st.peers fk).map
                       (fun f => Obs.send fk.peer (notification e f.fid "remove") true)
        | none => none)) := by
    apply flatMap_congr'
    intro e _
    exact notifyActs_unsub _ _ _ _
  dsimp only
  constructor
  · intro e he fk hfk hne
    obtain ⟨f, hf⟩ := findFetch_of_mem_fetchKeys hIx.nodup (hIx.fetchers p hpm e he fk hfk)
    refine ⟨f, hf, ?_⟩
    rw [hout, hnot]
    simp only [List.mem_append, List.mem_flatMap, List.mem_filterMap]
    refine Or.inl (Or.inr (Or.inr ⟨e, he, some fk, hfk, ?_⟩))
    have : (fk.peer == c) = false := by simpa using hne
    simp [this, hf]
  · refine ⟨x.out.reverse.map strip ++ (p.routes.flatMap (routeActs c) ++
      ((x.st.peers.filter (·.conn != c)).flatMap (fun q => q.routes.filter (·.requester == c))).map
        (fun r => Obs.timerDestroy r.timer)), ?_⟩
    rw [hout, hnot]
    simp only [List.append_assoc]

example : Closes {} exS (.disconnect 1 {}) 1 (mkCtx exS {}) ∧
    (findPeer (mkCtx exS {}).st.peers 1).isSome = true :=
  ⟨⟨by decide +kernel, Or.inl ⟨_, rfl, rfl⟩⟩, by decide +kernel⟩

/-! ## 3. others_untouched -/

/-- what `unsub c` does to an element: nothing but emptying the fetcher slots of c's fetches -/
theorem unsub_spec (c : Nat) (e : Element) :
    (unsub c e).path = e.path ∧ (unsub c e).owner = e.owner ∧ (unsub c e).value = e.value ∧
    (unsub c e).fetchOnly = e.fetchOnly ∧ (unsub c e).timeoutNs = e.timeoutNs ∧
    (unsub c e).fetchGroups = e.fetchGroups ∧ (unsub c e).setGroups = e.setGroups ∧
    (unsub c e).callGroups = e.callGroups ∧
    (unsub c e).fetchers.length = e.fetchers.length ∧
    (∀ (i : Nat) (fk : FetchKey), e.fetchers[i]? = some (some fk) → fk.peer ≠ c → (unsub c e).fetchers[i]? = some (some fk)) ∧
    (∀ (i : Nat) (fk : FetchKey), (unsub c e).fetchers[i]? = some (some fk) → e.fetchers[i]? = some (some fk) ∧ fk.peer ≠ c) := by
  refine ⟨rfl, rfl, rfl, rfl, rfl, rfl, rfl, rfl, by simp [unsub], ?_, ?_⟩
  · intro i fk h hne
    simp [unsub, h, hne]
  · intro i fk h
    simp only [unsub, List.getElem?_map, Option.map_eq_some_iff] at h
    obtain ⟨sl, hsl, heq⟩ := h
    cases sl with
    | none => cases heq
    | some fk' =>
      simp only at heq
      split at heq
      · cases heq
      · next hne =>
        cases heq
        exact ⟨hsl, by simpa using hne⟩

/-- A step that tears `c` down from context `x` leaves behind exactly `afterClose x.st c`:
    the index entries of other owners, the user table and the counters are unchanged; the other
    peers stay in the same order; and for every other peer `q`: connection data, name, user,
    groups and fetches are identical, its routing table keeps exactly the entries not requested
    by `c` (same order), and its elements are the same elements (path, owner, value, flags,
    groups, timeout — see `unsub_spec`) whose fetcher tables differ only in that the slots of c's
    fetches are empty. -/
theorem others_untouched (cfg : Config) (s : State) (hr : Reachable cfg s) (op : Op) (c : Nat)
    (x : Ctx) (hx : Closes cfg s op c x) :
    let s' := (step cfg s op).1
    s' = afterClose x.st c ∧
    s'.index = x.st.index.filter (·.2 != c) ∧
    (∀ pa o, o ≠ c → ((pa, o) ∈ s'.index ↔ (pa, o) ∈ x.st.index)) ∧
    s'.users = x.st.users ∧ s'.uuid = x.st.uuid ∧ s'.nextTimer = x.st.nextTimer ∧
    s'.nextUid = x.st.nextUid ∧
    conns s'.peers = (conns x.st.peers).filter (· != c) ∧
    (∀ q ∈ x.st.peers, q.conn ≠ c → ∃ q', findPeer s'.peers q.conn = some q' ∧
      q'.conn = q.conn ∧ q'.ws = q.ws ∧ q'.isLocal = q.isLocal ∧ q'.addrTok = q.addrTok ∧
      q'.name = q.name ∧ q'.user = q.user ∧ q'.fetchGroups = q.fetchGroups ∧
      q'.setGroups = q.setGroups ∧ q'.callGroups = q.callGroups ∧ q'.fetches = q.fetches ∧
      q'.routes = q.routes.filter (·.requester != c) ∧
      q'.elements = q.elements.map (unsub c)) := by
  have hst := hx.st_eq hr.inv
  have hI' : Inv (afterClose x.st c) := inv_afterClose (hx.inv hr.inv) c
  dsimp only
  rw [hst]
  refine ⟨rfl, rfl, ?_, rfl, rfl, rfl, rfl, conns_afterClose _ _, ?_⟩
  · intro pa o hne
    unfold afterClose
    simp only [List.mem_filter]
    constructor
    · exact fun h => h.1
    · exact fun h => ⟨h, by simpa using hne⟩
  · intro q hq hne
    refine ⟨scrub c q, ?_, rfl, rfl, rfl, rfl, rfl, rfl, rfl, rfl, rfl, rfl, rfl, rfl⟩
    exact findPeer_of_mem hI'.nodup (mem_afterClose_of hq hne)

/-- the same for a `disconnect` of a live connection, stated on the pre-state itself -/
theorem others_untouched_disconnect (cfg : Config) (s : State) (hr : Reachable cfg s) (c : Nat) (o : Oracle)
    (hc : c ∈ conns s.peers) :
    let s' := (step cfg s (.disconnect c o)).1
    s' = afterClose s c ∧
    (∀ q ∈ s.peers, q.conn ≠ c → findPeer s'.peers q.conn = some (scrub c q)) ∧
    (∀ q, (scrub c q).fetches = q.fetches ∧ (scrub c q).name = q.name ∧ (scrub c q).user = q.user ∧
      (scrub c q).routes = q.routes.filter (·.requester != c) ∧
      (scrub c q).elements = q.elements.map (unsub c)) := by
  have hx : Closes cfg s (.disconnect c o) c (mkCtx s o) := ⟨hc, Or.inl ⟨o, rfl, rfl⟩⟩
  have hst := hx.st_eq hr.inv
  have hI' : Inv (afterClose s c) := inv_afterClose hr.inv c
  dsimp only
  rw [hst]
  refine ⟨rfl, ?_, fun q => ⟨rfl, rfl, rfl, rfl, rfl⟩⟩
  intro q hq hne
  exact findPeer_of_mem hI'.nodup (mem_afterClose_of hq hne)

example : Reachable {} exS ∧ 1 ∈ conns exS.peers ∧ (∃ q ∈ exS.peers, q.conn ≠ 1) :=
  ⟨exS_reachable, by decide +kernel, by
    have : (exS.peers.any (fun q => q.conn != 1)) = true := by decide +kernel
    obtain ⟨q, hq, h⟩ := List.any_eq_true.1 this
    exact ⟨q, hq, by simpa using h⟩⟩

/-! ## 4. no_send_to_departed -/

/-- In every history, every send of every step addresses a connection that is a peer in the
    state in which the step starts (peers are only removed by the last action of a closing step,
    so this is the peer set at the moment of the send as well). -/
theorem no_send_to_departed (cfg : Config) (us : List User) (pre : List Op) (op : Op) :
    let s := (run cfg { users := us } pre).1
    ∀ d j ok, Obs.send d j ok ∈ (step cfg s op).2 → d ∈ conns s.peers := by
  intro s d j ok hm
  exact step_live (run_inv (inv_init us) pre) op hm

/-- In a step that tears `c` down, everything emitted once the teardown has begun (`tail`)
    addresses only peers other than `c` that are still live: `free_peer_resources` never sends
    to the peer it releases. -/
theorem teardown_never_addresses_leaver (cfg : Config) (s : State) (hr : Reachable cfg s) (op : Op) (c : Nat)
    (x : Ctx) (hx : Closes cfg s op c x) :
    ∃ tail, (step cfg s op).2 = x.out.reverse ++ tail ∧
      (∀ d j ok, Obs.send d j ok ∈ tail → d ∈ conns s.peers ∧ d ≠ c) ∧
      (∀ d j ok, Obs.send d j ok ∈ tail → d ∈ conns (step cfg s op).1.peers) := by
  obtain ⟨tail, h1, h2⟩ := hx.tail hr.inv
  refine ⟨tail, h1, h2, ?_⟩
  intro d j ok hm
  rw [hx.st_eq hr.inv, mem_conns_afterClose, hx.conns hr.inv]
  exact h2 d j ok hm

/-- a peer that is not connected is never addressed, as long as it does not connect again -/
theorem departed_stays_silent (cfg : Config) (s : State) (hr : Reachable cfg s) (c : Nat)
    (hc : c ∉ conns s.peers) (rest : List Op)
    (hnc : ∀ op ∈ rest, ∀ ws l a, op ≠ Op.connect c ws l a) :
    ∀ o ∈ (run cfg s rest).2, ∀ j ok, Obs.send c j ok ∉ o := by
  induction rest generalizing s with
  | nil => intro o ho; cases ho
  | cons op rest ih =>
    intro o ho j ok hm
    rw [run_cons] at ho
    simp only [List.mem_cons] at ho
    rcases ho with rfl | ho
    · exact hc (step_live hr.inv op hm)
    · refine ih (step cfg s op).1 (hr.step op) ?_ (fun op' hop' => hnc op' (List.mem_cons_of_mem _ hop')) o ho j ok hm
      intro hc'
      rcases step_conns hr.inv op hc' with h | ⟨ws, l, a, h⟩
      · exact hc h
      · exact hnc op List.mem_cons_self ws l a h

/-- After the step that reports `closed c`, no later step sends anything to `c` until a new
    `connect c`. -/
theorem no_send_after_close (cfg : Config) (s : State) (hr : Reachable cfg s) (op : Op) (c : Nat)
    (hcl : Obs.closed c ∈ (step cfg s op).2) (rest : List Op)
    (hnc : ∀ op ∈ rest, ∀ ws l a, op ≠ Op.connect c ws l a) :
    ∀ o ∈ (run cfg (step cfg s op).1 rest).2, ∀ j ok, Obs.send c j ok ∉ o := by
  obtain ⟨x, hx⟩ := (closed_iff_closes hr.inv op c).1 hcl
  apply departed_stays_silent cfg _ (hr.step op) c _ rest hnc
  rw [hx.st_eq hr.inv]
  intro h
  exact (mem_conns_afterClose.1 h).2 rfl

example : Reachable {} exS ∧ Obs.closed 1 ∈ (step {} exS (.disconnect 1 {})).2 ∧
    (∀ op ∈ [Op.timerFire 0 {}, Op.message 2 none {}], ∀ ws l a, op ≠ Op.connect 1 ws l a) := by
  refine ⟨exS_reachable,
    (closed_iff_closes exS_reachable.inv _ _).2 ⟨mkCtx exS {}, by decide +kernel, Or.inl ⟨_, rfl, rfl⟩⟩, ?_⟩
  intro op hop ws l a h
  simp only [List.mem_cons, List.not_mem_nil, or_false] at hop
  rcases hop with rfl | rfl <;> cases h

end Cjet.Props.C05
