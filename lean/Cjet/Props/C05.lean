import Cjet.Lemmas.DaemonC05Run
/-!
# C05 — a connection's end removes every trace of the peer and disturbs nobody else

Theorems about the daemon model `Cjet.Daemon` (`step` / `run`).  At this level a peer and its
connection have one lifetime: the peer is in `s.peers` from `connect` until the step that emits
`Obs.closed c` — an EOF / error `disconnect`, or a message the daemon rejects.

Vocabulary (defined in `Cjet.Lemmas.DaemonC05*`):
* `Reachable cfg s` — `s` is reached from an initial state (any user table) by some operation list;
* `Closes cfg s op c x` — the step `op` from `s` tears connection `c` down; `x` is the working
  context when the teardown begins (`mkCtx s o` for a `disconnect`; for a rejected message the state
  and outputs produced by the members of the message that were accepted before the failing one);
* `afterClose st c`, `scrub c q`, `unsub c e` — the state, a surviving peer's record and an
  element after `c` has gone (closed forms, a few lines each);
* `closeTrace st c` — what the teardown emits, in order; `routeActs`, `notifyActs` its pieces;
* `strip` erases the result flag of a send (what is sent to whom).
-/

namespace Cjet.Props.C05

open Cjet Cjet.Json Cjet.Daemon Cjet.Daemon.C05

/-! ## concrete history used by the non-vacuity examples
  peer 1 owns state "a" and method "m"; peer 2 fetches everything, has a `set` in flight to peer 1
  and owns state "b", to which peer 1 has a `set` in flight; peer 3 fetches everything. -/

def exNum (i : Int) : Json := .num ⟨0, i⟩
def exReq (method : String) (id : Int) (params : List (Bytes × Json)) : Json :=
  .obj [(k "method", mkStr method), (k "id", exNum id), (k "params", .obj params)]
def exOps : List Op :=
  [.connect 1 false true [49], .connect 2 false true [50], .connect 3 true false [51],
   .message 1 (some (exReq "add" 1 [(k "path", mkStr "a"), (k "value", exNum 1)])) {},
   .message 1 (some (exReq "add" 2 [(k "path", mkStr "m")])) {},
   .message 2 (some (exReq "add" 3 [(k "path", mkStr "b"), (k "value", exNum 1)])) {},
   .message 2 (some (exReq "fetch" 4 [(k "id", mkStr "f2")])) {},
   .message 3 (some (exReq "fetch" 5 [(k "id", exNum 7)])) {},
   .message 1 (some (exReq "fetch" 6 [(k "id", mkStr "f1")])) {},
   .message 2 (some (exReq "set" 7 [(k "path", mkStr "a"), (k "value", exNum 2)])) {},
   .message 1 (some (exReq "set" 8 [(k "path", mkStr "b"), (k "value", exNum 3)])) {}]
def exS : State := (run {} {} exOps).1
theorem exS_reachable : Reachable {} exS := ⟨[], exOps, rfl⟩

/-- what the example state looks like: (conn, #elements, #fetches, #routes) -/
example : exS.peers.map (fun p => (p.conn, p.elements.length, p.fetches.length, p.routes.length)) =
    [(1, 2, 1, 1), (2, 1, 1, 1), (3, 0, 1, 0)] := by decide +kernel

example : Obs.closed 1 ∈ (step {} exS (.disconnect 1 {})).2 :=
  (closed_iff_closes exS_reachable.inv _ _).2 ⟨mkCtx exS {}, by decide +kernel, Or.inl ⟨_, rfl, rfl⟩⟩

/-- a message that is not JSON-RPC (here: unparsable text) makes the daemon drop the sender -/
example : Obs.closed 2 ∈ (step {} exS (.message 2 none {})).2 :=
  (closed_iff_closes exS_reachable.inv _ _).2 ⟨mkCtx exS {}, by decide +kernel, Or.inr ⟨none, {}, rfl, rfl⟩⟩

/-! ## 0. which steps end a connection -/

/-- A step reports `closed c` exactly when it is a `disconnect c` of a live connection or a
    message of `c` that the daemon rejects (`Closes`); in both cases the step is: the accepted part
    of the message (nothing, for a disconnect), then `closePeer`. -/
theorem closing_steps (cfg : Config) (s : State) (hr : Reachable cfg s) (op : Op) (c : Nat) :
    (Obs.closed c ∈ (step cfg s op).2 ↔ ∃ x, Closes cfg s op c x) ∧
    (∀ x, Closes cfg s op c x →
      step cfg s op = ((closePeer x c).st, (closePeer x c).out.reverse) ∧
      conns x.st.peers = conns s.peers ∧ ∃ p, findPeer x.st.peers c = some p) :=
  ⟨closed_iff_closes hr.inv op c,
   fun _ hx => ⟨hx.step_eq, hx.conns hr.inv, hx.findPeer hr.inv⟩⟩

/-! ## 1. disconnect_post -/

/-- the error a caller gets for a request routed to a peer that goes away -/
def shutdownError (oid : Json) : Json :=
  .obj [(k "id", oid), (k "error", errorObject INTERNAL_ERROR "reason" (k "peer shuts down"))]

theorem errorResponse_shutdown (oid : Json) (h : oid.isString = true ∨ oid.isNumber = true) :
    errorResponse oid INTERNAL_ERROR "reason" (k "peer shuts down") = some (shutdownError oid) := by
  cases oid <;> simp [Json.isString, Json.isNumber] at h <;> rfl

/-- After any step that reports `closed c` (let `x` be the context in which the teardown began and
    `p` the record of `c` at that moment):
    * `c` is no longer a peer; no element is owned by `c` and no index entry maps to `c`; no
      fetcher slot of any element names a fetch of `c`; no routing entry anywhere was requested by
      `c` or is owned by `c`;
    * the outputs of the step are, send results erased: what the accepted part of the message
      produced, then — in this order — for every entry of c's routing table its timer destruction
      followed by at most one "peer shuts down" error to its requester (`routeActs`), the timer
      destructions of c's own requests in the other peers' tables, the "remove" notifications of
      c's elements, and finally `closed c`;
    * in particular every entry `r` of c's table has its timer destroyed, and if `r` was requested
      by another peer with a string or number id that peer is sent the INTERNAL_ERROR response with
      `id = r.originId`; every request of `c` in another table has its timer destroyed. -/
theorem disconnect_post (cfg : Config) (s : State) (hr : Reachable cfg s) (op : Op) (c : Nat)
    (hcl : Obs.closed c ∈ (step cfg s op).2) :
    ∃ x p, Closes cfg s op c x ∧ findPeer x.st.peers c = some p ∧
      let s' := (step cfg s op).1
      let out := (step cfg s op).2
      c ∉ conns s'.peers ∧
      (∀ q ∈ s'.peers, ∀ e ∈ q.elements, e.owner ≠ c) ∧
      (∀ pa o, (pa, o) ∈ s'.index → o ≠ c) ∧
      (∀ q ∈ s'.peers, ∀ e ∈ q.elements, ∀ fk, some fk ∈ e.fetchers → fk.peer ≠ c) ∧
      (∀ q ∈ s'.peers, ∀ r ∈ q.routes, r.requester ≠ c ∧ r.owner ≠ c) ∧
      out.map strip =
        x.out.reverse.map strip ++
        (p.routes.flatMap (routeActs c) ++
         ((x.st.peers.filter (·.conn != c)).flatMap (fun q => q.routes.filter (·.requester == c))).map
            (fun r => Obs.timerDestroy r.timer) ++
         p.elements.flatMap (fun e => notifyActs x.st.peers (unsub c e) "remove")) ++
        [Obs.closed c] ∧
      (∀ r ∈ p.routes, Obs.timerDestroy r.timer ∈ out ∧
        (r.requester ≠ c → ∀ oid, r.originId = some oid → (oid.isString = true ∨ oid.isNumber = true) →
          Obs.send r.requester (shutdownError oid) true ∈ out.map strip)) ∧
      (∀ q ∈ x.st.peers, q.conn ≠ c → ∀ r ∈ q.routes, r.requester = c → Obs.timerDestroy r.timer ∈ out) := by
  obtain ⟨x, hx⟩ := (closed_iff_closes hr.inv op c).1 hcl
  obtain ⟨p, hp⟩ := hx.findPeer hr.inv
  have hIx := hx.inv hr.inv
  have hpm := (findPeer_some hp).1
  have hpc := (findPeer_some hp).2
  refine ⟨x, p, hx, hp, ?_⟩
  have hst : (step cfg s op).1 = afterClose x.st c := by
    rw [hx.step_eq, closePeer_eq hIx hp]; rfl
  have hI' : Inv (afterClose x.st c) := inv_afterClose hIx c
  have hout : (step cfg s op).2.map strip =
      x.out.reverse.map strip ++ closeTrace x.st c ++ [Obs.closed c] := by
    rw [hx.step_eq]
    show (closePeer x c).out.reverse.map strip = _
    rw [closePeer_out hIx hp, closeTrace_strip]
  have htr : closeTrace x.st c =
      p.routes.flatMap (routeActs c) ++
      ((x.st.peers.filter (·.conn != c)).flatMap (fun q => q.routes.filter (·.requester == c))).map
        (fun r => Obs.timerDestroy r.timer) ++
      p.elements.flatMap (fun e => notifyActs x.st.peers (unsub c e) "remove") := by
    unfold closeTrace; rw [hp]
  -- membership of a timer destruction in the raw outputs from membership in the stripped ones
  have hraw : ∀ t, Obs.timerDestroy t ∈ (step cfg s op).2.map strip → Obs.timerDestroy t ∈ (step cfg s op).2 := by
    intro t ht
    obtain ⟨o', ho', heq⟩ := List.mem_map.1 ht
    cases o' <;> simp [strip] at heq
    subst heq; exact ho'
  dsimp only
  rw [hst]
  refine ⟨?_, ?_, ?_, ?_, ?_, ?_, ?_, ?_⟩
  · intro hc
    exact (mem_conns_afterClose.1 hc).2 rfl
  · intro q' hq' e' he'
    obtain ⟨q, hq, hne, rfl⟩ := mem_afterClose_peers hq'
    obtain ⟨e, he, rfl⟩ := List.mem_map.1 he'
    rw [unsub_owner, hIx.owner q hq e he]; exact hne
  · intro pa o hm
    unfold afterClose at hm
    simpa using (List.mem_filter.1 hm).2
  · intro q' hq' e' he' fk hfk
    obtain ⟨q, hq, hne, rfl⟩ := mem_afterClose_peers hq'
    obtain ⟨e, he, rfl⟩ := List.mem_map.1 he'
    exact (mem_unsub_fetchers hfk).2
  · intro q' hq' r hr'
    have h1 := hI'.routes q' hq' r hr'
    obtain ⟨q, hq, hne, rfl⟩ := mem_afterClose_peers hq'
    refine ⟨?_, ?_⟩
    · have := (List.mem_filter.1 (show r ∈ q.routes.filter (·.requester != c) from hr')).2
      simpa using this
    · rw [h1.1]; exact hne
  · rw [hout, htr]
  · intro r hr'
    have hmem : ∀ o ∈ routeActs c r, o ∈ (step cfg s op).2.map strip := by
      intro o ho
      rw [hout, htr]
      simp only [List.mem_append, List.mem_flatMap]
      exact Or.inl (Or.inr (Or.inl (Or.inl ⟨r, hr', ho⟩)))
    refine ⟨hraw _ (hmem _ (by unfold routeActs; exact List.mem_cons_self)), ?_⟩
    intro hne oid hoid hty
    apply hmem
    unfold routeActs
    have : (r.requester == c) = false := by simpa using hne
    simp only [this, Bool.false_eq_true, if_false, hoid, errorResponse_shutdown oid hty]
    simp
  · intro q hq hne r hr' hreq
    apply hraw
    rw [hout, htr]
    simp only [List.mem_append, List.mem_map, List.mem_flatMap, List.mem_filter]
    refine Or.inl (Or.inr (Or.inl (Or.inr ⟨r, ⟨q, ⟨hq, by simpa using hne⟩, hr', by simpa using hreq⟩, rfl⟩)))

end Cjet.Props.C05
