import Cjet.Lemmas.MatcherFetch

/-!
# C16 — fetch path rules select exactly the paths their matchers describe

Model: `Cjet.Matcher` (transcription of `src/fetch.c`, with the F4 fix), declarative side:
`Cjet.Matcher.Spec`.  Every statement below is over *all* paths, operands and rule objects.
Byte strings are C strings (`NulFree`: the content before the terminator); rule objects carry raw
JSON byte strings and are seen through `cstr`, as the C code sees them.

Non-vacuity: every theorem with hypotheses is followed by an `example` instantiating them.
-/

namespace Cjet.Matcher

open List
open Cjet.Generated.Matcher (CFn Entry table optionKey optionKeyCmpLen)

/-! ## libc -/

/-- The libc loops compute equality / prefix / infix, byte-wise or after ASCII case folding. -/
theorem libc_specs (a b : Bytes) (ha : NulFree a) (hb : NulFree b) :
    (strcmp a b = 0 ↔ a = b) ∧
    (strncmp a b (strlen a) = 0 ↔ a <+: b) ∧
    ((strstr a b).isSome = true ↔ b <:+: a) ∧
    (strcasecmp a b = 0 ↔ lower a = lower b) ∧
    (strncasecmp a b (strlen a) = 0 ↔ lower a <+: lower b) ∧
    ((strcasestr a b).isSome = true ↔ lower b <:+: lower a) := by
  refine ⟨strcmp_eq_zero a b ha hb, strncmp_len_eq_zero a b ha hb, strstr_isSome a b, ?_, ?_,
    strcasestr_isSome a b⟩
  · rw [strcasecmp_eq_strcmp_lower]
    exact strcmp_eq_zero _ _ (nulFree_lower ha) (nulFree_lower hb)
  · rw [strncasecmp_eq_strncmp_lower]
    have := strncmp_len_eq_zero _ _ (nulFree_lower ha) (nulFree_lower hb)
    simpa [strlen] using this

example : NulFree [0x41, 0x62, 0xC3] ∧ NulFree [0x61, 0x42] := by decide

/-- The test by which `add_matchers` skips a member (`strncmp` over `sizeof(case_insensitive)`
    bytes) is exact equality with the option key; and the option key of the source is the
    property's "caseInsensitive". -/
theorem option_key_test (key : Bytes) :
    (isOptionKey key = true ↔ cstr key = optionKey) ∧ optionKey = Kind.optionName :=
  ⟨isOptionKey_iff key, optionName_eq.symm⟩

/-! ## the twelve match functions -/

/-- Each of the twelve match functions returns non-zero exactly on the paths its kind describes,
    for all paths and operands. -/
theorem matcher_spec (fn : CFn) (pm : PathMatcher) (path : Bytes) (hp : NulFree path)
    (he : ∀ e ∈ pm.elems, NulFree e) :
    evalFn fn pm path ≠ 0 ↔ Spec (kindOfFn fn).1 (kindOfFn fn).2 pm.elems path :=
  evalFn_spec fn pm path hp he

example : NulFree [0x2F, 0x61] ∧ ∀ e ∈ ({ fn := .endswith_match_ignore_case, elems := [[0x41]] } : PathMatcher).elems,
    NulFree e := by decide

/-- The `matchers[]` table of the source wires every name the property knows — and no other — to
    the pair of functions for that kind, and only `containsAllOf` takes several operands. -/
theorem matcher_table_spec :
    (∀ e ∈ table, ∃ k, e.name = k.name ∧ kindOfFn e.caseSensitive = (k, false) ∧
      kindOfFn e.caseInsensitive = (k, true) ∧ e.multi = k.multi) ∧
    (∀ k : Kind, ∃ e ∈ table, e.name = k.name) := by
  constructor
  · intro e he
    obtain ⟨k, _, h⟩ := table_kinds e he
    exact ⟨k, h⟩
  · intro k
    exact kinds_in_table k (kind_mem_all k)

/-! ## rules -/

/-- An accepted rule selects exactly the paths on which every declared matcher holds, with the
    case option read once for all of them; `state_matches` never faults on it. -/
theorem rule_spec (cfg : Cfg) (hs : cfg.Sane) (members : Members) (f : Fetch)
    (h : createFetch cfg (.obj members) = .ok f) (path : Bytes) (hp : NulFree path) :
    (∃ b, stateMatches f path = .verdict b) ∧
    (stateMatches f path = .verdict true ↔ RuleHolds members path) := by
  obtain ⟨pms, hb, _, hf, hn0, _, hfc⟩ := createFetchWith_obj_ok h
  have hlen := hfc rfl
  have hci : (countAndCase members).2 = optionCI members := by
    rw [countAndCase_of_built hb]
  rw [hci] at hb
  have hspec := builtList_spec hs path hp hb
  have hm : f.matcher = (([] : List PathMatcher) ++ pms).map some := by
    rw [hf, hlen]
    simp
  have hnm : f.numberOfMatchers = pms.length := by rw [hf, hlen]
  have hpos : pms ≠ [] := by
    intro he
    rw [he] at hlen
    exact hn0 hlen.symm
  obtain ⟨pm0, t, hpms⟩ := List.exists_cons_of_ne_nil hpos
  have hsm : stateMatches f path = .verdict (pms.all (fun pm => evalFn pm.fn pm path != 0)) := by
    unfold stateMatches
    have h0 : f.matcher[0]? = some (some pm0) := by
      rw [hm, hpms]
      simp
    rw [h0, hm, hnm]
    exact stateLoop_filled path pms []
  refine ⟨⟨_, hsm⟩, ?_⟩
  rw [hsm]
  unfold RuleHolds
  rw [← hspec]
  simp

example : Cfg.repo.Sane ∧ NulFree [0x61, 0x62] ∧
    ∃ f, createFetch Cfg.repo (.obj [(Kind.name .startsWith, .str [0x61]), (optionKey, .tru)]) = .ok f := by
  refine ⟨by decide, by decide, _, rfl⟩

/-- A request without a rule selects everything. -/
theorem no_rule_matches_all (cfg : Cfg) (path : Bytes) :
    ∃ f, createFetch cfg .absent = .ok f ∧ stateMatches f path = .verdict true :=
  ⟨allocFetch 1, rfl, rfl⟩

/-- A `"path"` member that is not an object is refused. -/
theorem path_not_object_refused (cfg : Cfg) : createFetch cfg .notObject = .error .pathNotObject := rfl

/-- Whatever `create_fetch` accepts is a well-formed rule: every member is the option key or a
    known matcher name with correctly typed operands, the option key occurs at most once, and there
    are between one and `CONFIG_MAX_NUMBERS_OF_MATCHERS_IN_FETCH` matchers.  Refusal returns an
    error value and nothing else (`Except`: no fetch exists, nothing was stored). -/
theorem refusals (cfg : Cfg) (hs : cfg.Sane) (members : Members) (f : Fetch)
    (h : createFetch cfg (.obj members) = .ok f) : WellFormed cfg.maxMatchers members := by
  obtain ⟨pms, hb, _, _, hn0, hmax, hfc⟩ := createFetchWith_obj_ok h
  obtain ⟨hopt, hcount⟩ := counts_of_built hb (hfc rfl)
  refine ⟨?_, hopt, by omega, by omega⟩
  intro m hm
  rcases builtList_members hb m hm with ho | ⟨pm, hpm⟩
  · exact Or.inl ho
  · obtain ⟨k, ops, hk, ho, _, _⟩ := buildMatcher_ok hs hpm
    exact Or.inr ⟨k, ops, hk, ho⟩

/-- Unknown matcher name ⇒ error. -/
theorem refusals_unknown_name (cfg : Cfg) (hs : cfg.Sane) (members : Members) (m : Bytes × JVal)
    (hm : m ∈ members) (hno : isOption m = false) (hunk : specKind (cstr m.1) = none) :
    ∃ e, createFetch cfg (.obj members) = .error e := by
  cases h : createFetch cfg (.obj members) with
  | error e => exact ⟨e, rfl⟩
  | ok f =>
    rcases (refusals cfg hs members f h).members_ok m hm with ho | ⟨k, _, hk, _⟩
    · rw [hno] at ho
      simp at ho
    · rw [hunk] at hk
      simp at hk

example : Cfg.repo.Sane ∧ isOption ([0x66, 0x6F, 0x6F], JVal.str []) = false ∧
    specKind (cstr [0x66, 0x6F, 0x6F]) = none := by decide

/-- Wrongly typed operand (not a string; for `containsAllOf` not an array, an empty array, or an
    array with a non-string member) ⇒ error. -/
theorem refusals_mistyped_operand (cfg : Cfg) (hs : cfg.Sane) (members : Members) (m : Bytes × JVal)
    (hm : m ∈ members) (k : Kind) (hk : specKind (cstr m.1) = some k) (hbad : operands k m.2 = none) :
    ∃ e, createFetch cfg (.obj members) = .error e := by
  cases h : createFetch cfg (.obj members) with
  | error e => exact ⟨e, rfl⟩
  | ok f =>
    rcases (refusals cfg hs members f h).members_ok m hm with ho | ⟨k', ops, hk', ho⟩
    · have hc : cstr m.1 = optionKey := by simpa [isOption] using ho
      rw [hc, specKind_optionKey] at hk
      simp at hk
    · rw [hk] at hk'
      simp only [Option.some.injEq] at hk'
      subst hk'
      rw [hbad] at ho
      simp at ho

example : Cfg.repo.Sane ∧ specKind (cstr (Kind.name .containsAllOf)) = some .containsAllOf ∧
    operands .containsAllOf (.arr []) = none ∧
    operands .containsAllOf (.arr [.str [0x61], .other]) = none ∧
    operands .containsAllOf (.str [0x61]) = none ∧
    operands .equals .tru = none := by decide

/-- More matchers than the configured maximum ⇒ error; no matcher at all ⇒ error. -/
theorem refusals_count (cfg : Cfg) (hs : cfg.Sane) (members : Members)
    (hbad : matcherCount members = 0 ∨ cfg.maxMatchers < matcherCount members) :
    ∃ e, createFetch cfg (.obj members) = .error e := by
  cases h : createFetch cfg (.obj members) with
  | error e => exact ⟨e, rfl⟩
  | ok f =>
    have hw := refusals cfg hs members f h
    have := hw.some_matcher
    have := hw.not_too_many
    omega

example : Cfg.repo.Sane ∧ Cfg.repo.maxMatchers <
    matcherCount (List.replicate 13 (Kind.name .contains, JVal.str [0x61])) := by decide

/-- A repeated option key is refused. -/
theorem repeated_option_key (cfg : Cfg) (hs : cfg.Sane) (members : Members)
    (hrep : 2 ≤ optionCount members) : ∃ e, createFetch cfg (.obj members) = .error e := by
  cases h : createFetch cfg (.obj members) with
  | error e => exact ⟨e, rfl⟩
  | ok f =>
    have := (refusals cfg hs members f h).option_once
    omega

example : Cfg.repo.Sane ∧
    2 ≤ optionCount [(Kind.name .equals, .str [0x61]), (optionKey, .tru), (optionKey, .tru)] := by decide

/-- F4, the code before the fix: with the option key given twice the rule was accepted with an
    unfilled slot — alone it became "fetch all", next to a matcher `state_matches` dereferenced
    the NULL slot on every path the first matcher let through. -/
theorem repeated_option_key_counterexample_unfixed :
    (∃ f, createFetchUnfixed Cfg.repo (.obj [(optionKey, .tru), (optionKey, .tru)]) = .ok f ∧
      stateMatches f [0x78] = .verdict true) ∧
    (∃ f, createFetchUnfixed Cfg.repo
        (.obj [(Kind.name .equals, .str [0x61]), (optionKey, .tru), (optionKey, .tru)]) = .ok f ∧
      stateMatches f [0x61] = .fault .nullMatcher) := by
  refine ⟨⟨_, rfl, rfl⟩, ⟨_, rfl, ?_⟩⟩
  decide

/-- Every well-formed rule whose operand arrays fit under the heap cap is accepted. -/
theorem accepts_wellformed (cfg : Cfg) (members : Members) (hw : WellFormed cfg.maxMatchers members)
    (hfit : FitsHeap cfg members) : ∃ f, createFetch cfg (.obj members) = .ok f := by
  -- every member builds, whatever the case flag
  have hbuilt : ∀ (ci : Bool) (ms : Members), (∀ m ∈ ms, m ∈ members) → ∃ pms, builtList cfg ci ms = .ok pms := by
    intro ci ms
    induction ms with
    | nil => intro _; exact ⟨[], rfl⟩
    | cons m rest ih =>
      intro hsub
      obtain ⟨pms, hp⟩ := ih (fun x hx => hsub x (List.mem_cons_of_mem _ hx))
      obtain ⟨k, v⟩ := m
      have hmem := hsub (k, v) (by simp)
      unfold builtList
      by_cases hopt : isOptionKey k = true
      · simp only [hopt, Bool.not_true, Bool.false_eq_true, ↓reduceIte]
        exact ⟨pms, hp⟩
      · simp only [hopt, Bool.not_false, ↓reduceIte]
        rcases hw.members_ok (k, v) hmem with ho | ⟨kd, ops, hk, ho⟩
        · rw [← isOptionKey_eq (k, v)] at ho
          exact absurd ho hopt
        · obtain ⟨pm, hpm⟩ := buildMatcher_complete (cfg := cfg) (ci := ci) hk ho hfit.1
            (fun items hv hne => hfit.2 (k, v) hmem items hv hne)
          exact ⟨pm :: pms, by simp [hpm, hp]⟩
  obtain ⟨pms, hb⟩ := hbuilt (countAndCase members).2 members (fun _ h => h)
  have hcc := countAndCase_of_built hb
  have hl := builtList_length hb
  have hsplit := count_split members
  have hpos := optionCount_pos_iff members
  have h1 := hw.option_once
  have h2 := hw.some_matcher
  have h3 := hw.not_too_many
  have hn : (countAndCase members).1 = matcherCount members := by
    rw [hcc]
    simp only
    cases hf : (members.find? isOption).isSome
    · have : ¬ 0 < optionCount members := by rw [hpos, hf]; simp
      simp; omega
    · have : 0 < optionCount members := hpos.mpr hf
      simp; omega
  unfold createFetch createFetchWith
  simp only
  generalize hn' : (countAndCase members).1 = n at hn
  generalize (countAndCase members).2 = ci at hb
  subst hn
  have h0 : (matcherCount members == 0) = false := by simp; omega
  have hm : ¬ matcherCount members > cfg.maxMatchers := by omega
  simp only [h0, Bool.false_eq_true, ↓reduceIte, hm]
  have := addMatchers_complete (cfg := cfg) (fc := true) (ci := ci) (n := matcherCount members)
    members [] (matcherCount members) pms hb (by omega) (by intro _; simp; omega)
  simp only [List.length_nil, List.map_nil, List.nil_append] at this
  simp [allocFetch, this]

example : WellFormed Cfg.repo.maxMatchers
      [(Kind.name .equals, .str [0x61]), (optionKey, .fls), (Kind.name .containsAllOf, .arr [.str [0x61]])] ∧
    FitsHeap Cfg.repo
      [(Kind.name .equals, .str [0x61]), (optionKey, .fls), (Kind.name .containsAllOf, .arr [.str [0x61]])] := by
  refine ⟨⟨?_, by decide, by decide, by decide⟩, by decide, ?_⟩
  · intro m hm
    simp only [List.mem_cons, List.mem_nil_iff, or_false] at hm
    rcases hm with rfl | rfl | rfl
    · exact Or.inr ⟨.equals, _, by decide, rfl⟩
    · exact Or.inl (by decide)
    · exact Or.inr ⟨.containsAllOf, _, by decide, rfl⟩
  · intro m hm items hv _
    simp only [List.mem_cons, List.mem_nil_iff, or_false] at hm
    rcases hm with rfl | rfl | rfl
    · simp at hv
    · simp at hv
    · simp only [JVal.arr.injEq] at hv
      subst hv
      decide

/-! ## index safety (also used by C06) -/

/-- Every fetch `create_fetch` returns has exactly `number_of_matchers` slots, and either it is
    the "fetch all" object (one slot, NULL) or every slot holds a matcher. -/
theorem matchers_filled (cfg : Cfg) (p : PathParam) (f : Fetch) (h : createFetch cfg p = .ok f) :
    f.matcher.length = f.numberOfMatchers ∧ 1 ≤ f.numberOfMatchers ∧
    ((p = .absent ∧ f.matcher = [none]) ∨
     ∀ i, i < f.numberOfMatchers → ∃ pm, f.matcher[i]? = some (some pm)) := by
  cases p with
  | absent =>
    simp only [createFetch, createFetchWith, Except.ok.injEq] at h
    subst h
    exact ⟨rfl, by decide, Or.inl ⟨rfl, rfl⟩⟩
  | notObject => simp [createFetch, createFetchWith] at h
  | obj members =>
    obtain ⟨pms, _, _, hf, hn0, _, hfc⟩ := createFetchWith_obj_ok h
    have hlen := hfc rfl
    rw [← hlen] at hf hn0
    rw [hf]
    refine ⟨by simp, by simp only; omega, Or.inr ?_⟩
    intro i hi
    simp only at hi
    refine ⟨pms[i], ?_⟩
    simp [hi]

/-- `state_matches` on a fetch made by `create_fetch` never dereferences a NULL matcher and never
    reads past the slots: it always returns a verdict. -/
theorem state_matches_no_fault (cfg : Cfg) (p : PathParam) (f : Fetch) (h : createFetch cfg p = .ok f)
    (path : Bytes) : ∃ b, stateMatches f path = .verdict b := by
  cases p with
  | absent =>
    simp only [createFetch, createFetchWith, Except.ok.injEq] at h
    subst h
    exact ⟨true, rfl⟩
  | notObject => simp [createFetch, createFetchWith] at h
  | obj members =>
    obtain ⟨pms, _, _, hf, hn0, _, hfc⟩ := createFetchWith_obj_ok h
    have hlen := hfc rfl
    have hpos : pms ≠ [] := by
      intro he
      rw [he] at hlen
      exact hn0 hlen.symm
    obtain ⟨pm0, t, hpms⟩ := List.exists_cons_of_ne_nil hpos
    refine ⟨pms.all (fun pm => evalFn pm.fn pm path != 0), ?_⟩
    unfold stateMatches
    have hm : f.matcher = (([] : List PathMatcher) ++ pms).map some := by
      rw [hf, hlen]
      simp
    have h0 : f.matcher[0]? = some (some pm0) := by
      rw [hm, hpms]
      simp
    have hnm : f.numberOfMatchers = pms.length := by rw [hf, hlen]
    rw [h0, hm, hnm]
    exact stateLoop_filled path pms []

/-- The fill loop never stores past the allocated slots — with or without the F4 fix. -/
theorem fill_index_lt (fc : Bool) (cfg : Cfg) (p : PathParam) :
    createFetchWith fc cfg p ≠ .error (.addFailed .oobWrite) := by
  cases p with
  | absent => simp [createFetchWith]
  | notObject => simp [createFetchWith]
  | obj members =>
    unfold createFetchWith
    simp only
    split
    · simp
    · split
      · simp
      · have hno := addMatchers_no_oob (cfg := cfg) (fc := fc) (ci := (countAndCase members).2)
          (n := (countAndCase members).1) members 0 (allocFetch (countAndCase members).1).matcher
        have hw : 0 + writes cfg (countAndCase members).2 members ≤
            (allocFetch (countAndCase members).1).matcher.length := by
          simp only [allocFetch, List.length_replicate, Nat.zero_add]
          unfold countAndCase
          cases hg : getCaseInsensitive members with
          | none => exact writes_le_length members
          | some v =>
            have := writes_lt_of_found (cfg := cfg) (ci := (v == JVal.tru)) members (by simp [hg])
            simp only
            omega
        have := hno hw
        split
        · rename_i w hw'
          intro hc
          simp only [Except.error.injEq, Err.addFailed.injEq] at hc
          subst hc
          exact this hw'
        · simp

end Cjet.Matcher
