import Cjet.Deflate
import Cjet.Lemmas.DeflateReasm
import Cjet.Lemmas.DeflateBytes
import Cjet.Lemmas.DeflateNego
import Cjet.Lemmas.DeflateReads
import Cjet.Lemmas.DeflateFrames
/-!
# C19 — permessage-deflate: lossless round trip, bounded memory, legal negotiation

Level: the bookkeeping of `compression.c` and the negotiation of `websocket.c` are proved; zlib is an
ASSUMPTION (hypotheses `hTail`, `hInv`, `hBound` of `roundtrip_given_zlib`: statements about the oracle
only), so losslessness rests on zlib and is only sampled by the correspondence runs.  What needs no
assumption about zlib — memory safety of the sender and "a complete message or an error, never a cut-off
stream" — is proved for EVERY zlib output (`compress_never_truncates`,
`compress_no_oob_for_any_zlib_output`).

The model (`Cjet.Deflate`) follows the tree: `reasmGrowLoops` / `reasmNoBufferGuard` / `compressStrict` /
`sendChecked` are regenerated from the source and say whether fixes F23 / F36 / F37 are present
(`fragFlagClearedByOpcode`: whether `ws_handle_frame` clears `is_frag_compressed` for frames picked by their opcode); the
theorems about "the code now" are stated over these names, so re-introducing one of the defects breaks the
build of this file.
-/
namespace Cjet.Props.C19
open Cjet Cjet.Deflate Cjet.Generated.Deflate

/-! ## fragment reassembly -/

/-- The code BEFORE fix F23 (one doubling per fragment): every copy stays inside the buffer exactly when
    every fragment that finds a buffer is at most (free space + capacity) long. -/
theorem reassemble_in_bounds_iff (sizes : List Nat) :
    allInBounds (run false RState.init sizes) = true ↔ fitsOnce RState.init sizes :=
  run_once_iff sizes RState.init (Nat.le_refl 0)

/-- … for two fragments: after a first fragment of `a ≥ 3` bytes the second one may have `5a + 4`. -/
theorem reassemble_two_fragments (a b : Nat) (ha : 3 ≤ a) :
    allInBounds (run false RState.init [a, b]) = true ↔ b ≤ 5 * a + 4 := by
  rw [reassemble_in_bounds_iff]
  have hf : (RState.init.avail == 0) = true := rfl
  have hng : needsGrow (alloc a) a = false := by
    simp [needsGrow, alloc, reasmFactor, reasmHeader, reasmSlack]; omega
  have hs : (stepCopy false RState.init a).2 = ⟨a * 3 + 4, a * 3 - a⟩ := by
    simp [stepCopy, hf, grow, growOnce, hng, alloc_cap, alloc_avail]
  have ha0 : ¬ a = 0 := by omega
  by_cases hb : b = 0
  · subst hb
    simp [fitsOnce, ha0, RState.init]
  · simp only [fitsOnce, ha0, hb, if_false, hs, and_true]
    constructor
    · rintro ⟨_, h | h⟩ <;> omega
    · intro h; exact ⟨Or.inl rfl, Or.inr (by omega)⟩

example : (3 : Nat) ≤ 10 := by decide

/-- F23: fragments [10, 1000] (and already [10, 55]) are copied past the once-doubled buffer. -/
theorem reassemble_counterexample :
    allInBounds (run false RState.init [10, 1000]) = false ∧
    allInBounds (run false RState.init [10, 55]) = false ∧
    allInBounds (run false RState.init [10, 54]) = true := by
  decide

/-- The code NOW (growth statement as regenerated from `compression.c`): for ALL fragment size sequences
    every copy stays inside the buffer … -/
theorem reassemble_in_bounds (sizes : List Nat) :
    allInBounds (run reasmGrowLoops RState.init sizes) = true :=
  (run_loop_good sizes RState.init 0 good_init).1

/-- … lands directly behind the bytes stored before it (offset 4 + bytes so far; in particular the buffer
    is never started afresh in the middle of a message) … -/
theorem reassemble_contiguous (sizes : List Nat) :
    contiguousFrom 0 (run reasmGrowLoops RState.init sizes) = true :=
  (run_loop_good sizes RState.init 0 good_init).2.1

/-- … and the buffer stays linear in the bytes received (`compression.c` has no message limit of its own:
    this is the only bound there is); `avail_in == 0` means exactly "nothing stored". -/
theorem reassemble_cap_le (sizes : List Nat) :
    (stateAfter reasmGrowLoops RState.init sizes).cap ≤ 6 * sizes.sum + 16 ∧
    ((stateAfter reasmGrowLoops RState.init sizes).avail = 0 ↔ sizes.sum = 0) := by
  show (stateAfter true RState.init sizes).cap ≤ _ ∧ ((stateAfter true RState.init sizes).avail = 0 ↔ _)
  have h := (run_loop_good sizes RState.init 0 good_init).2.2
  rw [Nat.zero_add] at h
  rcases h with ⟨h1, h2⟩ | ⟨h1, h2, h3, h4⟩
  · refine ⟨?_, fun _ => h1, fun _ => h2⟩
    -- nothing stored: the state is still the initial one
    have : stateAfter true RState.init sizes = RState.init := by
      clear h2
      induction sizes with
      | nil => rfl
      | cons L rest ih =>
        simp only [List.sum_cons] at h1
        have hL : L = 0 := by omega
        have hr : rest.sum = 0 := by omega
        simp only [stateAfter, hL, if_true]
        exact ih hr
    rw [this]; simp [RState.init]
  · exact ⟨h4, fun h => by omega, fun h => by omega⟩

/-- The whole receive path for a fragmented compressed message, code NOW, ANY fragments (empty ones, all
    empty, a huge later one) and ANY inflater: never a copy outside the buffer, never the buffer pointer
    used without a buffer. -/
theorem frames_memory_safe (inflate : Bytes → Option Bytes) (frs : List Bytes) :
    recvFramesNow inflate RBuf.init frs ≠ Recv.wild := by
  show recvFrames true true inflate RBuf.init frs ≠ Recv.wild
  cases frs with
  | nil => simp [recvFrames]
  | cons f rest =>
    rw [recvFrames_eq inflate (f :: rest) (by simp) RBuf.init 0 [] bufInv_init]
    split
    · simp
    · unfold recvMessage
      split <;> simp

/-- F36, the code before the fix: two empty fragments, the second final — the size word is read through
    a pointer that was never set. -/
theorem no_buffer_counterexample :
    recvFrames true false (fun _ => none) RBuf.init [[], []] = Recv.wild := by
  decide

/-! ## tail, output buffers -/

/-- strip-then-reappend is the identity on streams that end with the tail … -/
theorem tail_roundtrip (s : Bytes) (ht : endsWithTail s = true) : stripTail s ++ tail = s :=
  strip_append_tail s ht

example : endsWithTail [0x72, 0x04, 0x00, 0x00, 0x00, 0xff, 0xff] = true := by decide

/-- … and on no other stream: that is why the repaired `websocket_compress_bounded` answers -1 for a
    wrong tail (before F37 it only logged the mismatch and still returned the shortened data). -/
theorem tail_mismatch (s : Bytes) (ht : endsWithTail s = false) :
    stripTail s ++ tail ≠ s := by
  intro h
  have hl : (stripTail s).length = s.length - tailStrip := by unfold stripTail; simp
  have hd : (stripTail s ++ tail).drop (s.length - tailStrip) = tail := List.drop_left' hl
  rw [h] at hd
  unfold endsWithTail at ht
  rw [hd] at ht
  have : (tail == tail) = true := by decide
  rw [this] at ht
  cases ht

example : endsWithTail [1, 2, 3, 4, 5] = false := by decide

/-- the inflate output loop: for a non-empty initial buffer `have` is the number of bytes inflated, and
    every `inflate` call was given room inside the (doubled) buffer directly behind the previous one -/
theorem outloop_bookkeeping (total s0 : Nat) (h : 0 < s0) :
    outHave total s0 = total ∧ chunksFrom 0 (outLoop (total + 2) total ⟨s0, s0, 0⟩).1 :=
  ⟨outHave_eq total s0 h, outLoop_chunks _ _ ⟨s0, s0, 0⟩ h (Nat.zero_add s0)⟩

example : 0 < inflateOutFactor * 1 := by decide

/-! ## the sender, for every behaviour of zlib -/

/-- For EVERY zlib (any output, of any length, ending in anything — or an error) and EVERY destination
    size: when the compressor answers with data, that data followed by the tail is the COMPLETE output
    zlib has for the message (nothing is left pending in zlib to lead the next message) and it was strictly
    shorter than the destination; otherwise it answers -1.  Likewise `send_frame`, also when `malloc` fails:
    a frame with the complete message, or -1 — never a negative value used as a length. -/
theorem compress_never_truncates (zd : Bytes → Option Bytes) (destSize : Nat) (x : Bytes) :
    (compressNow zd destSize x = .error ∨
      ∃ c, compressNow zd destSize x = .ok c true ∧ zd x = some (c ++ tail) ∧ (c ++ tail).length < destSize) ∧
    ∀ (mallocOk : Bool) (dbound : Nat → Nat),
      sendFrame compressStrict sendChecked mallocOk dbound zd x = .error ∨
      ∃ c, sendFrame compressStrict sendChecked mallocOk dbound zd x = .sent c ∧ zd x = some (c ++ tail) := by
  simp only [compressNow, show compressStrict = true from rfl, show sendChecked = true from rfl]
  constructor
  · rcases compress_strict_cases zd destSize x with h | ⟨c, h⟩
    · exact Or.inl h
    · exact Or.inr ⟨c, h, ((compress_strict_ok_iff zd destSize x c true).1 h).2⟩
  · intro mallocOk dbound
    unfold sendFrame
    simp only [if_true]
    cases mallocOk with
    | false => exact Or.inl rfl
    | true =>
      simp only [Bool.not_true, Bool.false_eq_true, if_false]
      rcases compress_strict_cases zd (compressBound dbound x.length) x with h | ⟨c, h⟩
      · rw [h]; exact Or.inl rfl
      · rw [h]
        exact Or.inr ⟨c, rfl, ((compress_strict_ok_iff zd _ x c true).1 h).2.1⟩

/-- For EVERY zlib output and EVERY destination size the compressor stays inside `dest`: zlib is handed
    `destSize` bytes and stores no more, the tail check reads only indices `0 ≤ i < written` (bytes just
    stored — before F37 `dest[have - 4]` with `have < 4`), the model's `wild` never happens; at level 0
    the payload is copied only into a destination that holds it. -/
theorem compress_no_oob_for_any_zlib_output (zd : Bytes → Option Bytes) (destSize : Nat) (x : Bytes) :
    (compressAccess compressStrict zd destSize x).written ≤ destSize ∧
    (∀ i ∈ (compressAccess compressStrict zd destSize x).reads,
      0 ≤ i ∧ i < Int.ofNat (compressAccess compressStrict zd destSize x).written) ∧
    compressNow zd destSize x ≠ .wild ∧
    (compressCopy compressStrict destSize x = .error ∨
      (compressCopy compressStrict destSize x = .ok x true ∧ x.length ≤ destSize)) := by
  simp only [compressNow, show compressStrict = true from rfl]
  refine ⟨(compressAccess_strict zd destSize x).1, (compressAccess_strict zd destSize x).2, ?_, ?_⟩
  · rcases compress_strict_cases zd destSize x with h | ⟨c, h⟩ <;> rw [h] <;> simp
  · rw [compressCopy_strict]
    by_cases h : destSize < x.length
    · exact Or.inl (by simp [h])
    · exact Or.inr ⟨by simp [h], by omega⟩

/-! ## round trip, given zlib -/

/-- ASSUMING zlib for this message — `hTail`: a sync/full flush ends with `00 00 ff ff` behind at least
    one byte; `hInv`: inflate undoes deflate (for the negotiated window bits and context takeover settings,
    which live inside the two functions); `hBound`: zlib's documented size contract, the output is at most
    `deflateBound(length)` plus the flush marker of at most `flushMarkerMax` bytes — `send_frame` sends the
    message, and decompressing it — as one message or cut into ANY fragments — returns the payload.
    Every hypothesis is about the oracle only; none restricts the payload. -/
theorem roundtrip_given_zlib (zdeflate : Bytes → Option Bytes) (zinflate : Bytes → Option Bytes)
    (dbound : Nat → Nat) (x body : Bytes)
    (hTail : zdeflate x = some (body ++ tail) ∧ body ≠ [])
    (hInv : zinflate (body ++ tail) = some x)
    (hBound : (body ++ tail).length ≤ dbound x.length + flushMarkerMax) :
    sendFrameNow dbound zdeflate x = .sent body ∧
      recvMessage zinflate body = .ok x ∧
      ∀ frs : List Bytes, frs ≠ [] → frs.flatten = body → recvFramesNow zinflate RBuf.init frs = .ok x := by
  obtain ⟨hb, hne⟩ := hTail
  have hmsg : recvMessage zinflate body = .ok x := by
    have hlen : 0 < inflateOutFactor * body.length := by
      have : 0 < body.length := List.length_pos_iff.2 hne
      simp [inflateOutFactor]; omega
    unfold recvMessage privateDecompress
    rw [if_neg (by omega), hInv]
    simp only [outHave_eq x.length _ hlen, List.take_length]
  have hc : compress true zdeflate (compressBound dbound x.length) x = .ok body true :=
    (compress_strict_ok_iff zdeflate _ x body true).2
      ⟨rfl, hb, by simp only [compressBound, flushSpare]; omega⟩
  refine ⟨?_, hmsg, fun frs hn hf => ?_⟩
  · simp only [sendFrameNow, show compressStrict = true from rfl, show sendChecked = true from rfl]
    unfold sendFrame
    simp only [if_true, Bool.not_true, Bool.false_eq_true, if_false, hc]
  · show recvFrames true true zinflate RBuf.init frs = .ok x
    rw [recvFrames_eq zinflate frs hn RBuf.init 0 [] bufInv_init, List.nil_append, hf, if_neg hne, hmsg]

/-- the hypotheses are satisfiable, for a ONE-byte payload and for the empty one (the triggers of F37):
    a "stored" codec (`0 :: x ++ tail`) with zlib's conservative `deflateBound` formula -/
example : ∃ (zd : Bytes → Option Bytes) (zi : Bytes → Option Bytes) (dbound : Nat → Nat),
    ∀ x : Bytes, (zd x = some ((0 :: x) ++ tail) ∧ (0 :: x) ≠ []) ∧ zi ((0 :: x) ++ tail) = some x ∧
      ((0 :: x) ++ tail).length ≤ dbound x.length + flushMarkerMax :=
  ⟨fun x => some ((0 :: x) ++ tail), fun s => some ((s.drop 1).take (s.length - 5)),
    fun n => n + (n + 7) / 8 + (n + 63) / 64 + 5,
    fun x => ⟨⟨rfl, by simp⟩, by simp [tail_length], by simp [tail_length, flushMarkerMax]; omega⟩⟩

/-- ASSUMING zlib as a pair of coupled state machines (`R` relates a deflate state to the inflate state
    of the other endpoint: from related states, deflate's output ends with the tail behind at least one byte
    and respects the size contract `deflateBound + flushMarkerMax`, inflate returns the payload, and the
    successor states are related again): ANY sequence of ANY messages, each cut into ANY fragments, arrives
    unchanged — the bookkeeping of `compression.c` carries nothing from one message to the next. -/
theorem roundtrip_session_given_zlib {σd σi : Type}
    (dbound : Nat → Nat)
    (deflate : σd → Bytes → Bytes × σd) (inflate : σi → Bytes → Option (Bytes × σi))
    (R : σd → σi → Prop)
    (hz : ∀ sd si, R sd si → ∀ x, ∃ body si', body ≠ [] ∧ (deflate sd x).1 = body ++ tail ∧
        (deflate sd x).1.length ≤ dbound x.length + flushMarkerMax ∧
        inflate si (deflate sd x).1 = some (x, si') ∧ R (deflate sd x).2 si')
    (cut : Bytes → List Bytes) (hcut : ∀ c, cut c ≠ [] ∧ (cut c).flatten = c)
    (msgs : List Bytes) (sd : σd) (si : σi) (hR : R sd si) :
    sessionOk dbound deflate inflate cut sd si msgs := by
  induction msgs generalizing sd si with
  | nil => trivial
  | cons x rest ih =>
    obtain ⟨body, si', hne, hb, hbd, hi, hR'⟩ := hz sd si hR x
    have h1 := roundtrip_given_zlib (fun y => some (deflate sd y).1) (fun s => (inflate si s).map (·.1))
      dbound x body ⟨by rw [hb], hne⟩ (by rw [← hb, hi]; rfl) (by rw [← hb]; exact hbd)
    obtain ⟨hc, _, hfr⟩ := h1
    simp only [sessionOk, hc]
    refine ⟨hfr (cut body) (hcut body).1 (hcut body).2, ?_⟩
    rw [← hb, hi]
    exact ih (deflate sd x).2 si' hR'

/-- the hypotheses are satisfiable: a stateful "stored" codec that counts messages, one-byte fragments -/
example : ∃ (dbound : Nat → Nat) (deflate : Nat → Bytes → Bytes × Nat) (inflate : Nat → Bytes → Option (Bytes × Nat))
    (R : Nat → Nat → Prop) (cut : Bytes → List Bytes),
    (∀ sd si, R sd si → ∀ x, ∃ body si', body ≠ [] ∧ (deflate sd x).1 = body ++ tail ∧
        (deflate sd x).1.length ≤ dbound x.length + flushMarkerMax ∧
        inflate si (deflate sd x).1 = some (x, si') ∧ R (deflate sd x).2 si') ∧
    (∀ c, cut c ≠ [] ∧ (cut c).flatten = c) ∧ R 0 0 :=
  ⟨fun n => n + (n + 7) / 8 + (n + 63) / 64 + 5,
    fun n x => ((0 :: x) ++ tail, n + 1), fun n s => some ((s.drop 1).take (s.length - 5), n + 1),
    fun a b => a = b, fun c => [] :: c.map (fun b => [b]),
    fun sd si h x => ⟨0 :: x, si + 1, by simp, rfl, by simp [tail_length, flushMarkerMax]; omega,
      by simp [tail_length], by simp [h]⟩,
    fun c => ⟨by simp, by induction c with
      | nil => rfl
      | cons a r ih => simpa using ih⟩,
    rfl⟩

/-- F37, the code BEFORE the repair (`strict = checked = false`: `2 * length` bytes for zlib, nothing
    checked), with a zlib that satisfies all three assumptions: a one-byte payload makes the tail check read
    outside `dest`, the empty payload is answered with -1, and `send_frame` uses either as the frame. -/
theorem roundtrip_counterexample_before_fix :
    ∃ (zd : Bytes → Option Bytes) (zi : Bytes → Option Bytes) (dbound : Nat → Nat),
      (∀ x : Bytes, (zd x = some ((0 :: x) ++ tail) ∧ (0 :: x) ≠ []) ∧ zi ((0 :: x) ++ tail) = some x ∧
        ((0 :: x) ++ tail).length ≤ dbound x.length + flushMarkerMax) ∧
      compressWrapper false zd [0x41] = .wild ∧ compressWrapper false zd [] = .error ∧
      sendFrame false false true dbound zd [0x41] = .bogus .wild ∧
      sendFrame false false true dbound zd [] = .bogus .error ∧
      (∃ i ∈ (compressAccess false zd 2 [0x41]).reads, i < 0) :=
  ⟨fun x => some ((0 :: x) ++ tail), fun s => some ((s.drop 1).take (s.length - 5)),
    fun n => n + (n + 7) / 8 + (n + 63) / 64 + 5,
    fun x => ⟨⟨rfl, by simp⟩, by simp [tail_length], by simp [tail_length, flushMarkerMax]; omega⟩,
    by decide, by decide, by decide, by decide, ⟨-1, by decide, by decide⟩⟩

/-! ## round trip for every presentation on the wire: fragments with control frames in between -/

/-- ASSUMING zlib as in `roundtrip_given_zlib`: the message `send_frame` produces arrives unchanged in EVERY legal
    presentation of its compressed body through `ws_handle_frame` — unfragmented, or cut into any fragments
    (`f0`, then the `p.2`; empty ones included) with ANY sequence of ping / pong frames (`p.1`, at most 125 bytes
    each) in front of ANY continuation frame (RFC 6455 §5.4).  Every ping is answered by a pong with the same
    payload, in order; the payload is delivered exactly once (message callback when unfragmented, frame callback
    with `last` otherwise); and the connection is back in its initial state — flags clear, nothing left in the
    reassembly buffer — so the next message starts from scratch. -/
theorem roundtrip_interleaved_given_zlib (zdeflate : Bytes → Option Bytes) (zinflate : Bytes → Option Bytes)
    (dbound : Nat → Nat) (closeCode : Bytes → Nat) (x body : Bytes)
    (hTail : zdeflate x = some (body ++ tail) ∧ body ≠ [])
    (hInv : zinflate (body ++ tail) = some x)
    (hBound : (body ++ tail).length ≤ dbound x.length + flushMarkerMax) :
    sendFrameNow dbound zdeflate x = .sent body ∧
      ∀ (op : Nat), (op = opText ∨ op = opBinary) →
      ∀ (f0 : Bytes) (rest : List (List Ctl × Bytes)), f0 ++ (rest.map (·.2)).flatten = body →
        (∀ p ∈ rest, ∀ k ∈ p.1, k.payload.length ≤ wsSmallFrame) →
        runFramesNow zinflate closeCode Conn.init (present op f0 rest) =
          (presentEvents op x rest, some Conn.init) := by
  obtain ⟨hs, hmsg, _⟩ := roundtrip_given_zlib zdeflate zinflate dbound x body hTail hInv hBound
  refine ⟨hs, fun op hop f0 rest hcut hctl => ?_⟩
  show runFrames false true true zinflate closeCode Conn.init (present op f0 rest) = _
  exact runFrames_present zinflate closeCode op hop body x f0 rest hcut hctl hTail.2 hmsg

/-- the hypotheses are satisfiable and the statement is about something: the "stored" codec, the payload `AB`,
    body `00 41 42` cut into three fragments (the second empty) with a ping, a pong and an empty ping in between -/
example : ∃ (zd zi : Bytes → Option Bytes) (dbound : Nat → Nat) (x body f0 : Bytes) (rest : List (List Ctl × Bytes)),
    (zd x = some (body ++ tail) ∧ body ≠ []) ∧ zi (body ++ tail) = some x ∧
    (body ++ tail).length ≤ dbound x.length + flushMarkerMax ∧
    f0 ++ (rest.map (·.2)).flatten = body ∧ (∀ p ∈ rest, ∀ k ∈ p.1, k.payload.length ≤ wsSmallFrame) ∧
    presentEvents opBinary x rest = [.pong [1, 2], .pong [], .frame opBinary x true] :=
  ⟨fun x => some ((0 :: x) ++ tail), fun s => some ((s.drop 1).take (s.length - 5)),
    fun n => n + (n + 7) / 8 + (n + 63) / 64 + 5, [0x41, 0x42], [0, 0x41, 0x42], [0],
    [([.ping [1, 2], .pong [3]], []), ([.ping []], [0x41, 0x42])],
    ⟨rfl, by simp⟩, by decide, by decide, by decide, by decide, by decide⟩

/-- … and for whole connections (zlib as two coupled state machines, as in `roundtrip_session_given_zlib`): ANY
    sequence of ANY messages, each one text or binary, in its own presentation (own fragmentation, own control
    frames between the fragments and in front of the message): every message is delivered once and unchanged,
    every ping answered, and between two messages the connection is in its initial state. -/
theorem roundtrip_session_interleaved_given_zlib {σd σi : Type}
    (dbound : Nat → Nat)
    (deflate : σd → Bytes → Bytes × σd) (inflate : σi → Bytes → Option (Bytes × σi))
    (R : σd → σi → Prop)
    (hz : ∀ sd si, R sd si → ∀ x, ∃ body si', body ≠ [] ∧ (deflate sd x).1 = body ++ tail ∧
        (deflate sd x).1.length ≤ dbound x.length + flushMarkerMax ∧
        inflate si (deflate sd x).1 = some (x, si') ∧ R (deflate sd x).2 si')
    (closeCode : Bytes → Nat)
    (msgs : List MsgSpec) (hm : ∀ m ∈ msgs, m.Legal) (sd : σd) (si : σi) (hR : R sd si) :
    sessionIlOk dbound deflate inflate closeCode sd si msgs := by
  induction msgs generalizing sd si with
  | nil => trivial
  | cons m rest ih =>
    obtain ⟨body, si', hne, hb, hbd, hi, hR'⟩ := hz sd si hR m.x
    obtain ⟨hop, hpre, hcut⟩ := hm m (by simp)
    have h1 := roundtrip_interleaved_given_zlib (fun y => some (deflate sd y).1) (fun s => (inflate si s).map (·.1))
      dbound closeCode m.x body ⟨by rw [hb], hne⟩ (by rw [← hb, hi]; rfl) (by rw [← hb]; exact hbd)
    obtain ⟨hc, hfr⟩ := h1
    simp only [sessionIlOk, hc]
    refine ⟨?_, ?_⟩
    · show runFrames false true true _ closeCode Conn.init (m.frames body) = _
      unfold MsgSpec.frames MsgSpec.events
      rw [runFrames_ctls _ closeCode Conn.init m.pre hpre]
      have := hfr m.op hop (m.cut body).1 (m.cut body).2 (hcut body).1 (hcut body).2
      change runFrames false true true _ closeCode Conn.init _ = _ at this
      rw [this]
    · rw [← hb, hi]
      exact ih (fun m' h' => hm m' (by simp [h'])) (deflate sd m.x).2 si' hR'

/-- the hypotheses are satisfiable: the counting "stored" codec; a message cut into one-byte fragments with a ping
    in front of every continuation frame, behind a ping and a pong -/
example : ∃ (dbound : Nat → Nat) (deflate : Nat → Bytes → Bytes × Nat) (inflate : Nat → Bytes → Option (Bytes × Nat))
    (R : Nat → Nat → Prop) (m : MsgSpec),
    (∀ sd si, R sd si → ∀ x, ∃ body si', body ≠ [] ∧ (deflate sd x).1 = body ++ tail ∧
        (deflate sd x).1.length ≤ dbound x.length + flushMarkerMax ∧
        inflate si (deflate sd x).1 = some (x, si') ∧ R (deflate sd x).2 si') ∧
    m.Legal ∧ (m.cut [0, 7, 8]).2.length = 3 ∧ R 0 0 :=
  ⟨fun n => n + (n + 7) / 8 + (n + 63) / 64 + 5,
    fun n x => ((0 :: x) ++ tail, n + 1), fun n s => some ((s.drop 1).take (s.length - 5), n + 1),
    fun a b => a = b,
    ⟨[7, 8], opText, [.ping [9], .pong []], fun c => ([], c.map fun b => ([.ping [b]], [b]))⟩,
    fun sd si h x => ⟨0 :: x, si + 1, by simp, rfl, by simp [tail_length, flushMarkerMax]; omega,
      by simp [tail_length], by simp [h]⟩,
    ⟨Or.inl rfl, by decide, fun c => ⟨by induction c with
        | nil => rfl
        | cons a r ih => simpa using ih,
      by intro p hp k hk
         simp only [List.mem_map] at hp
         obtain ⟨b, _, rfl⟩ := hp
         simp only [List.mem_singleton] at hk
         subst hk
         simp [Ctl.payload, wsSmallFrame]⟩⟩,
    rfl, rfl⟩

/-- The dispatch in front of the decompressor, code NOW, for ANY sequence of ANY frames (any opcodes, RSV and FIN
    bits, data and control frames in any order — legal or not) and ANY inflater: never a copy outside the
    reassembly buffer, never the buffer pointer used without a buffer (`frames_memory_safe` lifted from the
    fragments of one message to everything `ws_handle_frame` can be fed). -/
theorem dispatch_memory_safe (inflate : Bytes → Option Bytes) (closeCode : Bytes → Nat) (frames : List Frame) :
    Ev.wild ∉ (runFramesNow inflate closeCode Conn.init frames).1 :=
  runFrames_safe fragFlagClearedByOpcode inflate closeCode frames Conn.init conn_init_sane

/-- What the statement excludes: a `ws_handle_frame` that clears `is_frag_compressed` for every frame whose opcode
    is not "continuation" (`clr = true`; NOT the code as committed — `fragFlagClearedByOpcode` is regenerated from
    the source).  With a zlib satisfying all three hypotheses, payload `A`, body `00 41` in two fragments and one
    empty ping between them: the ping is answered, but the application receives the second fragment raw, as the
    whole message, and the first fragment stays in the reassembly buffer. -/
theorem interleaved_counterexample_if_flag_cleared :
    ∃ (zd : Bytes → Option Bytes) (zi : Bytes → Option Bytes) (dbound : Nat → Nat),
      (∀ x : Bytes, (zd x = some ((0 :: x) ++ tail) ∧ (0 :: x) ≠ []) ∧ zi ((0 :: x) ++ tail) = some x ∧
        ((0 :: x) ++ tail).length ≤ dbound x.length + flushMarkerMax) ∧
      runFrames true true true zi (fun _ => 1000) Conn.init (present opBinary [] [([.ping []], [0, 0x41])]) =
        ([.pong [], .frame opBinary [0, 0x41] true], some ⟨WsFlags.init, RBuf.init⟩) ∧
      (runFrames true true true zi (fun _ => 1000) Conn.init (present opBinary [0] [([.ping []], [0x41])])).2.map
        (fun c => c.buf.live) = some true ∧
      runFrames false true true zi (fun _ => 1000) Conn.init (present opBinary [] [([.ping []], [0, 0x41])]) =
        ([.pong [], .frame opBinary [0x41] true], some Conn.init) :=
  ⟨fun x => some ((0 :: x) ++ tail), fun s => some ((s.drop 1).take (s.length - 5)),
    fun n => n + (n + 7) / 8 + (n + 63) / 64 + 5,
    fun x => ⟨⟨rfl, by simp⟩, by simp [tail_length], by simp [tail_length, flushMarkerMax]; omega⟩,
    by decide, by decide, by decide⟩

/-! ## negotiation -/

/-- For ANY header value (and any memory behind it) and every compression level: no write into the
    response buffer — including the terminating NUL, including the elements that end up declined —
    goes beyond its `responseMax` (129) bytes. -/
theorem response_len_le_buffer (level : Nat) (hl : level < 4) (mem : Bytes) (length : Nat) :
    (negotiate level mem length).hiWater ≤ responseMax ∧
    ((negotiate level mem length).accepted = true → (negotiate level mem length).resp.length + 1 ≤ responseMax) := by
  have h := negotiate_between level hl mem length
  exact ⟨h.1.hw, fun ha => (h.2 ha).len⟩

example : (2 : Nat) < 4 := by decide

/-- An accepted offer: the response is the extension name followed by parameters, each name at most
    once, each of them legal in the sense of RFC 7692 (`Legal`): `client_max_window_bits` only when the
    accepted element has it, 8..15 and not above an offered value; `server_max_window_bits` 8..15 and not
    above an offered value; the takeover parameters without a value.  The windows handed to zlib are in
    range (and never the 8 bits zlib cannot deflate with). -/
theorem response_params_legal (level : Nat) (hl : level < 4) (mem : Bytes) (length : Nat)
    (ha : (negotiate level mem length).accepted = true) :
    let e := negotiate level mem length
    e.resp = extName ++ renderItems e.items ∧
    (∀ n, (e.items.map (·.name)).count n ≤ 1) ∧
    (∀ it ∈ e.items, Legal (mem.drop e.elemStart) e.offers it) ∧
    8 ≤ e.cmw ∧ e.cmw ≤ 15 ∧ 9 ≤ e.smw ∧ e.smw ≤ 15 := by
  have h := (negotiate_between level hl mem length).2 ha
  have hs := h.smwOk
  have := h.rng
  refine ⟨h.resp, h.once, h.legal, this.1, this.2.1, ?_, this.2.2.2⟩
  have : (negotiate level mem length).smw ≠ 8 := hs
  omega

/-- non-vacuity, and the bound of `response_len_le_buffer` is reached: level 3, all four parameters
    offered — accepted, 128 bytes + NUL -/
example :
    let offer : Bytes := extName ++ renderItem .cmw 15 ++ renderItem .smw 15 ++ renderItem .cnc 0 ++ renderItem .snc 0
    (negotiate 3 offer offer.length).accepted = true ∧
    (negotiate 3 offer offer.length).resp.length + 1 = responseMax := by
  decide +kernel

/-- F38 repaired: `fill_requested_extension(s, start, length)` reads `start[0 .. length)` only — for ALL
    memory contents, ALL lengths (offers ending in blanks, right behind a `=`, inside a parameter name, …)
    and every state of the negotiation; `fillReads` lists every `*(start + i)`, `*value_start` and the
    ranges handed to `memcmp`.  Hence a whole header value is read inside `[0, length)` as well:
    `check_websocket_extensions` hands over sub-ranges of it. -/
theorem offer_parse_reads_in_bounds (e : Ext) (buf : Bytes) (length : Nat) :
    ∀ i ∈ fillReads e buf length, i < length :=
  fillReads_lt e buf length

/-- non-vacuity: the offer that ends right behind the `=` is scanned up to its last byte, and the parser's
    answer does not depend on what follows it in memory (before F38: `…bits=` followed by `15` was accepted) -/
example :
    let offer : Bytes := extName ++ [59, 32] ++ nameCmw ++ [61]
    (fillReads (Ext.init 2) offer offer.length).length = 84 ∧ offer.length - 1 ∈ fillReads (Ext.init 2) offer offer.length ∧
    (negotiate 2 (offer ++ [49, 53]) offer.length).accepted = false := by
  decide +kernel

end Cjet.Props.C19
