import Cjet.Deflate
import Cjet.Lemmas.DeflateReasm
import Cjet.Lemmas.DeflateBytes
import Cjet.Lemmas.DeflateNego
/-!
# C19 — permessage-deflate: lossless round trip, bounded memory, legal negotiation

Level: the bookkeeping of `compression.c` and the negotiation of `websocket.c` are proved; zlib is an
ASSUMPTION (hypotheses `hTail`, `hInv` of `roundtrip_given_zlib_partial`), so losslessness rests on zlib
and is only sampled by the correspondence runs.

The model (`Cjet.Deflate`) follows the tree: `reasmGrowLoops` / `reasmNoBufferGuard` are regenerated from
`compression.c` and say whether fixes F23 / F36 are present; the theorems about "the code now" are stated
over these names, so re-introducing one of the defects breaks the build of this file.
-/
namespace Cjet.Props.C19
open Cjet Cjet.Deflate Cjet.Generated.Deflate

/-! ## fragment reassembly -/

/-- The code BEFORE fix F23 (one doubling per fragment): every copy stays inside the buffer exactly when
    every fragment that finds a buffer is at most (free space + capacity) long. -/
theorem reassemble_in_bounds_iff (sizes : List Nat) :
    allInBounds (run false RState.init sizes) = true ↔ fitsOnce RState.init sizes :=
  run_once_iff sizes RState.init (Nat.le_refl 0)

/-- … for two fragments: after a first fragment of `a ≥ 3` bytes the second one may have `5a + 4`. -/
theorem reassemble_two_fragments (a b : Nat) (ha : 3 ≤ a) :
    allInBounds (run false RState.init [a, b]) = true ↔ b ≤ 5 * a + 4 := by
  rw [reassemble_in_bounds_iff]
  have hf : (RState.init.avail == 0) = true := rfl
  have hng : needsGrow (alloc a) a = false := by
    simp [needsGrow, alloc, reasmFactor, reasmHeader, reasmSlack]; omega
  have hs : (stepCopy false RState.init a).2 = ⟨a * 3 + 4, a * 3 - a⟩ := by
    simp [stepCopy, hf, grow, growOnce, hng, alloc_cap, alloc_avail]
  have ha0 : ¬ a = 0 := by omega
  by_cases hb : b = 0
  · subst hb
    simp [fitsOnce, ha0, RState.init]
  · simp only [fitsOnce, ha0, hb, if_false, hs, and_true]
    constructor
    · rintro ⟨_, h | h⟩ <;> omega
    · intro h; exact ⟨Or.inl rfl, Or.inr (by omega)⟩

example : (3 : Nat) ≤ 10 := by decide

/-- F23: fragments [10, 1000] (and already [10, 55]) are copied past the once-doubled buffer. -/
theorem reassemble_counterexample :
    allInBounds (run false RState.init [10, 1000]) = false ∧
    allInBounds (run false RState.init [10, 55]) = false ∧
    allInBounds (run false RState.init [10, 54]) = true := by
  decide

/-- The code NOW (growth statement as regenerated from `compression.c`): for ALL fragment size sequences
    every copy stays inside the buffer … -/
theorem reassemble_in_bounds (sizes : List Nat) :
    allInBounds (run reasmGrowLoops RState.init sizes) = true :=
  (run_loop_good sizes RState.init 0 good_init).1

/-- … lands directly behind the bytes stored before it (offset 4 + bytes so far; in particular the buffer
    is never started afresh in the middle of a message) … -/
theorem reassemble_contiguous (sizes : List Nat) :
    contiguousFrom 0 (run reasmGrowLoops RState.init sizes) = true :=
  (run_loop_good sizes RState.init 0 good_init).2.1

/-- … and the buffer stays linear in the bytes received (`compression.c` has no message limit of its own:
    this is the only bound there is); `avail_in == 0` means exactly "nothing stored". -/
theorem reassemble_cap_le (sizes : List Nat) :
    (stateAfter reasmGrowLoops RState.init sizes).cap ≤ 6 * sizes.sum + 16 ∧
    ((stateAfter reasmGrowLoops RState.init sizes).avail = 0 ↔ sizes.sum = 0) := by
  show (stateAfter true RState.init sizes).cap ≤ _ ∧ ((stateAfter true RState.init sizes).avail = 0 ↔ _)
  have h := (run_loop_good sizes RState.init 0 good_init).2.2
  rw [Nat.zero_add] at h
  rcases h with ⟨h1, h2⟩ | ⟨h1, h2, h3, h4⟩
  · refine ⟨?_, fun _ => h1, fun _ => h2⟩
    -- nothing stored: the state is still the initial one
    have : stateAfter true RState.init sizes = RState.init := by
      clear h2
      induction sizes with
      | nil => rfl
      | cons L rest ih =>
        simp only [List.sum_cons] at h1
        have hL : L = 0 := by omega
        have hr : rest.sum = 0 := by omega
        simp only [stateAfter, hL, if_true]
        exact ih hr
    rw [this]; simp [RState.init]
  · exact ⟨h4, fun h => by omega, fun h => by omega⟩

/-- The whole receive path for a fragmented compressed message, code NOW, ANY fragments (empty ones, all
    empty, a huge later one) and ANY inflater: never a copy outside the buffer, never the buffer pointer
    used without a buffer. -/
theorem frames_memory_safe (inflate : Bytes → Option Bytes) (frs : List Bytes) :
    recvFramesNow inflate RBuf.init frs ≠ Recv.wild := by
  show recvFrames true true inflate RBuf.init frs ≠ Recv.wild
  cases frs with
  | nil => simp [recvFrames]
  | cons f rest =>
    rw [recvFrames_eq inflate (f :: rest) (by simp) RBuf.init 0 [] bufInv_init]
    split
    · simp
    · unfold recvMessage
      split <;> simp

/-- F36, the code before the fix: two empty fragments, the second final — the size word is read through
    a pointer that was never set. -/
theorem no_buffer_counterexample :
    recvFrames true false (fun _ => none) RBuf.init [[], []] = Recv.wild := by
  decide

/-! ## tail, output buffers -/

/-- strip-then-reappend is the identity on streams that end with the tail … -/
theorem tail_roundtrip (s : Bytes) (ht : endsWithTail s = true) : stripTail s ++ tail = s := by
  unfold endsWithTail at ht
  unfold stripTail
  have : s.drop (s.length - tailStrip) = tail := by simpa using ht
  rw [← this]
  exact List.take_append_drop _ _

example : endsWithTail [0x72, 0x04, 0x00, 0x00, 0x00, 0xff, 0xff] = true := by decide

/-- … and on no other stream of at least four bytes: `websocket_compress` only logs the mismatch and still
    returns the shortened data, so the receiver inflates something else. -/
theorem tail_mismatch (s : Bytes) (ht : endsWithTail s = false) :
    stripTail s ++ tail ≠ s := by
  intro h
  have hl : (stripTail s).length = s.length - tailStrip := by unfold stripTail; simp
  have hd : (stripTail s ++ tail).drop (s.length - tailStrip) = tail := List.drop_left' hl
  rw [h] at hd
  unfold endsWithTail at ht
  rw [hd] at ht
  have : (tail == tail) = true := by decide
  rw [this] at ht
  cases ht

example : endsWithTail [1, 2, 3, 4, 5] = false := by decide

/-- the inflate output loop: for a non-empty initial buffer `have` is the number of bytes inflated, and
    every `inflate` call was given room inside the (doubled) buffer directly behind the previous one -/
theorem outloop_bookkeeping (total s0 : Nat) (h : 0 < s0) :
    outHave total s0 = total ∧ chunksFrom 0 (outLoop (total + 2) total ⟨s0, s0, 0⟩).1 :=
  ⟨outHave_eq total s0 h, outLoop_chunks _ _ ⟨s0, s0, 0⟩ h (Nat.zero_add s0)⟩

example : 0 < inflateOutFactor * 1 := by decide

/-! ## round trip, given zlib -/

/- Full statement (FALSE for the code as it is, F37): for every payload `x`
     compress zdeflate x = .ok c true ∧ recvMessage zinflate c = .ok x ∧ (every fragmentation of c) …
   `websocket_compress` gives zlib an output buffer of `2 * length` bytes; a payload whose deflate output
   (with the four tail bytes) is longer — every payload below 6 bytes, the empty one — is truncated, or
   the tail check reads in front of the buffer (`roundtrip_counterexample`). -/

/-- ASSUMING zlib (`hTail`: a sync flush ends with `00 00 ff ff` behind at least one byte; `hInv`: inflate
    undoes deflate — for the negotiated window bits and context takeover settings, which live inside the
    two functions), and for payloads whose deflate output fits the `2 * length` buffer: compress, then
    decompress — as one message or cut into ANY fragments — returns the payload. -/
theorem roundtrip_given_zlib_partial (zdeflate : Bytes → Bytes) (zinflate : Bytes → Option Bytes)
    (hTail : ∀ x, ∃ body, body ≠ [] ∧ zdeflate x = body ++ tail)
    (hInv : ∀ x, zinflate (zdeflate x) = some x)
    (x : Bytes) (hfit : (zdeflate x).length ≤ x.length * deflateOutFactor) :
    ∃ c, compress zdeflate x = .ok c true ∧
      recvMessage zinflate c = .ok x ∧
      ∀ frs : List Bytes, frs ≠ [] → frs.flatten = c → recvFramesNow zinflate RBuf.init frs = .ok x := by
  obtain ⟨body, hne, hb⟩ := hTail x
  have hmsg : recvMessage zinflate body = .ok x := by
    have hlen : 0 < inflateOutFactor * body.length := by
      have : 0 < body.length := List.length_pos_iff.2 hne
      simp [inflateOutFactor]; omega
    unfold recvMessage privateDecompress
    rw [if_neg (by omega), ← hb, hInv x]
    simp only [outHave_eq x.length _ hlen, List.take_length]
  refine ⟨body, compress_ok zdeflate x body hb hfit, hmsg, fun frs hn hf => ?_⟩
  show recvFrames true true zinflate RBuf.init frs = .ok x
  rw [recvFrames_eq zinflate frs hn RBuf.init 0 [] bufInv_init, List.nil_append, hf, if_neg hne, hmsg]

/-- the hypotheses are satisfiable: a "stored" codec (`0 :: x ++ tail`) and a 6-byte payload -/
example : ∃ (zd : Bytes → Bytes) (zi : Bytes → Option Bytes),
    (∀ x, ∃ body, body ≠ [] ∧ zd x = body ++ tail) ∧ (∀ x, zi (zd x) = some x) ∧
    (zd [1, 2, 3, 4, 5, 6]).length ≤ ([1, 2, 3, 4, 5, 6] : Bytes).length * deflateOutFactor :=
  ⟨fun x => (0 :: x) ++ tail, fun s => some ((s.drop 1).take (s.length - 5)),
    fun x => ⟨0 :: x, by simp, rfl⟩,
    fun x => by simp [tail_length],
    by decide⟩


/-- ASSUMING zlib as a pair of coupled state machines (`R` relates a deflate state to the inflate state
    of the other endpoint: from related states, deflate's output ends with the tail behind at least one byte,
    inflate returns the payload, and the successor states are related again): ANY sequence of messages whose
    deflate outputs fit, each cut into ANY fragments, arrives unchanged — the bookkeeping of `compression.c`
    carries nothing from one message to the next. -/
theorem roundtrip_session_given_zlib_partial {σd σi : Type}
    (deflate : σd → Bytes → Bytes × σd) (inflate : σi → Bytes → Option (Bytes × σi))
    (R : σd → σi → Prop)
    (hz : ∀ sd si, R sd si → ∀ x, ∃ body si', body ≠ [] ∧ (deflate sd x).1 = body ++ tail ∧
        inflate si (deflate sd x).1 = some (x, si') ∧ R (deflate sd x).2 si')
    (cut : Bytes → List Bytes) (hcut : ∀ c, cut c ≠ [] ∧ (cut c).flatten = c)
    (msgs : List Bytes) (sd : σd) (si : σi) (hR : R sd si) (hfit : sessionFits deflate sd msgs) :
    sessionOk deflate inflate cut sd si msgs := by
  induction msgs generalizing sd si with
  | nil => trivial
  | cons x rest ih =>
    obtain ⟨hf1, hf2⟩ := hfit
    obtain ⟨body, si', hne, hb, hi, hR'⟩ := hz sd si hR x
    have h1 := roundtrip_given_zlib_partial (fun y => (deflate sd y).1) (fun s => (inflate si s).map (·.1))
      (fun y => by
        obtain ⟨b, _, hb1, hb2, _, _⟩ := hz sd si hR y
        exact ⟨b, hb1, hb2⟩)
      (fun y => by
        obtain ⟨_, s', _, _, hi2, _⟩ := hz sd si hR y
        simp [hi2])
      x hf1
    obtain ⟨c, hc, _, hfr⟩ := h1
    have hcb : c = body := by
      have := compress_ok (fun y => (deflate sd y).1) x body hb hf1
      rw [this] at hc
      cases hc; rfl
    subst hcb
    simp only [sessionOk, hc]
    refine ⟨hfr (cut c) (hcut c).1 (hcut c).2, ?_⟩
    rw [← hb, hi]
    exact ih (deflate sd x).2 si' hR' hf2

/-- the hypotheses are satisfiable: a stateful "stored" codec that counts messages, one-byte fragments -/
example : ∃ (deflate : Nat → Bytes → Bytes × Nat) (inflate : Nat → Bytes → Option (Bytes × Nat))
    (R : Nat → Nat → Prop) (cut : Bytes → List Bytes),
    (∀ sd si, R sd si → ∀ x, ∃ body si', body ≠ [] ∧ (deflate sd x).1 = body ++ tail ∧
        inflate si (deflate sd x).1 = some (x, si') ∧ R (deflate sd x).2 si') ∧
    (∀ c, cut c ≠ [] ∧ (cut c).flatten = c) ∧ R 0 0 ∧
    sessionFits deflate 0 [[1, 2, 3, 4, 5, 6], [7, 7, 7, 7, 7, 7, 7]] :=
  ⟨fun n x => ((0 :: x) ++ tail, n + 1), fun n s => some ((s.drop 1).take (s.length - 5), n + 1),
    fun a b => a = b, fun c => [] :: c.map (fun b => [b]),
    fun sd si h x => ⟨0 :: x, si + 1, by simp, rfl, by simp [tail_length], by simp [h]⟩,
    fun c => ⟨by simp, by induction c with
      | nil => rfl
      | cons a r ih => simpa using ih⟩,
    rfl, ⟨by decide, by decide, trivial⟩⟩

/- Full statement of the round trip (FALSE for the code as it is, F37): the same without `hfit` /
   `sessionFits`.  Witness: `roundtrip_counterexample` below. -/

/-- F37: with the same assumptions about zlib a one-byte payload makes the tail check read outside `dest`,
    and the empty payload is answered with -1 (which `send_frame` then uses as a length). -/
theorem roundtrip_counterexample :
    ∃ (zd : Bytes → Bytes) (zi : Bytes → Option Bytes),
      (∀ x, ∃ body, body ≠ [] ∧ zd x = body ++ tail) ∧ (∀ x, zi (zd x) = some x) ∧
      compress zd [0x41] = .wild ∧ compress zd [] = .error :=
  ⟨fun x => (0 :: x) ++ tail, fun s => some ((s.drop 1).take (s.length - 5)),
    fun x => ⟨0 :: x, by simp, rfl⟩,
    fun x => by simp [tail_length],
    by decide, by decide⟩

/-! ## negotiation -/

/-- For ANY header value (and any memory behind it) and every compression level: no write into the
    response buffer — including the terminating NUL, including the elements that end up declined —
    goes beyond its `responseMax` (129) bytes. -/
theorem response_len_le_buffer (level : Nat) (hl : level < 4) (mem : Bytes) (length : Nat) :
    (negotiate level mem length).hiWater ≤ responseMax ∧
    ((negotiate level mem length).accepted = true → (negotiate level mem length).resp.length + 1 ≤ responseMax) := by
  have h := negotiate_between level hl mem length
  exact ⟨h.1.hw, fun ha => (h.2 ha).len⟩

example : (2 : Nat) < 4 := by decide

/-- An accepted offer: the response is the extension name followed by parameters, each name at most
    once, each of them legal in the sense of RFC 7692 (`Legal`): `client_max_window_bits` only when the
    accepted element has it, 8..15 and not above an offered value; `server_max_window_bits` 8..15 and not
    above an offered value; the takeover parameters without a value.  The windows handed to zlib are in
    range (and never the 8 bits zlib cannot deflate with). -/
theorem response_params_legal (level : Nat) (hl : level < 4) (mem : Bytes) (length : Nat)
    (ha : (negotiate level mem length).accepted = true) :
    let e := negotiate level mem length
    e.resp = extName ++ renderItems e.items ∧
    (∀ n, (e.items.map (·.name)).count n ≤ 1) ∧
    (∀ it ∈ e.items, Legal (mem.drop e.elemStart) e.offers it) ∧
    8 ≤ e.cmw ∧ e.cmw ≤ 15 ∧ 9 ≤ e.smw ∧ e.smw ≤ 15 := by
  have h := (negotiate_between level hl mem length).2 ha
  have hs := h.smwOk
  have := h.rng
  refine ⟨h.resp, h.once, h.legal, this.1, this.2.1, ?_, this.2.2.2⟩
  have : (negotiate level mem length).smw ≠ 8 := hs
  omega

/-- non-vacuity, and the bound of `response_len_le_buffer` is reached: level 3, all four parameters
    offered — accepted, 128 bytes + NUL -/
example :
    let offer : Bytes := extName ++ renderItem .cmw 15 ++ renderItem .smw 15 ++ renderItem .cnc 0 ++ renderItem .snc 0
    (negotiate 3 offer offer.length).accepted = true ∧
    (negotiate 3 offer offer.length).resp.length + 1 = responseMax := by
  decide +kernel

end Cjet.Props.C19
