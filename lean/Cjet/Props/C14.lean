import Cjet.Props.C03
import Cjet.Lemmas.DaemonC14Deadline
import Cjet.Lemmas.DaemonC14Run
import Cjet.Lemmas.DaemonC14Loop
/-!
# C14 — routed-request deadlines: right value, never early, exactly one outcome

Theorems about the daemon model (`timer.c`, `router.c`, `element.c`) and two small models written
for this property (`Cjet.Lemmas.DaemonC14Loop`): `convert_timeoutns_to_itimerspec` of
`timer_linux.c` and the batch dispatch loop of `eventloop_epoll.c` (fixed and original).

`Float` is opaque here: `belowMin cfg n` is the comparison `valuedouble < MIN_TIMEOUT_IN_S` and
`secondsToNs bits` the conversion `(uint64_t)(seconds * 1e9)`; statements are about the `Nat`
the model hands to the timer.

Assumption about time (not provable in a model without a clock): the harness issues
`Op.timerFire t` only after the simulated clock has passed the deadline armed by `timerArm t ns`,
which is what `timerfd` guarantees.  "Never early" is then: the timeout answer comes from
`timerFire` of that very timer and from nothing else (`timeout_only_on_fire`).
-/

namespace Cjet.Props.C14

open Cjet Cjet.Json Cjet.Daemon Cjet.Daemon.C03 Cjet.Daemon.C14 Cjet.Props.C03

/-! ## 6. The deadline -/

/-- `deadline_precedence`: the deadline armed for an accepted set/call is
    `deadlineOf cfg (request's "timeout" member) (element's timeoutNs)` — the request's own timeout
    if it has one (a number not below the minimum), else the element's — and the complete output
    of the step is `[timerArm t deadline, send owner msg true]`. -/
theorem deadline_precedence (cfg : Config) (s : State) (c : Nat) (o : Oracle) (members : List (Bytes × Json))
    (p : Peer) (isState : Bool) (params : Json) (path : Bytes) (e : Element)
    (heo : EO s) (hp : findPeer s.peers c = some p)
    (hm : (Json.obj members).getItem (k "method") = some (.str (if isState then k "set" else k "call")))
    (hc : Checks cfg s p (.obj members) isState params path e)
    (hv : isState = true → (params.getItem (k "value")).isSome = true)
    (hfull : o.routeFull = false) (hsend : o.sends.headD true = true) :
    -- the request's own timeout
    (∀ n, params.getItem (k "timeout") = some (.num n) → ¬ belowMin cfg n →
      ∃ msg, (step cfg s (.message c (some (.obj members)) o)).2 =
        [.timerArm s.nextTimer (secondsToNs n.bits), .send e.owner msg true]) ∧
    -- else the element's
    (params.getItem (k "timeout") = none →
      ∃ msg, (step cfg s (.message c (some (.obj members)) o)).2 =
        [.timerArm s.nextTimer e.timeoutNs, .send e.owner msg true]) := by
  have key : ∀ tns, deadlineOf cfg (params.getItem (k "timeout")) e.timeoutNs = some tns →
      ∃ msg, (step cfg s (.message c (some (.obj members)) o)).2 =
        [.timerArm s.nextTimer tns, .send e.owner msg true] := by
    intro tns ht
    have := routed_delivery_step cfg s c o members p isState params path e tns heo hp hm hc hv
      ((getTimeout_ns_iff ..).mpr ht) hfull hsend
    exact ⟨_, congrArg Prod.snd this⟩
  constructor
  · intro n hn hb
    exact key _ (by simp [deadlineOf, hn, hb])
  · intro hn
    exact key _ (by simp [deadlineOf, hn])

/-- the hypotheses hold for the request `exSet` of C03 (no timeout member) -/
example : EO exS ∧ findPeer exS.peers 2 = some exP2 ∧
    (Json.obj exSetMembers).getItem (k "method") = some (.str (if true then k "set" else k "call")) ∧
    Checks exCfg exS exP2 (.obj exSetMembers) true exParams (k "p") exElem ∧
    exParams.getItem (k "timeout") = none := by
  refine ⟨?_, by with_unfolding_all rfl, by with_unfolding_all rfl, ?_, by with_unfolding_all rfl⟩
  · rw [← exS_reachable]; exact elements_owned _ _ _
  · exact ⟨by with_unfolding_all rfl, by with_unfolding_all rfl, rfl, rfl, by with_unfolding_all rfl,
      by with_unfolding_all rfl⟩

/-- `element_timeout_from_add`: after an `add` request every element is an element that was there
    before (same peer, same path, same timeout) or the new one — in the adder's list, with the
    request's path and `timeoutNs = deadlineOf cfg (add's "timeout" member) cfg.defaultTimeoutNs`:
    the add's own timeout if given, else the configured default. -/
theorem element_timeout_from_add (cfg : Config) (x : Ctx) (p : Peer) (req : Json) :
    ∀ q ∈ (addElement cfg x p req).1.st.peers, ∀ e' ∈ q.elements,
      (∃ q0 ∈ x.st.peers, q0.conn = q.conn ∧ ∃ e ∈ q0.elements, e.path = e'.path ∧ e.timeoutNs = e'.timeoutNs) ∨
      (q.conn = p.conn ∧ ∃ params, getParamsAndPath req = .ok params e'.path ∧
        deadlineOf cfg (params.getItem (k "timeout")) cfg.defaultTimeoutNs = some e'.timeoutNs) := by
  let P : Nat → Bytes → Nat → Prop := fun c path tns =>
    (∃ q0 ∈ x.st.peers, q0.conn = c ∧ ∃ e ∈ q0.elements, e.path = path ∧ e.timeoutNs = tns) ∨
    (c = p.conn ∧ ∃ params, getParamsAndPath req = .ok params path ∧
      deadlineOf cfg (params.getItem (k "timeout")) cfg.defaultTimeoutNs = some tns)
  have h0 : EP P x.st := fun q hq e he => Or.inl ⟨q, hq, rfl, e, he, rfl, rfl⟩
  have hadd : AddOk P cfg p.conn req := fun params path tns hpp ht =>
    Or.inr ⟨rfl, params, hpp, (getTimeout_ns_iff ..).mp ht⟩
  exact ep_addElement cfg x p req h0 hadd

/-- `element_timeout_stable`: no operation changes the timeout (or the path, or the peer) of an
    existing element.  Every element after a step was there before with the same path and timeout,
    or was created in this step by an `add` request object of the message, with that request's
    timeout (or the default). -/
theorem element_timeout_stable (cfg : Config) (s : State) (op : Op) (heo : EO s) :
    ∀ q ∈ (step cfg s op).1.peers, ∀ e' ∈ q.elements,
      (∃ q0 ∈ s.peers, q0.conn = q.conn ∧ ∃ e ∈ q0.elements, e.path = e'.path ∧ e.timeoutNs = e'.timeoutNs) ∨
      (∃ msg o, op = .message q.conn msg o ∧ ∃ req ∈ msgRequests msg,
        req.getItem (k "method") = some (.str (k "add")) ∧
        ∃ params, getParamsAndPath req = .ok params e'.path ∧
          deadlineOf cfg (params.getItem (k "timeout")) cfg.defaultTimeoutNs = some e'.timeoutNs) := by
  let P : Nat → Bytes → Nat → Prop := fun c path tns =>
    (∃ q0 ∈ s.peers, q0.conn = c ∧ ∃ e ∈ q0.elements, e.path = path ∧ e.timeoutNs = tns) ∨
    (∃ msg o, op = .message c msg o ∧ ∃ req ∈ msgRequests msg,
      req.getItem (k "method") = some (.str (k "add")) ∧
      ∃ params, getParamsAndPath req = .ok params path ∧
        deadlineOf cfg (params.getItem (k "timeout")) cfg.defaultTimeoutNs = some tns)
  have h0 : EP P s := fun q hq e he => Or.inl ⟨q, hq, rfl, e, he, rfl, rfl⟩
  have hadd : OpAddOk P cfg op := by
    cases op with
    | message c msg o =>
      intro req hreq hmeth params path tns hpp ht
      exact Or.inr ⟨msg, o, rfl, req, hreq, hmeth, params, hpp, (getTimeout_ns_iff ..).mp ht⟩
    | connect _ _ _ _ => trivial
    | disconnect _ _ => trivial
    | timerFire _ _ => trivial
  exact ep_step cfg s op heo h0 hadd

example : EO exS := by rw [← exS_reachable]; exact elements_owned _ _ _

/-- hence, in every reachable state, an element's timeout is the configured default or the
    conversion of a number that was not below the minimum -/
theorem element_timeout_valid (cfg : Config) (us : List User) (ops : List Op) :
    ∀ q ∈ (run cfg { users := us } ops).1.peers, ∀ e ∈ q.elements,
      e.timeoutNs = cfg.defaultTimeoutNs ∨ ∃ n, ¬ belowMin cfg n ∧ e.timeoutNs = secondsToNs n.bits := by
  let P : Nat → Bytes → Nat → Prop := fun _ _ tns =>
    tns = cfg.defaultTimeoutNs ∨ ∃ n, ¬ belowMin cfg n ∧ tns = secondsToNs n.bits
  have hall : ∀ c req, AddOk P cfg c req := by
    intro c req params path tns _ ht
    have hd := (getTimeout_ns_iff ..).mp ht
    unfold deadlineOf at hd
    split at hd
    · exact Or.inl (Option.some.inj hd).symm
    · next n _ =>
      split at hd
      · cases hd
      · next hb => exact Or.inr ⟨n, hb, (Option.some.inj hd).symm⟩
    · cases hd
  have hop : ∀ op, OpAddOk P cfg op := by
    intro op
    cases op with
    | message c msg o => exact fun req _ _ => hall c req
    | connect _ _ _ _ => trivial
    | disconnect _ _ => trivial
    | timerFire _ _ => trivial
  have : ∀ (ops : List Op) (s : State), EO s → EP P s → EP P (run cfg s ops).1 := by
    intro ops
    induction ops with
    | nil => exact fun _ _ h => h
    | cons op rest ih =>
      intro s heo h
      exact ih _ (eo_step cfg s op heo) (ep_step cfg s op heo h (hop op))
  exact this ops _ (eo_init us) (fun p hp => nomatch hp)

/-- `timeout_refusal`, set/call: a `timeout` member that is not a number, or a number below the
    minimum, is answered with INVALID_PARAMS ("timeout is not a number" / "timeout value is too
    small"); no routing entry is stored, no timer created or armed, nothing is sent to the owner —
    only the id counter has advanced. -/
theorem timeout_refusal (cfg : Config) (x : Ctx) (p : Peer) (req : Json) (isState : Bool)
    (params : Json) (path : Bytes) (e : Element)
    (hc : Checks cfg x.st p req isState params path e)
    (hv : isState = true → (params.getItem (k "value")).isSome = true)
    (hbad : deadlineOf cfg (params.getItem (k "timeout")) e.timeoutNs = none) :
    ∃ reason, (reason = "timeout value is too small" ∨ reason = "timeout is not a number") ∧
      (setOrCall cfg x p req isState).2 = errorFromRequest req INVALID_PARAMS "reason" (k reason) ∧
      (setOrCall cfg x p req isState).1.out = x.out ∧
      (setOrCall cfg x p req isState).1.st.peers = x.st.peers ∧
      (setOrCall cfg x p req isState).1.st.nextTimer = x.st.nextTimer := by
  obtain ⟨reason, hr, h⟩ := setOrCall_timeout_refused hc hv hbad
  exact ⟨reason, hr, by rw [h], by rw [h], by rw [h], by rw [h]⟩

/-- what "refused" means: a non-number, or a number below the minimum -/
theorem refused_timeouts (cfg : Config) (t : Option Json) (dflt : Nat) :
    deadlineOf cfg t dflt = none ↔ ∃ j, t = some j ∧ ((∀ n, j ≠ .num n) ∨ ∃ n, j = .num n ∧ belowMin cfg n) :=
  deadlineOf_none_iff cfg t dflt

def exBadParams : Json := .obj [(k "path", .str (k "p")), (k "value", ofInt 7), (k "timeout", .str (k "soon"))]
def exBadSet : Json := .obj [(k "id", .str (k "a")), (k "method", .str (k "set")), (k "params", exBadParams)]

example : Checks exCfg exS exP2 exBadSet true exBadParams (k "p") exElem ∧
    (exBadParams.getItem (k "value")).isSome = true ∧
    deadlineOf exCfg (exBadParams.getItem (k "timeout")) exElem.timeoutNs = none :=
  ⟨⟨by with_unfolding_all rfl, by with_unfolding_all rfl, rfl, rfl, by with_unfolding_all rfl,
    by with_unfolding_all rfl⟩, by with_unfolding_all rfl, by with_unfolding_all rfl⟩

/-- `timeout_refusal`, add: the same refusal; the element is not created, nothing is emitted,
    the state is untouched. -/
theorem timeout_refusal_add (cfg : Config) (x : Ctx) (p : Peer) (req : Json) (params : Json) (path : Bytes)
    (hpp : getParamsAndPath req = .ok params path)
    (hbad : deadlineOf cfg (params.getItem (k "timeout")) cfg.defaultTimeoutNs = none) :
    (addElement cfg x p req).1 = x ∧
    ((cfg.localOnlyAdd && !p.isLocal) = false →
     (params.getItem (k "fetchOnly") = none ∨ ∃ b, params.getItem (k "fetchOnly") = some (.bool b)) →
     ∃ reason, (reason = "timeout value is too small" ∨ reason = "timeout is not a number") ∧
       (addElement cfg x p req).2 = errorFromRequest req INVALID_PARAMS "reason" (k reason)) := by
  refine ⟨addElement_timeout_refused' hpp hbad, ?_⟩
  intro hl hf
  obtain ⟨reason, hr, h⟩ := addElement_timeout_refused (x := x) hl hpp hf hbad
  exact ⟨reason, hr, by rw [h]⟩

def exBadAddParams : Json := .obj [(k "path", .str (k "q")), (k "timeout", .bool true)]
def exBadAdd : Json := .obj [(k "method", .str (k "add")), (k "params", exBadAddParams)]

example : getParamsAndPath exBadAdd = .ok exBadAddParams (k "q") ∧
    deadlineOf exCfg (exBadAddParams.getItem (k "timeout")) exCfg.defaultTimeoutNs = none :=
  ⟨by with_unfolding_all rfl, by with_unfolding_all rfl⟩

/-! ## 7. `convert_timeoutns_to_itimerspec` -/

/-- `itimerspec_exact`: `tv_sec·10⁹ + tv_nsec = ns`, `tv_nsec < 10⁹`, and a positive deadline never
    becomes the all-zero value that would disarm the timer. -/
theorem itimerspec_exact (ns : Nat) :
    (toItimerspec ns).1 * 1000000000 + (toItimerspec ns).2 = ns ∧ (toItimerspec ns).2 < 1000000000 ∧
    (ns > 0 → toItimerspec ns ≠ (0, 0)) :=
  toItimerspec_exact ns

/-- for a `uint64_t` deadline the C arithmetic does not wrap and `tv_sec` fits a signed 64-bit `time_t` -/
theorem itimerspec_in_range (ns : Nat) (h : ns < 2 ^ 64) :
    (toItimerspec ns).1 < 2 ^ 63 ∧ (toItimerspec ns).1 * NSECONDS_IN_SECONDS ≤ ns :=
  toItimerspec_in_range ns h

example : (5000000000 : Nat) < 2 ^ 64 := by decide

/-! ## 8. Exactly one outcome -/

/-- `one_outcome`: over every run, every timer id is destroyed at most once.  Each of the three
    final answers of a routed request — reply relay (`final_answer_reply`), timeout answer
    (`final_answer_timeout`), shutdown answer (`final_answer_shutdown`) — and the immediate error
    when the send to the owner fails is emitted together with `timerDestroy` of that request's
    timer (and timer ids are never reused: `routes_wf`), so at most one of them is ever emitted. -/
theorem one_outcome (cfg : Config) (us : List User) (ops : List Op) :
    ((run cfg { users := us } ops).2.flatten.filterMap destroyedOf).Nodup :=
  destroy_once_run cfg us ops

/-- a destroyed timer id is below the timer counter and carried by no stored entry — an entry is
    never resolved twice, a resolved entry never comes back -/
theorem destroyed_timers_dead (cfg : Config) (us : List User) (ops : List Op) :
    let s := (run cfg { users := us } ops).1
    ∀ t ∈ (run cfg { users := us } ops).2.flatten.filterMap destroyedOf,
      t < s.nextTimer ∧ ∀ q ∈ s.peers, ∀ r ∈ q.routes, r.timer ≠ t := by
  intro s t ht
  have h := (dinv_run cfg ops _ [] (routesWf_init us) (dinv_init us)).dead t (by
    simp only [rsS]
    rw [destroyed_runLog]
    simpa using ht)
  refine ⟨h.1, fun q hq r hr => h.2 r ?_⟩
  show r ∈ vRoutes (s.peers.map pview)
  rw [vRoutes_map_pview]
  exact List.mem_flatMap.mpr ⟨q, hq, hr⟩

/-- `reply_after_timeout_ignored`: after the timeout answer of `r`, and after any further
    operations (counter not wrapping), a reply of the owner with `r`'s id has no effect on the
    state and produces no output. -/
theorem reply_after_timeout_ignored (cfg : Config) (s : State) (r : Route) (orc orc' : Oracle) (ops : List Op)
    (members : List (Bytes × Json)) (payload : Json) (typ : String)
    (hw : RoutesWf s) (hr : RidsWf s) (hin : Stored s r)
    (hok : ∀ op ∈ ops, OpOk op) (hb : s.uuid + runWeight ops < 4294967296)
    (hresp : IsResponse (.obj members) payload typ)
    (hid : (Json.obj members).getItem (k "id") = some (.str r.rid)) :
    let s1 := (step cfg s (.timerFire r.timer orc)).1
    let s2 := (run cfg s1 ops).1
    step cfg s2 (.message r.owner (some (.obj members)) orc') = (s2, []) := by
  intro s1 s2
  have hstep := (final_answer_timeout cfg s orc r hw hin)
  have hgone : ¬ Stored s1 r := by
    show ¬ Stored (step cfg s (.timerFire r.timer orc)).1 r
    rw [hstep.1]; exact hstep.2
  have hb0 : s.uuid + opWeight (.timerFire r.timer orc) < 4294967296 := by
    have : opWeight (.timerFire r.timer orc) = 0 := rfl
    omega
  have hdead1 : RidDeadS s1 r.rid := resolved_is_dead cfg s _ r hw hr trivial hb0 hin hgone
  have hw1 : RoutesWf s1 := routesWf_step cfg s _ hw
  obtain ⟨hr1, hu1⟩ := ridsWf_step cfg s (.timerFire r.timer orc) hw hr trivial hb0
  have hu1' : s1.uuid ≤ s.uuid := by
    have : opWeight (.timerFire r.timer orc) = 0 := rfl
    have h2 : s1.uuid ≤ s.uuid + opWeight (.timerFire r.timer orc) := hu1
    omega
  have hdead2 : RidDeadS s2 r.rid := ridDead_run cfg ops s1 r.rid hw1 hr1 hok (by omega) hdead1
  exact reply_to_dead_ignored cfg s2 r.owner orc' members payload typ r.rid hdead2 hresp hid

example : RoutesWf exS1 ∧ RidsWf exS1 ∧ Stored exS1 exRoute ∧
    IsResponse (.obj exReplyMembers) (.bool true) "result" ∧
    (Json.obj exReplyMembers).getItem (k "id") = some (.str exRoute.rid) := by
  refine ⟨?_, exS1_rids, ⟨_, by with_unfolding_all rfl, .head _⟩,
    ⟨by with_unfolding_all rfl, Or.inl ⟨rfl, by with_unfolding_all rfl⟩⟩, by with_unfolding_all rfl⟩
  rw [← exS1_reachable]
  exact routesWf_run _ _ _ (routesWf_init [])

/-- `reply_and_expiry_together`: when the owner's reply and the expiry of the request's timer are
    both ready (same event-loop iteration), exactly one answer is produced whichever is processed
    first — the second of the two operations changes nothing and emits nothing. -/
theorem reply_and_expiry_together (cfg : Config) (s : State) (r : Route) (orc₁ orc₂ : Oracle)
    (members : List (Bytes × Json)) (payload : Json) (typ : String)
    (hw : RoutesWf s) (hr : RidsWf s) (hin : Stored s r)
    (hresp : IsResponse (.obj members) payload typ)
    (hid : (Json.obj members).getItem (k "id") = some (.str r.rid)) :
    -- reply first: the relay is the answer, the expiry finds nothing
    (let s1 := (step cfg s (.message r.owner (some (.obj members)) orc₁)).1
     (step cfg s (.message r.owner (some (.obj members)) orc₁)).2 =
        .timerDestroy r.timer :: answerSends r.requester (replyAnswer r payload typ) (orc₁.sends.headD true) ∧
     step cfg s1 (.timerFire r.timer orc₂) = (s1, [])) ∧
    -- expiry first: the timeout error is the answer, the reply finds nothing
    (let s1 := (step cfg s (.timerFire r.timer orc₁)).1
     (step cfg s (.timerFire r.timer orc₁)).2 =
        answerSends r.requester (timeoutAnswer r) (orc₁.sends.headD true) ++ [.timerDestroy r.timer] ∧
     step cfg s1 (.message r.owner (some (.obj members)) orc₂) = (s1, [])) := by
  constructor
  · intro s1
    have h := (final_answer_reply cfg s orc₁ members payload typ r hr hin hresp hid).1
    refine ⟨congrArg Prod.snd h, ?_⟩
    apply late_expiry_ignored
    intro r' hr'
    have hs1 : s1 = { s with peers := removeRoute s.peers r.owner r.rid } := congrArg Prod.fst h
    rw [hs1] at hr'
    have hmem : r' ∈ vRoutes (vRemove (s.peers.map pview) r.owner r.rid) := by
      rw [← map_pview_removeRoute, vRoutes_map_pview]; exact hr'
    exact no_timer_after_drop (a := rsS s []) hw ((stored_iff s r).mp hin) r' hmem
  · intro s1
    refine ⟨congrArg Prod.snd (final_answer_timeout cfg s orc₁ r hw hin).1, ?_⟩
    exact reply_after_timeout_ignored cfg s r orc₁ orc₂ [] members payload typ hw hr hin
      (fun _ h => nomatch h) (by have := hr.bound; simp [runWeight]; exact this) hresp hid

/-- `timeout_only_on_fire`: the timeout answer of `r` is what `timerFire r.timer` emits while `r`
    is stored (`final_answer_timeout`); an operation other than the expiry of `r`'s own timer that
    ends `r`'s life is a reply of its owner (→ relay), a drop or disconnect of its owner
    (→ shutdown answer) or of its requester (→ no answer); every other operation leaves `r`
    stored.  And an expiry while `r` is not stored emits nothing (`late_expiry_ignored`). -/
theorem timeout_only_on_fire (cfg : Config) (s : State) (op : Op) (r : Route)
    (hw : RoutesWf s) (hr : RidsWf s) (hok : OpOk op) (hb : s.uuid + opWeight op < 4294967296)
    (hin : Stored s r) (hnot : ∀ o, op ≠ .timerFire r.timer o) :
    Stored (step cfg s op).1 r ∨
    (∃ msg o, op = .message r.owner msg o ∧ msgReplies msg r.rid = true) ∨
    (∃ c msg o, op = .message c msg o ∧ (c = r.owner ∨ c = r.requester) ∧
      (parseMessage cfg (mkCtx s o) c msg).2 = false) ∨
    (∃ c o, op = .disconnect c o ∧ (c = r.owner ∨ c = r.requester)) := by
  by_cases hst : Stored (step cfg s op).1 r
  · exact Or.inl hst
  · right
    have hres := resolution_cases cfg s op r hw hr hok hb hin hst
    cases op with
    | connect _ _ _ _ => exact absurd hres (by simp [Resolves])
    | message c msg o =>
      rcases hres with ⟨rfl, h⟩ | ⟨h1, h2⟩
      · exact Or.inl ⟨msg, o, rfl, h⟩
      · exact Or.inr (Or.inl ⟨c, msg, o, rfl, h1, h2⟩)
    | disconnect c o => exact Or.inr (Or.inr ⟨c, o, rfl, hres⟩)
    | timerFire t o =>
      have : t = r.timer := hres
      exact absurd (this ▸ rfl) (hnot o)

example : RoutesWf exS1 ∧ RidsWf exS1 ∧ OpOk (.connect 3 false true (k "0x3")) ∧
    exS1.uuid + opWeight (.connect 3 false true (k "0x3")) < 4294967296 ∧ Stored exS1 exRoute ∧
    (∀ o, Op.connect 3 false true (k "0x3") ≠ .timerFire exRoute.timer o) := by
  refine ⟨?_, exS1_rids, by decide +kernel, by decide +kernel, ⟨_, by with_unfolding_all rfl, .head _⟩,
    fun _ h => nomatch h⟩
  rw [← exS1_reachable]
  exact routesWf_run _ _ _ (routesWf_init [])

/-! ## 9. The event loop -/

/-- `batch_safety` (fixed loop): for every harvested batch — any registrations, any order,
    duplicates, read and write readiness in any combination — and every behaviour of the
    callbacks, no callback is invoked for a registration that was removed from the loop earlier
    in the same batch (by an earlier event's callback or by the read callback of the same event). -/
theorem batch_safety (beh : Behaviour) (batch : List Ev) :
    ∀ c ∈ dispatchFixed beh batch [], c.reg ∉ c.removedBefore :=
  dispatchFixed_safe beh batch [] (fun _ _ _ _ h => nomatch h)

/-- the reply socket (registration 1) and the timer of the routed request (registration 2) are
    harvested together; the reply handler releases the routing entry and with it the timer -/
def replyThenExpiry : List Ev := [⟨some 1, true, false⟩, ⟨some 2, true, false⟩]
def replyFreesTimer : Behaviour := fun reg _ _ => if reg = 1 then [2] else []

/-- `batch_unsafe_original`: the ORIGINAL loop dispatches the harvested expiry through the
    registration the reply handler has just removed (use after free, F10). -/
theorem batch_unsafe_original :
    ∃ c ∈ dispatchOrig replyFreesTimer replyThenExpiry [], c.reg ∈ c.removedBefore := by decide

/-- the fixed loop skips it -/
theorem batch_fixed_example :
    dispatchFixed replyFreesTimer replyThenExpiry [] = [⟨1, .read, []⟩] := by
  with_unfolding_all rfl

end Cjet.Props.C14
