/-
  Theorems about the model of cJSON's text layer (`Cjet.Cjson`, tied to /repo/src/json/cJSON.c by
  vlib/cjson_tie.py).  They support C06 (parser index arithmetic for arbitrary bytes), C09 (the parser never
  reads past `length`) and C01/C02 (values pass through the daemon by parse then print).  See docs/Cjson.md.

  Conventions: `parseWith inp guard fuel` = cJSON_ParseWithLengthOpts(inp, |inp|, &end, 0) of the model with an
  explicit object-comma guard flag and recursion fuel; `parseG guard inp` = the same with fuel
  `nestingLimit + 1`; `parse inp` = with the flag regenerated from the source tree.  Outcome `.oob i` = the C
  code read `content[i]` with `i ≥ length`; `.nofuel` = the model ran out of recursion/loop fuel.
-/
import Cjet.Cjson.Loops
import Cjet.Cjson.Writes
import Cjet.Cjson.Roundtrip
import Cjet.Cjson.Utf16
import Cjet.Cjson.Trees

namespace Cjet.Props.Cjson
open Cjet Cjet.Cjson
open Cjet.Generated.Cjson (nestingLimit numberBufSize objCommaGuard printNumberExact)

/-! ### every read is inside the buffer (C06, C09) -/

/-- For EVERY byte string (valid JSON or not) and every fuel the parser with the object-comma guard never reads
    `content[i]` with `i ≥ length`: no literal compare, no parse_hex4, no surrogate look-ahead, no unguarded
    first byte of parse_string / parse_array. -/
theorem parse_reads_in_bounds (inp : Bytes) (fuel i : Nat) : parseWith inp true fuel ≠ .oob i := by
  intro h
  unfold parseWith at h
  split at h
  · cases h
  · cases h
  · rename_i j hj; exact parseRes_not_oob inp fuel j hj
  · cases h

/-- The same for the source tree as it is: the guard flag regenerated from cJSON.c is `true` (a tree without the
    guard makes this proof fail; the check then searches and finds the over-read input). -/
theorem parse_reads_in_bounds_as_built (inp : Bytes) (i : Nat) : parse inp ≠ .oob i := by
  have hg : objCommaGuard = true := rfl
  unfold parse parseG
  rw [hg]
  exact parse_reads_in_bounds inp _ i

/-- F64 (before the repair in /repo 07f45d0): without the guard in parse_object the text `{"a":1,` (7 bytes)
    makes parse_string read `content[7]`. -/
theorem parse_reads_in_bounds_counterexample_before_fix :
    (match parseG false [0x7B, 0x22, 0x61, 0x22, 0x3A, 0x31, 0x2C] with | .oob 7 => true | _ => false) = true := by
  decide +kernel

/-- parse_string alone: its only read that can leave the buffer is the unguarded first one, and only when the
    caller hands it an offset that is not inside the buffer. -/
theorem parse_string_reads_in_bounds (inp : Bytes) (b : PB) (i : Nat) (h : parseString inp b = .oob i) :
    inp.length ≤ b.off :=
  parseString_oob h

/-- The second pass of parse_string - including parse_hex4 and the look-ahead for the second half of a surrogate
    pair - stays inside the buffer whenever the closing quote (offset `p + n`) does. -/
theorem parse_hex4_reads_in_bounds (fuel p n : Nat) (rest : Bytes) (i : Nat) (h : n < rest.length) :
    unesc fuel p n rest ≠ .oob i :=
  unesc_not_oob fuel p n rest i (Or.inr h)

example : (4 : Nat) < ([0x5C, 0x75, 0x30, 0x30, 0x22] : Bytes).length := by decide

/-- `can_read(n) && strncmp(…, literal, n)` never reads past the end ("null", "true", "false", the BOM). -/
theorem parse_literal_reads_in_bounds (inp : Bytes) (b : PB) (lit : Bytes) (i : Nat) : isLit inp b lit ≠ .oob i :=
  isLit_not_oob inp b lit i

/-- `end_parse` lies inside the message, the error position too. -/
theorem parse_end_in_bounds (inp : Bytes) (g : Bool) (fuel : Nat) :
    (∀ t e, parseWith inp g fuel = .ok t e → e ≤ inp.length) ∧
    (∀ p, parseWith inp g fuel = .fail p → p < inp.length ∨ (inp = [] ∧ p = 0)) := by
  constructor
  · intro t e h
    unfold parseWith at h
    split at h
    · rename_i t' b hb
      simp only [Outcome.ok.injEq] at h
      obtain ⟨_, rfl⟩ := h
      exact (parseRes_ok hb).1
    · cases h
    · cases h
    · cases h
  · intro p h
    unfold parseWith at h
    split at h
    · cases h
    · simp only [Outcome.fail.injEq] at h
      subst h
      unfold errPos
      split
      · left; assumption
      · split
        · left; omega
        · right
          rename_i h1 h2
          exact ⟨List.eq_nil_of_length_eq_zero (by omega), rfl⟩
    · cases h
    · cases h

/-! ### parse_string never writes past its allocation (C06) -/

/-- First pass found the closing quote after `n` bytes with `skipped` escapes; then whatever the second pass does
    (success or failure, aligned with the first pass' view of the escapes or not), the bytes it stored plus the
    terminating NUL are at most `allocation_length = n + 1 - skipped`; the allocation has one byte more. -/
theorem parse_string_writes_in_bounds (body : Bytes) (n skipped p : Nat) (h : scanEnd body = some (n, skipped)) :
    (unesc (n + 1) p n body).wlen + 1 ≤ n + 1 - skipped :=
  unesc_fits_alloc h p

example : scanEnd [0x5C, 0x75, 0x30, 0x30, 0x30, 0x5C, 0x5C, 0x22] = some (7, 2) := by decide

/-- as seen by the caller of a successful parse_string -/
theorem parse_string_result_fits (inp : Bytes) (b : PB) (s : StrOut) (b' : PB) (h : parseString inp b = .ok s b') :
    s.written.length + 1 ≤ s.alloc :=
  parseString_written_le h

example : parseString [0x22, 0x5C, 0x6E, 0x22] ⟨0, 0⟩ = .ok ⟨[0x0A], 2⟩ ⟨4, 0⟩ := by rfl

/-! ### nesting limit, termination -/

/-- Fuel `nestingLimit + 1` (one per nested parse_value frame) always suffices, for every input: the recursion
    never goes deeper, the loops never run longer than their bounds, and more fuel changes nothing. -/
theorem parse_total (inp : Bytes) (g : Bool) (fuel : Nat) (hf : nestingLimit < fuel) :
    parseWith inp g fuel = parseG g inp ∧ parseG g inp ≠ .nofuel := by
  constructor
  · unfold parseG parseWith
    rw [parseRes_fuel_indep inp g fuel hf]
  · intro h
    unfold parseG parseWith at h
    split at h
    · cases h
    · cases h
    · cases h
    · rename_i hn
      exact parseRes_not_nofuel inp g _ (by omega) hn

/-- Every tree the parser returns is nested at most CJSON_NESTING_LIMIT deep (deeper input is rejected). -/
theorem nesting_bounded (inp : Bytes) (g : Bool) (fuel : Nat) (t : Tree) (e : Nat)
    (h : parseWith inp g fuel = .ok t e) : t.depth ≤ nestingLimit := by
  unfold parseWith at h
  split at h
  · rename_i t' b hb
    simp only [Outcome.ok.injEq] at h
    obtain ⟨rfl, _⟩ := h
    exact (parseRes_ok hb).2.1
  · cases h
  · cases h
  · cases h

example : (match parseG true [0x5B, 0x5B, 0x5D, 0x5D] with | .ok t 4 => t.depth == 2 | _ => false) = true := by
  decide +kernel

/-- `input_buffer->depth` is balanced: back to 0 when the top-level value has been parsed. -/
theorem depth_counter_restored (inp : Bytes) (g : Bool) (fuel : Nat) (t : Tree) (b : PB)
    (h : parseRes inp g fuel = .ok t b) : b.depth = 0 :=
  (parseRes_ok h).2.2

example : parseRes [0x5B, 0x5D] true 3 = .ok (.arr []) ⟨2, 0⟩ := by rfl

/-! ### strings survive print then parse exactly (C01, C02) -/

/-- For every C string `s` (no NUL byte; every other byte value allowed: print_string_ptr copies bytes ≥ 0x20
    except `"` and `\` - also 0x7F and everything ≥ 0x80 - and escapes the rest) parse_string gives back exactly
    `s` from the text print_string_ptr produced, wherever that text stands in a buffer. -/
theorem print_parse_string_roundtrip (s : Bytes) (hs : nulFree s) (inp : Bytes) (b : PB) (post : Bytes)
    (hd : inp.drop b.off = printString s ++ post) :
    ∃ a, parseString inp b = .ok ⟨s, a⟩ ⟨b.off + (printString s).length, b.depth⟩ :=
  parseString_printString hs hd

example : nulFree [0x01, 0x22, 0x5C, 0x7F, 0xFF] := by unfold nulFree; decide

/-- the buffer size print_string_ptr computes (`output_length + sizeof("\"\"")`) is what it fills -/
theorem print_string_length_exact (s : Bytes) : (printString s).length = s.length + escapeChars s + 2 := by
  simp only [printString, List.length_cons, List.length_append, List.length_nil, escBody_length]

/-! ### trees survive print then parse -/

/-- Oracle form: `num` is the text print_number produces for a number token's value.  If every string of the tree
    is a C string, every number prints as a complete number token (`NumTok`: what sprintf "%1.15g"/"%1.17g"
    produces for a finite double) and the tree is not nested deeper than the limit, then parsing the printed
    text gives the tree back (number tokens replaced by their printed text) and consumes the whole text. -/
theorem print_parse_tree_roundtrip_given_number_oracle_partial (g : Bool) (num : Bytes → Bytes) (t : Tree)
    (hp : t.Printable num) (hd : t.depth ≤ nestingLimit) :
    parseG g (printValue num t) = .ok (t.mapNum num) (printValue num t).length := by
  unfold parseG parseWith
  rw [parseRes_printed g num t hp hd]

example : (Tree.arr [.num [0x31], .str [0x61]]).Printable id := by
  simp only [Tree.Printable, Tree.PrintableList, NumTok, id]
  refine ⟨⟨by decide, by decide, by decide, 0x31, [], rfl, by decide⟩, by unfold nulFree; decide, trivial⟩

/-- Printer output is valid for the parser: no failure, and the whole text is consumed. -/
theorem printed_is_valid_json_text (g : Bool) (num : Bytes → Bytes) (t : Tree)
    (hp : t.Printable num) (hd : t.depth ≤ nestingLimit) :
    ∃ t', parseG g (printValue num t) = .ok t' (printValue num t).length :=
  ⟨_, print_parse_tree_roundtrip_given_number_oracle_partial g num t hp hd⟩

/-- Trees without numbers - full strength, no oracle: every tree whose strings are C strings and that is nested at
    most CJSON_NESTING_LIMIT deep is parsed back identically from its printed text, which is consumed entirely.
    (Duplicate member names, empty names, every byte value 0x01..0xFF in strings are covered.) -/
theorem print_parse_tree_roundtrip (g : Bool) (num : Bytes → Bytes) (t : Tree) (hn : t.hasNum = false)
    (hs : t.StrOk) (hd : t.depth ≤ nestingLimit) :
    parseG g (printValue num t) = .ok t (printValue num t).length := by
  have hp := Tree.printable_of num t hs (Tree.allNum_of_noNum _ t hn)
  have := print_parse_tree_roundtrip_given_number_oracle_partial g num t hp hd
  rw [Tree.mapNum_id num t hn] at this
  exact this

example : (Tree.obj [([0x61], .str [0x01, 0xFF]), ([0x61], .arr [.null, .tru])]).hasNum = false ∧
    (Tree.obj [([0x61], .str [0x01, 0xFF]), ([0x61], .arr [.null, .tru])]).StrOk := by
  refine ⟨by decide, ?_⟩
  simp only [Tree.StrOk, Tree.StrOkMembers, Tree.StrOkList, nulFree]
  decide

/-- Every string and member name of a tree the parser returns is a C string (what is stored behind a `\u0000`
    is cut off, as the daemon's strlen/strcmp see it). -/
theorem parsed_tree_strings_are_c_strings (inp : Bytes) (g : Bool) (fuel : Nat) (t : Tree) (e : Nat)
    (h : parseWith inp g fuel = .ok t e) : t.StrOk := by
  unfold parseWith at h
  split at h
  · rename_i t' b hb
    simp only [Outcome.ok.injEq] at h
    obtain ⟨rfl, _⟩ := h
    exact parseRes_strOk hb
  · cases h
  · cases h
  · cases h

/-- The daemon's pass-through, number-free case: whatever text was accepted (lenient or not), printing the parsed
    tree and parsing that text again gives the same tree. -/
theorem parse_print_parse_idempotent (inp : Bytes) (g g' : Bool) (fuel : Nat) (num : Bytes → Bytes) (t : Tree)
    (e : Nat) (h : parseWith inp g fuel = .ok t e) (hn : t.hasNum = false) :
    parseG g' (printValue num t) = .ok t (printValue num t).length :=
  print_parse_tree_roundtrip g' num t hn (parsed_tree_strings_are_c_strings inp g fuel t e h)
    (nesting_bounded inp g fuel t e h)

example : (match parseG true [0x5B, 0x22, 0x5C, 0x75, 0x30, 0x30, 0x65, 0x39, 0x22, 0x5D, 0x20] with
    | .ok t 10 => !t.hasNum | _ => false) = true := by decide +kernel

/-- The same with numbers, under the oracle hypothesis that every number token of the parsed tree prints as a
    complete number token: the tree comes back with the tokens replaced by their printed text. -/
theorem parse_print_parse_given_number_oracle_partial (inp : Bytes) (g g' : Bool) (fuel : Nat) (num : Bytes → Bytes)
    (t : Tree) (e : Nat) (h : parseWith inp g fuel = .ok t e) (hnum : t.AllNum (fun tok => NumTok (num tok))) :
    parseG g' (printValue num t) = .ok (t.mapNum num) (printValue num t).length :=
  print_parse_tree_roundtrip_given_number_oracle_partial g' num t
    (Tree.printable_of num t (parsed_tree_strings_are_c_strings inp g fuel t e h) hnum)
    (nesting_bounded inp g fuel t e h)

/-! ### numbers (the C library as an oracle) -/

/-- With the repaired print_number (the 15-digit text is kept only when it scans back to the identical double),
    a finite double survives print then parse bit for bit, under the single oracle hypothesis that
    `strtod(sprintf("%1.17g", d)) = d` for finite `d`. -/
theorem number_survives_print_parse_given_number_oracle_partial (o : NumOracle)
    (h17 : ∀ d, isFinite d = true → o.scan (o.fmt17 d) = d) (d : UInt64) (hd : isFinite d = true) :
    o.scan (printNumber true o d) = d := by
  unfold printNumber
  simp only [hd, Bool.not_true, Bool.false_eq_true, if_false, if_true]
  split
  · rename_i h; exact eq_of_beq h
  · exact h17 d hd

example : isFinite 0x3FD3333333333334 = true := by decide

/-- the oracle values glibc gives around 0.3 -/
def oracleNear03 : NumOracle where
  fmt15 := fun _ => [0x30, 0x2E, 0x33]
  fmt17 := fun _ => [0x30, 0x2E, 0x33, 0x30, 0x30, 0x30, 0x30, 0x30, 0x30, 0x30, 0x30, 0x30, 0x30, 0x30, 0x30, 0x30, 0x30, 0x30, 0x34]
  scan := fun t => if t.length = 3 then 0x3FD3333333333333 else 0x3FD3333333333334
  close := fun a b => a.toNat - b.toNat ≤ 1 && b.toNat - a.toNat ≤ 1

/-- F65 (before the repair in /repo 2ab33d6): with the epsilon acceptance test 0.30000000000000004 was printed
    as `0.3`, which scans to the neighbouring double. -/
theorem number_print_counterexample_before_fix :
    oracleNear03.scan (printNumber false oracleNear03 0x3FD3333333333334) ≠ 0x3FD3333333333334 := by
  decide

/-- the source tree under test has the exact acceptance test -/
theorem print_number_is_exact_as_built : printNumberExact = true := rfl

/-! ### \uXXXX decoding -/

/-- The encoder at the end of utf16_literal_to_utf8 (shifts and masks) is the RFC 3629 table, and refuses exactly
    the values above U+10FFFF. -/
theorem utf8_encoder_correct (cp : Nat) :
    utf8Encode cp = if cp ≤ 0x10FFFF then some (utf8Spec cp) else none :=
  utf8Encode_eq cp

/-- `\uXXXX` (four hex digits of either case, value outside D800..DFFF): six bytes consumed, the UTF-8 encoding
    of the code point stored. -/
theorem utf16_decoding_correct (p n : Nat) (d1 d2 d3 d4 : UInt8) (a1 a2 a3 a4 : Nat) (rest : Bytes) (hn : 6 ≤ n)
    (h1 : hexVal d1 = some a1) (h2 : hexVal d2 = some a2) (h3 : hexVal d3 = some a3) (h4 : hexVal d4 = some a4)
    (hv : ¬ (0xD800 ≤ hexValue4 a1 a2 a3 a4 ∧ hexValue4 a1 a2 a3 a4 ≤ 0xDFFF)) :
    utf16 p n (0x5C :: 0x75 :: d1 :: d2 :: d3 :: d4 :: rest) = .ok (utf8Spec (hexValue4 a1 a2 a3 a4)) 6 := by
  have hlt : hexValue4 a1 a2 a3 a4 < 0x10000 := hex4_lt (hex4_digits 0 [] h1 h2 h3 h4)
  exact utf16_bmp p n rest hn h1 h2 h3 h4 hv hlt

example : hexVal 0x32 = some 2 ∧ hexVal 0x30 = some 0 ∧ hexVal 0x41 = some 10 ∧ hexVal 0x63 = some 12 ∧
    ¬ (0xD800 ≤ hexValue4 2 0 10 12 ∧ hexValue4 2 0 10 12 ≤ 0xDFFF) ∧ utf8Spec (hexValue4 2 0 10 12) = [0xE2, 0x82, 0xAC] := by
  decide

/-- A surrogate pair `\uD800..DBFF \uDC00..DFFF`: twelve bytes consumed, the UTF-8 encoding of the supplementary
    code point stored. -/
theorem utf16_decoding_correct_pair (p n : Nat) (d1 d2 d3 d4 e1 e2 e3 e4 : UInt8) (a1 a2 a3 a4 c1 c2 c3 c4 : Nat)
    (rest : Bytes) (hn : 12 ≤ n)
    (h1 : hexVal d1 = some a1) (h2 : hexVal d2 = some a2) (h3 : hexVal d3 = some a3) (h4 : hexVal d4 = some a4)
    (g1 : hexVal e1 = some c1) (g2 : hexVal e2 = some c2) (g3 : hexVal e3 = some c3) (g4 : hexVal e4 = some c4)
    (hh : 0xD800 ≤ hexValue4 a1 a2 a3 a4 ∧ hexValue4 a1 a2 a3 a4 ≤ 0xDBFF)
    (hl : 0xDC00 ≤ hexValue4 c1 c2 c3 c4 ∧ hexValue4 c1 c2 c3 c4 ≤ 0xDFFF) :
    utf16 p n (0x5C :: 0x75 :: d1 :: d2 :: d3 :: d4 :: 0x5C :: 0x75 :: e1 :: e2 :: e3 :: e4 :: rest) =
      .ok (utf8Spec (0x10000 + (hexValue4 a1 a2 a3 a4 - 0xD800) * 1024 + (hexValue4 c1 c2 c3 c4 - 0xDC00))) 12 :=
  utf16_pair p n rest hn h1 h2 h3 h4 g1 g2 g3 g4 hh hl

example : (0xD800 ≤ hexValue4 13 8 3 13 ∧ hexValue4 13 8 3 13 ≤ 0xDBFF) ∧
    (0xDC00 ≤ hexValue4 13 14 0 0 ∧ hexValue4 13 14 0 0 ≤ 0xDFFF) ∧
    utf8Spec (0x10000 + (hexValue4 13 8 3 13 - 0xD800) * 1024 + (hexValue4 13 14 0 0 - 0xDC00)) = [0xF0, 0x9F, 0x98, 0x80] := by
  decide

/-- A low surrogate that comes first is refused. -/
theorem utf16_lone_low_rejected (p n : Nat) (d1 d2 d3 d4 : UInt8) (a1 a2 a3 a4 : Nat) (rest : Bytes)
    (h1 : hexVal d1 = some a1) (h2 : hexVal d2 = some a2) (h3 : hexVal d3 = some a3) (h4 : hexVal d4 = some a4)
    (hv : 0xDC00 ≤ hexValue4 a1 a2 a3 a4 ∧ hexValue4 a1 a2 a3 a4 ≤ 0xDFFF) :
    utf16 p n (0x5C :: 0x75 :: d1 :: d2 :: d3 :: d4 :: rest) = .fail :=
  utf16_lone_low p n rest h1 h2 h3 h4 hv

example : 0xDC00 ≤ hexValue4 13 12 0 0 ∧ hexValue4 13 12 0 0 ≤ 0xDFFF := by decide

/-- A high surrogate that is not followed by `\u` + a low surrogate is refused, whatever follows (end of the
    string, other bytes, another escape, `\u` with non-hex digits, `\u` with a non-low value). -/
theorem utf16_lone_high_rejected (p n : Nat) (d1 d2 d3 d4 : UInt8) (a1 a2 a3 a4 : Nat) (rest : Bytes)
    (h1 : hexVal d1 = some a1) (h2 : hexVal d2 = some a2) (h3 : hexVal d3 = some a3) (h4 : hexVal d4 = some a4)
    (hh : 0xD800 ≤ hexValue4 a1 a2 a3 a4 ∧ hexValue4 a1 a2 a3 a4 ≤ 0xDBFF)
    (hrest : ∀ e1 e2 e3 e4 c1 c2 c3 c4 r', rest = 0x5C :: 0x75 :: e1 :: e2 :: e3 :: e4 :: r' →
      hexVal e1 = some c1 → hexVal e2 = some c2 → hexVal e3 = some c3 → hexVal e4 = some c4 →
      ¬ (0xDC00 ≤ hexValue4 c1 c2 c3 c4 ∧ hexValue4 c1 c2 c3 c4 ≤ 0xDFFF))
    (hlen : n < (0x5C :: 0x75 :: d1 :: d2 :: d3 :: d4 :: rest).length) :
    utf16 p n (0x5C :: 0x75 :: d1 :: d2 :: d3 :: d4 :: rest) = .fail :=
  utf16_lone_high p n rest h1 h2 h3 h4 hh hrest hlen

example : utf16 1 6 [0x5C, 0x75, 0x44, 0x38, 0x30, 0x30, 0x22] = .fail := by decide

/-- cJSON's leniency, stated so that it is visible: a non-hex digit makes parse_hex4 answer 0, so `\uZZZZ` is
    taken as `\u0000` (one NUL byte stored, which ends the C string). -/
theorem utf16_invalid_hex_is_nul :
    utf16 1 6 [0x5C, 0x75, 0x5A, 0x5A, 0x5A, 0x5A, 0x22] = .ok [0] 6 := by decide

end Cjet.Props.Cjson
