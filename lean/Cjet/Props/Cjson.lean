/-
  Theorems about the model of cJSON's text layer (Cjet.Cjson).  See docs/Cjson.md.
-/
import Cjet.Cjson

namespace Cjet.Props.Cjson
open Cjet Cjet.Cjson

/-- F64 (before the repair in /repo 07f45d0): without the guard in parse_object the text `{"a":1,` (7 bytes) makes
    parse_string read `content[7]`. -/
theorem parse_reads_in_bounds_counterexample_before_fix :
    (match parseG false [0x7B, 0x22, 0x61, 0x22, 0x3A, 0x31, 0x2C] with | .oob 7 => true | _ => false) = true := by
  decide +kernel

end Cjet.Props.Cjson
