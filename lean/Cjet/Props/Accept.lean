import Cjet.Accept
import Cjet.Lemmas.Accept
/-!
# Accept — the connection-acceptance path of `src/linux/linux_io.c`

Model: `Cjet.Accept` (`accept_common`, `is_localhost`, `prepare_peer_socket`,
`handle_new_jet_connection`, `handle_http`, `start_server`, `stop_server`), tied to the real code by
`harness/comp/accept.c` / `vlib/accept_tie.py`.  Supports

* C11 ("a peer whose connection attempt aborts harms only itself … the daemon keeps accepting"):
  `listener_survives_transient`, `abort_only_on_fatal`, `fatal_class_exact`, `retry_class_exact`,
  `transient_errnos_not_fatal`, `retry_class_continues_accepting`, `loop_terminates_when_queue_drains`,
  `endless_retry_never_returns`, `start_server_unwinds`;
* C07 ("descriptor use is hygienic, everything is reclaimed"): `fd_closed_or_owned_exactly_once`,
  `fd_discipline_monitor`, `no_leak_of_peer_or_bs`, `init_failure_releases_both`, `stop_server_closes_listener`;
* C04 / C08 (the "local connection" bit): `local_bit_exact`, `local_bit_other_families`,
  `local_bit_unix_unnamed`, `local_bit_unix_pathname`, `local_bit_unix_abstract_can_be_local`.

Every theorem is for all scripts: any number of `accept` answers (connections with any descriptor
number, family and address bytes; any errno), any combination of failing system calls, allocations
and initialisations per connection, every listener kind.  No bounds.
-/
namespace Cjet.Props.Accept

open Cjet.Accept Cjet.Generated.Accept

/-! ## descriptors (C07) -/

/-- **fd_closed_or_owned_exactly_once.**  For one call of `accept_common`, whatever the kernel and the
    allocator answer:
    1. the descriptors `accept` returned are exactly those of the connections the call consumed;
    2. per descriptor number, closes + hand-overs = times it was returned by `accept`
       (nothing closed twice, nothing handed over and closed, nothing forgotten);
    3. when the kernel does not reuse a number within the call, each accepted descriptor is at exit
       *either* owned by exactly one created peer / connection and not closed, *or* closed exactly
       once and owned by nobody;
    4. a descriptor `accept` did not return (the listener, descriptors of other peers) is neither
       closed nor given to a peer. -/
theorem fd_closed_or_owned_exactly_once (k : Kind) (l : Nat) (script : List Ans) :
    accepted (acceptLoop k l script).trace = connFds (cut script) ∧
    (∀ fd, (closes (acceptLoop k l script).trace).count fd + (owners (acceptLoop k l script).trace).count fd =
        (accepted (acceptLoop k l script).trace).count fd) ∧
    ((accepted (acceptLoop k l script).trace).Nodup → ∀ fd ∈ accepted (acceptLoop k l script).trace,
        ((owners (acceptLoop k l script).trace).count fd = 1 ∧ (closes (acceptLoop k l script).trace).count fd = 0) ∨
        ((owners (acceptLoop k l script).trace).count fd = 0 ∧ (closes (acceptLoop k l script).trace).count fd = 1)) ∧
    (∀ fd, fd ∉ accepted (acceptLoop k l script).trace →
        fd ∉ closes (acceptLoop k l script).trace ∧ fd ∉ owners (acceptLoop k l script).trace) := by
  have h1 := accepted_eq_connFds_cut k l script
  have h2 := fun fd => fd_count_eq k l fd script
  refine ⟨h1, h2, ?_, ?_⟩
  · intro hnd fd hfd
    have h := h2 fd
    rw [hnd.count, if_pos hfd] at h
    omega
  · intro fd hfd
    have h := h2 fd
    rw [List.count_eq_zero.mpr hfd] at h
    constructor
    · apply List.count_eq_zero.mp; omega
    · apply List.count_eq_zero.mp; omega

/-- non-vacuity: a call that closes one descriptor on a failure path, skips an aborted attempt and hands
    two descriptors to peers — all distinct. -/
example :
    let t := (acceptLoop .jet 3 [.conn 7 AF_INET [0, 0, 127, 0, 0, 1] {}, .err ECONNABORTED,
      .conn 8 AF_INET6 [] { acquireBs := false }, .conn 9 AF_UNIX [] { gsFamily := AF_UNIX }]).trace
    accepted t = [7, 8, 9] ∧ (accepted t).Nodup ∧ owners t = [7, 9] ∧ closes t = [8] := by decide

/-- **fd_discipline_monitor.**  The temporal form: the reference monitor `Mon` (at most one accepted
    descriptor is in flight; every system call, the `close` and the hand-over name exactly that
    descriptor; it is resolved — closed once, or handed over once — before `accept` is called again
    and before the call returns; records are freed only while live, all are freed before the `close`
    of a failure path, and the hand-over takes exactly the owner record and the buffered socket)
    accepts the trace of every call and ends in its idle state: nothing in flight, nothing live. -/
theorem fd_discipline_monitor (k : Kind) (l : Nat) (script : List Ans) :
    Mon.run {} (acceptLoop k l script).trace = some {} := by
  revert script
  apply acceptLoop_induct
  · simp [acceptLoop_nil, Mon.run, Mon.step]
  · intro fd fam sa s rest ih
    rw [acceptLoop_conn]
    simp only [Mon.run, Mon.step, and_self, if_true]
    rw [(handle_facts k fd (isLocalhost fam sa) s).mon]
    exact ih
  · intro e rest h ih
    rw [acceptLoop_retry _ _ _ _ h]
    simp only [Mon.run, Mon.step, and_self, if_true]
    exact ih
  · intro e rest h; simp [acceptLoop_stop _ _ _ _ h, Mon.run, Mon.step]
  · intro e rest h; simp [acceptLoop_abort _ _ _ _ h, Mon.run, Mon.step]

/-- the monitor is not trivially accepting: a second `close`, a leak, a use after close, a free of a
    record that is not live and a `close` with a live record are all rejected -/
example : Mon.run {} [.acceptFd 3 7, .close 7, .close 7] = none ∧
    Mon.run {} [.acceptFd 3 7, .acceptErr 3 EAGAIN] = none ∧
    Mon.run {} [.acceptFd 3 7, .close 7, .sys 7 .getfl true] = none ∧
    Mon.run {} [.acceptFd 3 7, .alloc .peer, .free .peer, .free .peer, .close 7] = none ∧
    Mon.run {} [.acceptFd 3 7, .alloc .peer, .close 7] = none ∧
    Mon.run {} [.acceptFd 3 7, .alloc .peer, .alloc .bs, .owned 7 true .jet, .close 7] = none := by decide

/-! ## heap records (C07) -/

/-- **no_leak_of_peer_or_bs.**  Per connection, for every listener kind and every combination of
    failures: either the set-up succeeded — the descriptor is owned by the new peer / connection, not
    closed, exactly the owner record and the buffered socket were allocated and none freed (they belong
    to the peer now) — or it failed: the descriptor is closed exactly once, nobody owns it, and every
    record that was allocated is freed exactly once (in reverse order of allocation; the allocations are
    pairwise distinct records).  Over a whole call: frees + records handed to peers = allocations. -/
theorem no_leak_of_peer_or_bs (k : Kind) (l : Nat) (script : List Ans) :
    (∀ fd loc s,
      (closes (handle k fd loc s) = [] ∧ owners (handle k fd loc s) = [fd] ∧
        allocs (handle k fd loc s) = [ownerObj k, .bs] ∧ frees (handle k fd loc s) = []) ∨
      (closes (handle k fd loc s) = [fd] ∧ owners (handle k fd loc s) = [] ∧
        frees (handle k fd loc s) = (allocs (handle k fd loc s)).reverse ∧ (allocs (handle k fd loc s)).Nodup)) ∧
    (∀ o, (frees (acceptLoop k l script).trace).count o +
        (if o = ownerObj k ∨ o = .bs then (owners (acceptLoop k l script).trace).length else 0) =
        (allocs (acceptLoop k l script).trace).count o) := by
  constructor
  · intro fd loc s
    rcases (handle_facts k fd loc s).resolved with h | h
    · exact Or.inr h
    · exact Or.inl h
  · intro o
    revert script
    apply acceptLoop_induct
    · simp [acceptLoop_nil, frees, owners, allocs]
    · intro fd fam sa s rest ih
      have hf := handle_facts k fd (isLocalhost fam sa) s
      simp only [acceptLoop_conn, frees, owners, allocs, frees_append, owners_append, allocs_append,
        List.count_append, List.length_append]
      rcases hf.resolved with ⟨_, ho, hfr, _⟩ | ⟨_, ho, ha, hfr⟩
      · rw [ho, hfr, List.count_reverse]
        simp only [List.length_nil]
        split at ih <;> simp_all <;> omega
      · rw [ho, ha, hfr]
        simp only [List.length_cons, List.length_nil, List.count_nil, List.count_cons]
        have hne : ownerObj k ≠ Obj.bs := by cases k <;> decide
        by_cases h1 : o = ownerObj k
        · subst h1
          simp [hne, hne.symm] at ih ⊢
          omega
        · by_cases h2 : o = Obj.bs
          · subst h2
            simp [hne, hne.symm] at ih ⊢
            omega
          · have h1' : ¬ ownerObj k = o := fun e => h1 e.symm
            have h2' : ¬ Obj.bs = o := fun e => h2 e.symm
            simp [h1, h2, h1', h2'] at ih ⊢
            omega
    · intro e rest h ih
      simpa [acceptLoop_retry _ _ _ _ h, frees, owners, allocs] using ih
    · intro e rest h; simp [acceptLoop_stop _ _ _ _ h, frees, owners, allocs]
    · intro e rest h; simp [acceptLoop_abort _ _ _ _ h, frees, owners, allocs]

example : frees (handle .http 7 false { init := false }) = [.bs, .conn] ∧
    allocs (handle .http 7 false { init := false }) = [.conn, .bs] ∧
    owners (handle .jet 7 true {}) = [7] := by decide

/-- **init_failure_releases_both.**  The contract with `init_socket_peer` / `init_http_connection`
    that the model assumes and the caller implements: when initialisation fails the callee has released
    nothing, and the caller frees the buffered socket, then the peer / connection, then closes the
    descriptor — each exactly once. -/
theorem init_failure_releases_both (fd : Nat) (loc : Bool) (s : Setup)
    (hp : (prepare fd s).2 = true) (ha : s.allocOwner = true) (hb : s.acquireBs = true) (hi : s.init = false) :
    handleJet fd loc s = (prepare fd s).1 ++ [.alloc .peer, .alloc .bs, .initFail, .free .bs, .free .peer, .close fd] ∧
    handleHttp fd loc s = (prepare fd s).1 ++ [.alloc .conn, .alloc .bs, .initFail, .free .bs, .free .conn, .close fd] := by
  simp [handleJet, handleHttp, hp, ha, hb, hi]

example : (prepare 7 { init := false }).2 = true := by decide

/-! ## the listener survives (C11) -/

/-- **fatal_class_exact.**  The errnos for which `accept_common` gives up the listener are exactly the
    ones that say the listening socket itself is unusable: EBADF, EINVAL, ENOTSOCK, EOPNOTSUPP, EFAULT
    (numbers from the system headers; the class is regenerated from the `switch`). -/
theorem fatal_class_exact (e : Nat) :
    classify e = .abort ↔ (e = EBADF ∨ e = EINVAL ∨ e = ENOTSOCK ∨ e = EOPNOTSUPP ∨ e = EFAULT) := by
  rw [classify_abort_iff]
  -- independent of the order of the case labels
  have h1 : ∀ x ∈ fatalErrnos, x ∈ [EBADF, EINVAL, ENOTSOCK, EOPNOTSUPP, EFAULT] := by decide
  have h2 : ∀ x ∈ [EBADF, EINVAL, ENOTSOCK, EOPNOTSUPP, EFAULT], x ∈ fatalErrnos := by decide
  constructor
  · intro h; simpa using h1 e h
  · intro h; exact h2 e (by simpa using h)

/-- **retry_class_exact.**  `accept` is called again at once exactly after ECONNABORTED and EINTR. -/
theorem retry_class_exact (e : Nat) : classify e = .retry ↔ (e = ECONNABORTED ∨ e = EINTR) := by
  rw [classify_retry_iff]
  have h1 : ∀ x ∈ retryErrnos, x ∈ [ECONNABORTED, EINTR] := by decide
  have h2 : ∀ x ∈ [ECONNABORTED, EINTR], x ∈ retryErrnos := by decide
  constructor
  · intro h; simpa using h1 e h
  · intro h; exact h2 e (by simpa using h)

/-- **transient_errnos_not_fatal.**  An empty queue, an aborted attempt, a signal, a lack of
    descriptors / memory / buffers, a firewall rule and the network errors Linux passes through `accept`
    never end the event loop. -/
theorem transient_errnos_not_fatal :
    ∀ e ∈ [EAGAIN, EWOULDBLOCK, ECONNABORTED, EINTR, EMFILE, ENFILE, ENOBUFS, ENOMEM, EPROTO, EPERM, ENETDOWN,
      ENOPROTOOPT, EHOSTDOWN, ENONET, EHOSTUNREACH, ENETUNREACH, ETIMEDOUT, ECONNRESET], classify e ≠ .abort := by
  decide

/-- **abort_only_on_fatal.**  `accept_common` returns EL_ABORT_LOOP iff `accept` returned a fatal-class
    errno to it — equivalently, iff the answers this call consumed contain one. -/
theorem abort_only_on_fatal (k : Kind) (l : Nat) (script : List Ans) :
    ((acceptLoop k l script).ret = .abortLoop ↔
      ∃ e ∈ acceptErrs (acceptLoop k l script).trace, e ∈ fatalErrnos) ∧
    ((acceptLoop k l script).ret = .abortLoop ↔ ∃ e, Ans.err e ∈ cut script ∧ e ∈ fatalErrnos) := by
  revert script
  apply acceptLoop_induct
  · have : EAGAIN ∉ fatalErrnos := by decide
    simp [acceptLoop_nil, acceptErrs, cut, this]
  · intro fd fam sa s rest ih
    simp only [acceptLoop_conn, acceptErrs, acceptErrs_append, (handle_facts k fd _ s).acceptErrs, List.nil_append,
      cut_conn]
    refine ⟨ih.1, ih.2.trans ?_⟩
    simp
  · intro e rest h ih
    have hnf : e ∉ fatalErrnos := fun hf => by rw [(classify_abort_iff e).mpr hf] at h; cases h
    simp only [acceptLoop_retry _ _ _ _ h, acceptErrs, cut_retry _ _ h]
    constructor
    · rw [ih.1]
      constructor
      · rintro ⟨x, hx, hxf⟩; exact ⟨x, List.mem_cons_of_mem _ hx, hxf⟩
      · rintro ⟨x, hx, hxf⟩
        rcases List.mem_cons.mp hx with rfl | hx
        · exact absurd hxf hnf
        · exact ⟨x, hx, hxf⟩
    · rw [ih.2]
      constructor
      · rintro ⟨x, hx, hxf⟩; exact ⟨x, List.mem_cons_of_mem _ hx, hxf⟩
      · rintro ⟨x, hx, hxf⟩
        rcases List.mem_cons.mp hx with hx | hx
        · cases hx; exact absurd hxf hnf
        · exact ⟨x, hx, hxf⟩
  · intro e rest h
    have hnf : e ∉ fatalErrnos := fun hf => by rw [(classify_abort_iff e).mpr hf] at h; cases h
    simp [acceptLoop_stop _ _ _ _ h, acceptErrs, cut_noretry e rest (by simp [h]), hnf]
  · intro e rest h
    have hf : e ∈ fatalErrnos := (classify_abort_iff e).mp h
    simp [acceptLoop_abort _ _ _ _ h, acceptErrs, cut_noretry e rest (by simp [h]), hf]

example : (acceptLoop .http 3 [.conn 7 AF_INET [] {}, .err EINTR, .err EBADF, .conn 8 AF_INET [] {}]).ret = .abortLoop ∧
    (acceptLoop .http 3 [.conn 7 AF_INET [] {}, .err EMFILE, .err EBADF]).ret = .continueLoop := by decide

/-- **listener_survives_transient.**  If no errno in the script is in the fatal class, the call returns
    EL_CONTINUE_LOOP (the listener stays registered) — for any number of failing system calls,
    allocations and initialisations, aborted attempts and signals, and any other errno.  Every
    connection the call consumed — before and after any retry-class failure — was accepted and
    resolved (handed to a peer, or closed). -/
theorem listener_survives_transient (k : Kind) (l : Nat) (script : List Ans)
    (h : ∀ e, Ans.err e ∈ script → e ∉ fatalErrnos) :
    (acceptLoop k l script).ret = .continueLoop ∧
    ∀ fd ∈ connFds (cut script), fd ∈ closes (acceptLoop k l script).trace ∨ fd ∈ owners (acceptLoop k l script).trace := by
  constructor
  · cases hr : (acceptLoop k l script).ret with
    | continueLoop => rfl
    | abortLoop =>
      obtain ⟨e, he, hf⟩ := (abort_only_on_fatal k l script).2.mp hr
      exact absurd hf (h e ((cut_prefix script).subset he))
  · intro fd hfd
    obtain ⟨hacc, hcnt, _, _⟩ := fd_closed_or_owned_exactly_once k l script
    rw [← hacc] at hfd
    have hpos := List.count_pos_iff.mpr hfd
    have := hcnt fd
    by_cases hc : fd ∈ closes (acceptLoop k l script).trace
    · exact Or.inl hc
    · right
      rw [List.count_eq_zero.mpr hc] at this
      apply List.count_pos_iff.mp
      omega

example : ∀ e, Ans.err e ∈ [Ans.conn 7 AF_INET [] { setfl := false }, .err ECONNABORTED, .err EINTR,
    .conn 8 AF_INET [] { allocOwner := false }, .err EMFILE, .conn 9 AF_INET [] {}] → e ∉ fatalErrnos := by
  intro e he
  simp at he
  rcases he with rfl | rfl | rfl <;> decide

/-- **retry_class_continues_accepting.**  After ECONNABORTED or EINTR the loop goes on in the same
    call exactly as if that answer had not happened (the next queued connection is still accepted);
    more generally a prefix of connections and retry-class errnos is consumed completely and the
    call behaves on the rest as a fresh call would. -/
theorem retry_class_continues_accepting (k : Kind) (l : Nat) (rest : List Ans) :
    (∀ e, (e = ECONNABORTED ∨ e = EINTR) →
      acceptLoop k l (.err e :: rest) =
        ⟨.acceptErr l e :: (acceptLoop k l rest).trace, (acceptLoop k l rest).ret, (acceptLoop k l rest).used + 1⟩) ∧
    (∀ pre : List Ans, (∀ a ∈ pre, a.isConn = true ∨ a.isRetry = true) →
      (acceptLoop k l (pre ++ rest)).ret = (acceptLoop k l rest).ret ∧
      (acceptLoop k l (pre ++ rest)).used = pre.length + (acceptLoop k l rest).used ∧
      accepted (acceptLoop k l (pre ++ rest)).trace = connFds pre ++ accepted (acceptLoop k l rest).trace) := by
  constructor
  · intro e he
    exact acceptLoop_retry k l e rest ((retry_class_exact e).mpr he)
  · intro pre hpre
    induction pre with
    | nil => simp [connFds_nil]
    | cons a pre ih =>
      have ih' := ih (fun a ha => hpre a (List.mem_cons_of_mem _ ha))
      cases a with
      | conn fd fam sa s =>
        simp only [List.cons_append, acceptLoop_conn, accepted, accepted_append, (handle_facts k fd _ s).accepted,
          List.nil_append, ih'.1, ih'.2.1, ih'.2.2, connFds_conn, List.length_cons, List.cons_append]
        refine ⟨trivial, ?_, trivial⟩
        omega
      | err e =>
        have hc : classify e = .retry := by
          rcases hpre (.err e) (List.mem_cons_self) with h1 | h1
          · simp [Ans.isConn] at h1
          · simpa [Ans.isRetry] using h1
        simp only [List.cons_append, acceptLoop_retry _ _ _ _ hc, accepted, ih'.1, ih'.2.1, ih'.2.2, connFds_err,
          List.length_cons]
        refine ⟨trivial, ?_, trivial⟩
        omega

example : accepted (acceptLoop .jet 3 [.err ECONNABORTED, .conn 7 AF_INET [] {}]).trace = [7] ∧
    (∀ a ∈ [Ans.err ECONNABORTED, .conn 7 AF_INET [] {}, .err EINTR], a.isConn = true ∨ a.isRetry = true) := by decide

/-- **loop_terminates_when_queue_drains.**  Over an endless kernel (`kern i` answers the `i`-th
    `accept`): as soon as some answer is an errno outside the retry class (the kernel's EAGAIN for a
    drained queue, in particular) the loop has ended by that call.  For the kernel behind a finite
    script (its answers, then EAGAIN for ever) the loop ends within `length + 1` calls of `accept` with
    exactly the result the list model computes. -/
theorem loop_terminates_when_queue_drains (k : Kind) (l : Nat) :
    (∀ (kern : Nat → Ans) (n e : Nat), kern n = .err e → classify e ≠ .retry →
      ∃ r, acceptLoopS k l kern (n + 1) 0 = some r) ∧
    (∀ script : List Ans, acceptLoopS k l (kernOf script) (script.length + 1) 0 =
      some ((acceptLoop k l script).trace, (acceptLoop k l script).ret)) := by
  constructor
  · intro kern n
    induction n generalizing kern with
    | zero =>
      intro e hk hc
      cases h : classify e with
      | stop => exact ⟨_, acceptLoopS_stop _ _ _ _ _ _ hk h⟩
      | abort => exact ⟨_, acceptLoopS_abort _ _ _ _ _ _ hk h⟩
      | retry => exact absurd h hc
    | succ n ih =>
      intro e hk hc
      obtain ⟨r, hr⟩ := ih (fun j => kern (j + 1)) e hk hc
      cases h0 : kern 0 with
      | err e0 =>
        cases h : classify e0 with
        | stop => exact ⟨_, acceptLoopS_stop _ _ _ _ _ _ h0 h⟩
        | abort => exact ⟨_, acceptLoopS_abort _ _ _ _ _ _ h0 h⟩
        | retry =>
          rw [acceptLoopS_retry _ _ _ _ _ _ h0 h, acceptLoopS_shift, hr]
          exact ⟨_, rfl⟩
      | conn fd fam sa s =>
        rw [acceptLoopS_conn _ _ _ _ _ _ _ _ _ h0, acceptLoopS_shift, hr]
        exact ⟨_, rfl⟩
  · intro script
    induction script with
    | nil =>
      have h0 : kernOf [] 0 = .err EAGAIN := by simp [kernOf]
      rw [List.length_nil, acceptLoopS_stop _ _ _ _ _ _ h0 classify_eagain, acceptLoop_nil]
    | cons a rest ih =>
      rw [List.length_cons]
      cases a with
      | conn fd fam sa s =>
        rw [acceptLoopS_conn _ _ _ _ _ _ _ _ _ (kernOf_zero _ rest), acceptLoopS_shift, kernOf_succ, ih, acceptLoop_conn]
        rfl
      | err e =>
        cases h : classify e with
        | stop => rw [acceptLoopS_stop _ _ _ _ _ _ (kernOf_zero _ rest) h, acceptLoop_stop _ _ _ _ h]
        | abort => rw [acceptLoopS_abort _ _ _ _ _ _ (kernOf_zero _ rest) h, acceptLoop_abort _ _ _ _ h]
        | retry =>
          rw [acceptLoopS_retry _ _ _ _ _ _ (kernOf_zero _ rest) h, acceptLoopS_shift, kernOf_succ, ih,
            acceptLoop_retry _ _ _ _ h]
          rfl

example : kernOf [Ans.err ECONNABORTED] 1 = .err EAGAIN ∧ classify EAGAIN ≠ .retry := by decide

/-- **endless_retry_never_returns.**  The explicit hypothesis under which the loop does not end: a
    kernel that answers every `accept` with a connection or a retry-class errno (an endless stream of
    ECONNABORTED, say) keeps `accept_common` inside its `while (1)` for any number of calls — the event
    loop does not get control back while that lasts. -/
theorem endless_retry_never_returns (k : Kind) (l : Nat) (kern : Nat → Ans)
    (h : ∀ i, (kern i).isConn = true ∨ (kern i).isRetry = true) :
    ∀ fuel i, acceptLoopS k l kern fuel i = none := by
  intro fuel
  induction fuel with
  | zero => intro i; rfl
  | succ f ih =>
    intro i
    cases hk : kern i with
    | conn fd fam sa s => rw [acceptLoopS_conn _ _ _ _ _ _ _ _ _ hk, ih]; rfl
    | err e =>
      have hc : classify e = .retry := by
        have := h i
        rw [hk] at this
        simpa [Ans.isConn, Ans.isRetry] using this
      rw [acceptLoopS_retry _ _ _ _ _ _ hk hc, ih]; rfl

example : ∀ i : Nat, ((fun (_ : Nat) => Ans.err ECONNABORTED) i).isConn = true ∨
    ((fun (_ : Nat) => Ans.err ECONNABORTED) i).isRetry = true := by
  intro i; right; show (Ans.err ECONNABORTED).isRetry = true; decide

/-! ## start_server / stop_server -/

/-- **start_server_unwinds.**  `start_server`: when registration fails nothing else happens (result
    -1); when the first accept pass reports abort the listener is removed from the loop again, after
    everything the pass did, and the result is -1; otherwise it stays registered and the result is 0.
    In every case: the listener is registered at exit iff `start_server` reported success. -/
theorem start_server_unwinds (k : Kind) (l : Nat) (script : List Ans) :
    startServer k l false script = ([.add l false], -1) ∧
    ((acceptLoop k l script).ret = .abortLoop →
      startServer k l true script = (.add l true :: ((acceptLoop k l script).trace ++ [.remove l]), -1)) ∧
    ((acceptLoop k l script).ret = .continueLoop →
      startServer k l true script = (.add l true :: (acceptLoop k l script).trace, 0) ∧
      Ev.remove l ∉ (startServer k l true script).1) ∧
    (∀ addOk, ((startServer k l addOk script).2 = 0 ∨ (startServer k l addOk script).2 = -1) ∧
      ((startServer k l addOk script).2 = 0 ↔
        Ev.add l true ∈ (startServer k l addOk script).1 ∧ Ev.remove l ∉ (startServer k l addOk script).1)) := by
  have noRemove : ∀ script, Ev.remove l ∉ (acceptLoop k l script).trace := by
    apply acceptLoop_induct
    · simp [acceptLoop_nil]
    · intro fd fam sa s rest ih
      rw [acceptLoop_conn]
      simp only [List.mem_cons, List.mem_append, not_or]
      exact ⟨by simp, handle_noRemove k fd _ s l, ih⟩
    · intro e rest h ih; simp [acceptLoop_retry _ _ _ _ h, ih]
    · intro e rest h; simp [acceptLoop_stop _ _ _ _ h]
    · intro e rest h; simp [acceptLoop_abort _ _ _ _ h]
  refine ⟨by simp [startServer], ?_, ?_, ?_⟩
  · intro h; simp [startServer, h]
  · intro h
    have := noRemove script
    simp [startServer, h, this]
  · intro addOk
    cases addOk with
    | false => simp [startServer]
    | true =>
      have := noRemove script
      cases h : (acceptLoop k l script).ret <;> simp [startServer, h, this]

example : (acceptLoop .jet 3 [.err EBADF]).ret = .abortLoop ∧ (acceptLoop .jet 3 []).ret = .continueLoop ∧
    startServer .jet 3 true [.err EBADF] = ([.add 3 true, .acceptErr 3 EBADF, .remove 3], -1) := by decide

/-- **stop_server_closes_listener.**  `stop_server` removes the listener from the loop, then closes it — once. -/
theorem stop_server_closes_listener (l : Nat) : stopServer l = [.remove l, .close l] ∧ closes (stopServer l) = [l] := by
  simp [stopServer, closes]

/-! ## the "local connection" bit (C04 / C08) -/

/-- **local_bit_exact.**  For an IPv4 peer address `is_localhost` is true iff the address is 127.0.0.1
    (nothing else of 127.0.0.0/8); for an IPv6 peer address iff it is `::1` or `::ffff:127.0.0.1` —
    whatever port, flow label and scope id the kernel stored. -/
theorem local_bit_exact :
    (∀ port addr : List UInt8, port.length = 2 → addr.length = 4 →
      (isLocalhost AF_INET (sockaddrIn port addr) = true ↔ addr = [127, 0, 0, 1])) ∧
    (∀ port flow addr scope : List UInt8, port.length = 2 → flow.length = 4 → addr.length = 16 →
      (isLocalhost AF_INET6 (sockaddrIn6 port flow addr scope) = true ↔
        (addr = [0, 0, 0, 0, 0, 0, 0, 0, 0, 0, 0, 0, 0, 0, 0, 1] ∨
         addr = [0, 0, 0, 0, 0, 0, 0, 0, 0, 0, 0xff, 0xff, 127, 0, 0, 1]))) := by
  constructor
  · intro port addr hp ha
    have hf : field (sockaddrIn port addr) sinAddrOff 4 = addr := by
      have := field_append port addr (List.replicate 8 0)
      rw [hp, ha] at this
      exact this
    simp [isLocalhost, hf, ipv4LocalhostBytes]
  · intro port flow addr scope hp hfl ha
    have hf : field (sockaddrIn6 port flow addr scope) sin6AddrOff 16 = addr := by
      have := field_append (port ++ flow) addr scope
      rw [List.length_append, hp, hfl, ha] at this
      simpa [sockaddrIn6, sin6AddrOff] using this
    have h6 : AF_INET6 ≠ AF_INET := by decide
    simp [isLocalhost, h6, hf, mappedIpv4LocalhostBytes, localhostBytes]
    exact Or.comm

example : isLocalhost AF_INET (sockaddrIn [0x1f, 0x90] [127, 0, 0, 1]) = true ∧
    isLocalhost AF_INET (sockaddrIn [0x1f, 0x90] [127, 0, 0, 2]) = false ∧
    isLocalhost AF_INET6 (sockaddrIn6 [0, 80] [0, 0, 0, 0] [0, 0, 0, 0, 0, 0, 0, 0, 0, 0, 0xff, 0xff, 127, 0, 0, 1] [0, 0, 0, 0]) = true ∧
    isLocalhost AF_INET6 (sockaddrIn6 [0, 80] [0, 0, 0, 0] [0, 0, 0, 0, 0, 0, 0, 0, 0, 0, 0xff, 0xff, 127, 0, 0, 2] [0, 0, 0, 0]) = false := by
  decide

/-- **local_bit_other_families.**  What the code does for every family other than AF_INET — AF_INET6,
    but also AF_UNIX and anything else: the `else` branch reads the 16 bytes at the offset of
    `sin6_addr` (bytes 6‥21 behind the family field; bytes the kernel did not store read 0) and compares
    them with `::ffff:127.0.0.1` and `::1`. -/
theorem local_bit_other_families (fam : Nat) (sa : List UInt8) (h : fam ≠ AF_INET) :
    isLocalhost fam sa = true ↔
      (field sa 6 16 = [0, 0, 0, 0, 0, 0, 0, 0, 0, 0, 0xff, 0xff, 127, 0, 0, 1] ∨
       field sa 6 16 = [0, 0, 0, 0, 0, 0, 0, 0, 0, 0, 0, 0, 0, 0, 0, 1]) := by
  simp [isLocalhost, h, sin6AddrOff, mappedIpv4LocalhostBytes, localhostBytes]

example : AF_UNIX ≠ AF_INET ∧ AF_INET6 ≠ AF_INET := by decide

/-- **local_bit_unix_unnamed.**  A client of the Unix-domain listener is *not* classified as local
    when `accept` stores fewer than 22 bytes of `sun_path` — in particular for the usual client that
    never bound its socket (`accept` stores the family and nothing else, the storage stays zero).
    With CONFIG_ALLOW_ADD_ONLY_FROM_LOCALHOST such a peer is refused `add`. -/
theorem local_bit_unix_unnamed (sunPath : List UInt8) (h : sunPath.length < 22) :
    isLocalhost AF_UNIX sunPath = false := by
  have hu : AF_UNIX ≠ AF_INET := by decide
  have hz := field_last_zero_of_short sunPath 6 15 (by omega)
  cases hl : isLocalhost AF_UNIX sunPath with
  | false => rfl
  | true =>
    rcases (local_bit_other_families AF_UNIX sunPath hu).mp hl with h1 | h1
    · simp [h1] at hz
    · simp [h1] at hz

example : isLocalhost AF_UNIX [] = false := by decide

/-- **local_bit_unix_pathname.**  A Unix-domain client bound to a file-system path (the kernel
    stores the path — no NUL inside — and its terminating NUL) is not classified as local either,
    whatever the path. -/
theorem local_bit_unix_pathname (path : List UInt8) (h : ∀ b ∈ path, b ≠ 0) :
    isLocalhost AF_UNIX (path ++ [0]) = false := by
  by_cases hlen : path.length < 21
  · exact local_bit_unix_unnamed _ (by simp; omega)
  · have hu : AF_UNIX ≠ AF_INET := by decide
    have h6 : 6 < path.length := by omega
    have hb : (field (path ++ [0]) 6 16)[0]'(by simp [field]) = path[6] := by
      rw [field_getElem]
      simp [List.getD_eq_getElem?_getD, List.getElem?_append_left, h6]
    have hnz : path[6] ≠ 0 := h _ (List.getElem_mem h6)
    cases hl : isLocalhost AF_UNIX (path ++ [0]) with
    | false => rfl
    | true =>
      rcases (local_bit_other_families AF_UNIX _ hu).mp hl with h1 | h1
      · simp [h1] at hb; exact absurd hb.symm hnz
      · simp [h1] at hb; exact absurd hb.symm hnz

/-- "/tmp/client-socket-name-x" -/
example : ∀ b ∈ ([47, 116, 109, 112, 47, 99, 108, 105, 101, 110, 116, 45, 115, 111, 99, 107, 101, 116, 45, 110, 97, 109,
    101, 45, 120] : List UInt8), b ≠ 0 := by decide

/-- **local_bit_unix_abstract_can_be_local.**  …but a Unix-domain client bound to an *abstract* name
    (leading NUL, arbitrary bytes, length given by the caller) is classified as local exactly when bytes
    6‥21 of the name spell `::1` or `::ffff:127.0.0.1`; such names exist.  So for AF_UNIX peers the bit
    is decided by the client's choice of name, not by the transport. -/
theorem local_bit_unix_abstract_can_be_local :
    isLocalhost AF_UNIX ([0, 120, 120, 120, 120, 120] ++ List.replicate 15 0 ++ [1]) = true ∧
    (∀ name : List UInt8, isLocalhost AF_UNIX name = true ↔
      (field name 6 16 = [0, 0, 0, 0, 0, 0, 0, 0, 0, 0, 0xff, 0xff, 127, 0, 0, 1] ∨
       field name 6 16 = [0, 0, 0, 0, 0, 0, 0, 0, 0, 0, 0, 0, 0, 0, 0, 1])) :=
  ⟨by decide, fun name => local_bit_other_families AF_UNIX name (by decide)⟩

end Cjet.Props.Accept
