/-
  Cjet.Props.CjsonTree — property theorems of the cJSON tree layer (model: Cjet.Cjson.TreeOps; tie:
  vlib/cjsontree_tie.py against the real cJSON_Duplicate / cJSON_Delete / cJSON_GetObjectItem… of
  /repo/src/json/cJSON.c, every allocation-failure schedule of every generated item included).

  They are obligations of C03 (a routed value is carried unchanged: every forwarded or stored value is a
  cJSON_Duplicate of what the caller sent) and of C15 (a failing allocation inside cJSON_Duplicate leaks
  nothing and is reported, for every allocation index and every schedule of failures).
-/
import Cjet.Lemmas.CjsonTree

namespace Cjet.Props.CjsonTree
open Cjet Cjet.Cjson.TreeOps

/-- A successful deep copy is the original with the reference bits cleared — kind, constant-name bit, both
    number fields, value string, member name and the whole child chain, in order, at every depth — it made
    exactly `allocs i` allocation calls, holds exactly that many blocks, and `cJSON_Delete` of the copy
    gives back every one of them.  For every allocation schedule. -/
theorem duplicate_is_faithful_copy (s : Nat → Bool) (i c : Item) (a a' : A) (h : dup s i a = (some c, a')) :
    c = norm i ∧ a'.next = a.next + allocs i ∧ a'.live = a.live + allocs i ∧ delFrees c = allocs i := by
  have sp := dup_spec s i a
  rw [h] at sp
  obtain ⟨hc, hn, hl, _⟩ := sp
  exact ⟨hc, hn, hl, by rw [hc, delFrees_norm]⟩

/-- … and for a tree without reference items (everything cJSON's parser and the daemon's constructors build)
    the copy equals the original. -/
theorem duplicate_exact_without_references (s : Nat → Bool) (i c : Item) (a a' : A) (hr : noRef i = true)
    (h : dup s i a = (some c, a')) : c = i := by
  rw [(duplicate_is_faithful_copy s i c a a' h).1, norm_of_noRef i hr]

/-- A failed deep copy leaks nothing: whatever had been allocated for it — at any depth, already linked
    or not — has been given back when NULL is returned.  For every schedule of failures (C15 asks for one). -/
theorem duplicate_failure_leaks_nothing (s : Nat → Bool) (i : Item) (a a' : A) (h : dup s i a = (none, a')) :
    a'.live = a.live := by
  have sp := dup_spec s i a
  rw [h] at sp
  exact sp.1

/-- The copy fails only because an allocation it asked for failed, and it stops at the first such call:
    no further allocation is attempted behind it. -/
theorem duplicate_stops_at_first_failure (s : Nat → Bool) (i : Item) (a a' : A) (h : dup s i a = (none, a')) :
    ∃ j, j < allocs i ∧ s (a.next + j) = true ∧ a'.next = a.next + j + 1 ∧ ∀ j', j' < j → s (a.next + j') = false := by
  have sp := dup_spec s i a
  rw [h] at sp
  exact sp.2

/-- Conversely: when none of the `allocs i` calls fails the copy succeeds — a value is never dropped silently. -/
theorem duplicate_succeeds_when_allocations_do (s : Nat → Bool) (i : Item) (a : A)
    (hok : ∀ j, j < allocs i → s (a.next + j) = false) : ∃ a', dup s i a = (some (norm i), a') := by
  have sp := dup_spec s i a
  cases h : dup s i a with
  | mk r a' =>
  rw [h] at sp
  cases r with
  | some c => exact ⟨a', by rw [sp.1]⟩
  | none =>
    obtain ⟨_, j, hj, hs, _, _⟩ := sp
    rw [hok j hj] at hs
    exact absurd hs (by simp)

/-- the same three facts for the child loop alone -/
theorem duplicate_children_ledger (s : Nat → Bool) (l : List Item) (a : A) :
    Spec s (allocsL l) (normL l) a (dupL s l a) := dupL_spec s l a

theorem norm_idempotent (i : Item) : norm (norm i) = norm i := norm_idem i

/-- A member that is found is the FIRST child the comparison accepts: it exists, it is accepted, and no child
    before it is. (Both comparisons.) -/
theorem get_object_item_first_hit (cs : Bool) (key : Bytes) :
    ∀ (l : List Item) (j : Nat), getItem cs key l = some j →
      (∃ k, l[j]? = some k ∧ hit cs key k.name = true) ∧
      ∀ j' k', j' < j → l[j']? = some k' → hit cs key k'.name = false
  | [], j, h => by simp [getItem] at h
  | k :: ks, j, h => by
    unfold getItem at h
    split at h
    next hh =>
      simp only [Option.some.injEq] at h
      subst h
      exact ⟨⟨k, rfl, hh⟩, fun j' _ hj => absurd hj (Nat.not_lt_zero _)⟩
    next hh =>
      split at h
      · simp at h
      · simp only [Option.map_eq_some_iff] at h
        obtain ⟨j0, hj0, rfl⟩ := h
        obtain ⟨⟨k0, hk0, hit0⟩, hbefore⟩ := get_object_item_first_hit cs key ks j0 hj0
        refine ⟨⟨k0, by simpa using hk0, hit0⟩, ?_⟩
        intro j' k' hlt hk'
        cases j' with
        | zero => simp only [List.getElem?_cons_zero, Option.some.injEq] at hk'; subst hk'; simpa using hh
        | succ n => exact hbefore n k' (by omega) (by simpa using hk')

/-- The case-insensitive lookup (the one the daemon uses for every message member) answers NULL exactly when no
    child is accepted; children without a name are stepped over. -/
theorem get_object_item_ci_none_iff (key : Bytes) :
    ∀ l : List Item, getItem false key l = none ↔ ∀ k, k ∈ l → hit false key k.name = false
  | [] => by simp [getItem]
  | k :: ks => by
    unfold getItem
    by_cases hh : hit false key k.name = true
    · simp [hh]
    · have ih := get_object_item_ci_none_iff key ks
      simp only [hh, Bool.false_eq_true, if_false, Bool.false_and, Option.map_eq_none_iff, ih, List.mem_cons,
        forall_eq_or_imp, true_and]

/-- The case-sensitive lookup is weaker: its loop ends at the first child without a name, so a member behind
    such a child is not found although it is there (as the code is; the daemon never calls it). -/
theorem get_object_item_cs_stops_at_nameless :
    let named := Item.mk 4 false false 0 0 none (some [0x61]) []
    let nameless := Item.mk 4 false false 0 0 none none []
    getItem true [0x61] [nameless, named] = none ∧ getItem false [0x61] [nameless, named] = some 1 := by
  decide

/-- the comparison of the case-insensitive lookup is an equivalence that identifies exactly ASCII case -/
theorem ciEq_refl (a : Bytes) : ciEq a a = true := by simp [ciEq]
theorem ciEq_symm (a b : Bytes) : ciEq a b = ciEq b a := by
  simp only [ciEq]; exact Bool.eq_iff_iff.mpr ⟨fun h => by simpa using (by simpa using h : _ = _).symm,
    fun h => by simpa using (by simpa using h : _ = _).symm⟩

/-- `cJSON_GetArrayItem`: an index is answered exactly when it is inside the chain -/
theorem get_array_item_in_range (l : List Item) (idx : Int) (j : Nat) :
    getArrayItem l idx = some j ↔ (0 ≤ idx ∧ idx.toNat = j ∧ j < l.length) := by
  unfold getArrayItem
  split
  · constructor
    · intro h; simp at h
    · intro ⟨h, _, _⟩; omega
  · split
    · constructor
      · intro h; simp only [Option.some.injEq] at h; exact ⟨by omega, h, by omega⟩
      · intro ⟨_, h, _⟩; simp [h]
    · constructor
      · intro h; simp at h
      · intro ⟨_, h, h2⟩; omega

/-! ### the statements are not vacuous -/

def sample : Item :=
  .mk 64 false false 0 0 none none
    [.mk 16 false false 0 0 (some [0x78]) (some [0x70, 0x61, 0x74, 0x68]) [],
     .mk 32 true false 0 0 none (some [0x76]) [.mk 8 false true 7 0x401C000000000000 none none [], .mk 2 false false 0 0 none none []]]

/-- a copy that succeeds (8 allocation calls), one that fails at each of the 8 calls and leaks nothing -/
example : allocs sample = 8 := by decide
example : (dup (fun _ => false) sample ⟨0, 0⟩).2 = ⟨8, 8⟩ := by decide
example : (List.range 8).all (fun f => let r := dup (fun n => n == f) sample ⟨0, 0⟩; r.1.isNone && r.2 == ⟨f + 1, 0⟩) = true := by decide
example : (dup (fun _ => false) sample ⟨0, 0⟩).1.isSome = true ∧ noRef sample = false ∧ noRef (norm sample) = true := by decide
example : getItem false [0x50, 0x41, 0x54, 0x48] (match sample with | .mk _ _ _ _ _ _ _ ks => ks) = some 0 := by decide


/-! ### attaching a member (`add_item_to_object`) -/

/-- the item as it hangs in the object afterwards: new name, constant bit as asked, everything else untouched -/
def renamed (constKey : Bool) (key : Bytes) : Item → Item
  | .mk k r _ vi vd vs _ kids => .mk k r constKey vi vd vs (some key) kids

theorem delFreesL_append : ∀ (l : List Item) (x : Item), delFreesL (l ++ [x]) = delFreesL l + delFrees x
  | [], x => by simp [delFreesL]
  | k :: ks, x => by simp only [List.cons_append, delFreesL, delFreesL_append ks x]; omega

/-- When the key copy fails NOTHING has changed: the object is as it was, no block was taken, and the item is not
    attached — the caller still owns it.  (A caller that ignores the result loses `delFrees item ≥ 1` blocks:
    the shape of known finding F60.) -/
theorem add_member_failure_changes_nothing (s : Nat → Bool) (constKey : Bool) (key : Bytes) (obj item : Item) (a : A)
    (h : (addToObject s constKey key obj item a).ok = false) :
    (addToObject s constKey key obj item a).obj = obj ∧ (addToObject s constKey key obj item a).orphan = some item ∧
    (addToObject s constKey key obj item a).a.live = a.live ∧ constKey = false ∧ s a.next = true ∧ 1 ≤ delFrees item := by
  obtain ⟨ok, orf, oc, ovi, ovd, ovs, onm, okids⟩ := obj
  obtain ⟨k, r, c, vi, vd, vs, nm, kids⟩ := item
  simp only [addToObject] at h ⊢
  cases h1 : optAlloc s (!constKey) a with
  | mk b a1 =>
  rw [h1] at h
  cases b with
  | true => simp at h
  | false =>
    obtain ⟨⟨j, hj, hs, _, _⟩, hl⟩ := optAlloc_false h1
    have hc : constKey = false := by cases constKey <;> simp_all [b2n]
    have hj0 : j = 0 := by subst hc; simp [b2n] at hj; omega
    subst hj0
    refine ⟨rfl, rfl, hl, hc, by simpa using hs, ?_⟩
    simp only [delFrees]; omega

/-- It fails ONLY then: with a constant key, or when the one allocation succeeds, the item is attached — as the LAST
    child, under the new name, otherwise untouched — and nothing is left with the caller. -/
theorem add_member_attaches_last (s : Nat → Bool) (constKey : Bool) (key : Bytes) (obj item : Item) (a : A)
    (hs : constKey = true ∨ s a.next = false) :
    (addToObject s constKey key obj item a).ok = true ∧ (addToObject s constKey key obj item a).orphan = none ∧
    (addToObject s constKey key obj item a).obj.kids = obj.kids ++ [renamed constKey key item] := by
  obtain ⟨ok, orf, oc, ovi, ovd, ovs, onm, okids⟩ := obj
  obtain ⟨k, r, c, vi, vd, vs, nm, kids⟩ := item
  simp only [addToObject]
  cases h1 : optAlloc s (!constKey) a with
  | mk b a1 =>
  cases b with
  | true => exact ⟨rfl, rfl, rfl⟩
  | false =>
    obtain ⟨⟨j, hj, hf, _, _⟩, _⟩ := optAlloc_false h1
    cases hs with
    | inl hc => subst hc; simp [b2n] at hj
    | inr hn =>
      have hj0 : j = 0 := by have := b2n_le (!constKey); omega
      subst hj0
      simp [hn] at hf

/-- Block conservation on success: what `cJSON_Delete(object)` gives back afterwards is what it gave back before
    plus the item's blocks plus the net allocation of the call — nothing is lost, nothing is counted twice
    (for an object that is not a reference; with the ledger above the freed name). -/
theorem add_member_conserves_blocks (s : Nat → Bool) (constKey : Bool) (key : Bytes) (obj item : Item) (a : A)
    (hobj : (match obj with | .mk _ r _ _ _ _ _ _ => r) = false)
    (hlive : 1 ≤ a.live)
    (h : (addToObject s constKey key obj item a).ok = true) :
    delFrees (addToObject s constKey key obj item a).obj + a.live =
      delFrees obj + delFrees item + (addToObject s constKey key obj item a).a.live := by
  obtain ⟨ok, orf, oc, ovi, ovd, ovs, onm, okids⟩ := obj
  obtain ⟨k, r, c, vi, vd, vs, nm, kids⟩ := item
  simp only at hobj
  subst hobj
  simp only [addToObject] at h ⊢
  cases h1 : optAlloc s (!constKey) a with
  | mk b a1 =>
  rw [h1] at h
  cases b with
  | false => simp at h
  | true =>
    obtain ⟨_, _, hl⟩ := optAlloc_true h1
    dsimp only
    simp only [delFrees, Bool.false_eq_true, if_false, delFreesL_append]
    cases constKey <;> cases c <;> cases nm <;> cases r <;> simp [b2n] at hl ⊢ <;> omega

/-- a member that was just attached is found under its key (in any ASCII case) unless an earlier member already
    answers to it — then that one is found, as before -/
theorem add_member_then_lookup (key probe : Bytes) (constKey : Bool) (l : List Item) (item : Item)
    (hk : ciEq probe key = true) :
    getItem false probe (l ++ [renamed constKey key item]) =
      (match getItem false probe l with | some j => some j | none => some l.length) := by
  induction l with
  | nil =>
    obtain ⟨k, r, c, vi, vd, vs, nm, kids⟩ := item
    simp [getItem, renamed, Item.name, hit, hk]
  | cons x xs ih =>
    simp only [List.cons_append, getItem, Bool.false_and, Bool.false_eq_true, if_false]
    by_cases hx : hit false probe x.name = true
    · simp [hx]
    · simp only [hx, ih]
      cases getItem false probe xs <;> simp

example : (addToObject (fun n => n == 0) false [0x6B] sample (.mk 4 false false 0 0 none (some [0x6F]) []) ⟨0, 5⟩).ok = false := by decide
example : (addToObject (fun _ => false) false [0x6B] sample (.mk 4 false false 0 0 none (some [0x6F]) []) ⟨0, 5⟩).a = ⟨1, 5⟩ := by decide


/-! ### replacing a member (`cJSON_ReplaceItemInObject`; used by change_password, C20) -/

/-- Code as repaired (finding F69): when the key copy fails the call fails, the object is untouched and the
    replacement is still the caller's. -/
theorem replace_checked_failure_changes_nothing (s : Nat → Bool) (cs : Bool) (key : Bytes) (obj item : Item) (a : A)
    (hf : s a.next = true) :
    (replaceInObject s true cs key obj item a).ok = false ∧ (replaceInObject s true cs key obj item a).obj = obj ∧
    (replaceInObject s true cs key obj item a).orphan.isSome = true := by
  obtain ⟨k, r, c, vi, vd, vs, nm, kids⟩ := item
  simp [replaceInObject, optAlloc, hf]

/-- Code as shipped with cJSON 1.7.13 (`checked = false`): the SAME failure is not noticed — the call succeeds and
    the member that answered to the key is replaced by one WITHOUT a name.  (Witnessed on the real code by the tie
    before the repair: `R 0 0 6964 …`.) -/
theorem replace_unchecked_failure_strips_the_name (s : Nat → Bool) (key : Bytes) (obj item : Item) (a : A) (j : Nat)
    (hf : s a.next = true) (hj : getItem false key obj.kids = some j) :
    (replaceInObject s false false key obj item a).ok = true ∧
    ((replaceInObject s false false key obj item a).obj.kids[j]?).bind Item.name = none := by
  obtain ⟨k, r, c, vi, vd, vs, nm, kids⟩ := item
  have hlt := getItem_some_lt hj
  obtain ⟨ok, orf, oc, ovi, ovd, ovs, onm, okids⟩ := obj
  simp only [Item.kids] at hj hlt
  simp [replaceInObject, optAlloc, hf, hj, Item.kids, Item.withKids, hlt, Item.name]

/-- … after which the lookup of that key answers NULL although the object had the member: the password of the
    account is gone (concrete instance; `decide`). -/
theorem replace_unchecked_failure_loses_the_member :
    let user := Item.mk 64 false false 0 0 none none [.mk 16 false false 0 0 (some [0x68]) (some [0x70, 0x77]) []]
    let r := replaceInObject (fun n => n == 0) false false [0x70, 0x77] user (.mk 16 false false 0 0 (some [0x6E]) none []) ⟨0, 1000⟩
    getItem false [0x70, 0x77] user.kids = some 0 ∧ r.ok = true ∧ getItem false [0x70, 0x77] r.obj.kids = none := by
  decide

/-- When the key copy succeeds and a member answers, it is replaced IN PLACE (same position, same number of members)
    by the replacement under the new key. -/
theorem replace_success_in_place (s : Nat → Bool) (checked : Bool) (key : Bytes) (obj item : Item) (a : A) (j : Nat)
    (hs : s a.next = false) (hj : getItem false key obj.kids = some j) :
    (replaceInObject s checked false key obj item a).ok = true ∧
    (replaceInObject s checked false key obj item a).obj.kids.length = obj.kids.length ∧
    ((replaceInObject s checked false key obj item a).obj.kids[j]?).bind Item.name = some key := by
  obtain ⟨k, r, c, vi, vd, vs, nm, kids⟩ := item
  have hlt := getItem_some_lt hj
  obtain ⟨ok, orf, oc, ovi, ovd, ovs, onm, okids⟩ := obj
  simp only [Item.kids] at hj hlt
  simp [replaceInObject, optAlloc, hs, hj, Item.kids, Item.withKids, hlt, Item.name]


/-! ### constructors -/

/-- `cJSON_CreateString` either returns the string item holding its two blocks, or NULL holding none, and it fails
    only at the first of its two allocations that fails — for every schedule. -/
theorem create_string_ledger (s : Nat → Bool) (str : Bytes) (a : A) :
    Spec s 2 (Item.mk 16 false false 0 0 (some str) none []) a (createString s str a) := by
  unfold createString
  cases h1 : optAlloc s true a with
  | mk b1 a1 =>
  cases b1 with
  | false =>
    obtain ⟨hf, hl⟩ := optAlloc_false h1
    exact ⟨hl, by simpa using hf.mono 1⟩
  | true =>
    obtain ⟨ok1, n1, l1⟩ := optAlloc_true h1
    simp only [b2n_true] at ok1 n1 l1
    dsimp only
    cases h2 : optAlloc s true a1 with
    | mk b2 a2 =>
    cases b2 with
    | false =>
      obtain ⟨hf, hl⟩ := optAlloc_false h2
      rw [n1] at hf
      exact ⟨by dsimp only; omega, by simpa using FirstFail.after ok1 hf⟩
    | true =>
      obtain ⟨ok2, n2, l2⟩ := optAlloc_true h2
      simp only [b2n_true] at ok2 n2 l2
      rw [n1] at ok2
      exact ⟨rfl, by omega, by omega, by simpa using AllOk.append ok1 ok2⟩

end Cjet.Props.CjsonTree
