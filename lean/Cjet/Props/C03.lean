import Cjet.Lemmas.DaemonC03Close
import Cjet.Props.CjsonTree
import Cjet.Lemmas.DaemonC03Refusal
/-!
# C03 — routed set/call: delivered once to the owner, answered once to the caller

Theorems about the daemon model `Cjet.Daemon` (`router.c`, `element.c:set_or_call`, `peer.c`).
All states are arbitrary states satisfying the invariants, which hold in every state reachable from
`{ users := us }` by any list of operations (`routes_wf`, `rid_unique`, `elements_owned`).

What is assumed (stated as hypotheses where used):
* `OpOk` — the `%p` token of every connecting peer is non-empty and contains no `_`;
* `runWeight ops < 2^32` — fewer than 2³² request objects were received in the run, so the 32-bit
  id counter `uuid` did not wrap.  Only the distinctness of generated ids needs this.
-/

namespace Cjet.Props.C03

open Cjet Cjet.Json Cjet.Daemon Cjet.Daemon.C03

/-! ## Concrete objects for the non-vacuity examples -/

def exCfg : Config := {}
def exAdd : Json :=
  .obj [(k "method", .str (k "add")), (k "params", .obj [(k "path", .str (k "p")), (k "value", .bool true)])]
/-- peer 1 adds state `p`, peer 2 is a second client -/
def exOps : List Op :=
  [.connect 1 false true (k "0x1"), .connect 2 false true (k "0x2"), .message 1 (some exAdd) {}]
def exElem : Element :=
  { path := k "p", owner := 1, value := some (.bool true), fetchOnly := false, timeoutNs := 5000000000,
    fetchGroups := 0, setGroups := 0, callGroups := 0, fetchers := [none, none, none, none] }
def exP1 : Peer := { conn := 1, ws := false, isLocal := true, addrTok := k "0x1", elements := [exElem] }
def exP2 : Peer := { conn := 2, ws := false, isLocal := true, addrTok := k "0x2" }
/-- the state reached by `exOps` -/
def exS : State := { peers := [exP1, exP2], index := [(k "p", 1)] }
theorem exS_reachable : (run exCfg {} exOps).1 = exS := by with_unfolding_all rfl

/-- peer 2 sets `p` to 7 with id "a" -/
def exSetMembers : List (Bytes × Json) :=
  [(k "id", .str (k "a")), (k "method", .str (k "set")),
   (k "params", .obj [(k "path", .str (k "p")), (k "value", ofInt 7)])]
def exSet : Json := .obj exSetMembers
def exParams : Json := .obj [(k "path", .str (k "p")), (k "value", ofInt 7)]
/-- the routing entry of that request -/
def exRoute : Route :=
  { rid := routedId (some (.str (k "a"))) 0 (k "0x2"), requester := 2, owner := 1,
    originId := some (.str (k "a")), timer := 0 }
/-- the state with that request in flight -/
def exS1 : State :=
  { exS with uuid := 1, nextTimer := 1, peers := [{ exP1 with routes := [exRoute] }, exP2] }
theorem exS1_reachable : (run exCfg {} (exOps ++ [.message 2 (some exSet) {}])).1 = exS1 := by
  with_unfolding_all rfl

/-! ## 1. Well-formed routing tables -/

/-- `routes_wf`: in every reachable state connection numbers are distinct, every routing entry
    stored in peer `p`'s table names `p` as owner, its requester is a connected peer, its timer id
    is below the timer counter, and the timer ids of all stored entries are pairwise distinct. -/
theorem routes_wf (cfg : Config) (us : List User) (ops : List Op) :
    let s := (run cfg { users := us } ops).1
    (s.peers.map (·.conn)).Nodup ∧
    (∀ p ∈ s.peers, ∀ r ∈ p.routes,
      r.owner = p.conn ∧ (findPeer s.peers r.requester).isSome = true ∧ r.timer < s.nextTimer) ∧
    ((s.peers.flatMap (·.routes)).map (·.timer)).Nodup := by
  intro s
  have h : RoutesWf s := routesWf_run cfg ops _ (routesWf_init us)
  refine ⟨?_, ?_, ?_⟩
  · have := h.conns
    rwa [List.map_map] at this
  · intro p hp r hr
    have hmem : r ∈ vRoutes (s.peers.map pview) := by
      rw [vRoutes_map_pview]; exact List.mem_flatMap.mpr ⟨p, hp, hr⟩
    refine ⟨h.owner (pview p) (mem_map_pview hp) r hr, ?_, h.timerLt r hmem⟩
    rw [findPeer_isSome_iff_conns]
    exact h.requester r hmem
  · have := h.timers
    rwa [vRoutes_map_pview] at this

/-- the same invariant, as an inductive step from ANY state that satisfies it -/
theorem routes_wf_step (cfg : Config) (s : State) (op : Op) (h : RoutesWf s) : RoutesWf (step cfg s op).1 :=
  routesWf_step cfg s op h

/-- `rid_unique`: while the id counter has not wrapped (fewer than 2³² request objects received)
    and all address tokens are well formed, the ids of all stored routing entries are pairwise
    distinct — across all tables, whatever the callers' own ids are (they may contain `_`, be
    equal, be numbers or be absent). -/
theorem rid_unique (cfg : Config) (us : List User) (ops : List Op)
    (hok : ∀ op ∈ ops, OpOk op) (hb : runWeight ops < 4294967296) :
    let s := (run cfg { users := us } ops).1
    ((s.peers.flatMap (·.routes)).map (·.rid)).Nodup ∧ RidsWf s := by
  intro s
  have h := (ridsWf_run cfg ops _ (routesWf_init us) (ridsWf_init us) hok (by simpa using hb)).1
  refine ⟨?_, h⟩
  have := h.rids
  rwa [vRoutes_map_pview] at this

example : (∀ op ∈ exOps, OpOk op) ∧ runWeight exOps < 4294967296 := by decide +kernel

/-- the id generated for the next request of any connected peer differs from every stored id -/
theorem rid_fresh (s : State) (h : RidsWf s) (p : Peer) (hp : p ∈ s.peers) (oid : Option Json) :
    ∀ q ∈ s.peers, ∀ r ∈ q.routes, r.rid ≠ routedId oid s.uuid p.addrTok := by
  intro q hq r hr e
  have hmem : r ∈ vRoutes (s.peers.map pview) := by
    rw [vRoutes_map_pview]; exact List.mem_flatMap.mpr ⟨q, hq, hr⟩
  obtain ⟨u, hu, hseg⟩ := h.issued r hmem
  have ha : AddrOk p.addrTok := h.addrs (pview p) (mem_map_pview hp)
  rw [e, uuidSeg_routedId _ _ _ ha] at hseg
  have := hexDigits_inj hseg
  omega

theorem exS1_rids : RidsWf exS1 := by
  rw [← exS1_reachable]
  exact (rid_unique exCfg [] _ (by decide +kernel) (by decide +kernel)).2

example : RidsWf exS1 ∧ exP2 ∈ exS1.peers := ⟨exS1_rids, .tail _ (.head _)⟩

/-- an element reached through the path index belongs to a connected peer: its owner -/
theorem elements_owned (cfg : Config) (us : List User) (ops : List Op) :
    EO (run cfg { users := us } ops).1 :=
  eo_run cfg ops _ (eo_init us)

/-! ## 2. Delivery -/

/-- `routed_delivery` (one request object, also inside a batch): a set (`isState = true`) or call
    that passes the checks of `set_or_call` (`Checks`: params and path present, element exists, not
    fetch-only, of the right kind, caller authorised, id absent or a string or number), carries a
    value if it is a set and a valid timeout, is not refused by the owner's table and whose send to
    the owner succeeds
    * returns no immediate response;
    * emits exactly `timerArm t tns` followed by ONE message, to the element's owner, which is
      `{id: rid, method: path, params: {value: v}}` for a set and `{…, params: args}` (or `{}` when
      `args` is absent) for a call, `v`/`args` being the caller's own JSON value;
    * stores the entry `(rid, caller, owner, caller's id, t)` at the end of the owner's table — the
      owner is connected — and changes nothing else but the two counters. -/
theorem routed_delivery (cfg : Config) (x : Ctx) (p : Peer) (req : Json) (isState : Bool)
    (params : Json) (path : Bytes) (e : Element) (tns : Nat)
    (heo : EO x.st)
    (hc : Checks cfg x.st p req isState params path e)
    (hv : isState = true → (params.getItem (k "value")).isSome = true)
    (ht : getTimeout cfg (params.getItem (k "timeout")) e.timeoutNs = .ns tns)
    (hfull : x.routeFull = false) (hsend : nextSend x = true) :
    let r : Route := { rid := routedId (req.getItem (k "id")) x.st.uuid p.addrTok, requester := p.conn,
                       owner := e.owner, originId := req.getItem (k "id"), timer := x.st.nextTimer }
    let v : Json := (if isState then params.getItem (k "value") else params.getItem (k "args")).getD (.obj [])
    let y := setOrCall cfg x p req isState
    y.2 = none ∧
    y.1.out = .send e.owner (.obj [(k "id", .str r.rid), (k "method", .str path),
                (k "params", if isState then .obj [(k "value", v)] else v)]) true
              :: .timerArm x.st.nextTimer tns :: x.out ∧
    y.1.st = { x.st with
      uuid := (x.st.uuid + 1) % 4294967296, nextTimer := x.st.nextTimer + 1,
      peers := updatePeer x.st.peers e.owner (fun q => { q with routes := q.routes ++ [r] }) } ∧
    (∃ q, findPeer x.st.peers e.owner = some q) ∧ Stored y.1.st r := by
  intro r v y
  have hv' : (isState && (reqValue isState params).isNone) = false := by
    cases isState with
    | false => rfl
    | true =>
      have := hv rfl
      simp only [reqValue, ↓reduceIte, Bool.true_and]
      cases h : params.getItem (k "value") <;> simp_all
  have hy : y = ((send (stored x r tns) e.owner (routedMessage r.rid path isState (reqValue isState params))).1, none) := by
    show setOrCall cfg x p req isState = _
    rw [setOrCall_of_checks hc, routeCore_accept hv' ht hfull hsend]
    rfl
  obtain ⟨q, hq⟩ := findElement_owner_live heo hc.el
  have hst : y.1.st = { x.st with
      uuid := (x.st.uuid + 1) % 4294967296, nextTimer := x.st.nextTimer + 1,
      peers := updatePeer x.st.peers e.owner (fun q => { q with routes := q.routes ++ [r] }) } := by
    rw [hy]; simp only [send_st]; rfl
  refine ⟨by rw [hy], ?_, hst, ⟨q, hq⟩, ?_⟩
  · rw [hy]
    simp only [send_out, nextSend_stored, hsend, routedMessage_eq]
    rfl
  · exact stored_addRoute (r := r) hq y.1.st (by rw [hst])

/-- `routed_delivery` for a message that consists of this one request: the complete output of the
    step is `[timerArm t tns, send owner msg true]`. -/
theorem routed_delivery_step (cfg : Config) (s : State) (c : Nat) (o : Oracle) (members : List (Bytes × Json))
    (p : Peer) (isState : Bool) (params : Json) (path : Bytes) (e : Element) (tns : Nat)
    (heo : EO s) (hp : findPeer s.peers c = some p)
    (hm : (Json.obj members).getItem (k "method") = some (.str (if isState then k "set" else k "call")))
    (hc : Checks cfg s p (.obj members) isState params path e)
    (hv : isState = true → (params.getItem (k "value")).isSome = true)
    (ht : getTimeout cfg (params.getItem (k "timeout")) e.timeoutNs = .ns tns)
    (hfull : o.routeFull = false) (hsend : o.sends.headD true = true) :
    let oid := (Json.obj members).getItem (k "id")
    let r : Route := { rid := routedId oid s.uuid p.addrTok, requester := c, owner := e.owner,
                       originId := oid, timer := s.nextTimer }
    let v : Json := (if isState then params.getItem (k "value") else params.getItem (k "args")).getD (.obj [])
    step cfg s (.message c (some (.obj members)) o) =
      ({ s with
          uuid := (s.uuid + 1) % 4294967296, nextTimer := s.nextTimer + 1,
          peers := updatePeer s.peers e.owner (fun q => { q with routes := q.routes ++ [r] }) },
       [.timerArm s.nextTimer tns,
        .send e.owner (.obj [(k "id", .str r.rid), (k "method", .str path),
          (k "params", if isState then .obj [(k "value", v)] else v)]) true]) := by
  intro oid r v
  have hd := routed_delivery cfg (mkCtx s o) p (.obj members) isState params path e tns heo hc hv ht hfull hsend
  obtain ⟨h1, h2, h3, _, _⟩ := hd
  rw [step_single cfg s c o members (by rw [hp]; rfl)]
  rw [parseJsonRpc_route (isState := isState) (by simpa using hp) hm]
  dsimp only
  rw [h1]
  simp only [sendResponse, ↓reduceIte]
  rw [h2, h3, findPeer_conn hp]
  rfl

example : ∃ (cfg : Config) (s : State) (c : Nat) (o : Oracle) (members : List (Bytes × Json)) (p : Peer)
    (isState : Bool) (params : Json) (path : Bytes) (e : Element) (tns : Nat),
    EO s ∧ findPeer s.peers c = some p ∧
    (Json.obj members).getItem (k "method") = some (.str (if isState then k "set" else k "call")) ∧
    Checks cfg s p (.obj members) isState params path e ∧
    (isState = true → (params.getItem (k "value")).isSome = true) ∧
    getTimeout cfg (params.getItem (k "timeout")) e.timeoutNs = .ns tns ∧
    o.routeFull = false ∧ o.sends.headD true = true := by
  refine ⟨exCfg, exS, 2, {}, exSetMembers, exP2, true, exParams, k "p", exElem, 5000000000, ?_, ?_, ?_, ?_, ?_, ?_, rfl, rfl⟩
  · rw [← exS_reachable]; exact elements_owned _ _ _
  · with_unfolding_all rfl
  · with_unfolding_all rfl
  · exact ⟨by with_unfolding_all rfl, by with_unfolding_all rfl, rfl, rfl, by with_unfolding_all rfl,
      by with_unfolding_all rfl⟩
  · intro _; with_unfolding_all rfl
  · with_unfolding_all rfl

/-! ## 3. Third-party independence -/

/-- `entry_stable`: a routing entry `r` stored in its owner's table is still stored there, with
    the same fields, after EVERY operation that is not one of its four resolvers (`Resolves`):
    a message of its owner containing a routing response with its id, a message of its owner or
    requester that gets that peer dropped, the disconnect of its owner or requester, the expiry of
    its own timer.  In particular connects, disconnects, messages (requests, responses with other or
    forged ids, their own set/call traffic to the same owner, failing sends, refused insertions) and
    timers of all other peers leave it alone. -/
theorem entry_stable (cfg : Config) (s : State) (op : Op) (r : Route)
    (hw : RoutesWf s) (hr : RidsWf s) (hok : OpOk op) (hb : s.uuid + opWeight op < 4294967296)
    (hin : Stored s r) (hres : ¬ Resolves cfg s r op) : Stored (step cfg s op).1 r :=
  stored_step cfg s op r hw hr hok hb hin hres

/-- a bystander (peer 3, not connected before) connects while `exRoute` is in flight -/
example : RoutesWf exS1 ∧ RidsWf exS1 ∧ OpOk (.connect 3 false true (k "0x3")) ∧
    exS1.uuid + opWeight (.connect 3 false true (k "0x3")) < 4294967296 ∧ Stored exS1 exRoute ∧
    ¬ Resolves exCfg exS1 exRoute (.connect 3 false true (k "0x3")) := by
  refine ⟨?_, exS1_rids, by decide +kernel, by decide +kernel, ⟨_, by with_unfolding_all rfl, .head _⟩, fun h => h⟩
  rw [← exS1_reachable]
  exact routesWf_run _ _ _ (routesWf_init [])

/-- the contrapositive: an operation after which the entry is gone is one of its resolvers -/
theorem resolution_cases (cfg : Config) (s : State) (op : Op) (r : Route)
    (hw : RoutesWf s) (hr : RidsWf s) (hok : OpOk op) (hb : s.uuid + opWeight op < 4294967296)
    (hin : Stored s r) (hgone : ¬ Stored (step cfg s op).1 r) : Resolves cfg s r op :=
  Classical.byContradiction fun h => hgone (stored_step cfg s op r hw hr hok hb hin h)

/-! ## 4. The final answer -/

/-- an answerable origin id (string or number) gets `{id: originId, result|error: payload}` with
    the owner's payload unchanged; no origin id, no answer -/
theorem reply_answer_shape (r : Route) (payload : Json) (typ : String) :
    (∀ oid, r.originId = some oid → Answerable (some oid) →
      replyAnswer r payload typ = some (.obj [(k "id", oid), (k typ, payload)])) ∧
    (r.originId = none → replyAnswer r payload typ = none) := by
  constructor
  · intro oid h ha
    simp only [replyAnswer, h, Option.bind_some]
    exact resultResponse_of_answerable ha payload typ
  · intro h; simp [replyAnswer, h]

theorem timeout_answer_shape (r : Route) :
    (∀ oid, r.originId = some oid → Answerable (some oid) →
      timeoutAnswer r = some (.obj [(k "id", oid),
        (k "error", errorObject INTERNAL_ERROR "reason" (k "timeout for routed request"))])) ∧
    (r.originId = none → timeoutAnswer r = none) := by
  constructor
  · intro oid h ha
    simp only [timeoutAnswer, h, Option.bind_some]
    exact errorResponse_of_answerable ha _ _ _
  · intro h; simp [timeoutAnswer, h]

theorem shutdown_answer_shape (r : Route) :
    (∀ oid, r.originId = some oid → Answerable (some oid) →
      shutdownAnswer r = some (.obj [(k "id", oid),
        (k "error", errorObject INTERNAL_ERROR "reason" (k "peer shuts down"))])) ∧
    (r.originId = none → shutdownAnswer r = none) := by
  constructor
  · intro oid h ha
    simp only [shutdownAnswer, h, Option.bind_some]
    exact errorResponse_of_answerable ha _ _ _
  · intro h; simp [shutdownAnswer, h]

/-- `final_answer`, reply: the step of a message consisting of one routing response (result, or
    error if there is no result member) of `r`'s owner with `r`'s id removes the entry, destroys
    its timer and sends exactly one message: `replyAnswer` to the requester — none if the caller had
    no id.  Nothing else changes, nothing else is emitted. -/
theorem final_answer_reply (cfg : Config) (s : State) (orc : Oracle) (members : List (Bytes × Json))
    (payload : Json) (typ : String) (r : Route) (hr : RidsWf s) (hin : Stored s r)
    (hresp : IsResponse (.obj members) payload typ)
    (hid : (Json.obj members).getItem (k "id") = some (.str r.rid)) :
    step cfg s (.message r.owner (some (.obj members)) orc) =
      ({ s with peers := removeRoute s.peers r.owner r.rid },
       .timerDestroy r.timer :: answerSends r.requester (replyAnswer r payload typ) (orc.sends.headD true)) ∧
    ¬ Stored { s with peers := removeRoute s.peers r.owner r.rid } r :=
  ⟨step_reply cfg s orc members payload typ r hr hin hresp hid, not_stored_after_remove s r⟩

def exReplyMembers : List (Bytes × Json) := [(k "id", .str exRoute.rid), (k "result", .bool true)]

example : RidsWf exS1 ∧ Stored exS1 exRoute ∧ IsResponse (.obj exReplyMembers) (.bool true) "result" ∧
    (Json.obj exReplyMembers).getItem (k "id") = some (.str exRoute.rid) :=
  ⟨exS1_rids, ⟨_, by with_unfolding_all rfl, .head _⟩,
   ⟨by with_unfolding_all rfl, Or.inl ⟨rfl, by with_unfolding_all rfl⟩⟩, by with_unfolding_all rfl⟩

/-- `final_answer`, timeout: the expiry of `r`'s timer removes the entry, sends the INTERNAL_ERROR
    "timeout for routed request" response to the requester (none if the caller had no id) and
    destroys the timer.  Nothing else. -/
theorem final_answer_timeout (cfg : Config) (s : State) (orc : Oracle) (r : Route)
    (hw : RoutesWf s) (hin : Stored s r) :
    step cfg s (.timerFire r.timer orc) =
      ({ s with peers := removeRoute s.peers r.owner r.rid },
       answerSends r.requester (timeoutAnswer r) (orc.sends.headD true) ++ [.timerDestroy r.timer]) ∧
    ¬ Stored { s with peers := removeRoute s.peers r.owner r.rid } r :=
  ⟨step_timeout cfg s orc r hw hin, not_stored_after_remove s r⟩

/-- `final_answer`, owner shutdown: when `r`'s owner disconnects, the outputs of the step contain
    the destruction of `r`'s timer immediately followed by the INTERNAL_ERROR "peer shuts down"
    response to the requester (none if the caller had no id, or if the caller is the owner
    itself); the timer of `r` is destroyed nowhere else in the step, and the owner is gone
    afterwards (so is its table). -/
theorem final_answer_shutdown (cfg : Config) (s : State) (orc : Oracle) (r : Route) (p : Peer)
    (hw : RoutesWf s) (hp : findPeer s.peers r.owner = some p) (hr : r ∈ p.routes)
    (hne : r.requester ≠ r.owner) :
    ∃ pre post ok,
      (step cfg s (.disconnect r.owner orc)).2 =
        pre ++ .timerDestroy r.timer :: answerSends r.requester (shutdownAnswer r) ok ++ post ∧
      r.timer ∉ (pre ++ post).filterMap destroyedOf := by
  obtain ⟨pre, post, ok, hout, hnd⟩ := closePeer_shutdown (mkCtx s orc) r.owner p r hw hp hr hne
  refine ⟨pre.reverse, post.reverse, ok, ?_, ?_⟩
  · rw [step_disconnect]
    have : (findPeer s.peers r.owner).isNone = false := by rw [hp]; rfl
    simp only [this, Bool.false_eq_true, ↓reduceIte]
    rw [hout]
    simp only [mkCtx_out, List.append_nil, List.reverse_append, List.reverse_cons, List.append_assoc,
      List.singleton_append]
    congr 1
    cases shutdownAnswer r <;> rfl
  · intro h
    apply hnd
    rw [List.filterMap_append, List.mem_append] at h ⊢
    rw [List.filterMap_reverse, List.filterMap_reverse, List.mem_reverse, List.mem_reverse] at h
    exact h

example : RoutesWf exS1 ∧ findPeer exS1.peers exRoute.owner = some { exP1 with routes := [exRoute] } ∧
    exRoute ∈ ({ exP1 with routes := [exRoute] } : Peer).routes ∧ exRoute.requester ≠ exRoute.owner := by
  refine ⟨?_, by with_unfolding_all rfl, .head _, by decide⟩
  rw [← exS1_reachable]
  exact routesWf_run _ _ _ (routesWf_init [])

/-- the same for every way the owner's connection ends (`closePeer`: disconnect, or a message of
    the owner that gets it dropped — `x` is then the context after that message was processed):
    outputs are newest first here -/
theorem final_answer_shutdown_close (x : Ctx) (r : Route) (p : Peer)
    (hw : WfV (x.st.peers.map pview) x.st.nextTimer) (hp : findPeer x.st.peers r.owner = some p)
    (hr : r ∈ p.routes) (hne : r.requester ≠ r.owner) :
    ∃ pre post ok,
      (closePeer x r.owner).out =
        post ++ answerSends r.requester (shutdownAnswer r) ok ++ .timerDestroy r.timer :: pre ++ x.out ∧
      r.timer ∉ (pre ++ post).filterMap destroyedOf :=
  closePeer_shutdown x r.owner p r hw hp hr hne

/-- when a peer disconnects, its own requests are purged from every table (nobody is told): no
    stored entry names it as requester afterwards -/
theorem caller_disconnect_purges (cfg : Config) (s : State) (c : Nat) (orc : Oracle) (hw : RoutesWf s) :
    ∀ q ∈ (step cfg s (.disconnect c orc)).1.peers, ∀ r ∈ q.routes, r.requester ≠ c := by
  intro q hq r hr
  rw [step_disconnect] at hq
  cases hp : findPeer s.peers c with
  | none =>
    simp only [hp, Option.isNone_none, ↓reduceIte] at hq
    -- `c` is not connected, and requesters of stored entries are
    intro e
    have hmem : r ∈ vRoutes (s.peers.map pview) := by
      rw [vRoutes_map_pview]; exact List.mem_flatMap.mpr ⟨q, hq, hr⟩
    have hlive := hw.requester r hmem
    rw [← findPeer_isSome_iff_conns, e, hp] at hlive
    cases hlive
  | some p =>
    simp only [hp, Option.isNone_some, Bool.false_eq_true, ↓reduceIte] at hq
    have hrs := rs_closePeer (mkCtx s orc) c p hp
    have hV : (closePeer (mkCtx s orc) c).st.peers.map pview = vClose (s.peers.map pview) c :=
      congrArg RS.V hrs
    have hmem : r ∈ vRoutes (vClose (s.peers.map pview) c) := by
      rw [← hV, vRoutes_map_pview]
      exact List.mem_flatMap.mpr ⟨q, hq, hr⟩
    obtain ⟨_, _, _, _, hne⟩ := mem_vRoutes_vClose hmem
    exact hne

example : RoutesWf exS1 := by
  rw [← exS1_reachable]; exact routesWf_run _ _ _ (routesWf_init [])

/-- `late_reply_ignored`: a routing response whose id matches no entry of the REPLIER'S OWN table
    — a late reply (after the timeout answer), a duplicated reply, a forged id, the id of an entry
    in another peer's table — changes nothing and emits nothing. -/
theorem late_reply_ignored (cfg : Config) (s : State) (c : Nat) (orc : Oracle) (members : List (Bytes × Json))
    (payload : Json) (typ : String) (rid : Bytes) (p : Peer) (hp : findPeer s.peers c = some p)
    (hresp : IsResponse (.obj members) payload typ)
    (hid : (Json.obj members).getItem (k "id") = some (.str rid))
    (hmiss : ∀ r ∈ p.routes, r.rid ≠ rid) :
    step cfg s (.message c (some (.obj members)) orc) = (s, []) :=
  step_reply_miss cfg s c orc members payload typ rid p hp hresp hid hmiss

/-- peer 2 (whose table is empty) sends a response carrying the id of the entry in peer 1's table -/
example : findPeer exS1.peers 2 = some exP2 ∧ IsResponse (.obj exReplyMembers) (.bool true) "result" ∧
    (Json.obj exReplyMembers).getItem (k "id") = some (.str exRoute.rid) ∧
    (∀ r ∈ exP2.routes, r.rid ≠ exRoute.rid) :=
  ⟨by with_unfolding_all rfl, ⟨by with_unfolding_all rfl, Or.inl ⟨rfl, by with_unfolding_all rfl⟩⟩,
   by with_unfolding_all rfl, fun _ h => nomatch h⟩

/-- after the reply (or the timeout) the owner's table holds no entry with that id, so a second
    reply with the same id falls under `late_reply_ignored` -/
theorem duplicate_reply_ignored (s : State) (r : Route) (p' : Peer)
    (hp' : findPeer (removeRoute s.peers r.owner r.rid) r.owner = some p') :
    ∀ r' ∈ p'.routes, r'.rid ≠ r.rid :=
  no_rid_after_removeRoute s.peers r.owner r.rid p' hp'

/-- the expiry of a timer that no stored entry carries (its entry was answered before) does nothing -/
theorem late_expiry_ignored (cfg : Config) (s : State) (orc : Oracle) (t : Nat)
    (h : ∀ r ∈ s.peers.flatMap (·.routes), r.timer ≠ t) : step cfg s (.timerFire t orc) = (s, []) :=
  step_timeout_miss cfg s orc t h

example : ∀ r ∈ exS.peers.flatMap (·.routes), r.timer ≠ 0 := fun _ h => nomatch h

/-! ## 5. Refusal -/

/-- `refusal_only_when_full`: whatever the request and the state, `set_or_call` answers the
    INTERNAL_ERROR "routing table full" response only when the owner's table refused the insertion
    (oracle `routeFull`; C17 characterises when the real hopscotch table does). -/
theorem refusal_only_when_full (cfg : Config) (x : Ctx) (p : Peer) (req : Json) (isState : Bool) (j : Json)
    (hresp : (setOrCall cfg x p req isState).2 = some j)
    (hcode : errCode j = some INTERNAL_ERROR)
    (hreason : errReason j = some (k "reason", k "routing table full")) : x.routeFull = true := by
  rcases setOrCall_response cfg x p req isState with ⟨tag, reason, h⟩ | ⟨hf, _⟩ | ⟨_, _, h⟩ | ⟨_, _, h⟩
  · rw [h] at hresp
    have := (errorFromRequest_shape hresp).1
    rw [hcode] at this
    exact absurd (Option.some.inj this) (by unfold INTERNAL_ERROR INVALID_PARAMS; decide)
  · exact hf
  · rw [h] at hresp; cases hresp
  · rw [h] at hresp
    have := (errorFromRequest_shape hresp).2
    rw [hreason] at this
    have h2 := congrArg Prod.snd (Option.some.inj this)
    exact absurd h2 reason_full_ne_send

/-- with a refusing table a request that passes all checks gets exactly that response: no entry is
    stored, the timer that had been created is destroyed without having been armed, nothing is sent
    to the owner -/
theorem refused_when_full (cfg : Config) (x : Ctx) (p : Peer) (req : Json) (isState : Bool)
    (params : Json) (path : Bytes) (e : Element) (tns : Nat)
    (hc : Checks cfg x.st p req isState params path e)
    (hv : isState = true → (params.getItem (k "value")).isSome = true)
    (ht : getTimeout cfg (params.getItem (k "timeout")) e.timeoutNs = .ns tns)
    (hfull : x.routeFull = true) :
    let y := setOrCall cfg x p req isState
    y.2 = errorFromRequest req INTERNAL_ERROR "reason" (k "routing table full") ∧
    y.1.out = .timerDestroy x.st.nextTimer :: x.out ∧ y.1.st.peers = x.st.peers := by
  intro y
  have hv' : (isState && (reqValue isState params).isNone) = false := by
    cases isState with
    | false => rfl
    | true =>
      have := hv rfl
      simp only [reqValue, ↓reduceIte, Bool.true_and]
      cases h : params.getItem (k "value") <;> simp_all
  have hy : y = _ := (setOrCall_of_checks hc).trans (routeCore_full hv' ht hfull)
  rw [hy]
  exact ⟨rfl, rfl, rfl⟩

/-- with a table that does not refuse, a well-formed, authorised set/call on an existing element of
    the right kind is never refused for capacity: it is accepted when the send to the owner
    succeeds (`routed_delivery`), and otherwise answered "could not send routing information" with
    the entry removed again and its timer destroyed -/
theorem accepted_when_not_full (cfg : Config) (x : Ctx) (p : Peer) (req : Json) (isState : Bool)
    (params : Json) (path : Bytes) (e : Element) (tns : Nat)
    (hc : Checks cfg x.st p req isState params path e)
    (hv : isState = true → (params.getItem (k "value")).isSome = true)
    (ht : getTimeout cfg (params.getItem (k "timeout")) e.timeoutNs = .ns tns)
    (hfull : x.routeFull = false) :
    (nextSend x = true → (setOrCall cfg x p req isState).2 = none) ∧
    (nextSend x = false →
      (setOrCall cfg x p req isState).2 =
        errorFromRequest req INTERNAL_ERROR "reason" (k "could not send routing information") ∧
      tobs (setOrCall cfg x p req isState).1.out =
        .timerDestroy x.st.nextTimer :: .timerArm x.st.nextTimer tns :: tobs x.out) := by
  have hv' : (isState && (reqValue isState params).isNone) = false := by
    cases isState with
    | false => rfl
    | true =>
      have := hv rfl
      simp only [reqValue, ↓reduceIte, Bool.true_and]
      cases h : params.getItem (k "value") <;> simp_all
  constructor
  · intro hs
    rw [setOrCall_of_checks hc, routeCore_accept hv' ht hfull hs]
  · intro hs
    rw [setOrCall_of_checks hc, routeCore_sendFail hv' ht hfull hs]
    refine ⟨rfl, ?_⟩
    simp [stored, newRoute]

/-- the hypotheses of the three theorems above hold for `exSet` at `exS` (with either oracle) -/
example : Checks exCfg exS exP2 exSet true exParams (k "p") exElem ∧
    (exParams.getItem (k "value")).isSome = true ∧
    getTimeout exCfg (exParams.getItem (k "timeout")) exElem.timeoutNs = .ns 5000000000 :=
  ⟨⟨by with_unfolding_all rfl, by with_unfolding_all rfl, rfl, rfl, by with_unfolding_all rfl,
    by with_unfolding_all rfl⟩, by with_unfolding_all rfl, by with_unfolding_all rfl⟩

/-- … and the table-full response really is produced there when the table refuses -/
example : ∃ j, (setOrCall exCfg (mkCtx exS { routeFull := true }) exP2 exSet true).2 = some j ∧
    errCode j = some INTERNAL_ERROR ∧ errReason j = some (k "reason", k "routing table full") :=
  ⟨_, by with_unfolding_all rfl, by with_unfolding_all rfl, by with_unfolding_all rfl⟩

/-! ## further non-vacuity examples -/

/-- `routes_wf_step`, `final_answer_timeout`, `resolution_cases` (the expiry of its timer resolves
    `exRoute`: afterwards it is not stored) -/
example : RoutesWf exS1 ∧ Stored exS1 exRoute ∧
    ¬ Stored (step exCfg exS1 (.timerFire exRoute.timer {})).1 exRoute := by
  have hw : RoutesWf exS1 := by
    rw [← exS1_reachable]; exact routesWf_run _ _ _ (routesWf_init [])
  have hin : Stored exS1 exRoute := ⟨_, by with_unfolding_all rfl, .head _⟩
  refine ⟨hw, hin, ?_⟩
  rw [(final_answer_timeout exCfg exS1 {} exRoute hw hin).1]
  exact (final_answer_timeout exCfg exS1 {} exRoute hw hin).2

/-- `routed_delivery` (handler level) at `mkCtx exS {}` -/
example : EO (mkCtx exS {}).st ∧ Checks exCfg (mkCtx exS {}).st exP2 exSet true exParams (k "p") exElem ∧
    (mkCtx exS {}).routeFull = false ∧ nextSend (mkCtx exS {}) = true := by
  refine ⟨?_, ⟨by with_unfolding_all rfl, by with_unfolding_all rfl, rfl, rfl, by with_unfolding_all rfl,
    by with_unfolding_all rfl⟩, rfl, rfl⟩
  show EO exS
  rw [← exS_reachable]; exact elements_owned _ _ _

/-- `duplicate_reply_ignored`: the table of peer 1 after the reply -/
example : ∃ p', findPeer (removeRoute exS1.peers exRoute.owner exRoute.rid) exRoute.owner = some p' :=
  ⟨_, by with_unfolding_all rfl⟩


/-! ### the cJSON tree layer: every stored, forwarded or routed value is a cJSON_Duplicate (real code tied by vlib/cjsontree_tie.py) -/

theorem json_duplicate_is_faithful_copy : type_of% @Cjet.Props.CjsonTree.duplicate_is_faithful_copy := @Cjet.Props.CjsonTree.duplicate_is_faithful_copy
theorem json_duplicate_exact_without_references : type_of% @Cjet.Props.CjsonTree.duplicate_exact_without_references := @Cjet.Props.CjsonTree.duplicate_exact_without_references
theorem json_duplicate_succeeds_when_allocations_do : type_of% @Cjet.Props.CjsonTree.duplicate_succeeds_when_allocations_do := @Cjet.Props.CjsonTree.duplicate_succeeds_when_allocations_do
theorem json_get_object_item_first_hit : type_of% @Cjet.Props.CjsonTree.get_object_item_first_hit := @Cjet.Props.CjsonTree.get_object_item_first_hit
theorem json_get_object_item_ci_none_iff : type_of% @Cjet.Props.CjsonTree.get_object_item_ci_none_iff := @Cjet.Props.CjsonTree.get_object_item_ci_none_iff

end Cjet.Props.C03
