import Cjet.Ws
import Cjet.Ws.Wire
import Cjet.Lemmas.WsUnmask
import Cjet.Lemmas.WsMachine
import Cjet.Lemmas.WsSend
import Cjet.Lemmas.WsDispatch
import Cjet.Lemmas.Base64
/-!
# C12 — the WebSocket endpoint follows RFC 6455

Theorems over the model of `src/websocket.c` (`Cjet.Ws`), the callback set of `src/websocket_peer.c`,
`src/base64.c` and `src/sha1/sha1.c`.  Constants come from `Cjet.Generated.Ws` (regenerated from the
source on every run).  `utf8Valid` (the verdict of the UTF-8 validator on a close reason, C18) and the
JSON-RPC layer's verdict on a text message (`parseOk`) are parameters.
-/
namespace Cjet.Props.C12
open Cjet Cjet.Ws Cjet.Generated.Ws

/-! ## Frames sent by the server -/

/-- Every frame `send_frame` builds in server mode is `header ++ payload` with: first byte `0x80 | opcode`
    (FIN set, RSV1-3 clear), MASK bit clear, and the minimal length form — 7 bit iff `len ≤ 125`,
    16 bit iff `126 ≤ len ≤ 65535`, otherwise 64 bit — carrying exactly the payload length. -/
theorem server_frame_wellformed (word align : Nat) (key : Bytes) (typ : Nat) (ht : typ < 16) (payload : Bytes)
    (hl : payload.length < 18446744073709551616) :
    ∃ hdr : Bytes,
      sendFrame true word align key typ payload = hdr ++ payload ∧
      (hdr.getD 0 0).toNat = 128 + typ ∧
      (hdr.getD 1 0).toNat < 128 ∧
      (payload.length ≤ 125 → hdr.length = 2 ∧ (hdr.getD 1 0).toNat = payload.length) ∧
      (126 ≤ payload.length ∧ payload.length ≤ 65535 →
        hdr.length = 4 ∧ (hdr.getD 1 0).toNat = 126 ∧ beVal (hdr.drop 2) = payload.length) ∧
      (65536 ≤ payload.length →
        hdr.length = 10 ∧ (hdr.getD 1 0).toNat = 127 ∧ beVal (hdr.drop 2) = payload.length) := by
  refine ⟨frameHeader true key typ payload.length, by simp [sendFrame], ?_⟩
  have hb0 : (UInt8.ofNat (typ ||| wsHeaderFin)).toNat = 128 + typ := by
    have : ∀ t : Fin 16, (UInt8.ofNat (t.val ||| wsHeaderFin)).toNat = 128 + t.val := by decide
    exact this ⟨typ, ht⟩
  simp only [frameHeader, if_true, sendLen7Limit, sendLen16Limit, sendLen16Marker, sendLen64Marker]
  by_cases h1 : payload.length < 126
  · simp only [h1, if_true, List.getD_cons_zero, List.getD_cons_succ, hb0, UInt8.toNat_ofNat']
    refine ⟨trivial, by omega, fun _ => ⟨by simp, by omega⟩, fun h => by omega, fun h => by omega⟩
  · by_cases h2 : payload.length < 65536
    · simp only [h1, h2, if_true, if_false, List.getD_cons_zero, List.getD_cons_succ, hb0, UInt8.toNat_ofNat']
      refine ⟨trivial, by omega, fun h => by omega,
        fun _ => ⟨by simp [be16], by first | trivial | omega, ?_⟩, fun h => by omega⟩
      simpa using beVal_be16 _ h2
    · simp only [h1, h2, if_false, List.getD_cons_zero, List.getD_cons_succ, hb0, UInt8.toNat_ofNat']
      refine ⟨trivial, by omega, fun h => by omega, fun h => by omega,
        fun _ => ⟨by simp [be64], by first | trivial | omega, ?_⟩⟩
      simpa using beVal_be64 _ hl

example : sendFrame true 8 0 [] opText [104, 105] = [0x81, 0x02, 104, 105] := by decide

/-- The same statement in terms of the RFC wire layout: a server frame *is* the wire form with FIN,
    RSV = 0, no masking key and the minimal length form. -/
theorem server_frame_is_minimal_wire (word align : Nat) (key : Bytes) (typ : Nat) (ht : typ < 16) (payload : Bytes) :
    sendFrame true word align key typ payload = wire true 0 typ none (LenForm.minimal payload.length) payload :=
  sendFrame_server_eq_wire word align key typ ht payload

example : (LenForm.minimal 125, LenForm.minimal 126, LenForm.minimal 65535, LenForm.minimal 65536) =
    (.short, .ext16, .ext16, .ext64) := by decide

/-! ## The header machine -/

/-- **Header decoding per RFC 6455 §5.2.**  From the header phase, for every FIN/RSV/opcode, with or
    without a masking key (every key), in each of the three length forms the length fits in (minimal or
    not), for every payload the read buffer can hold that is not an oversized control frame: running
    the machine over the frame's bytes followed by `rest` hands exactly `(fin, rsv, opcode, mask)` and
    the *unmasked* payload to `ws_get_payload` (`frameOutcome`), then continues on `rest`. -/
theorem header_spec (c : Conf) (hw0 : 0 < c.word) (hw : c.word % 4 = 0) (hbuf : 8 ≤ c.bufSize) (a : Nat)
    (s : St) (hs : s.phase = .header)
    (fin : Bool) (rsv opcode : Nat) (hr : rsv < 8) (ho : opcode < 16)
    (key : Option Bytes) (hk : ∀ k, key = some k → k.length = 4)
    (form : LenForm) (payload : Bytes) (hfit : form.fits payload.length)
    (hlen : payload.length ≤ c.bufSize)
    (hctl : ¬ (opcode ≥ opClose ∧ payload.length > wsSmallFrameSize)) (rest : Bytes) :
    run c a s (wire fin rsv opcode key form payload ++ rest) =
      (let fl : Flags := { s.flags with fin := fin, rsv := rsv, opcode := opcode, mask := key.isSome }
       let s2 : St := { s with flags := fl, length := payload.length, key := key.getD s.key }
       let r := afterPayload s2 (frameOutcome c fl payload)
       seqRun r (run c a r.1 rest)) := by
  rw [run_wire c a s hs hbuf fin rsv opcode key hk form payload hr ho hfit hlen hctl rest]
  have hd : s.deliver c a fin rsv opcode key payload =
      afterPayload { s with flags := { s.flags with fin := fin, rsv := rsv, opcode := opcode, mask := key.isSome },
                            length := payload.length, key := key.getD s.key }
        (frameOutcome c { s.flags with fin := fin, rsv := rsv, opcode := opcode, mask := key.isSome } payload) := by
    simp only [St.deliver, St.withHeader, frameOutcome]
    rw [wsGetPayload_wire c hw0 hw _ key rfl s.key a payload]
  rw [hd]

/-- non-vacuity of `header_spec`: a masked 16-bit-form text frame through the daemon's configuration -/
example :
    (run { cbs := daemonCallbacks (fun _ => true), utf8Valid := fun _ => true, bufSize := 512 } 3 {}
      (wire true 0 opText (some [1, 2, 3, 4]) .ext16 [104, 105] ++ [0x81])).2.2 = [Action.textMessage [104, 105]] := by
  decide +kernel

/-- A payload longer than the read buffer is never delivered: the reader's error handler runs
    (close frame 1001 from `free_websocket_peer_on_error`), whatever the opcode of a *data* frame. -/
theorem oversize_payload_error_handler (c : Conf) (hbuf : 8 ≤ c.bufSize) (a : Nat) (s : St) (hs : s.phase = .header)
    (fin : Bool) (rsv opcode : Nat) (hr : rsv < 8) (ho : opcode < 16) (masked : Bool) (form : LenForm) (len : Nat)
    (hfit : form.fits len) (hdata : opcode < opClose) (hbig : c.bufSize < len) (hm : masked = false) (rest : Bytes) :
    (run c a s (wireHeader fin rsv opcode masked form len ++ rest)).2.2 = errorHandler c := by
  subst hm
  rw [run_header c a s hs hbuf fin rsv opcode false form len hr ho hfit rest]
  have h1 : ¬ ((s.withHeader fin rsv opcode false len).flags.opcode ≥ opClose ∧
      (s.withHeader fin rsv opcode false len).length > wsSmallFrameSize) := by
    simp only [St.withHeader]; omega
  rw [readMaskOrPayload_unmasked_pos c a _ h1 rfl (by simp only [St.withHeader]; omega), seqRun_nil]
  rw [run_toomuch c a _ rest (by simp) (by simp only [St.want, St.withHeader]; omega)]

/-- **Segmentation independence.**  However the byte stream is cut into pieces, the machine ends in the
    same state with the same unconsumed bytes and has performed the same actions as on the whole stream. -/
theorem segmentation_independent (c : Conf) (hbuf : 1 ≤ c.bufSize) (a : Nat) (s : St) (hs : s.phase = .header)
    (chunks : List Bytes) :
    runChunks c a s [] chunks = run c a s chunks.flatten := by
  have hq : run c a s [] = (s, [], []) :=
    run_block c a s [] (by simp [hs]) (by simp [St.want, hs]; omega) (by simp [St.want, hs])
  simpa using runChunks_eq_run c a s [] chunks hq

example : runChunks { cbs := daemonCallbacks (fun _ => true), utf8Valid := fun _ => true, bufSize := 512 } 0 {} []
    [[0x89], [0x80, 1], [2, 3, 4]] = ({ key := [1, 2, 3, 4], flags := { fin := true, opcode := 9, mask := true } }, [],
      [Action.write true [0x8a, 0]]) := by decide +kernel

/-! ## Unmasking -/

/-- The aligned fast path of `unmask_payload` equals the byte-wise XOR with `key[i mod 4]` — for every
    alignment of the buffer, every length and every key (word size 8 as on the reference platform). -/
theorem unmask_fast_eq_bytewise (align : Nat) (key buf : Bytes) :
    unmaskPayload 8 align key buf = xorMask key buf :=
  unmaskPayload_eq_xorMask 8 (by decide) (by decide) align key buf

/-- … and for every word size that is a positive multiple of 4 (`sizeof(uint_fast32_t)` is 4 or 8). -/
theorem unmask_fast_eq_bytewise_any_word (word : Nat) (hw0 : 0 < word) (hw : word % 4 = 0) (align : Nat)
    (key buf : Bytes) : unmaskPayload word align key buf = xorMask key buf :=
  unmaskPayload_eq_xorMask word hw0 hw align key buf

example : unmaskPayload 8 3 [1, 2, 3, 4] [0, 0, 0, 0, 0, 0, 0, 0, 0, 0, 0, 0, 0] = [1, 2, 3, 4, 1, 2, 3, 4, 1, 2, 3, 4, 1] := by
  decide

/-- byte `i` of the result is `buf[i] XOR key[i mod 4]` -/
theorem unmask_bytewise_spec (key buf : Bytes) (i : Nat) :
    (xorMask key buf)[i]? = buf[i]?.map (· ^^^ key.getD (i % 4) 0) := by
  simpa [xorMask, maskByte] using xorFrom_getElem? key 0 buf i

/-- masking is an involution: unmasking what was masked with the same key gives the payload back,
    whatever the two alignments -/
theorem unmask_involution (a1 a2 : Nat) (key buf : Bytes) :
    unmaskPayload 8 a1 key (unmaskPayload 8 a2 key buf) = buf := by
  rw [unmask_fast_eq_bytewise, unmask_fast_eq_bytewise]
  exact xorFrom_involutive key 0 buf

/-! ## decode ∘ encode -/

/-- A frame built by `send_frame` in server mode, read by the header machine in the client role, is
    handed to the dispatcher with FIN = 1, RSV = 0, the same opcode and the same payload. -/
theorem decode_encode (c : Conf) (hcl : c.isServer = false) (hw0 : 0 < c.word) (hw : c.word % 4 = 0)
    (hbuf : 8 ≤ c.bufSize) (a : Nat) (s : St) (hs : s.phase = .header)
    (word align : Nat) (key : Bytes) (typ : Nat) (ht : typ < 16) (payload : Bytes)
    (hlen : payload.length ≤ c.bufSize) (hl64 : payload.length < 18446744073709551616)
    (hctl : ¬ (typ ≥ opClose ∧ payload.length > wsSmallFrameSize))
    (rest : Bytes) :
    run c a s (sendFrame true word align key typ payload ++ rest) =
      (let fl : Flags := { s.flags with fin := true, rsv := 0, opcode := typ, mask := false }
       let s2 : St := { s with flags := fl, length := payload.length }
       let r := afterPayload s2 (payloadResult c (wsHandleFrame c fl payload))
       seqRun r (run c a r.1 rest)) := by
  rw [sendFrame_server_eq_wire word align key typ ht payload]
  rw [header_spec c hw0 hw hbuf a s hs true 0 typ (by omega) ht none (by simp) _ payload
    (minimal_fits _ hl64) hlen hctl rest]
  simp [frameOutcome, hcl]

/-- A frame built by `send_frame` in client mode (masked with any 4 byte key, payload at any alignment),
    read by the server-side machine: the dispatcher receives the original payload. -/
theorem decode_encode_masked (c : Conf) (hw0 : 0 < c.word) (hw : c.word % 4 = 0)
    (hbuf : 8 ≤ c.bufSize) (a : Nat) (s : St) (hs : s.phase = .header)
    (word : Nat) (hw0' : 0 < word) (hw' : word % 4 = 0) (align : Nat) (key : Bytes) (hk : key.length = 4)
    (typ : Nat) (ht : typ < 16) (payload : Bytes)
    (hlen : payload.length ≤ c.bufSize) (hl64 : payload.length < 18446744073709551616)
    (hctl : ¬ (typ ≥ opClose ∧ payload.length > wsSmallFrameSize))
    (rest : Bytes) :
    run c a s (sendFrame false word align key typ payload ++ rest) =
      (let fl : Flags := { s.flags with fin := true, rsv := 0, opcode := typ, mask := true }
       let s2 : St := { s with flags := fl, length := payload.length, key := key }
       let r := afterPayload s2 (payloadResult c (wsHandleFrame c fl payload))
       seqRun r (run c a r.1 rest)) := by
  rw [sendFrame_client_eq_wire word hw0' hw' align key hk typ ht payload]
  rw [header_spec c hw0 hw hbuf a s hs true 0 typ (by omega) ht (some key) (by intro k h; cases h; exact hk) _ payload
    (minimal_fits _ hl64) hlen hctl rest]
  simp [frameOutcome]

end Cjet.Props.C12
