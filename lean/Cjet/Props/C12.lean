import Cjet.Ws
import Cjet.Ws.Wire
import Cjet.Lemmas.WsUnmask
import Cjet.Lemmas.WsMachine
import Cjet.Lemmas.WsSend
import Cjet.Lemmas.WsDispatch
import Cjet.Lemmas.Base64
import Cjet.Lemmas.WsHandshake
/-!
# C12 — the WebSocket endpoint follows RFC 6455

Theorems over the model of `src/websocket.c` (`Cjet.Ws`), the callback set of `src/websocket_peer.c`,
`src/base64.c` and `src/sha1/sha1.c`.  Constants come from `Cjet.Generated.Ws` (regenerated from the
source on every run).  `utf8Valid` (the verdict of the UTF-8 validator on a close reason, C18) and the
JSON-RPC layer's verdict on a text message (`parseOk`) are parameters.
-/
namespace Cjet.Props.C12
open Cjet Cjet.Ws Cjet.Generated.Ws

/-! ## Frames sent by the server -/

/-- Every frame `send_frame` builds in server mode is `header ++ payload` with: first byte `0x80 | opcode`
    (FIN set, RSV1-3 clear), MASK bit clear, and the minimal length form — 7 bit iff `len ≤ 125`,
    16 bit iff `126 ≤ len ≤ 65535`, otherwise 64 bit — carrying exactly the payload length. -/
theorem server_frame_wellformed (word align : Nat) (key : Bytes) (typ : Nat) (ht : typ < 16) (payload : Bytes)
    (hl : payload.length < 18446744073709551616) :
    ∃ hdr : Bytes,
      sendFrame true word align key typ payload = hdr ++ payload ∧
      (hdr.getD 0 0).toNat = 128 + typ ∧
      (hdr.getD 1 0).toNat < 128 ∧
      (payload.length ≤ 125 → hdr.length = 2 ∧ (hdr.getD 1 0).toNat = payload.length) ∧
      (126 ≤ payload.length ∧ payload.length ≤ 65535 →
        hdr.length = 4 ∧ (hdr.getD 1 0).toNat = 126 ∧ beVal (hdr.drop 2) = payload.length) ∧
      (65536 ≤ payload.length →
        hdr.length = 10 ∧ (hdr.getD 1 0).toNat = 127 ∧ beVal (hdr.drop 2) = payload.length) := by
  refine ⟨frameHeader true key typ payload.length, by simp [sendFrame], ?_⟩
  have hb0 : (UInt8.ofNat (typ ||| wsHeaderFin)).toNat = 128 + typ := by
    have : ∀ t : Fin 16, (UInt8.ofNat (t.val ||| wsHeaderFin)).toNat = 128 + t.val := by decide
    exact this ⟨typ, ht⟩
  simp only [frameHeader, if_true, sendLen7Limit, sendLen16Limit, sendLen16Marker, sendLen64Marker]
  by_cases h1 : payload.length < 126
  · simp only [h1, if_true, List.getD_cons_zero, List.getD_cons_succ, hb0, UInt8.toNat_ofNat']
    refine ⟨trivial, by omega, fun _ => ⟨by simp, by omega⟩, fun h => by omega, fun h => by omega⟩
  · by_cases h2 : payload.length < 65536
    · simp only [h1, h2, if_true, if_false, List.getD_cons_zero, List.getD_cons_succ, hb0, UInt8.toNat_ofNat']
      refine ⟨trivial, by omega, fun h => by omega,
        fun _ => ⟨by simp [be16], by first | trivial | omega, ?_⟩, fun h => by omega⟩
      simpa using beVal_be16 _ h2
    · simp only [h1, h2, if_false, List.getD_cons_zero, List.getD_cons_succ, hb0, UInt8.toNat_ofNat']
      refine ⟨trivial, by omega, fun h => by omega, fun h => by omega,
        fun _ => ⟨by simp [be64], by first | trivial | omega, ?_⟩⟩
      simpa using beVal_be64 _ hl

example : sendFrame true 8 0 [] opText [104, 105] = [0x81, 0x02, 104, 105] := by decide

/-- The same statement in terms of the RFC wire layout: a server frame *is* the wire form with FIN,
    RSV = 0, no masking key and the minimal length form. -/
theorem server_frame_is_minimal_wire (word align : Nat) (key : Bytes) (typ : Nat) (ht : typ < 16) (payload : Bytes) :
    sendFrame true word align key typ payload = wire true 0 typ none (LenForm.minimal payload.length) payload :=
  sendFrame_server_eq_wire word align key typ ht payload

example : (LenForm.minimal 125, LenForm.minimal 126, LenForm.minimal 65535, LenForm.minimal 65536) =
    (.short, .ext16, .ext16, .ext64) := by decide

/-! ## The header machine -/

/-- **Header decoding per RFC 6455 §5.2.**  From the header phase, for every FIN/RSV/opcode, with or
    without a masking key (every key), in each of the three length forms the length fits in (minimal or
    not), for every payload the read buffer can hold, provided the header passes
    `is_frame_header_invalid` (see `header_valid_iff`; otherwise `header_invalid_refused`): running
    the machine over the frame's bytes followed by `rest` hands exactly `(fin, rsv, opcode, mask)` and
    the *unmasked* payload to `ws_get_payload` (`frameOutcome`), then continues on `rest`. -/
theorem header_spec (c : Conf) (hw0 : 0 < c.word) (hw : c.word % 4 = 0) (hbuf : 8 ≤ c.bufSize) (a : Nat)
    (s : St) (hs : s.phase = .header)
    (fin : Bool) (rsv opcode : Nat) (hr : rsv < 8) (ho : opcode < 16)
    (key : Option Bytes) (hk : ∀ k, key = some k → k.length = 4)
    (form : LenForm) (payload : Bytes) (hfit : form.fits payload.length)
    (hlen : payload.length ≤ c.bufSize)
    (hvalid : headerInvalid c { s.flags with fin := fin, rsv := rsv, opcode := opcode, mask := key.isSome }
      payload.length = false) (rest : Bytes) :
    run c a s (wire fin rsv opcode key form payload ++ rest) =
      (let fl : Flags := { s.flags with fin := fin, rsv := rsv, opcode := opcode, mask := key.isSome }
       let s2 : St := { s with flags := fl, length := payload.length, key := key.getD s.key }
       let r := afterPayload s2 (frameOutcome c fl payload)
       seqRun r (run c a r.1 rest)) := by
  rw [run_wire c a s hs hbuf fin rsv opcode key hk form payload hr ho hfit hlen hvalid rest]
  have hd : s.deliver c a fin rsv opcode key payload =
      afterPayload { s with flags := { s.flags with fin := fin, rsv := rsv, opcode := opcode, mask := key.isSome },
                            length := payload.length, key := key.getD s.key }
        (frameOutcome c { s.flags with fin := fin, rsv := rsv, opcode := opcode, mask := key.isSome } payload) := by
    simp only [St.deliver, St.withHeader, frameOutcome]
    rw [wsGetPayload_wire c hw0 hw _ key rfl s.key a payload]
  rw [hd]

/-- non-vacuity of `header_spec`: a masked 16-bit-form text frame through the daemon's configuration -/
example :
    (run { cbs := daemonCallbacks (fun _ => true), utf8Valid := fun _ => true, bufSize := 512 } 3 {}
      (wire true 0 opText (some [1, 2, 3, 4]) .ext16 [104, 105] ++ [0x81])).2.2 = [Action.textMessage [104, 105]] := by
  decide +kernel

/-- what `is_frame_header_invalid` lets pass -/
theorem header_valid_iff (c : Conf) (f : Flags) (len : Nat) :
    headerInvalid c f len = false ↔
      (c.isServer = true → f.mask = true) ∧ (f.rsv = 0 ∨ c.extAccepted = true) ∧
      (f.opcode ≤ opBinary ∨ (opClose ≤ f.opcode ∧ f.opcode ≤ opPong ∧ f.fin = true ∧ len ≤ wsSmallFrameSize)) := by
  simp only [headerInvalid, opBinary, opClose, opPong, wsSmallFrameSize]
  by_cases h8 : f.opcode ≥ 8 <;> by_cases h10 : f.opcode > 10 <;> by_cases h2 : f.opcode > 2 <;>
    by_cases hl : len > 125 <;> by_cases hr : f.rsv = 0 <;>
    cases c.isServer <;> cases f.mask <;> cases c.extAccepted <;> cases f.fin <;>
    simp [h8, h10, h2, hl, hr] <;> omega

/-- **Header-level protocol errors → 1002, before any payload byte is requested** (hence also when the
    declared length exceeds the read buffer): for every header that `is_frame_header_invalid` rejects,
    in each length form, the run over the header bytes ends with exactly `handle_error(1002)`; whatever
    follows is not consumed. -/
theorem header_invalid_refused (c : Conf) (hbuf : 8 ≤ c.bufSize) (a : Nat) (s : St) (hs : s.phase = .header)
    (fin : Bool) (rsv opcode : Nat) (hr : rsv < 8) (ho : opcode < 16) (masked : Bool) (form : LenForm) (len : Nat)
    (hfit : form.fits len)
    (hinv : headerInvalid c { s.flags with fin := fin, rsv := rsv, opcode := opcode, mask := masked } len = true)
    (rest : Bytes) :
    (run c a s (wireHeader fin rsv opcode masked form len ++ rest)).2.2 = handleError c closeProtocolError ∧
    (run c a s (wireHeader fin rsv opcode masked form len ++ rest)).1.phase = .closed ∧
    (run c a s (wireHeader fin rsv opcode masked form len ++ rest)).2.1 = rest := by
  rw [run_header c a s hs hbuf fin rsv opcode masked form len hr ho hfit rest]
  rw [readMaskOrPayload_invalid c a _ hinv, run_closed c a _ rest rfl]
  simp [seqRun]

example : (run exampleConf 0 {} (wireHeader true 0 opPing true .ext16 126 ++ [1, 2, 3])).2.2 =
    handleError exampleConf closeProtocolError := by decide +kernel

/-- The table of header-level errors the property names: an unmasked client frame, a reserved bit
    without a negotiated extension, a reserved opcode (3-7, 11-15), a fragmented control frame, a
    control frame longer than 125 bytes — each makes `is_frame_header_invalid` true, so by
    `header_invalid_refused` the connection ends with close frame 1002. -/
theorem close_code_header_table (c : Conf) (f : Flags) (len : Nat)
    (h : (c.isServer = true ∧ f.mask = false) ∨
         (f.rsv ≠ 0 ∧ c.extAccepted = false) ∨
         (opBinary < f.opcode ∧ f.opcode < opClose) ∨ opPong < f.opcode ∨
         (opClose ≤ f.opcode ∧ f.fin = false) ∨
         (opClose ≤ f.opcode ∧ len > wsSmallFrameSize)) :
    headerInvalid c f len = true := by
  cases hv : headerInvalid c f len with
  | true => rfl
  | false =>
    exfalso
    have := (header_valid_iff c f len).mp hv
    simp only [opBinary, opClose, opPong, wsSmallFrameSize] at this h
    obtain ⟨h1, h2, h3⟩ := this
    rcases h with ⟨hs, hm⟩ | ⟨hr, hx⟩ | ⟨ha, hb⟩ | hp | ⟨hc, hf⟩ | ⟨hc, hl⟩
    · simp [h1 hs] at hm
    · rcases h2 with h2 | h2
      · exact hr h2
      · simp [h2] at hx
    · omega
    · omega
    · rcases h3 with h3 | ⟨_, _, h3, _⟩
      · omega
      · simp [h3] at hf
    · omega

example : headerInvalid { cbs := daemonCallbacks (fun _ => true), utf8Valid := fun _ => true, bufSize := 512 }
    { fin := true, opcode := opPing, mask := true } 126 = true := by decide

/-- A *data* frame whose header is acceptable but whose payload is longer than the read buffer is never
    delivered: the reader's error handler runs (close frame 1001 from `free_websocket_peer_on_error`). -/
theorem oversize_payload_error_handler (c : Conf) (hbuf : 8 ≤ c.bufSize) (a : Nat) (s : St) (hs : s.phase = .header)
    (fin : Bool) (rsv opcode : Nat) (hr : rsv < 8) (ho : opcode < 16) (key : Option Bytes)
    (hk : ∀ k, key = some k → k.length = 4) (form : LenForm) (len : Nat)
    (hfit : form.fits len) (hbig : c.bufSize < len)
    (hvalid : headerInvalid c { s.flags with fin := fin, rsv := rsv, opcode := opcode, mask := key.isSome } len = false)
    (rest : Bytes) :
    (run c a s (wireHeader fin rsv opcode key.isSome form len ++ key.getD [] ++ rest)).2.2 = errorHandler c := by
  rw [List.append_assoc, run_header c a s hs hbuf fin rsv opcode key.isSome form len hr ho hfit]
  cases key with
  | none =>
    simp only [Option.isSome_none, Option.getD_none, List.nil_append] at hvalid ⊢
    rw [readMaskOrPayload_unmasked_pos c a _ hvalid rfl (by simp only [St.withHeader]; omega), seqRun_nil]
    rw [run_toomuch c a _ rest (by simp) (by simp only [St.want, St.withHeader]; omega)]
  | some k =>
    have hk4 : k.length = 4 := hk k rfl
    simp only [Option.isSome_some, Option.getD_some] at hvalid ⊢
    rw [readMaskOrPayload_masked c a _ hvalid rfl, seqRun_nil]
    generalize hs1 : ({ s.withHeader fin rsv opcode true len with phase := Phase.mask } : St) = s1
    have hp1 : s1.phase = .mask := by rw [← hs1]
    have hl1 : s1.length = len := by rw [← hs1]; rfl
    rw [run_exact c a s1 k rest (by simp [hp1]) (by simp [St.want, hp1, maskBytes]; omega)
      (by simp [St.want, hp1, maskBytes]) (by simp [St.want, hp1, maskBytes, hk4])]
    have hpos : s1.length > 0 := by omega
    simp only [feed, hp1, hpos, if_true, seqRun_nil]
    rw [run_toomuch c a _ rest (by simp) (by simp only [St.want]; omega)]

example : (run exampleConf 0 {} (wireHeader true 0 opText true .ext16 600 ++ [1, 2, 3, 4] ++ [9])).2.2 =
    errorHandler exampleConf := by decide +kernel

/-- **Segmentation independence.**  However the byte stream is cut into pieces, the machine ends in the
    same state with the same unconsumed bytes and has performed the same actions as on the whole stream. -/
theorem segmentation_independent (c : Conf) (hbuf : 1 ≤ c.bufSize) (a : Nat) (s : St) (hs : s.phase = .header)
    (chunks : List Bytes) :
    runChunks c a s [] chunks = run c a s chunks.flatten := by
  have hq : run c a s [] = (s, [], []) :=
    run_block c a s [] (by simp [hs]) (by simp [St.want, hs]; omega) (by simp [St.want, hs])
  simpa using runChunks_eq_run c a s [] chunks hq

example : runChunks { cbs := daemonCallbacks (fun _ => true), utf8Valid := fun _ => true, bufSize := 512 } 0 {} []
    [[0x89], [0x80, 1], [2, 3, 4]] = ({ key := [1, 2, 3, 4], flags := { fin := true, opcode := 9, mask := true } }, [],
      [Action.write true [0x8a, 0]]) := by decide +kernel

/-! ## Unmasking -/

/-- The aligned fast path of `unmask_payload` equals the byte-wise XOR with `key[i mod 4]` — for every
    alignment of the buffer, every length and every key (word size 8 as on the reference platform). -/
theorem unmask_fast_eq_bytewise (align : Nat) (key buf : Bytes) :
    unmaskPayload 8 align key buf = xorMask key buf :=
  unmaskPayload_eq_xorMask 8 (by decide) (by decide) align key buf

/-- … and for every word size that is a positive multiple of 4 (`sizeof(uint_fast32_t)` is 4 or 8). -/
theorem unmask_fast_eq_bytewise_any_word (word : Nat) (hw0 : 0 < word) (hw : word % 4 = 0) (align : Nat)
    (key buf : Bytes) : unmaskPayload word align key buf = xorMask key buf :=
  unmaskPayload_eq_xorMask word hw0 hw align key buf

example : unmaskPayload 4 1 [1, 2, 3, 4] [0, 0, 0, 0, 0, 0] = [1, 2, 3, 4, 1, 2] := by decide

example : unmaskPayload 8 3 [1, 2, 3, 4] [0, 0, 0, 0, 0, 0, 0, 0, 0, 0, 0, 0, 0] = [1, 2, 3, 4, 1, 2, 3, 4, 1, 2, 3, 4, 1] := by
  decide

/-- byte `i` of the result is `buf[i] XOR key[i mod 4]` -/
theorem unmask_bytewise_spec (key buf : Bytes) (i : Nat) :
    (xorMask key buf)[i]? = buf[i]?.map (· ^^^ key.getD (i % 4) 0) := by
  simpa [xorMask, maskByte] using xorFrom_getElem? key 0 buf i

/-- masking is an involution: unmasking what was masked with the same key gives the payload back,
    whatever the two alignments -/
theorem unmask_involution (a1 a2 : Nat) (key buf : Bytes) :
    unmaskPayload 8 a1 key (unmaskPayload 8 a2 key buf) = buf := by
  rw [unmask_fast_eq_bytewise, unmask_fast_eq_bytewise]
  exact xorFrom_involutive key 0 buf

/-! ## decode ∘ encode -/

/-- A frame built by `send_frame` in server mode, read by the header machine in the client role, is
    handed to the dispatcher with FIN = 1, RSV = 0, the same opcode and the same payload. -/
theorem decode_encode (c : Conf) (hcl : c.isServer = false) (hw0 : 0 < c.word) (hw : c.word % 4 = 0)
    (hbuf : 8 ≤ c.bufSize) (a : Nat) (s : St) (hs : s.phase = .header)
    (word align : Nat) (key : Bytes) (typ : Nat) (ht : typ < 16) (payload : Bytes)
    (hlen : payload.length ≤ c.bufSize) (hl64 : payload.length < 18446744073709551616)
    (hctl : typ ≤ opBinary ∨ (opClose ≤ typ ∧ typ ≤ opPong ∧ payload.length ≤ wsSmallFrameSize))
    (rest : Bytes) :
    run c a s (sendFrame true word align key typ payload ++ rest) =
      (let fl : Flags := { s.flags with fin := true, rsv := 0, opcode := typ, mask := false }
       let s2 : St := { s with flags := fl, length := payload.length }
       let r := afterPayload s2 (payloadResult c (wsHandleFrame c fl payload))
       seqRun r (run c a r.1 rest)) := by
  rw [sendFrame_server_eq_wire word align key typ ht payload]
  have hv : headerInvalid c { s.flags with fin := true, rsv := 0, opcode := typ, mask := (none : Option Bytes).isSome }
      payload.length = false := by
    rw [header_valid_iff]
    refine ⟨by simp [hcl], Or.inl rfl, ?_⟩
    rcases hctl with h | ⟨h1, h2, h3⟩
    · exact Or.inl h
    · exact Or.inr ⟨h1, h2, rfl, h3⟩
  rw [header_spec c hw0 hw hbuf a s hs true 0 typ (by omega) ht none (by simp) _ payload
    (minimal_fits _ hl64) hlen hv rest]
  simp [frameOutcome, hcl]

example : (run { exampleConf with isServer := false, cbs := fullCallbacks .ok } 0 {}
    (sendFrame true 8 0 [] opText [104, 105] ++ [0x81])).2.2 = [Action.textMessage [104, 105]] := by decide +kernel

/-- A frame built by `send_frame` in client mode (masked with any 4 byte key, payload at any alignment),
    read by the server-side machine: the dispatcher receives the original payload. -/
theorem decode_encode_masked (c : Conf) (hw0 : 0 < c.word) (hw : c.word % 4 = 0)
    (hbuf : 8 ≤ c.bufSize) (a : Nat) (s : St) (hs : s.phase = .header)
    (word : Nat) (hw0' : 0 < word) (hw' : word % 4 = 0) (align : Nat) (key : Bytes) (hk : key.length = 4)
    (typ : Nat) (ht : typ < 16) (payload : Bytes)
    (hlen : payload.length ≤ c.bufSize) (hl64 : payload.length < 18446744073709551616)
    (hctl : typ ≤ opBinary ∨ (opClose ≤ typ ∧ typ ≤ opPong ∧ payload.length ≤ wsSmallFrameSize))
    (rest : Bytes) :
    run c a s (sendFrame false word align key typ payload ++ rest) =
      (let fl : Flags := { s.flags with fin := true, rsv := 0, opcode := typ, mask := true }
       let s2 : St := { s with flags := fl, length := payload.length, key := key }
       let r := afterPayload s2 (payloadResult c (wsHandleFrame c fl payload))
       seqRun r (run c a r.1 rest)) := by
  rw [sendFrame_client_eq_wire word hw0' hw' align key hk typ ht payload]
  have hv : headerInvalid c { s.flags with fin := true, rsv := 0, opcode := typ, mask := (some key).isSome }
      payload.length = false := by
    rw [header_valid_iff]
    refine ⟨by simp, Or.inl rfl, ?_⟩
    rcases hctl with h | ⟨h1, h2, h3⟩
    · exact Or.inl h
    · exact Or.inr ⟨h1, h2, rfl, h3⟩
  rw [header_spec c hw0 hw hbuf a s hs true 0 typ (by omega) ht (some key) (by intro k h; cases h; exact hk) _ payload
    (minimal_fits _ hl64) hlen hv rest]
  simp [frameOutcome]


example : (run exampleConf 5 {} (sendFrame false 8 3 [9, 8, 7, 6] opText [104, 105, 33])).2.2 =
    [Action.textMessage [104, 105, 33]] := by decide +kernel

/-- A ping with payload `p`, `|p| ≤ 125`, (in any fragmentation state) is answered by exactly one frame:
    the pong `8a len p` — FIN, unmasked, minimal length, identical payload — and nothing is closed. -/
theorem pong_echo (c : Conf) (hsrv : c.isServer = true) (hok : c.sendOk = true) (f : Flags)
    (hfin : f.fin = true) (hrsv : f.rsv = 0) (hop : f.opcode = opPing) (p : Bytes) (hp : p.length ≤ 125) :
    (wsHandleFrame c f p).actions =
      Action.write true (wire true 0 opPong none .short p) ::
        (match c.cbs.ping with | some _ => [Action.ping p] | none => []) ∧
    (c.cbs.ping = none → (wsHandleFrame c f p).ret = .ok) ∧
    (wsHandleFrame c f p).flags = f := by
  have hmin : LenForm.minimal p.length = .short := by simp [LenForm.minimal, hp]
  have hfr : c.frame 0 opPong p = wire true 0 opPong none .short p := by
    simp only [Conf.frame, hsrv]
    rw [sendFrame_server_eq_wire _ _ _ _ (by decide), hmin]
  have hlen : ¬ (p.length > wsSmallFrameSize) := by simp only [wsSmallFrameSize]; omega
  obtain ⟨fin, rsv, opcode, mask, fo, isf, ifc⟩ := f
  simp only at hfin hrsv hop
  subst hfin hrsv hop
  simp only [wsHandleFrame, rsvCheck, fragStep, dispatchOpcode]
  simp [hlen, hok, hfr, Conf.afterSend, hsrv, opPing, opClose, opBinary, opText, opContinuation]
  cases c.cbs.ping <;> simp


example : (wsHandleFrame { cbs := daemonCallbacks (fun _ => true), utf8Valid := fun _ => true, bufSize := 512 }
    { fin := true, opcode := opPing } [1, 2, 3]).actions = [Action.write true [0x8a, 3, 1, 2, 3]] := by decide

/-! ## Close codes -/

/-- what "the connection ends with a close frame of status `code`" means for an upgraded server:
    `88 02 hi lo` is written, the connection is released, `on_error` runs — and nothing else -/
theorem refusal_is_close_frame (c : Conf) (hs : c.isServer = true) (hu : c.upgradeComplete = true) (code : Nat) :
    handleError c code = [Action.write c.sendOk (serverCloseFrame code), Action.closeConn, Action.onError] :=
  handleError_server c hs hu code

example : serverCloseFrame closeProtocolError = [0x88, 0x02, 0x03, 0xea] := by decide

/-- an unmasked client frame → 1002 (whatever else the frame is) -/
theorem close_code_unmasked (c : Conf) (hs : c.isServer = true) (fl : Flags) (hm : fl.mask = false) (payload : Bytes) :
    (frameOutcome c fl payload).open_ = false ∧
    (frameOutcome c fl payload).actions = handleError c closeProtocolError := by
  simp [frameOutcome, hs, hm]

example : (frameOutcome exampleConf { fin := true, opcode := opText, mask := false } [104]).actions =
    [Action.write true [0x88, 2, 0x03, 0xea], Action.closeConn, Action.onError] := by decide

/-- a reserved bit without a negotiated extension → 1002 -/
theorem close_code_rsv (c : Conf) (hx : c.extAccepted = false) (f : Flags) (hr : f.rsv ≠ 0) (p : Bytes) :
    (wsHandleFrame c f p).refusedWith c closeProtocolError := by
  simp [wsHandleFrame, rsvCheck, hr, hx, refuse, HandleResult.refusedWith]

example : (wsHandleFrame exampleConf { fin := true, rsv := 4, opcode := opText, mask := true } [104]).refusedWith exampleConf
    closeProtocolError := close_code_rsv _ rfl _ (by decide) _

/-- a reserved opcode (3-7, 11-15) → 1002, with or without FIN, in any fragmentation state -/
theorem close_code_reserved_opcode (c : Conf) (f : Flags)
    (hop : f.opcode ≠ opContinuation ∧ f.opcode ≠ opText ∧ f.opcode ≠ opBinary ∧
           f.opcode ≠ opClose ∧ f.opcode ≠ opPing ∧ f.opcode ≠ opPong) (p : Bytes) :
    (wsHandleFrame c f p).refusedWith c closeProtocolError := by
  obtain ⟨fin, rsv, opcode, mask, fo, isf, ifc⟩ := f
  simp only [opContinuation, opText, opBinary, opClose, opPing, opPong] at hop
  obtain ⟨h0, h1, h2, h8, h9, h10⟩ := hop
  simp only [wsHandleFrame]
  cases hrc : rsvCheck c _ with
  | none => simp [refuse, HandleResult.refusedWith]
  | some comp =>
    simp only [fragStep, dispatchOpcode, opContinuation, opText, opBinary, opClose, opPing, opPong]
    cases fin <;> cases isf <;> simp [refuse, HandleResult.refusedWith, h0, h1, h2, h8, h9, h10] <;>
      (repeat' split) <;> simp_all <;> omega


example : (wsHandleFrame exampleConf { fin := true, opcode := 11, mask := true } []).actions =
    handleError exampleConf closeProtocolError := by decide

/-- a fragmented control frame (FIN = 0, opcode ≥ 8) → 1002 -/
theorem close_code_fragmented_control (c : Conf) (hx : c.extAccepted = false) (f : Flags) (hfin : f.fin = false)
    (hop : f.opcode ≥ opClose) (p : Bytes) :
    (wsHandleFrame c f p).refusedWith c closeProtocolError := by
  by_cases hr : f.rsv = 0
  · simp [wsHandleFrame, rsvCheck, hr, hfin, hop, refuse, HandleResult.refusedWith]
  · exact close_code_rsv c hx f hr p

example : (wsHandleFrame exampleConf { fin := false, opcode := opPing, mask := true } [1]).actions =
    handleError exampleConf closeProtocolError := by decide

/-- the dispatcher itself also refuses a ping or pong payload above 125 with 1002 -/
theorem close_code_ping_pong_too_long (c : Conf) (f : Flags) (hfin : f.fin = true) (hrsv : f.rsv = 0)
    (hop : f.opcode = opPing ∨ f.opcode = opPong) (p : Bytes) (hp : p.length > wsSmallFrameSize) :
    (wsHandleFrame c f p).refusedWith c closeProtocolError := by
  obtain ⟨fin, rsv, opcode, mask, fo, isf, ifc⟩ := f
  simp only at hfin hrsv hop
  subst hfin hrsv
  rcases hop with h | h <;> subst h <;>
    simp [wsHandleFrame, rsvCheck, fragStep, dispatchOpcode, refuse, HandleResult.refusedWith, hp,
      opPing, opPong, opClose, opBinary, opText, opContinuation]

example : (wsHandleFrame exampleConf { fin := true, opcode := opPong, mask := true } (List.replicate 126 0)).actions =
    handleError exampleConf closeProtocolError := by decide +kernel

/-- a close frame with a one byte payload → 1002 -/
theorem close_code_close_length_one (c : Conf) (f : Flags) (hfin : f.fin = true) (hrsv : f.rsv = 0)
    (hop : f.opcode = opClose) (b : UInt8) :
    (wsHandleFrame c f [b]).refusedWith c closeProtocolError := by
  obtain ⟨fin, rsv, opcode, mask, fo, isf, ifc⟩ := f
  simp only at hfin hrsv hop
  subst hfin hrsv hop
  simp [wsHandleFrame, rsvCheck, fragStep, dispatchOpcode, refuse, HandleResult.refusedWith,
    opPing, opPong, opClose, opBinary, opText, opContinuation]

example : (wsHandleFrame exampleConf { fin := true, opcode := opClose, mask := true } [3]).actions =
    handleError exampleConf closeProtocolError := by decide

/-- the valid status codes are exactly 1000-1003, 1007-1011 and 3000-4999 -/
theorem status_code_ranges (code : Nat) :
    isStatusCodeInvalid code = false ↔
      (1000 ≤ code ∧ code ≤ 1003) ∨ (1007 ≤ code ∧ code ≤ 1011) ∨ (3000 ≤ code ∧ code ≤ 4999) := by
  simp [isStatusCodeInvalid, validStatusRanges]
  omega

/-- a close frame carrying an invalid status code (reason absent or valid UTF-8) → 1002 -/
theorem close_code_invalid_status (c : Conf) (f : Flags) (hfin : f.fin = true) (hrsv : f.rsv = 0)
    (hop : f.opcode = opClose) (p : Bytes) (hlen : 2 ≤ p.length)
    (hutf : p.length > 2 → c.utf8Valid (p.drop 2) = true)
    (hbad : isStatusCodeInvalid (beVal (p.take 2)) = true) :
    (wsHandleFrame c f p).refusedWith c closeProtocolError := by
  obtain ⟨fin, rsv, opcode, mask, fo, isf, ifc⟩ := f
  simp only at hfin hrsv hop
  subst hfin hrsv hop
  have h2 : ¬ (p.length = 1) := by omega
  by_cases h3 : p.length > 2
  · simp [wsHandleFrame, rsvCheck, fragStep, dispatchOpcode, refuse, HandleResult.refusedWith,
      opPing, opPong, opClose, opBinary, opText, opContinuation, hlen, hutf h3, hbad, h3]
  · simp [wsHandleFrame, rsvCheck, fragStep, dispatchOpcode, refuse, HandleResult.refusedWith,
      opPing, opPong, opClose, opBinary, opText, opContinuation, hlen, hbad, h3]

example : (wsHandleFrame exampleConf { fin := true, opcode := opClose, mask := true } [0x03, 0xed]).actions =
    handleError exampleConf closeProtocolError ∧ isStatusCodeInvalid 1005 = true := by decide

/-- a close frame whose reason is not valid UTF-8 → 1007 -/
theorem close_code_invalid_utf8 (c : Conf) (f : Flags) (hfin : f.fin = true) (hrsv : f.rsv = 0)
    (hop : f.opcode = opClose) (p : Bytes) (hlen : p.length > 2) (hutf : c.utf8Valid (p.drop 2) = false) :
    (wsHandleFrame c f p).refusedWith c closeUnsupportedData := by
  obtain ⟨fin, rsv, opcode, mask, fo, isf, ifc⟩ := f
  simp only at hfin hrsv hop
  subst hfin hrsv hop
  simp [wsHandleFrame, rsvCheck, fragStep, dispatchOpcode, refuse, HandleResult.refusedWith,
    opPing, opPong, opClose, opBinary, opText, opContinuation, hlen, hutf]

example : (wsHandleFrame exampleConf { fin := true, opcode := opClose, mask := true } [0x03, 0xe8, 0xc0, 0x80]).actions =
    handleError exampleConf closeUnsupportedData := by decide

/-- a well-formed close frame (empty, or valid code + valid reason, at most 125 bytes) is answered by
    the close frame 1000, the connection is released and `close_received` gets the peer's code -/
theorem close_handshake (c : Conf) (f : Flags) (hfin : f.fin = true) (hrsv : f.rsv = 0)
    (hop : f.opcode = opClose) (p : Bytes) (hl1 : p.length ≠ 1) (hl : p.length ≤ wsSmallFrameSize)
    (hutf : p.length > 2 → c.utf8Valid (p.drop 2) = true)
    (hgood : p.length ≥ 2 → isStatusCodeInvalid (beVal (p.take 2)) = false) :
    (wsHandleFrame c f p).ret = .closed ∧
    (wsHandleFrame c f p).actions = websocketClose c closeNormal ++
      (match c.cbs.close with
       | some _ => [Action.closeReceived (if p.length ≥ 2 then beVal (p.take 2) else closeNormal)]
       | none => []) := by
  obtain ⟨fin, rsv, opcode, mask, fo, isf, ifc⟩ := f
  simp only at hfin hrsv hop
  subst hfin hrsv hop
  have hl' : ¬ (p.length > wsSmallFrameSize) := by omega
  by_cases h2 : p.length ≥ 2
  · by_cases h3 : p.length > 2
    · simp [wsHandleFrame, rsvCheck, fragStep, dispatchOpcode, hl1, hl', hutf h3, hgood h2, h2, h3,
        opPing, opPong, opClose, opBinary, opText, opContinuation]
      cases c.cbs.close <;> rfl
    · simp [wsHandleFrame, rsvCheck, fragStep, dispatchOpcode, hl1, hl', hgood h2, h2, h3,
        opPing, opPong, opClose, opBinary, opText, opContinuation]
      cases c.cbs.close <;> rfl
  · have h0 : p.length = 0 := by omega
    have hn : isStatusCodeInvalid closeNormal = false := by decide
    simp [wsHandleFrame, rsvCheck, fragStep, dispatchOpcode, h0, hn,
      opPing, opPong, opClose, opBinary, opText, opContinuation]
    cases c.cbs.close <;> rfl


example : (wsHandleFrame exampleConf { fin := true, opcode := opClose, mask := true } [0x03, 0xe9, 98, 121, 101]).actions =
    [Action.write true [0x88, 2, 0x03, 0xe8], Action.closeConn, Action.closeReceived 1001] := by decide

/-! ## The daemon's callback set (websocket_peer.c) -/

/-- the generated facts about `init_websocket_peer` agree with `daemonCallbacks` -/
theorem daemon_callback_set (parseOk : Bytes → Bool) :
    ((daemonCallbacks parseOk).textMessage.isSome, (daemonCallbacks parseOk).textFrame.isSome,
     (daemonCallbacks parseOk).binaryMessage.isSome, (daemonCallbacks parseOk).binaryFrame.isSome,
     (daemonCallbacks parseOk).ping.isSome, (daemonCallbacks parseOk).pong.isSome,
     (daemonCallbacks parseOk).close.isSome) =
    (daemonSets_text_message_received, daemonSets_text_frame_received, daemonSets_binary_message_received,
     daemonSets_binary_frame_received, daemonSets_ping_received, daemonSets_pong_received,
     daemonSets_close_received) := by
  rfl

/-- a binary message: the daemon has no binary handler → 1003 -/
theorem close_code_binary_message (c : Conf) (parseOk : Bytes → Bool) (hc : c.cbs = daemonCallbacks parseOk)
    (f : Flags) (hfin : f.fin = true) (hrsv : f.rsv = 0) (hop : f.opcode = opBinary) (hfr : f.isFragmented = false)
    (p : Bytes) :
    (wsHandleFrame c f p).refusedWith c closeUnsupported := by
  obtain ⟨fin, rsv, opcode, mask, fo, isf, ifc⟩ := f
  simp only at hfin hrsv hop hfr
  subst hfin hrsv hop hfr
  simp [wsHandleFrame, rsvCheck, fragStep, dispatchOpcode, refuse, HandleResult.refusedWith, hc, daemonCallbacks,
    opPing, opPong, opClose, opBinary, opText, opContinuation]

example : (wsHandleFrame exampleConf { fin := true, opcode := opBinary, mask := true } [1, 2]).actions =
    handleError exampleConf closeUnsupported := by decide

/-- a text message: the payload is handed to the JSON-RPC layer exactly once; if that layer accepts it
    the connection stays open and nothing is written by the WebSocket layer; if it rejects it the
    connection ends with close frame 1011 -/
theorem text_message_dispatch (c : Conf) (parseOk : Bytes → Bool) (hc : c.cbs = daemonCallbacks parseOk)
    (hs : c.isServer = true) (fl : Flags) (hm : fl.mask = true) (hfin : fl.fin = true) (hrsv : fl.rsv = 0)
    (hop : fl.opcode = opText) (hfr : fl.isFragmented = false) (p : Bytes) :
    (parseOk p = true →
      (frameOutcome c fl p).open_ = true ∧ (frameOutcome c fl p).actions = [Action.textMessage p]) ∧
    (parseOk p = false →
      (frameOutcome c fl p).open_ = false ∧
      (frameOutcome c fl p).actions = Action.textMessage p :: handleError c closeInternalError) := by
  obtain ⟨fin, rsv, opcode, mask, fo, isf, ifc⟩ := fl
  simp only at hfin hrsv hop hfr hm
  subst hfin hrsv hop hfr hm
  constructor <;> intro hp <;>
    simp [frameOutcome, hs, payloadResult, wsHandleFrame, rsvCheck, fragStep, dispatchOpcode, hc, daemonCallbacks, hp,
      opPing, opPong, opClose, opBinary, opText, opContinuation]

example : (frameOutcome exampleConf { fin := true, opcode := opText, mask := true } [123, 125]).actions = [Action.textMessage [123, 125]] ∧
    (frameOutcome exampleConf { fin := true, opcode := opText, mask := true } [63]).actions =
      Action.textMessage [63] :: handleError exampleConf closeInternalError := by decide

/-- **Fragmented data messages are processed or refused with a close frame — never anything else.**
    For every callback set: a fragment (FIN = 0 data frame, or a continuation frame) either reaches
    `text_frame_received` / `binary_frame_received` with its payload, or the only thing that happens is
    `handle_error` with 1002 (protocol) or 1003 (no fragment handler). -/
theorem data_fragments_processed_or_refused (c : Conf) (f : Flags)
    (hfrag : (f.fin = false ∧ f.opcode < opClose) ∨ f.opcode = opContinuation) (p : Bytes) :
    (∃ last, (wsHandleFrame c f p).actions.head? = some (Action.textFrame p last)) ∨
    (∃ last, (wsHandleFrame c f p).actions.head? = some (Action.binaryFrame p last)) ∨
    (wsHandleFrame c f p).refusedWith c closeProtocolError ∨
    (wsHandleFrame c f p).refusedWith c closeUnsupported := by
  rcases handleFrame_fragment c f hfrag p with h | ⟨f', h⟩ | ⟨f', h0, h⟩
  · rw [h]; exact fragOutcome_refuse1002 c p f
  · rw [h]; exact fragOutcome_refuse1002 c p f'
  · rw [h]; exact dispatch_continuation c f' p h0

example : (wsHandleFrame { exampleConf with cbs := fullCallbacks .ok } { fin := false, opcode := opText, mask := true } [104]).actions =
    [Action.textFrame [104] false] := by decide

/-- With the daemon's callback set (no fragment handlers) every fragment is refused with a close frame:
    1002 for a protocol error, 1003 otherwise. -/
theorem daemon_fragments_refused (c : Conf) (parseOk : Bytes → Bool) (hc : c.cbs = daemonCallbacks parseOk)
    (f : Flags) (hfrag : (f.fin = false ∧ f.opcode < opClose) ∨ f.opcode = opContinuation) (p : Bytes) :
    (wsHandleFrame c f p).refusedWith c closeProtocolError ∨
    (wsHandleFrame c f p).refusedWith c closeUnsupported := by
  rcases handleFrame_fragment c f hfrag p with h | ⟨f', h⟩ | ⟨f', h0, h⟩
  · rw [h]; exact Or.inl (refuse_refusedWith c f _)
  · rw [h]; exact Or.inl (refuse_refusedWith c f' _)
  · rw [h]; exact dispatch_continuation_nohandler c f' p h0 (by rw [hc]; rfl) (by rw [hc]; rfl)

example : (wsHandleFrame { cbs := daemonCallbacks (fun _ => true), utf8Valid := fun _ => true, bufSize := 512 }
    { fin := false, opcode := opText, mask := true } [104]).actions =
    [Action.write true [0x88, 2, 0x03, 0xeb], Action.closeConn, Action.onError] := by decide

/-! ## The upgrade decision -/

/-- **A valid upgrade is answered with 101 and the correct accept digest.**  For every request for a
    target the handler is registered for, with any headers in any order and number — provided every
    `Sec-WebSocket-Key` value has 24 bytes and every `Sec-WebSocket-Version` value is "13" (`hdrOk`) —
    GET, HTTP/1.1 or later, `Upgrade` + `Connection: Upgrade` (http-parser's `upgrade` flag), and a
    sub-protocol list that is absent or contains "jet": the one and only action is writing the 101
    response with `Sec-WebSocket-Accept: base64(sha1(key ++ GUID))` and `Sec-WebSocket-Protocol: jet`,
    and the connection is in frame mode afterwards. -/
theorem handshake_valid_101 (c : Conf) (hok : c.sendOk = true) (target path : Bytes)
    (hpre : target.isPrefixOf path = true) (hdrs : List (Bytes × Bytes)) (hall : ∀ x ∈ hdrs, hdrOk x)
    (major minor : Nat) (hver : major > 1 ∨ (major = 1 ∧ minor ≥ 1))
    (hproto : (hdrFold hsAfterRequestLine hdrs).protocolRequested = true → (hdrFold hsAfterRequestLine hdrs).found = true) :
    (Hs.run c target {} (reqEvents path hdrs httpGet major minor true)).1.phase = .upgraded ∧
    (Hs.run c target {} (reqEvents path hdrs httpGet major minor true)).2 =
      [Action.write true (switchResponse ++ Base64.encode (Sha1.sha1 (hdrFold hsAfterRequestLine hdrs).secKey) ++
        switchProtocol ++ subProtocol ++ switchEnd)] := by
  rw [run_valid_request c hok target path hpre hdrs hall major minor hver hproto]
  exact ⟨rfl, rfl⟩

/-- the digest is over the value of the last `Sec-WebSocket-Key` header followed by the GUID -/
theorem handshake_accept_key (pre post : List (Bytes × Bytes)) (n v : Bytes) (hk : hdrKind n = .key)
    (hpost : ∀ x ∈ post, hdrKind x.1 ≠ .key) :
    (hdrFold hsAfterRequestLine (pre ++ (n, v) :: post)).secKey = v ++ wsGuid :=
  hdrFold_secKey_last hsAfterRequestLine pre post n v hk hpost

/-- RFC 6455 §1.3 sample request, headers in another order and other letter case: 101 and
    `s3pPLMBiTxaQ9kYGzzhZRbK+xOo=` -/
example :
    (Hs.run exampleConf "/api/jet/".toUTF8.toList {}
      (reqEvents "/api/jet/".toUTF8.toList
        [("sec-websocket-VERSION".toUTF8.toList, "13".toUTF8.toList),
         ("Host".toUTF8.toList, "x".toUTF8.toList),
         ("Sec-WebSocket-Protocol".toUTF8.toList, "chat ,jet".toUTF8.toList),
         ("SEC-WEBSOCKET-KEY".toUTF8.toList, "dGhlIHNhbXBsZSBub25jZQ==".toUTF8.toList)] httpGet 1 1 true)).2 =
    [Action.write true (switchResponse ++ "s3pPLMBiTxaQ9kYGzzhZRbK+xOo=".toUTF8.toList ++ switchProtocol ++ subProtocol ++ switchEnd)] := by
  decide +kernel

/-- What the code does with requests the RFC tells a server to refuse: a key of the wrong length, a
    version other than 13, a sub-protocol list without "jet", a method other than GET, HTTP/1.0, a
    missing `Upgrade` → `400 Bad Request` and the connection is released; an unknown target → 404.
    (A request with *no* key or version header at all is still answered 101 — the digest is then over
    60 zero bytes; RFC 6455 §4.2.1 deviation, outside the property's statement.) -/
theorem handshake_refusals :
    let t := "/api/jet/".toUTF8.toList
    let bad := [Action.write true httpBadRequestResponse, Action.closeConn, Action.onError]
    let key := ("Sec-WebSocket-Key".toUTF8.toList, "dGhlIHNhbXBsZSBub25jZQ==".toUTF8.toList)
    (Hs.run exampleConf t {} (reqEvents t [("Sec-WebSocket-Key".toUTF8.toList, "short".toUTF8.toList)] httpGet 1 1 true)).2 = bad ∧
    (Hs.run exampleConf t {} (reqEvents t [key, ("Sec-WebSocket-Version".toUTF8.toList, "8".toUTF8.toList)] httpGet 1 1 true)).2 = bad ∧
    (Hs.run exampleConf t {} (reqEvents t [key, ("Sec-WebSocket-Protocol".toUTF8.toList, "chat, jetx".toUTF8.toList)] httpGet 1 1 true)).2 = bad ∧
    (Hs.run exampleConf t {} (reqEvents t [key] 3 1 1 true)).2 = bad ∧
    (Hs.run exampleConf t {} (reqEvents t [key] httpGet 1 0 true)).2 = bad ∧
    (Hs.run exampleConf t {} (reqEvents t [key] httpGet 1 1 false)).2 = bad ∧
    (Hs.run exampleConf t {} (reqEvents "/other".toUTF8.toList [key] httpGet 1 1 true)).2 =
      [Action.write true httpNotFoundResponse, Action.closeConn] ∧
    (Hs.run exampleConf t {} (reqEvents t [] httpGet 1 1 true)).2 =
      [Action.write true (upgradeResponse (List.replicate 60 0))] := by
  decide +kernel

/-! ## base64, SHA-1, the accept value -/

theorem base64_length (bs : Bytes) : (Base64.encode bs).length = 4 * ((bs.length + 2) / 3) :=
  Base64.encode_length bs

/-- the specification decoder (RFC 4648, canonical padding) inverts `b64_encode_buffer` on every input -/
theorem base64_decode_encode (bs : Bytes) : Base64.decode (Base64.encode bs) = some bs :=
  Base64.decode_encode bs

theorem sha1_length (msg : Bytes) : (Sha1.sha1 msg).length = sha1HashSize := by
  simp [Sha1.sha1, Sha1.be32, sha1HashSize]

/-- RFC 3174 test vectors 1 and 2 -/
theorem sha1_rfc3174_vectors :
    Sha1.sha1 "abc".toUTF8.toList =
      [0xA9, 0x99, 0x3E, 0x36, 0x47, 0x06, 0x81, 0x6A, 0xBA, 0x3E, 0x25, 0x71, 0x78, 0x50, 0xC2, 0x6C, 0x9C, 0xD0, 0xD8, 0x9D] ∧
    Sha1.sha1 "abcdbcdecdefdefgefghfghighijhijkijkljklmklmnlmnomnopnopq".toUTF8.toList =
      [0x84, 0x98, 0x3E, 0x44, 0x1C, 0x3B, 0xD2, 0x6E, 0xBA, 0xAE, 0x4A, 0xA1, 0xF9, 0x51, 0x29, 0xE5, 0xE5, 0x46, 0x70, 0xF1] := by
  decide +kernel

/-- the accept value always has the 28 characters `send_upgrade_response` reserves for it -/
theorem accept_value_length (secKey : Bytes) : (acceptValue secKey).length = acceptValueSize := by
  simp [acceptValue, base64_length, sha1_length, sha1HashSize, acceptValueSize]

/-- RFC 6455 §1.3 sample: key `dGhlIHNhbXBsZSBub25jZQ==` gives `s3pPLMBiTxaQ9kYGzzhZRbK+xOo=` -/
theorem accept_value_rfc6455_sample :
    acceptValue ("dGhlIHNhbXBsZSBub25jZQ==".toUTF8.toList ++ wsGuid) = "s3pPLMBiTxaQ9kYGzzhZRbK+xOo=".toUTF8.toList := by
  decide +kernel


end Cjet.Props.C12
