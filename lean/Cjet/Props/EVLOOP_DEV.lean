/-
  Development entry point for `./check evloop_dev` (the audit looks for Cjet/Props/<PID>.lean): the
  theorems of `Cjet.Props.Evloop`, restated so that this file lists them as obligations.
-/
import Cjet.Props.Evloop

namespace Cjet.Props.EVLOOP_DEV

theorem no_call_after_remove : type_of% @Cjet.Props.Evloop.no_call_after_remove := @Cjet.Props.Evloop.no_call_after_remove
theorem no_call_after_remove_monitor : type_of% @Cjet.Props.Evloop.no_call_after_remove_monitor := @Cjet.Props.Evloop.no_call_after_remove_monitor
theorem no_call_after_remove_across_batches : type_of% @Cjet.Props.Evloop.no_call_after_remove_across_batches := @Cjet.Props.Evloop.no_call_after_remove_across_batches
theorem no_call_after_remove_counterexample_before_fix : type_of% @Cjet.Props.Evloop.no_call_after_remove_counterexample_before_fix := @Cjet.Props.Evloop.no_call_after_remove_counterexample_before_fix
theorem error_mask_only_error_function : type_of% @Cjet.Props.Evloop.error_mask_only_error_function := @Cjet.Props.Evloop.error_mask_only_error_function
theorem error_mask_iff_foreign_bit : type_of% @Cjet.Props.Evloop.error_mask_iff_foreign_bit := @Cjet.Props.Evloop.error_mask_iff_foreign_bit
theorem error_mask_only_error_function_in_batch : type_of% @Cjet.Props.Evloop.error_mask_only_error_function_in_batch := @Cjet.Props.Evloop.error_mask_only_error_function_in_batch
theorem read_before_write : type_of% @Cjet.Props.Evloop.read_before_write := @Cjet.Props.Evloop.read_before_write
theorem at_most_one_call_per_function_per_event_entry : type_of% @Cjet.Props.Evloop.at_most_one_call_per_function_per_event_entry := @Cjet.Props.Evloop.at_most_one_call_per_function_per_event_entry
theorem calls_are_for_the_harvested_event : type_of% @Cjet.Props.Evloop.calls_are_for_the_harvested_event := @Cjet.Props.Evloop.calls_are_for_the_harvested_event
theorem others_undisturbed : type_of% @Cjet.Props.Evloop.others_undisturbed := @Cjet.Props.Evloop.others_undisturbed
theorem every_entry_gets_its_turn : type_of% @Cjet.Props.Evloop.every_entry_gets_its_turn := @Cjet.Props.Evloop.every_entry_gets_its_turn
theorem abort_stops_everything : type_of% @Cjet.Props.Evloop.abort_stops_everything := @Cjet.Props.Evloop.abort_stops_everything
theorem abort_stops_dispatch : type_of% @Cjet.Props.Evloop.abort_stops_dispatch := @Cjet.Props.Evloop.abort_stops_dispatch
theorem eintr_continues : type_of% @Cjet.Props.Evloop.eintr_continues := @Cjet.Props.Evloop.eintr_continues
theorem wait_error_aborts : type_of% @Cjet.Props.Evloop.wait_error_aborts := @Cjet.Props.Evloop.wait_error_aborts
theorem go_ahead_cleared_returns_zero : type_of% @Cjet.Props.Evloop.go_ahead_cleared_returns_zero := @Cjet.Props.Evloop.go_ahead_cleared_returns_zero
theorem pending_cleared_between_batches : type_of% @Cjet.Props.Evloop.pending_cleared_between_batches := @Cjet.Props.Evloop.pending_cleared_between_batches
theorem remove_outside_dispatch_touches_no_array : type_of% @Cjet.Props.Evloop.remove_outside_dispatch_touches_no_array := @Cjet.Props.Evloop.remove_outside_dispatch_touches_no_array
theorem add_failure_changes_nothing : type_of% @Cjet.Props.Evloop.add_failure_changes_nothing := @Cjet.Props.Evloop.add_failure_changes_nothing

end Cjet.Props.EVLOOP_DEV
