import Cjet.Props.Accept
/-!
Audit entry for the stand-alone check `./check accept_dev` (vlib/props/accept_dev.py): every theorem of
`Cjet.Props.Accept`, restated, so that the audit of this module lists and `#print axioms`-checks them.
-/
namespace Cjet.Props.ACCEPT_DEV

theorem fd_closed_or_owned_exactly_once : type_of% @Cjet.Props.Accept.fd_closed_or_owned_exactly_once := @Cjet.Props.Accept.fd_closed_or_owned_exactly_once
theorem fd_discipline_monitor : type_of% @Cjet.Props.Accept.fd_discipline_monitor := @Cjet.Props.Accept.fd_discipline_monitor
theorem no_leak_of_peer_or_bs : type_of% @Cjet.Props.Accept.no_leak_of_peer_or_bs := @Cjet.Props.Accept.no_leak_of_peer_or_bs
theorem init_failure_releases_both : type_of% @Cjet.Props.Accept.init_failure_releases_both := @Cjet.Props.Accept.init_failure_releases_both
theorem fatal_class_exact : type_of% @Cjet.Props.Accept.fatal_class_exact := @Cjet.Props.Accept.fatal_class_exact
theorem retry_class_exact : type_of% @Cjet.Props.Accept.retry_class_exact := @Cjet.Props.Accept.retry_class_exact
theorem transient_errnos_not_fatal : type_of% @Cjet.Props.Accept.transient_errnos_not_fatal := @Cjet.Props.Accept.transient_errnos_not_fatal
theorem abort_only_on_fatal : type_of% @Cjet.Props.Accept.abort_only_on_fatal := @Cjet.Props.Accept.abort_only_on_fatal
theorem listener_survives_transient : type_of% @Cjet.Props.Accept.listener_survives_transient := @Cjet.Props.Accept.listener_survives_transient
theorem retry_class_continues_accepting : type_of% @Cjet.Props.Accept.retry_class_continues_accepting := @Cjet.Props.Accept.retry_class_continues_accepting
theorem loop_terminates_when_queue_drains : type_of% @Cjet.Props.Accept.loop_terminates_when_queue_drains := @Cjet.Props.Accept.loop_terminates_when_queue_drains
theorem endless_retry_never_returns : type_of% @Cjet.Props.Accept.endless_retry_never_returns := @Cjet.Props.Accept.endless_retry_never_returns
theorem start_server_unwinds : type_of% @Cjet.Props.Accept.start_server_unwinds := @Cjet.Props.Accept.start_server_unwinds
theorem stop_server_closes_listener : type_of% @Cjet.Props.Accept.stop_server_closes_listener := @Cjet.Props.Accept.stop_server_closes_listener
theorem local_bit_exact : type_of% @Cjet.Props.Accept.local_bit_exact := @Cjet.Props.Accept.local_bit_exact
theorem local_bit_other_families : type_of% @Cjet.Props.Accept.local_bit_other_families := @Cjet.Props.Accept.local_bit_other_families
theorem local_bit_unix_unnamed : type_of% @Cjet.Props.Accept.local_bit_unix_unnamed := @Cjet.Props.Accept.local_bit_unix_unnamed
theorem local_bit_unix_pathname : type_of% @Cjet.Props.Accept.local_bit_unix_pathname := @Cjet.Props.Accept.local_bit_unix_pathname
theorem local_bit_unix_abstract_can_be_local : type_of% @Cjet.Props.Accept.local_bit_unix_abstract_can_be_local := @Cjet.Props.Accept.local_bit_unix_abstract_can_be_local

end Cjet.Props.ACCEPT_DEV
