import Cjet.Props.Startup
/-!
Audit entry for the stand-alone check `./check startup_dev` (vlib/props/startup_dev.py): every theorem of
`Cjet.Props.Startup`, restated, so that the audit of this module lists and `#print axioms`-checks them.
-/
namespace Cjet.Props.STARTUP_DEV

theorem startup_releases_all_listeners : type_of% @Cjet.Props.Startup.startup_releases_all_listeners := @Cjet.Props.Startup.startup_releases_all_listeners
theorem startup_failure_releases_all : type_of% @Cjet.Props.Startup.startup_failure_releases_all := @Cjet.Props.Startup.startup_failure_releases_all
theorem signals_restored : type_of% @Cjet.Props.Startup.signals_restored := @Cjet.Props.Startup.signals_restored
theorem startup_failure_releases_all_partial : type_of% @Cjet.Props.Startup.startup_failure_releases_all_partial := @Cjet.Props.Startup.startup_failure_releases_all_partial
theorem startup_failure_releases_all_counterexample : type_of% @Cjet.Props.Startup.startup_failure_releases_all_counterexample := @Cjet.Props.Startup.startup_failure_releases_all_counterexample
theorem startup_failure_leaks_peer_when_daemon_fails : type_of% @Cjet.Props.Startup.startup_failure_leaks_peer_when_daemon_fails := @Cjet.Props.Startup.startup_failure_leaks_peer_when_daemon_fails
theorem signals_restored_counterexample : type_of% @Cjet.Props.Startup.signals_restored_counterexample := @Cjet.Props.Startup.signals_restored_counterexample
theorem remove_before_close : type_of% @Cjet.Props.Startup.remove_before_close := @Cjet.Props.Startup.remove_before_close
theorem no_use_after_close : type_of% @Cjet.Props.Startup.no_use_after_close := @Cjet.Props.Startup.no_use_after_close
theorem startup_success_owns_exactly : type_of% @Cjet.Props.Startup.startup_success_owns_exactly := @Cjet.Props.Startup.startup_success_owns_exactly
theorem success_implies_all_up : type_of% @Cjet.Props.Startup.success_implies_all_up := @Cjet.Props.Startup.success_implies_all_up
theorem shutdown_releases_all : type_of% @Cjet.Props.Startup.shutdown_releases_all := @Cjet.Props.Startup.shutdown_releases_all
theorem shutdown_order : type_of% @Cjet.Props.Startup.shutdown_order := @Cjet.Props.Startup.shutdown_order
theorem unix_path_unlinked : type_of% @Cjet.Props.Startup.unix_path_unlinked := @Cjet.Props.Startup.unix_path_unlinked
theorem error_reported : type_of% @Cjet.Props.Startup.error_reported := @Cjet.Props.Startup.error_reported
theorem goto_ladders_audit : type_of% @Cjet.Props.Startup.goto_ladders_audit := @Cjet.Props.Startup.goto_ladders_audit

end Cjet.Props.STARTUP_DEV
