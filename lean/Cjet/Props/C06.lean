/-
  C06 — "No input on any endpoint can crash the daemon or corrupt memory".

  Lean cannot prove memory safety of C.  What the proof side carries is the index arithmetic at every
  place where cjet indexes a fixed buffer or calls through a table, as theorems over the component
  models (each tied to the real code by its own correspondence harness); the rest of the property is
  decided by search on the assembled daemon under ASan/UBSan (vlib/props/c06.py).  The theorems below
  are the anchors of properties.jsonl, restated from the component property files so that this file
  lists the obligations C06 relies on; `log_*` are proved here.
-/
import Cjet.Log
import Cjet.Props.C09
import Cjet.Props.C10
import Cjet.Props.C12
import Cjet.Props.C16
import Cjet.Props.C17
import Cjet.Props.C18
import Cjet.Props.Evloop
import Cjet.Props.Cjson

namespace Cjet.Props.C06

open Cjet.Log Cjet.Generated.Log

/-! ### fixed-size log line assembled from the client-chosen peer name (peer.c) -/

/-- For every peer name length the message part is written inside the log buffer (repaired code). -/
theorem log_prefix_le_size (nameLen : Nat) : inBounds true logBufferSize nameLen = true := by
  unfold inBounds remaining writePos snprintfRet logBufferSize
  simp only [ite_true]
  have h : min (nameLen + 2) (100 - 1) ≤ 100 := by omega
  simp only [h, ite_true]
  simp only [decide_eq_true_eq]
  omega

/-- Before the repair a name of 99 bytes or more put the write position outside the buffer (F2). -/
theorem log_prefix_counterexample_before_fix : inBounds false logBufferSize 250 = false := by decide

example : inBounds true logBufferSize 250 = true := by decide

/-! ### length-prefixed reader bounded by the fixed read buffer (buffered_socket.c, socket_peer.c) -/

theorem reader_ptrs_in_bounds : type_of% @Cjet.Props.C09.ptrs_in_bounds := @Cjet.Props.C09.ptrs_in_bounds
theorem reader_too_long_closes : type_of% @Cjet.Props.C09.raw_too_long_closes := @Cjet.Props.C09.raw_too_long_closes
/-- the JSON parser is handed exactly the message's own bytes -/
theorem parser_gets_own_bytes_only : type_of% @Cjet.Props.C09.own_bytes_only := @Cjet.Props.C09.own_bytes_only
theorem line_reader_full_buffer_errors : type_of% @Cjet.Props.C09.line_full_buffer_errors := @Cjet.Props.C09.line_full_buffer_errors

/-! ### write buffer (buffered_socket.c) -/

theorem writer_fill_le_cap : type_of% @Cjet.Props.C10.fill_le_config := @Cjet.Props.C10.fill_le_config
theorem writer_copy_in_bounds : type_of% @Cjet.Props.C10.copy_in_bounds := @Cjet.Props.C10.copy_in_bounds

/-! ### matcher array sized from one count, filled by another loop (fetch.c) -/

theorem matchers_filled : type_of% @Cjet.Matcher.matchers_filled := @Cjet.Matcher.matchers_filled
theorem matcher_fill_index_lt : type_of% @Cjet.Matcher.fill_index_lt := @Cjet.Matcher.fill_index_lt
theorem state_matches_no_fault : type_of% @Cjet.Matcher.state_matches_no_fault := @Cjet.Matcher.state_matches_no_fault

/-! ### frame callbacks invoked through function pointers the daemon leaves unset (websocket.c) -/

theorem ws_fragments_never_call_unset : type_of% @Cjet.Props.C12.daemon_fragments_refused := @Cjet.Props.C12.daemon_fragments_refused
theorem ws_binary_never_calls_unset : type_of% @Cjet.Props.C12.close_code_binary_message := @Cjet.Props.C12.close_code_binary_message
theorem ws_invalid_header_refused : type_of% @Cjet.Props.C12.header_invalid_refused := @Cjet.Props.C12.header_invalid_refused
theorem ws_oversize_payload_refused : type_of% @Cjet.Props.C12.oversize_payload_error_handler := @Cjet.Props.C12.oversize_payload_error_handler
theorem ws_unmask_is_bytewise : type_of% @Cjet.Props.C12.unmask_fast_eq_bytewise := @Cjet.Props.C12.unmask_fast_eq_bytewise

/-! ### hash table accesses stay inside the table for every operation sequence (hashtable.h) -/

theorem table_wf_run : type_of% @Cjet.Props.C17.wf_run := @Cjet.Props.C17.wf_run

/-! ### UTF-8 validation of close reasons never depends on how the bytes are presented (utf8_checker.c) -/

theorem utf8_entry_points_preserve_ok : type_of% @Cjet.Utf8.entry_points_preserve_ok := @Cjet.Utf8.entry_points_preserve_ok

/-! ### epoll dispatcher never calls through an io_event that a callback of the same batch removed (and normally freed) (eventloop_epoll.c) -/

theorem evloop_no_call_after_remove : type_of% @Cjet.Props.Evloop.no_call_after_remove := @Cjet.Props.Evloop.no_call_after_remove
theorem evloop_no_call_after_remove_across_batches : type_of% @Cjet.Props.Evloop.no_call_after_remove_across_batches := @Cjet.Props.Evloop.no_call_after_remove_across_batches
theorem evloop_use_after_remove_before_fix : type_of% @Cjet.Props.Evloop.no_call_after_remove_counterexample_before_fix := @Cjet.Props.Evloop.no_call_after_remove_counterexample_before_fix
theorem evloop_calls_are_for_the_harvested_event : type_of% @Cjet.Props.Evloop.calls_are_for_the_harvested_event := @Cjet.Props.Evloop.calls_are_for_the_harvested_event
theorem evloop_pending_cleared_between_batches : type_of% @Cjet.Props.Evloop.pending_cleared_between_batches := @Cjet.Props.Evloop.pending_cleared_between_batches
theorem evloop_remove_outside_dispatch_touches_no_array : type_of% @Cjet.Props.Evloop.remove_outside_dispatch_touches_no_array := @Cjet.Props.Evloop.remove_outside_dispatch_touches_no_array

/-! ### JSON text layer (vendored cJSON.c): for every byte string the parser reads only below the length it was given, parse_string writes within its allocation, recursion is bounded by the nesting limit -/

theorem json_parse_reads_in_bounds : type_of% @Cjet.Props.Cjson.parse_reads_in_bounds := @Cjet.Props.Cjson.parse_reads_in_bounds
theorem json_parse_reads_in_bounds_as_built : type_of% @Cjet.Props.Cjson.parse_reads_in_bounds_as_built := @Cjet.Props.Cjson.parse_reads_in_bounds_as_built
theorem json_parse_overread_before_fix : type_of% @Cjet.Props.Cjson.parse_reads_in_bounds_counterexample_before_fix := @Cjet.Props.Cjson.parse_reads_in_bounds_counterexample_before_fix
theorem json_parse_string_reads_in_bounds : type_of% @Cjet.Props.Cjson.parse_string_reads_in_bounds := @Cjet.Props.Cjson.parse_string_reads_in_bounds
theorem json_parse_hex4_reads_in_bounds : type_of% @Cjet.Props.Cjson.parse_hex4_reads_in_bounds := @Cjet.Props.Cjson.parse_hex4_reads_in_bounds
theorem json_parse_end_in_bounds : type_of% @Cjet.Props.Cjson.parse_end_in_bounds := @Cjet.Props.Cjson.parse_end_in_bounds
theorem json_parse_string_writes_in_bounds : type_of% @Cjet.Props.Cjson.parse_string_writes_in_bounds := @Cjet.Props.Cjson.parse_string_writes_in_bounds
theorem json_parse_total : type_of% @Cjet.Props.Cjson.parse_total := @Cjet.Props.Cjson.parse_total
theorem json_nesting_bounded : type_of% @Cjet.Props.Cjson.nesting_bounded := @Cjet.Props.Cjson.nesting_bounded

end Cjet.Props.C06
