import Cjet.Lemmas.DaemonC07Own
import Cjet.Lemmas.Alloc
import Cjet.Props.Accept
import Cjet.Props.Startup
/-!
# C07 — all memory, descriptors and timers are reclaimed

Part A: theorems about the daemon model `Cjet.Daemon` (`step` / `run`).

Vocabulary
* a run `run cfg { users := us } ops` returns the final state and one observation list per
  operation; `(…).2.flatten` is the history, oldest observation first;
* `armed h` / `destroyed h` — the timer ids of the `timerArm` / `timerDestroy` observations of `h`,
  in order (with repetitions, if there were any);
* `s.nextTimer` — the number of timers created so far (`cjet_timer_init` of `set_or_call`): timer
  ids are handed out consecutively, so "created" is `t < s.nextTimer`;
* `heldTimers s` — the `timer` fields of the routing entries stored in the peers' tables;
* `C05.Reachable cfg s` — `s` is reached from an initial state (any user table) by some operations;
* `termOps s orc` — SIGTERM's `destroy_all_peers`: one teardown per peer, in peer-list order.

Assumed where stated (`OpOk`, `runWeight ops < 2^32`, both from C03): the `%p` token of every
connecting peer is non-empty and has no `_`, and the 32-bit id counter of the router has not
wrapped.  They make the routed ids pairwise distinct; without distinct ids a reply removes EVERY
entry with that id from the table but destroys one timer (see `docs/C07-proofs.md`).
-/

namespace Cjet.Props.C07

open Cjet Cjet.Json Cjet.Daemon Cjet.Daemon.C07
open Cjet.Daemon.C03 (destroyed OpOk runWeight opWeight)

/-! ## a concrete history for the non-vacuity examples
  peer 1 owns state "a"; peer 2 has two `set` requests in flight to it; the first is answered. -/

def exNum (i : Int) : Json := .num ⟨0, i⟩
def exReq (method : String) (id : Int) (params : List (Bytes × Json)) : Json :=
  .obj [(k "method", mkStr method), (k "id", exNum id), (k "params", .obj params)]
def exOps : List Op :=
  [.connect 1 false true (k "0x1"), .connect 2 false true (k "0x2"),
   .message 1 (some (exReq "add" 1 [(k "path", mkStr "a"), (k "value", exNum 1)])) {},
   .message 2 (some (exReq "fetch" 2 [(k "id", mkStr "f")])) {},
   .message 2 (some (exReq "set" 3 [(k "path", mkStr "a"), (k "value", exNum 2)])) {},
   .message 2 (some (exReq "set" 4 [(k "path", mkStr "a"), (k "value", exNum 3)])) {},
   .message 1 (some (.obj [(k "id", .str (routedId (some (exNum 3)) 0 (k "0x2"))), (k "result", .bool true)])) {}]
def exRun : State × List (List Obs) := run {} {} exOps

example : heldTimers exRun.1 = [1] ∧ exRun.1.nextTimer = 2 ∧
    armed exRun.2.flatten = [0, 1] ∧ destroyed exRun.2.flatten = [0] := by decide +kernel

example : (∀ op ∈ exOps, OpOk op) ∧ runWeight exOps < 4294967296 := by decide +kernel

/-! ## 1. the timer ledger -/

/-- No timer is destroyed twice, over the whole history of any run. -/
theorem no_double_destroy (cfg : Config) (us : List User) (ops : List Op) :
    (destroyed (run cfg { users := us } ops).2.flatten).Nodup := by
  have h := (ledgerU_run cfg ops _ [] (ledgerU_init us)).d.once
  simp only [C03.rsS, List.append_nil, destroyed_tlog] at h
  exact nodup_of_reverse h

/-- No timer is armed twice. -/
theorem no_double_arm (cfg : Config) (us : List User) (ops : List Op) :
    (armed (run cfg { users := us } ops).2.flatten).Nodup := by
  have h := (ledgerU_run cfg ops _ [] (ledgerU_init us)).a.armedOnce
  simp only [C03.rsS, List.append_nil, armed_tlog] at h
  exact nodup_of_reverse h

/-- Every destroyed timer had been created, and no stored routing entry still carries it
    (nothing refers to a destroyed timer). -/
theorem destroyed_were_created (cfg : Config) (us : List User) (ops : List Op) :
    let r := run cfg { users := us } ops
    ∀ t ∈ destroyed r.2.flatten, t < r.1.nextTimer ∧ t ∉ heldTimers r.1 := by
  intro r t ht
  have h := (ledgerU_run cfg ops _ [] (ledgerU_init us)).d.dead t
    (by simp only [C03.rsS, List.append_nil, destroyed_tlog]; exact List.mem_reverse.mpr ht)
  refine ⟨h.1, fun hm => ?_⟩
  obtain ⟨r', hr', e⟩ := (mem_heldTimers _).mp hm
  exact h.2 r' hr' e

/-- Every armed timer had been created. -/
theorem armed_were_created (cfg : Config) (us : List User) (ops : List Op) :
    let r := run cfg { users := us } ops
    ∀ t ∈ armed r.2.flatten, t < r.1.nextTimer := by
  intro r t ht
  exact (ledgerU_run cfg ops _ [] (ledgerU_init us)).a.armedLt t
    (by simp only [C03.rsS, List.append_nil, armed_tlog]; exact List.mem_reverse.mpr ht)

/-- A timer is never created silently: the created timers are exactly those that were armed or
    destroyed (a timer whose table insertion is refused is destroyed without having been armed). -/
theorem created_iff_observed (cfg : Config) (us : List User) (ops : List Op) :
    let r := run cfg { users := us } ops
    ∀ t, t < r.1.nextTimer ↔ (t ∈ armed r.2.flatten ∨ t ∈ destroyed r.2.flatten) := by
  intro r t
  have hU := ledgerU_run cfg ops _ [] (ledgerU_init us)
  constructor
  · intro ht
    have := hU.a.seen t ht
    simpa only [C03.rsS, List.append_nil, armed_tlog, destroyed_tlog, List.mem_reverse] using this
  · rintro (h | h)
    · exact armed_were_created cfg us ops t h
    · exact (destroyed_were_created cfg us ops t h).1

/-- Every stored routing entry carries its own timer (no two entries share one), and that timer
    has been created and armed and not destroyed. -/
theorem held_timers_live (cfg : Config) (us : List User) (ops : List Op) :
    let r := run cfg { users := us } ops
    (heldTimers r.1).Nodup ∧
    ∀ t ∈ heldTimers r.1, t < r.1.nextTimer ∧ t ∈ armed r.2.flatten ∧ t ∉ destroyed r.2.flatten := by
  intro r
  have hU := ledgerU_run cfg ops _ [] (ledgerU_init us)
  refine ⟨by rw [heldTimers_eq _ []]; exact hU.wf.timers, ?_⟩
  intro t ht
  obtain ⟨r', hr', e⟩ := (mem_heldTimers []).mp ht
  refine ⟨e ▸ hU.wf.timerLt r' hr', ?_, fun hd => (destroyed_were_created cfg us ops t hd).2 ht⟩
  have := hU.a.heldArmed r' (by simpa [C03.rsS] using hr')
  simp only [C03.rsS, List.append_nil, armed_tlog, List.mem_reverse] at this
  exact e ▸ this

/-- `timer_ledger`: at every point of every run, the timers that have been created (armed, or merely
    created) and not yet destroyed are exactly the timers of the routing entries stored in the
    peers' tables.  Together with `held_timers_live` (each such timer is held by exactly one
    entry): no timer is leaked and none is released while an entry still needs it.
    The direction "a created timer that is not destroyed is held by an entry" needs distinct routed
    ids (`OpOk`, no wrap of the id counter). -/
theorem timer_ledger (cfg : Config) (us : List User) (ops : List Op)
    (hok : ∀ op ∈ ops, OpOk op) (hb : runWeight ops < 4294967296) :
    let r := run cfg { users := us } ops
    ∀ t, t ∈ heldTimers r.1 ↔ (t < r.1.nextTimer ∧ t ∉ destroyed r.2.flatten) := by
  intro r t
  constructor
  · intro ht
    have := (held_timers_live cfg us ops).2 t ht
    exact ⟨this.1, this.2.2⟩
  · rintro ⟨h1, h2⟩
    have hC := (ledgerC_run cfg ops _ [] (ledgerC_init us) hok (by simpa using hb)).1
    rcases hC.acct t h1 with hd | hh
    · simp only [C03.rsS, List.append_nil, destroyed_tlog, List.mem_reverse] at hd
      exact absurd hd h2
    · exact (mem_heldTimers _).mpr hh

example : ∀ t, t ∈ heldTimers exRun.1 ↔ (t < exRun.1.nextTimer ∧ t ∉ destroyed exRun.2.flatten) :=
  timer_ledger {} [] exOps (by decide +kernel) (by decide +kernel)

/-- Why `timer_ledger` needs distinct routed ids — a counterexample ON THE MODEL with address tokens
    that `%p` never prints: requesters 2 and 3 have the tokens `1_zz` and `zz`; their requests with
    the ids `"q"` and `"q_0"` get the same routed id `q_0_1_z` (counter values 0 and 1).  The
    owner's reply removes BOTH entries from its table (`HASHTABLE_REMOVE` by key; the model filters
    by id) but destroys only the first entry's timer: timer 1 is created, not destroyed, and held
    by no entry. -/
def cexReq (method : String) (id : String) (params : List (Bytes × Json)) : Json :=
  .obj [(k "method", mkStr method), (k "id", mkStr id), (k "params", .obj params)]
def cexOps : List Op :=
  [.connect 1 false true (k "0x1"), .connect 2 false true (k "1_zz"), .connect 3 false true (k "zz"),
   .message 1 (some (cexReq "add" "a" [(k "path", mkStr "a"), (k "value", exNum 1)])) {},
   .message 2 (some (cexReq "set" "q" [(k "path", mkStr "a"), (k "value", exNum 2)])) {},
   .message 3 (some (cexReq "set" "q_0" [(k "path", mkStr "a"), (k "value", exNum 3)])) {},
   .message 1 (some (.obj [(k "id", mkStr "q_0_1_z"), (k "result", .bool true)])) {}]

theorem timer_ledger_counterexample :
    let r := run {} {} cexOps
    (1 < r.1.nextTimer ∧ 1 ∉ destroyed r.2.flatten ∧ 1 ∉ heldTimers r.1) ∧ ¬ (∀ op ∈ cexOps, OpOk op) := by
  decide +kernel

/-! ## 2. the idle baseline -/

/-- `baseline_when_no_peers`: a reachable state without peers has an empty path index and holds no
    element, no fetch, no routing entry and no timer. -/
theorem baseline_when_no_peers (cfg : Config) (s : State) (hr : C05.Reachable cfg s) (h : s.peers = []) :
    s.index = [] ∧ s.peers.flatMap (·.elements) = [] ∧ s.peers.flatMap (·.fetches) = [] ∧
    s.peers.flatMap (·.routes) = [] ∧ heldTimers s = [] :=
  ⟨index_nil_of_no_peers hr.inv h, by simp [h], by simp [h], by simp [h], heldTimers_nil_of_no_peers h⟩

example : C05.Reachable {} (run {} exRun.1 (termOps exRun.1 (fun _ => {}))).1 ∧
    (run {} exRun.1 (termOps exRun.1 (fun _ => {}))).1.peers = [] :=
  ⟨(C05.Reachable.run ⟨[], exOps, rfl⟩ _), by decide +kernel⟩

/-- … and every timer ever created has been destroyed, exactly once. -/
theorem baseline_timers (cfg : Config) (us : List User) (ops : List Op)
    (hok : ∀ op ∈ ops, OpOk op) (hb : runWeight ops < 4294967296) :
    let r := run cfg { users := us } ops
    r.1.peers = [] → ∀ t, t < r.1.nextTimer → (destroyed r.2.flatten).count t = 1 := by
  intro r hp t ht
  have hmem : t ∈ destroyed r.2.flatten := by
    apply Classical.byContradiction
    intro hn
    have := (timer_ledger cfg us ops hok hb t).mpr ⟨ht, hn⟩
    rw [heldTimers_nil_of_no_peers hp] at this
    cases this
  exact count_eq_one (no_double_destroy cfg us ops) hmem

/-- `disconnect_all_reaches_baseline`: from any reachable state, disconnecting a list of
    connections that covers every live one — in any order, repetitions and dead connections
    allowed, whatever the send results — leaves no peer and an empty index. -/
theorem disconnect_all_reaches_baseline (cfg : Config) (s : State) (hr : C05.Reachable cfg s)
    (ds : List (Nat × Oracle)) (hcov : ∀ p ∈ s.peers, p.conn ∈ ds.map (·.1)) :
    let s' := (run cfg s (ds.map (fun d => Op.disconnect d.1 d.2))).1
    s'.peers = [] ∧ s'.index = [] := by
  intro s'
  have hp : s'.peers = [] := disconnect_all cfg ds hr.inv (fun c hc => by
    obtain ⟨p, hp, rfl⟩ := C05.mem_conns.mp hc
    exact hcov p hp)
  exact ⟨hp, index_nil_of_no_peers (hr.run _).inv hp⟩

example : ∀ p ∈ exRun.1.peers, p.conn ∈ ([(2, ({} : Oracle)), (7, {}), (1, {})].map (·.1)) := by
  decide +kernel

/-- `term_releases_all`: SIGTERM at any point of any run — `destroy_all_peers`, one teardown per
    peer in peer-list order, whatever the send results — leaves no peer, an empty index, no element,
    fetch or routing entry, and every timer created during the whole history destroyed exactly once. -/
theorem term_releases_all (cfg : Config) (us : List User) (ops : List Op) (orc : Nat → Oracle)
    (hok : ∀ op ∈ ops, OpOk op) (hb : runWeight ops < 4294967296) :
    let s := (run cfg { users := us } ops).1
    let r := run cfg { users := us } (ops ++ termOps s orc)
    r.1.peers = [] ∧ r.1.index = [] ∧ heldTimers r.1 = [] ∧
    ∀ t, t < r.1.nextTimer → (destroyed r.2.flatten).count t = 1 := by
  intro s r
  have hreach : C05.Reachable cfg s := ⟨us, ops, rfl⟩
  have hp : r.1.peers = [] := by
    show (run cfg { users := us } (ops ++ termOps s orc)).1.peers = []
    rw [C05.run_append]
    exact term_peers_nil cfg hreach.inv orc
  have hok' : ∀ op ∈ ops ++ termOps s orc, OpOk op := by
    intro op hop
    rcases List.mem_append.mp hop with h | h
    · exact hok op h
    · obtain ⟨p, _, rfl⟩ := List.mem_map.mp h
      trivial
  have hw : runWeight (ops ++ termOps s orc) = runWeight ops := by
    have : runWeight (termOps s orc) = 0 := by
      unfold runWeight termOps
      rw [List.map_map]
      apply sum_eq_zero_of_all
      intro n hn
      obtain ⟨p, _, rfl⟩ := List.mem_map.mp hn
      rfl
    simp only [runWeight, List.map_append, List.sum_append] at this ⊢
    omega
  refine ⟨hp, index_nil_of_no_peers (C05.Reachable.inv ⟨us, _, rfl⟩) hp, heldTimers_nil_of_no_peers hp, ?_⟩
  exact baseline_timers cfg us _ hok' (by rw [hw]; exact hb) hp

example : let r := run {} {} (exOps ++ termOps exRun.1 (fun _ => {}))
    r.1.nextTimer = 2 ∧ destroyed r.2.flatten = [0, 1] := by decide +kernel

/-! ## 3. ownership: every object has exactly one owner; a teardown releases exactly the leaver's -/

/-- `objects_owned_once`: in every reachable state every element is in exactly one peer's list
    (paths pairwise different over all lists) and has exactly one index entry, every fetch is in
    exactly one peer's list (uids pairwise different), every routing entry is in exactly one table —
    the one of the peer it names as owner — and carries its own timer. -/
theorem objects_owned_once (cfg : Config) (us : List User) (ops : List Op) :
    let s := (run cfg { users := us } ops).1
    (elemPaths s).Nodup ∧ (s.index.map (·.1)).Perm (elemPaths s) ∧
    (fetchUids s).Nodup ∧
    (heldTimers s).Nodup ∧ (∀ p ∈ s.peers, ∀ r ∈ p.routes, r.owner = p.conn) ∧
    (∀ p ∈ s.peers, ∀ e ∈ p.elements, e.owner = p.conn) := by
  intro s
  have h5 : C05.Inv s := C05.run_inv (C05.inv_init us) ops
  have h1 : C01.Inv cfg s := by
    obtain ⟨tr, h, _⟩ := C01.run_exec (cfg := cfg) ops (C01.inv_init cfg us)
    exact h.inv (C01.inv_init cfg us)
  exact ⟨elemPaths_nodup h5, index_perm_elemPaths h5, fetchUids_nodup h1,
    (held_timers_live cfg us ops).1, fun p hp r hr => (h5.routes p hp r hr).1, h5.owner⟩

/-- `close_releases_exactly`: a closing step (`C05.Closes`: a `disconnect c`, or a message of `c`
    the daemon rejects; `x` is the working context when `free_peer_resources` starts, `x.st = s` for
    a disconnect) takes away, as multisets, exactly: the elements and fetches of the leaving peer's
    own lists, the routing entries of its own table and its own requests in the other tables
    (`requestedBy`), with their timers — which are exactly the timers the teardown destroys — and the
    leaver's index entries.  Every other object is still there, once. -/
theorem close_releases_exactly (cfg : Config) (s : State) (hr : C05.Reachable cfg s) (op : Op) (c : Nat)
    (x : Ctx) (hx : C05.Closes cfg s op c x) (p : Peer) (hp : findPeer x.st.peers c = some p) :
    let s' := (step cfg s op).1
    (elemPaths x.st).Perm (p.elements.map (·.path) ++ elemPaths s') ∧
    (fetchUids x.st).Perm (p.fetches.map (·.uid) ++ fetchUids s') ∧
    (allRoutes x.st).Perm (p.routes ++ requestedBy x.st c ++ allRoutes s') ∧
    (heldTimers x.st).Perm ((p.routes ++ requestedBy x.st c).map (·.timer) ++ heldTimers s') ∧
    destroyed (step cfg s op).2 = destroyed x.out.reverse ++ (p.routes ++ requestedBy x.st c).map (·.timer) ∧
    s'.index = x.st.index.filter (·.2 != c) ∧ s'.peers.map (·.conn) = (x.st.peers.map (·.conn)).filter (· != c) := by
  intro s'
  have hI := hr.inv
  have hIx := hx.inv hI
  have hs' : s' = C05.afterClose x.st c := hx.st_eq hI
  have hroutes := allRoutes_split hIx.nodup hp
  refine ⟨?_, ?_, ?_, ?_, closes_destroyed hI hx hp, ?_, ?_⟩
  · rw [hs', elemPaths_afterClose]
    exact peers_split hIx.nodup hp _
  · rw [hs', fetchUids_afterClose]
    exact peers_split hIx.nodup hp _
  · rw [hs']; exact hroutes
  · rw [hs', heldTimers_eq_map, heldTimers_eq_map, ← List.map_append]
    exact hroutes.map _
  · rw [hs']; rfl
  · rw [hs']; exact C05.conns_afterClose x.st c

example : C05.Closes {} exRun.1 (.disconnect 1 {}) 1 (mkCtx exRun.1 {}) ∧
    (findPeer (mkCtx exRun.1 {}).st.peers 1).isSome = true :=
  ⟨⟨by decide +kernel, Or.inl ⟨_, rfl, rfl⟩⟩, by decide +kernel⟩

/-! ## B. the allocator (`src/alloc.c`, model `Cjet.Alloc`)

`P : Params` is the configuration (cap in KByte, the factor 1024, sizeof(size_t)); `P.Ok` says the
cap is at most half the address space — true for the tree's configuration (`default_params_ok`);
`OsOk P op` is the assumption about the operating system: a request of 2^63 bytes or more is never
granted.  All arithmetic of the model is size_t arithmetic (modulo 2^64). -/

section AllocPart
open Cjet.Alloc

/-- the cap of the unchanged tree (generated from cmake/defaults.cmake) satisfies `Params.Ok` -/
theorem default_params_ok : defaultParams.Ok := by decide

def exAllocOps : List Alloc.Op :=
  [.malloc 10 true, .calloc 3 5 true, .malloc 100 false, .malloc 20971520 true, .free 0, .free 7]

example : (∀ op ∈ exAllocOps, OsOk defaultParams op) ∧
    (Alloc.run defaultParams Alloc.init exAllocOps).2 =
      [(.ptr 0, 18), (.ptr 1, 41), (.null, 41), (.null, 41), (.freed, 23), (.nofree, 23)] := by
  decide +kernel

/-- `cap_respected`: after every operation of every sequence the accounted heap is at most the
    cap (`cjet_get_alloc_size() ≤ CONFIG_MAX_HEAPSIZE_IN_KBYTE * 1024`). -/
theorem cap_respected (P : Params) (hP : P.Ok) (ops : List Alloc.Op) (hos : ∀ op ∈ ops, OsOk P op) :
    (∀ o ∈ (Alloc.run P Alloc.init ops).2, o.2 ≤ P.capBytes) ∧
    (Alloc.run P Alloc.init ops).1.allocated ≤ P.capBytes :=
  ⟨(inv_run hP ops (inv_init P) hos).2, (inv_run hP ops (inv_init P) hos).1.cap⟩

/-- `accounting_exact`: the counter is the sum of the header words of the live blocks — each of
    them the `alloc_size` = request + sizeof(size_t) of its allocation (`granted_block`) — and the
    live blocks have pairwise different ids. -/
theorem accounting_exact (P : Params) (hP : P.Ok) (ops : List Alloc.Op) (hos : ∀ op ∈ ops, OsOk P op) :
    let s := (Alloc.run P Alloc.init ops).1
    s.allocated = (s.live.map (·.2)).sum ∧ (s.live.map (·.1)).Nodup :=
  ⟨(inv_run hP ops (inv_init P) hos).1.acc, (inv_run hP ops (inv_init P) hos).1.nodup⟩

/-- a granted request appends one block whose header word is request + header (when that sum
    does not wrap) and adds exactly that to the counter (modulo 2^64 — no wrap under `OsOk`) -/
theorem granted_block (P : Params) (s : St) (bytes : Nat) (osOk : Bool)
    (h : (alloc P s bytes osOk).2 ≠ .null) (hnw : bytes % W + P.hdr < W) :
    (alloc P s bytes osOk).2 = .ptr s.next ∧
    (alloc P s bytes osOk).1.live = s.live ++ [(s.next, bytes % W + P.hdr)] ∧
    (alloc P s bytes osOk).1.allocated = (s.allocated + (bytes % W + P.hdr)) % W := by
  rw [alloc_granted h]
  simp [allocSize, Nat.mod_eq_of_lt hnw]

example : (alloc defaultParams {} 10 true).2 ≠ .null ∧ 10 % W + defaultParams.hdr < W := by decide +kernel

/-- `refusal_changes_nothing`: a refused allocation (cap reached or OS failure) and a free of
    nothing leave the counter and the live blocks exactly as they were. -/
theorem refusal_changes_nothing (P : Params) (s : St) (op : Alloc.Op)
    (h : (Alloc.step P s op).2 = .null ∨ (Alloc.step P s op).2 = .nofree) : (Alloc.step P s op).1 = s := by
  cases op with
  | malloc size osOk =>
    rcases h with h | h
    · exact alloc_null h
    · exfalso
      by_cases hn : (alloc P s (size % W) osOk).2 = .null
      · rw [show Alloc.step P s (.malloc size osOk) = alloc P s (size % W) osOk from rfl, hn] at h; cases h
      · rw [show Alloc.step P s (.malloc size osOk) = alloc P s (size % W) osOk from rfl, alloc_granted hn] at h
        cases h
  | calloc nmemb size osOk =>
    rcases h with h | h
    · exact alloc_null h
    · exfalso
      by_cases hn : (alloc P s (((nmemb % W) * (size % W)) % W) osOk).2 = .null
      · rw [show Alloc.step P s (.calloc nmemb size osOk) = alloc P s (((nmemb % W) * (size % W)) % W) osOk from rfl,
          hn] at h; cases h
      · rw [show Alloc.step P s (.calloc nmemb size osOk) = alloc P s (((nmemb % W) * (size % W)) % W) osOk from rfl,
          alloc_granted hn] at h
        cases h
  | free id =>
    rcases h with h | h
    · exfalso
      have : (Alloc.free s id).2 = .null := h
      unfold Alloc.free at this
      split at this <;> cases this
    · exact free_nofree h

example : (Alloc.step defaultParams {} (.malloc 20971520 true)).2 = .null := by decide +kernel

/-- the cap test exactly as written: a request is refused iff
    `allocated_memory + alloc_size > CONFIG_MAX_HEAPSIZE_IN_KBYTE * 1024` (size_t arithmetic) or
    the underlying malloc/calloc fails -/
theorem refusal_iff (P : Params) (s : St) (bytes : Nat) (osOk : Bool) :
    (alloc P s bytes osOk).2 = .null ↔
      ((s.allocated + allocSize P bytes) % W > P.capBytes ∨ osOk = false) :=
  alloc_null_iff P s bytes osOk

/-- `free_returns_to_baseline`: from the state after any sequence, freeing a list of ids that covers
    every live block (any order; repetitions and dead ids are no-ops) brings the counter back to 0. -/
theorem free_returns_to_baseline (P : Params) (hP : P.Ok) (ops : List Alloc.Op) (hos : ∀ op ∈ ops, OsOk P op)
    (l : List Nat) (hcov : ∀ e ∈ (Alloc.run P Alloc.init ops).1.live, e.1 ∈ l) :
    (freeAll (Alloc.run P Alloc.init ops).1 l).allocated = 0 ∧
    (freeAll (Alloc.run P Alloc.init ops).1 l).live = [] := by
  have := freeAll_empties (P := P) l (inv_run hP ops (inv_init P) hos).1 (fun i hi => by
    obtain ⟨e, he, rfl⟩ := List.mem_map.mp hi
    exact hcov e he)
  exact ⟨this.2, this.1⟩

example : ∀ e ∈ (Alloc.run defaultParams Alloc.init exAllocOps).1.live, e.1 ∈ [5, 1, 0] := by decide +kernel

end AllocPart

/-! ### descriptor hygiene of the accept path (linux_io.c): every accepted descriptor is owned by one connection or closed once, on every failure path -/

theorem accept_fd_closed_or_owned_exactly_once : type_of% @Cjet.Props.Accept.fd_closed_or_owned_exactly_once := @Cjet.Props.Accept.fd_closed_or_owned_exactly_once
theorem accept_fd_discipline_monitor : type_of% @Cjet.Props.Accept.fd_discipline_monitor := @Cjet.Props.Accept.fd_discipline_monitor
theorem accept_no_leak_of_peer_or_bs : type_of% @Cjet.Props.Accept.no_leak_of_peer_or_bs := @Cjet.Props.Accept.no_leak_of_peer_or_bs
theorem accept_init_failure_releases_both : type_of% @Cjet.Props.Accept.init_failure_releases_both := @Cjet.Props.Accept.init_failure_releases_both
theorem accept_start_server_unwinds : type_of% @Cjet.Props.Accept.start_server_unwinds := @Cjet.Props.Accept.start_server_unwinds
theorem accept_stop_server_closes_listener : type_of% @Cjet.Props.Accept.stop_server_closes_listener := @Cjet.Props.Accept.stop_server_closes_listener

/-! ### start-up and shut-down of run_io (linux_io.c): whatever step fails, every listener descriptor is closed once and after its removal from the loop; connections accepted meanwhile are released (code as repaired, F66) -/

theorem startup_releases_all_listeners : type_of% @Cjet.Props.Startup.startup_releases_all_listeners := @Cjet.Props.Startup.startup_releases_all_listeners
theorem startup_failure_releases_all : type_of% @Cjet.Props.Startup.startup_failure_releases_all := @Cjet.Props.Startup.startup_failure_releases_all
theorem startup_peer_leak_before_fix : type_of% @Cjet.Props.Startup.startup_failure_releases_all_counterexample := @Cjet.Props.Startup.startup_failure_releases_all_counterexample
theorem startup_remove_before_close : type_of% @Cjet.Props.Startup.remove_before_close := @Cjet.Props.Startup.remove_before_close
theorem startup_no_use_after_close : type_of% @Cjet.Props.Startup.no_use_after_close := @Cjet.Props.Startup.no_use_after_close
theorem startup_success_owns_exactly : type_of% @Cjet.Props.Startup.startup_success_owns_exactly := @Cjet.Props.Startup.startup_success_owns_exactly
theorem shutdown_releases_all : type_of% @Cjet.Props.Startup.shutdown_releases_all := @Cjet.Props.Startup.shutdown_releases_all
theorem shutdown_order : type_of% @Cjet.Props.Startup.shutdown_order := @Cjet.Props.Startup.shutdown_order
theorem startup_error_reported : type_of% @Cjet.Props.Startup.error_reported := @Cjet.Props.Startup.error_reported

end Cjet.Props.C07
