import Cjet.Lemmas.DaemonC15Frame
import Cjet.Props.CjsonTree
import Cjet.Unwind.Ladders
import Cjet.Props.Startup
/-!
# C15 — any single allocation failure is survived without crash, leak or corruption

C15 is a PARTIAL-level property: the unwinding of the C code under allocation failure is enumerated
on the real code by the whole-daemon harness (single-fault enumeration).  The proof side carries
the LOGIC of the unwinding patterns: each hand-written acquisition ladder is transcribed as data
(`Cjet.Unwind.Ladders`, C lines in `docs/C15-proofs.md`) and interpreted by the one generic
`runLadder` (`Cjet.Unwind`).

* `runLadder L fail s`: run ladder `L` from resource state `s`; `fail = some i`: the `i`-th step
  fails (steps that cannot fail and indices past the end behave like `none` = success);
* `failsAt L fail`: `fail` names a real failure point;
* `audit L`: the finite check of EVERY failure point and of the success path, from the ladder's
  bare entry state — discharged per ladder by `decide`;
* `Fresh L A K`: the ambient objects `A` and links `K` share no name with the ladder
  (a fresh allocation is not an object that already exists).

The three generic theorems lift the audit to every ambient state.
-/

namespace Cjet.Props.C15

open Cjet.Unwind

variable {R Lb : Type} [DecidableEq R] [DecidableEq Lb]

/-- `unwind_releases_all`: for EVERY failure point, after the function has returned the set of
    held resources is what it was before the call — nothing leaked — and no release, unlink or
    jump was illegal (`bad = 0`: nothing released twice, no release of something not held); on
    success exactly the intended resources are held in addition.  Whatever else exists (`A`, `K`)
    is untouched. -/
theorem unwind_releases_all (L : Ladder R Lb) (h : audit L = true) (A : List R) (K : List (R × R))
    (hf : Fresh L A K) (fail : Option Nat) :
    let s := runLadder L fail ⟨L.pre ++ A, L.preLinks ++ K, 0, 0⟩
    s.bad = 0 ∧
    (failsAt L fail = true → s.held = L.pre ++ A) ∧
    (failsAt L fail = false → s.held = L.intended ++ A) := by
  intro s
  have hs : s = (runLadder L fail (entry L)).frame A K 0 0 := runLadder_frame L fail A K 0 0 hf
  obtain ⟨h1, _, h3, h4⟩ := auditOne_spec (audit_all L h fail)
  refine ⟨by rw [hs]; simpa [St.frame] using h1, ?_, ?_⟩
  · intro hfa; rw [hs]; simp [St.frame, (h3 hfa).1]
  · intro hfa; rw [hs]; simp [St.frame, (h4 hfa).1]

/-- `at_most_one_response`: every run of the ladder — success or any failure point — produces at
    most one response for the request being processed. -/
theorem at_most_one_response (L : Ladder R Lb) (h : audit L = true) (A : List R) (K : List (R × R))
    (hf : Fresh L A K) (fail : Option Nat) :
    (runLadder L fail ⟨L.pre ++ A, L.preLinks ++ K, 0, 0⟩).responses ≤ 1 := by
  rw [runLadder_frame L fail A K 0 0 hf]
  exact (auditOne_spec (audit_all L h fail)).2.1

/-- `table_not_left_dangling`: on failure the tables / lists / subscribers refer to exactly what
    they referred to before (no entry for a released object stays behind); on success the new
    entries are the intended ones and each of them refers to an object that is held. -/
theorem table_not_left_dangling (L : Ladder R Lb) (h : audit L = true) (A : List R) (K : List (R × R))
    (hf : Fresh L A K) (fail : Option Nat) :
    let s := runLadder L fail ⟨L.pre ++ A, L.preLinks ++ K, 0, 0⟩
    (failsAt L fail = true → s.links = L.preLinks ++ K) ∧
    (failsAt L fail = false → s.links = L.intendedLinks ++ K ∧ ∀ p ∈ L.intendedLinks, p.2 ∈ s.held) := by
  intro s
  have hs : s = (runLadder L fail (entry L)).frame A K 0 0 := runLadder_frame L fail A K 0 0 hf
  obtain ⟨_, _, h3, h4⟩ := auditOne_spec (audit_all L h fail)
  refine ⟨?_, ?_⟩
  · intro hfa; rw [hs]; simp [St.frame, (h3 hfa).2]
  · intro hfa
    obtain ⟨g1, g2, g3⟩ := h4 hfa
    refine ⟨by rw [hs]; simp [St.frame, g2], ?_⟩
    intro p hp
    rw [hs]
    simp only [St.frame, g1]
    exact List.mem_append_left _ (g3 p hp)

/-! ## the ladders: each transcription passes the audit -/

/-- (a) `add` of a state / of a method: add_element_to_peer + init_element -/
theorem audit_add_state : audit (ladderAdd true) = true := by decide
theorem audit_add_method : audit (ladderAdd false) = true := by decide

/-- (c) routed `set` / `call` with and without a request id: set_or_call + alloc_routing_request +
    create_routed_message + setup_routing_information (+ remove_routing_information on the late failures) -/
theorem audit_route_with_id : audit (ladderRoute true) = true := by decide
theorem audit_route_without_id : audit (ladderRoute false) = true := by decide

/-- (b) `fetch`: fetch-all, one single-operand matcher, two of them, three of them, a
    `containsAllOf` with three operands, and a mixture -/
theorem audit_fetch_all : audit (ladderFetch []) = true := by decide
theorem audit_fetch_1 : audit (ladderFetch [1]) = true := by decide
theorem audit_fetch_2 : audit (ladderFetch [1, 1]) = true := by decide
theorem audit_fetch_3 : audit (ladderFetch [1, 1, 1]) = true := by decide
theorem audit_fetch_allof : audit (ladderFetch [3]) = true := by decide
theorem audit_fetch_mixed : audit (ladderFetch [1, 2, 1]) = true := by decide

/-- … every path object with up to 3 matchers of up to 4 operands each (85 shapes), and up to the
    configured maximum of 12 single-operand matchers -/
theorem audit_fetch_small_shapes : ∀ s ∈ shapes 3 4, audit (ladderFetch s) = true := by decide +kernel
theorem audit_fetch_max_matchers : ∀ n ∈ List.range 13, audit (ladderFetch (List.replicate n 1)) = true := by
  decide +kernel

example : (shapes 3 4).length = 85 ∧ [2, 4, 1] ∈ shapes 3 4 := by decide

/-- (d) growth of an element's fetcher table -/
theorem audit_grow : audit ladderGrow = true := by decide

/-- (e) connection set-up: raw jet socket, HTTP connection, websocket peer creation -/
theorem audit_jet_conn : audit ladderJetConn = true := by decide
theorem audit_http_conn : audit ladderHttpConn = true := by decide
theorem audit_ws_peer : audit ladderWsPeer = true := by decide

/-! ## non-vacuity: the ladders have real failure points, and the audit notices defects -/

/-- the `add` ladder of a state has 8 failure points; the routed-request ladder 11 -/
example : ((List.range 20).filter (fun i => failsAt (ladderAdd true) (some i))).length = 8 ∧
    ((List.range 20).filter (fun i => failsAt (ladderRoute true) (some i))).length = 11 := by decide

/-- the ambient state of the generic theorems can be non-empty: e.g. another element's objects
    cannot be named by the `add` ladder at all, links from the containers to other objects can -/
example : Fresh (ladderAdd true) [] [(.index, .subs)] := by
  unfold Fresh; decide

/-- the generic theorems at work: the table-full failure (step 7) of an `add`, with another element
    already indexed: nothing of the failed `add` stays, the other entry is untouched -/
example :
    let s := runLadder (ladderAdd true) (some 7) ⟨[], [(.index, .subs)], 0, 0⟩
    s.bad = 0 ∧ s.held = [] ∧ s.links = [(.index, .subs)] ∧ s.responses ≤ 1 := by
  have hf : Fresh (ladderAdd true) [] [(.index, .subs)] := by unfold Fresh; decide
  have h1 := unwind_releases_all (ladderAdd true) audit_add_state [] [(.index, .subs)] hf (some 7)
  have h2 := table_not_left_dangling (ladderAdd true) audit_add_state [] [(.index, .subs)] hf (some 7)
  have h3 := at_most_one_response (ladderAdd true) audit_add_state [] [(.index, .subs)] hf (some 7)
  exact ⟨h1.1, h1.2.1 (by decide), h2.1 (by decide), h3⟩

/-- the audit is not vacuous: the routed-request ladder as it was before the repair of
    "set_or_call send failure leaves routing entry + armed timer" (send failure only answers) fails it -/
def ladderRouteOld : Ladder RC LC :=
  { ladderRoute true with
    steps := (ladderRoute true).steps.dropLast ++
      [{ name := "owner->send_message (pre-fix)", ok := [],
         failPre := [Act.respond, Act.release .rendered, Act.release .msg] }] }

example : audit ladderRouteOld = false := by decide

/-- … and so does a double free: releasing the element twice on the table-full path -/
def ladderAddDouble : Ladder RA LA :=
  { ladderAdd true with
    chain := (ladderAdd true).chain ++ [(.caller, [Act.release .elem])] }

example : audit ladderAddDouble = false := by decide

/-! ### the goto ladders of run_io_only_local / run_io_all_interfaces, label for label -/

theorem startup_goto_ladders_audit : type_of% @Cjet.Props.Startup.goto_ladders_audit := @Cjet.Props.Startup.goto_ladders_audit
theorem startup_failure_releases_all : type_of% @Cjet.Props.Startup.startup_failure_releases_all := @Cjet.Props.Startup.startup_failure_releases_all
theorem startup_releases_all_listeners : type_of% @Cjet.Props.Startup.startup_releases_all_listeners := @Cjet.Props.Startup.startup_releases_all_listeners


/-! ### the cJSON tree layer: every stored, forwarded or routed value is a cJSON_Duplicate (real code tied by vlib/cjsontree_tie.py) -/

theorem json_duplicate_failure_leaks_nothing : type_of% @Cjet.Props.CjsonTree.duplicate_failure_leaks_nothing := @Cjet.Props.CjsonTree.duplicate_failure_leaks_nothing
theorem json_duplicate_stops_at_first_failure : type_of% @Cjet.Props.CjsonTree.duplicate_stops_at_first_failure := @Cjet.Props.CjsonTree.duplicate_stops_at_first_failure
theorem json_duplicate_is_faithful_copy : type_of% @Cjet.Props.CjsonTree.duplicate_is_faithful_copy := @Cjet.Props.CjsonTree.duplicate_is_faithful_copy
theorem json_duplicate_children_ledger : type_of% @Cjet.Props.CjsonTree.duplicate_children_ledger := @Cjet.Props.CjsonTree.duplicate_children_ledger
theorem json_add_member_failure_changes_nothing : type_of% @Cjet.Props.CjsonTree.add_member_failure_changes_nothing := @Cjet.Props.CjsonTree.add_member_failure_changes_nothing
theorem json_add_member_attaches_last : type_of% @Cjet.Props.CjsonTree.add_member_attaches_last := @Cjet.Props.CjsonTree.add_member_attaches_last
theorem json_add_member_conserves_blocks : type_of% @Cjet.Props.CjsonTree.add_member_conserves_blocks := @Cjet.Props.CjsonTree.add_member_conserves_blocks

theorem json_replace_checked_failure_changes_nothing : type_of% @Cjet.Props.CjsonTree.replace_checked_failure_changes_nothing := @Cjet.Props.CjsonTree.replace_checked_failure_changes_nothing
theorem json_create_string_ledger : type_of% @Cjet.Props.CjsonTree.create_string_ledger := @Cjet.Props.CjsonTree.create_string_ledger

end Cjet.Props.C15
