import Cjet.Lemmas.BufreadFraming
/-!
# C09 — behaviour depends on each connection's byte stream, not on its segmentation

Model: `Cjet.Bufread` (the read side of `buffered_socket.c` + the clients `socket_peer.c`,
`http_connection.c`, `websocket.c`).  A connection's input is a list of readiness events, each a list of
kernel answers to the successive `socket_read` calls of that `go_reading` invocation (`chunk b` of any
positive size — a chunk larger than the size asked for is handed over in pieces — would-block, end of
stream, error; an exhausted list answers would-block).  `bytes evs` / `terminal evs` are the byte stream
and the way it ends; `Spec.run` is defined on those alone.

Every theorem quantifies over the client (where it is not about one framing), the buffer size `cap`, the
initial buffer contents `fill`, and ALL event lists.  The hypothesis `evs ≠ []` says that the first reader
was armed (arming it is what runs `go_reading` the first time).
-/
namespace Cjet.Props.C09
open Cjet Cjet.Bufread

/-- The deliveries (with the client state they were made in) and the way the connection ends are those the
    byte stream prescribes — whatever the chunking, the event grouping and the old buffer contents. -/
theorem deliveries_eq_spec {σ : Type} (c : Client σ) (cap : Nat) (fill : UInt8) (s0 : σ)
    (evs : List (List KRes)) (h : evs ≠ []) :
    observable (runEvents c cap (Reader.init cap fill) s0 evs) = Spec.run c cap s0 (bytes evs) (terminal evs) := by
  have := runEvents_spec (c := c) (evs := evs) (s := s0) (Inv.init cap fill) (fun e => absurd e h)
  rw [unread_init, List.nil_append] at this
  exact this.symm

example : ([[KRes.chunk [0, 0], .chunk [0, 1]], [.chunk [65], .eof]] : List (List KRes)) ≠ [] := by simp

/-- The same from any reader state that satisfies the representation invariant and is drained (or gets at
    least one event): the unread bytes count as the front of the stream. -/
theorem deliveries_eq_spec_from {σ : Type} (c : Client σ) (cap : Nat) (rd : Reader) (s : σ)
    (evs : List (List KRes)) (hi : Inv cap rd) (hd : evs = [] → Drained c cap rd s) :
    observable (runEvents c cap rd s evs) = Spec.run c cap s (rd.unread ++ bytes evs) (terminal evs) :=
  (runEvents_spec hi hd).symm

example : Inv 8 ⟨[1, 2, 3, 4, 5, 6, 7, 8], 2, 5⟩ ∧
    (([[KRes.wouldBlock]] : List (List KRes)) = [] → Drained (rawPeer fun _ => true) 8 ⟨[1, 2, 3, 4, 5, 6, 7, 8], 2, 5⟩ .len) :=
  ⟨⟨by decide, by decide, by decide⟩, fun h => by simp at h⟩

/-- Two runs over the same bytes with the same terminal event are indistinguishable: chunk sizes, would-block
    positions, event boundaries and initial buffer contents do not matter. -/
theorem chunking_irrelevant {σ : Type} (c : Client σ) (cap : Nat) (fill₁ fill₂ : UInt8) (s0 : σ)
    (evs₁ evs₂ : List (List KRes)) (h₁ : evs₁ ≠ []) (h₂ : evs₂ ≠ [])
    (hb : bytes evs₁ = bytes evs₂) (ht : terminal evs₁ = terminal evs₂) :
    observable (runEvents c cap (Reader.init cap fill₁) s0 evs₁) =
      observable (runEvents c cap (Reader.init cap fill₂) s0 evs₂) := by
  rw [deliveries_eq_spec c cap fill₁ s0 evs₁ h₁, deliveries_eq_spec c cap fill₂ s0 evs₂ h₂, hb, ht]

example : bytes [[.chunk [0, 0], .chunk [0, 1]], [.wouldBlock, .chunk [9]], [.chunk [65], .eof], [.chunk [7]]] =
      bytes [[.chunk [0, 0, 0, 1, 65], .eof]] ∧
    terminal [[.chunk [0, 0], .chunk [0, 1]], [.wouldBlock, .chunk [9]], [.chunk [65], .eof], [.chunk [7]]] =
      terminal [[.chunk [0, 0, 0, 1, 65], .eof]] := by decide

/-- Promptness: whenever a run is still open (the last `go_reading` came back with would-block), the buffer
    holds no complete message/line and no request that could already be refused: on the unread bytes alone the
    specification delivers nothing and waits. -/
theorem prompt {σ : Type} (c : Client σ) (cap : Nat) (fill : UInt8) (s0 : σ) (evs : List (List KRes))
    (h : evs ≠ []) (hopen : (runEvents c cap (Reader.init cap fill) s0 evs).out = .wouldBlock) :
    Spec.run c cap (runEvents c cap (Reader.init cap fill) s0 evs).s
      (runEvents c cap (Reader.init cap fill) s0 evs).rd.unread .none = ([], .wouldBlock) := by
  have hd := runEvents_drained (c := c) (evs := evs) (s := s0) (Inv.init cap fill) (fun e => absurd e h) hopen
  rw [Spec.run_needMore hd]
  rfl

/-- Pointer discipline in every intermediate state: `r ≤ w ≤ cap`; every `socket_read` asks for exactly the
    free space behind `write_ptr`, which is positive, and gets between 1 and that many bytes; every delivered
    slice is non-empty and lies in `[r, w)`; the final state satisfies the invariant too. -/
theorem ptrs_in_bounds {σ : Type} (c : Client σ) (cap : Nat) (fill : UInt8) (s0 : σ) (evs : List (List KRes)) :
    Inv cap (runEvents c cap (Reader.init cap fill) s0 evs).rd ∧
    ∀ o ∈ (runEvents c cap (Reader.init cap fill) s0 evs).obs, Obs.ok cap o :=
  ⟨runEvents_inv (Inv.init cap fill), runEvents_ok (Inv.init cap fill)⟩

/-- The raw-socket framing: the messages handed to the parser and the end of the connection are exactly
    `Raw.frames` of the byte stream: 4-byte big-endian length, zero skipped, `length > cap` closes (error
    path), message = exactly the next `length` bytes, a refused message closes. -/
theorem raw_framing_spec (ok : Bytes → Bool) (cap : Nat) (fill : UInt8) (evs : List (List KRes))
    (hcap : 4 ≤ cap) (h : evs ≠ []) :
    (rawMessages (deliveries (runEvents (rawPeer ok) cap (Reader.init cap fill) .len evs).obs),
      (runEvents (rawPeer ok) cap (Reader.init cap fill) .len evs).out) =
    Raw.frames cap ok (bytes evs) (terminal evs) := by
  have h1 := deliveries_eq_spec (rawPeer ok) cap fill .len evs h
  have h2 := raw_spec_frames (ok := ok) hcap (bytes evs) (terminal evs)
  rw [← h2, ← h1]
  rfl

example : 4 ≤ 8 ∧ ([[KRes.chunk [0, 0, 0, 1, 65]]] : List (List KRes)) ≠ [] := by decide

/-- … in particular for the buffer size the daemon is configured with. -/
theorem raw_framing_spec_cfg (ok : Bytes → Bool) (fill : UInt8) (evs : List (List KRes)) (h : evs ≠ []) :
    (rawMessages (deliveries (runEvents (rawPeer ok) Generated.cfgMaxMessageSize
        (Reader.init Generated.cfgMaxMessageSize fill) .len evs).obs),
      (runEvents (rawPeer ok) Generated.cfgMaxMessageSize
        (Reader.init Generated.cfgMaxMessageSize fill) .len evs).out) =
    Raw.frames Generated.cfgMaxMessageSize ok (bytes evs) (terminal evs) :=
  raw_framing_spec ok _ fill evs (by decide) h

example : ([[KRes.chunk [0, 0, 0, 1, 65]], [.eof]] : List (List KRes)) ≠ [] := by simp

/-- A zero length header is skipped. -/
theorem raw_zero_skipped (ok : Bytes → Bool) (cap : Nat) (post : Bytes) (t : Terminal) :
    Raw.frames cap ok (be32 0 ++ post) t = Raw.frames cap ok post t :=
  Raw.frames_zero post t

/-- A length above the configured maximum ends the connection, nothing is delivered (`n > cap`, strictly:
    `n = cap` is a legal message, see `raw_message_exact`). -/
theorem raw_too_long_closes (ok : Bytes → Bool) (cap n : Nat) (hn : cap < n) (h32 : n < 4294967296)
    (post : Bytes) (t : Terminal) : Raw.frames cap ok (be32 n ++ post) t = ([], .tooMuch) :=
  Raw.frames_tooLong hn h32 post t

example : (8 : Nat) < 9 ∧ (9 : Nat) < 4294967296 := by decide

/-- A non-empty message of at most `cap` bytes is delivered as exactly its own bytes, whatever follows. -/
theorem raw_message_exact (ok : Bytes → Bool) (cap : Nat) (m : Bytes) (hm : m ≠ []) (hc : m.length ≤ cap)
    (h32 : m.length < 4294967296) (post : Bytes) (t : Terminal) :
    Raw.frames cap ok (be32 m.length ++ m ++ post) t =
      if ok m then (m :: (Raw.frames cap ok post t).1, (Raw.frames cap ok post t).2)
      else ([m], .clientClosed) :=
  Raw.frames_frame hm hc h32 post t

example : ([1, 2, 3, 4, 5, 6, 7, 8] : Bytes) ≠ [] ∧ ([1, 2, 3, 4, 5, 6, 7, 8] : Bytes).length ≤ 8 ∧
    ([1, 2, 3, 4, 5, 6, 7, 8] : Bytes).length < 4294967296 := by decide

/-- Each length-prefixed message is interpreted from exactly its own bytes: after any whole frames `pre`
    (carrying messages `ms`), the next message handed to the parser is `m` itself — for every initial buffer
    content `fill`, every `pre`, every `post` and every chunking `evs` of the stream; and what follows depends
    on `post` alone. -/
theorem own_bytes_only (ok : Bytes → Bool) (cap : Nat) (fill : UInt8) (evs : List (List KRes))
    (pre : Bytes) (ms : List Bytes) (m post : Bytes)
    (hcap : 4 ≤ cap) (h : evs ≠ []) (hpre : Raw.Whole cap ok pre ms)
    (hm : m ≠ []) (hc : m.length ≤ cap) (h32 : m.length < 4294967296)
    (hb : bytes evs = pre ++ (be32 m.length ++ m ++ post)) :
    rawMessages (deliveries (runEvents (rawPeer ok) cap (Reader.init cap fill) .len evs).obs) =
      ms ++ m :: (if ok m then (Raw.frames cap ok post (terminal evs)).1 else []) := by
  have h1 := raw_framing_spec ok cap fill evs hcap h
  rw [hb, Raw.frames_whole hpre, Raw.frames_frame hm hc h32] at h1
  have h2 := congrArg Prod.fst h1
  simp only at h2
  rw [h2]
  split <;> rfl

example : 4 ≤ 8 ∧
    ([[KRes.chunk [0, 0, 0, 1, 7, 0, 0], .chunk [0, 2, 65], .wouldBlock], [.chunk [66, 0, 0]]] : List (List KRes)) ≠ [] ∧
    Raw.Whole 8 (fun _ => true) (be32 1 ++ [7] ++ []) [[7]] ∧
    ([65, 66] : Bytes) ≠ [] ∧ ([65, 66] : Bytes).length ≤ 8 ∧ ([65, 66] : Bytes).length < 4294967296 ∧
    bytes [[KRes.chunk [0, 0, 0, 1, 7, 0, 0], .chunk [0, 2, 65], .wouldBlock], [.chunk [66, 0, 0]]] =
      (be32 1 ++ [7] ++ []) ++ (be32 ([65, 66] : Bytes).length ++ [65, 66] ++ [0, 0]) :=
  ⟨by decide, by simp,
   Raw.Whole.frame [7] (by simp) (by decide) (by decide) rfl Raw.Whole.nil,
   by simp, by decide, by decide, by decide⟩

/-- `read_until` searches like `memmem`: the offset found is an occurrence of the delimiter inside the
    haystack and there is none before it … -/
theorem until_first_delimiter (d h : Bytes) (i : Nat) (hf : findSub d h = some i) :
    d <+: h.drop i ∧ i + d.length ≤ h.length ∧ ∀ j, j < i → ¬ d <+: h.drop j :=
  ⟨findSub_some_prefix hf, findSub_le d h i hf, findSub_some_first hf⟩

example : findSub [13, 10] [97, 13, 13, 10, 98, 13, 10] = some 2 := by decide

/-- … and "not found" means the delimiter occurs nowhere in the haystack. -/
theorem until_no_delimiter (d h : Bytes) (hf : findSub d h = none) :
    ∀ j, j ≤ h.length → ¬ d <+: h.drop j :=
  findSub_none hf

example : findSub [13, 10] [97, 13, 13, 98, 10, 13] = none := by decide

/-- Line reading (`read_until(delim)`, the callback does not re-arm): the lines delivered and the end of the
    connection are `Lines.split` of the byte stream: a line is everything up to and including the first
    delimiter occurrence. -/
theorem line_spec (d : Bytes) (ok : Bytes → Bool) (cap : Nat) (fill : UInt8) (evs : List (List KRes))
    (h : evs ≠ []) :
    ((deliveries (runEvents (lineClient d ok) cap (Reader.init cap fill) () evs).obs).map (·.2),
      (runEvents (lineClient d ok) cap (Reader.init cap fill) () evs).out) =
    Lines.split cap d ok (bytes evs) (terminal evs) := by
  have h1 := deliveries_eq_spec (lineClient d ok) cap fill () evs h
  rw [← line_spec_split, ← h1]
  rfl

example : ([[KRes.chunk [97, 13], .chunk [10, 98]], [.chunk [13, 10]]] : List (List KRes)) ≠ [] := by simp

/-- A full buffer (`cap` bytes) without delimiter is the error outcome, and nothing is delivered. -/
theorem line_full_buffer_errors (d : Bytes) (ok : Bytes → Bool) (cap : Nat) (str : Bytes) (t : Terminal)
    (hf : findSub d (str.take cap) = none) (hfull : cap ≤ str.length) :
    Lines.split cap d ok str t = ([], .tooMuch) := by
  rw [Lines.split]
  split
  · rename_i i hi; rw [hf] at hi; cases hi
  · rw [if_pos hfull]

example : findSub [13, 10] (([97, 98, 99, 13, 10] : Bytes).take 4) = none ∧ 4 ≤ ([97, 98, 99, 13, 10] : Bytes).length := by
  decide

end Cjet.Props.C09
