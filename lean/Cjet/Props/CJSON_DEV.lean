/-
  CJSON_DEV — the theorems of Cjet.Props.Cjson restated for the stand-alone development check
  `./check cjson_dev` (the audit looks the property module up as Cjet/Props/<PID>.lean).  Regenerate this list
  when a theorem is added to Cjet/Props/Cjson.lean.
-/
import Cjet.Props.Cjson

namespace Cjet.Props.CJSON_DEV

theorem parse_reads_in_bounds : type_of% @Cjet.Props.Cjson.parse_reads_in_bounds := @Cjet.Props.Cjson.parse_reads_in_bounds
theorem parse_reads_in_bounds_as_built : type_of% @Cjet.Props.Cjson.parse_reads_in_bounds_as_built := @Cjet.Props.Cjson.parse_reads_in_bounds_as_built
theorem parse_reads_in_bounds_counterexample_before_fix : type_of% @Cjet.Props.Cjson.parse_reads_in_bounds_counterexample_before_fix := @Cjet.Props.Cjson.parse_reads_in_bounds_counterexample_before_fix
theorem parse_string_reads_in_bounds : type_of% @Cjet.Props.Cjson.parse_string_reads_in_bounds := @Cjet.Props.Cjson.parse_string_reads_in_bounds
theorem parse_hex4_reads_in_bounds : type_of% @Cjet.Props.Cjson.parse_hex4_reads_in_bounds := @Cjet.Props.Cjson.parse_hex4_reads_in_bounds
theorem parse_literal_reads_in_bounds : type_of% @Cjet.Props.Cjson.parse_literal_reads_in_bounds := @Cjet.Props.Cjson.parse_literal_reads_in_bounds
theorem parse_end_in_bounds : type_of% @Cjet.Props.Cjson.parse_end_in_bounds := @Cjet.Props.Cjson.parse_end_in_bounds
theorem parse_string_writes_in_bounds : type_of% @Cjet.Props.Cjson.parse_string_writes_in_bounds := @Cjet.Props.Cjson.parse_string_writes_in_bounds
theorem parse_string_result_fits : type_of% @Cjet.Props.Cjson.parse_string_result_fits := @Cjet.Props.Cjson.parse_string_result_fits
theorem parse_total : type_of% @Cjet.Props.Cjson.parse_total := @Cjet.Props.Cjson.parse_total
theorem nesting_bounded : type_of% @Cjet.Props.Cjson.nesting_bounded := @Cjet.Props.Cjson.nesting_bounded
theorem depth_counter_restored : type_of% @Cjet.Props.Cjson.depth_counter_restored := @Cjet.Props.Cjson.depth_counter_restored
theorem print_parse_string_roundtrip : type_of% @Cjet.Props.Cjson.print_parse_string_roundtrip := @Cjet.Props.Cjson.print_parse_string_roundtrip
theorem print_string_length_exact : type_of% @Cjet.Props.Cjson.print_string_length_exact := @Cjet.Props.Cjson.print_string_length_exact
theorem print_parse_tree_roundtrip_given_number_oracle_partial : type_of% @Cjet.Props.Cjson.print_parse_tree_roundtrip_given_number_oracle_partial := @Cjet.Props.Cjson.print_parse_tree_roundtrip_given_number_oracle_partial
theorem printed_is_valid_json_text : type_of% @Cjet.Props.Cjson.printed_is_valid_json_text := @Cjet.Props.Cjson.printed_is_valid_json_text
theorem print_parse_tree_roundtrip : type_of% @Cjet.Props.Cjson.print_parse_tree_roundtrip := @Cjet.Props.Cjson.print_parse_tree_roundtrip
theorem parsed_tree_strings_are_c_strings : type_of% @Cjet.Props.Cjson.parsed_tree_strings_are_c_strings := @Cjet.Props.Cjson.parsed_tree_strings_are_c_strings
theorem parse_print_parse_idempotent : type_of% @Cjet.Props.Cjson.parse_print_parse_idempotent := @Cjet.Props.Cjson.parse_print_parse_idempotent
theorem parse_print_parse_given_number_oracle_partial : type_of% @Cjet.Props.Cjson.parse_print_parse_given_number_oracle_partial := @Cjet.Props.Cjson.parse_print_parse_given_number_oracle_partial
theorem number_survives_print_parse_given_number_oracle_partial : type_of% @Cjet.Props.Cjson.number_survives_print_parse_given_number_oracle_partial := @Cjet.Props.Cjson.number_survives_print_parse_given_number_oracle_partial
theorem number_print_counterexample_before_fix : type_of% @Cjet.Props.Cjson.number_print_counterexample_before_fix := @Cjet.Props.Cjson.number_print_counterexample_before_fix
theorem print_number_is_exact_as_built : type_of% @Cjet.Props.Cjson.print_number_is_exact_as_built := @Cjet.Props.Cjson.print_number_is_exact_as_built
theorem utf8_encoder_correct : type_of% @Cjet.Props.Cjson.utf8_encoder_correct := @Cjet.Props.Cjson.utf8_encoder_correct
theorem utf16_decoding_correct : type_of% @Cjet.Props.Cjson.utf16_decoding_correct := @Cjet.Props.Cjson.utf16_decoding_correct
theorem utf16_decoding_correct_pair : type_of% @Cjet.Props.Cjson.utf16_decoding_correct_pair := @Cjet.Props.Cjson.utf16_decoding_correct_pair
theorem utf16_lone_low_rejected : type_of% @Cjet.Props.Cjson.utf16_lone_low_rejected := @Cjet.Props.Cjson.utf16_lone_low_rejected
theorem utf16_lone_high_rejected : type_of% @Cjet.Props.Cjson.utf16_lone_high_rejected := @Cjet.Props.Cjson.utf16_lone_high_rejected
theorem utf16_invalid_hex_is_nul : type_of% @Cjet.Props.Cjson.utf16_invalid_hex_is_nul := @Cjet.Props.Cjson.utf16_invalid_hex_is_nul

end Cjet.Props.CJSON_DEV
