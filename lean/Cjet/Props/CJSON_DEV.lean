/-
  CJSON_DEV — the theorems of Cjet.Props.Cjson restated for the stand-alone development check
  `./check cjson_dev` (the audit looks the property module up as Cjet/Props/<PID>.lean).
-/
import Cjet.Props.Cjson

namespace Cjet.Props.CJSON_DEV

theorem parse_reads_in_bounds_counterexample_before_fix :
    type_of% @Cjet.Props.Cjson.parse_reads_in_bounds_counterexample_before_fix :=
  @Cjet.Props.Cjson.parse_reads_in_bounds_counterexample_before_fix

end Cjet.Props.CJSON_DEV
