/-
  Property C18 — the UTF-8 validator accepts exactly well-formed UTF-8, however the text is presented.

  Model: Cjet/Utf8.lean (utf8_checker.c transcribed; masks from Cjet.Generated.Utf8).
  Spec : `wellFormed` = the ABNF of RFC 3629 §4.
  All theorems are for byte strings / word lists of every length; no bounds.

  Theorems with the hypothesis `c.ok = true` are about checker states that can occur at all:
  `ok_iff_reachable` shows `Checker.ok` is exactly "reachable from `cjet_init_checker` by feeding
  bytes", `entry_points_preserve_ok` that no entry point ever leaves that set (the header says
  "Do not change the values of the attributes").

  F22 (fixed in /repo, commit "fix: utf8 fast paths …"): before the fix `word_path_eq_byte_path`
  was false — `word_path_counterexample_before_fix` keeps the witness against the old predicates.
-/
import Cjet.Lemmas.Utf8Words

namespace Cjet.Utf8
open Cjet.Generated.Utf8

/-! ## The spec is the grammar -/

/-- `wellFormed` says exactly `UTF8-octets = *( UTF8-char )`: the text is a concatenation of byte
    groups each of which is one alternative of UTF8-1 … UTF8-4. -/
theorem wellFormed_iff_chars (bs : List UInt8) :
    wellFormed bs = true ↔
      ∃ chars : List (List UInt8), (∀ ch ∈ chars, isUtf8Char ch = true) ∧ bs = chars.flatten := by
  constructor
  · exact wellFormed_chars_aux bs.length bs (Nat.le_refl _)
  · rintro ⟨chars, h, rfl⟩
    exact wellFormed_flatten chars h

/-- char_lemmas: every grammar alternative (one character, 1–4 bytes) is consumed by the byte
    checker from the initial state and leaves it in the initial state. -/
theorem char_accepted (ch rest : List UInt8) (h : isUtf8Char ch = true) :
    runBytes init (ch ++ rest) = runBytes init rest := by
  have hw : wellFormed ch = true := by
    simpa using wellFormed_append_char ch [] h rfl
  have ha : accepts init ch = true := by rw [accepts_eq_wellFormed]; exact hw
  rw [runBytes_append]
  simp only [accepts, byteSeq_eq_finish] at ha
  have hok := ok_runBytes init ch ok_init
  rcases hr : runBytes init ch with ⟨v, c⟩
  rw [hr] at ha hok
  cases v
  · simp [finish] at ha
  · simp only [finish] at ha
    split at ha
    · simp at ha
    · rename_i hne
      simp only [bne_iff_ne, ne_eq, Bool.true_and, Decidable.not_not] at hne
      have : c = init := ok_start_finish c hok hne
      simp [this]

example : isUtf8Char [0xF0, 0x9F, 0x98, 0x80] = true := by decide

/-! ## The byte-wise entry point -/

/-- **byte_checker_eq_spec** (complete text): from the initial state `cjet_is_byte_sequence_valid`
    with `is_complete` answers exactly `wellFormed`, and always leaves the initial state. -/
theorem byte_checker_eq_spec (bs : List UInt8) :
    byteSeq init bs true = (wellFormed bs, init) := by
  have hv : (byteSeq init bs true).1 = wellFormed bs := accepts_eq_wellFormed bs
  have hs : (byteSeq init bs true).2 = init := by
    have hok := ok_runBytes init bs ok_init
    have hf := runBytes_false init bs
    rw [byteSeq_eq_finish]
    rcases hr : runBytes init bs with ⟨v, c⟩
    rw [hr] at hok hf
    cases v
    · simpa [finish] using hf
    · simp only [finish]
      split
      · rfl
      · rename_i hne
        simp only [bne_iff_ne, ne_eq, Bool.true_and, Decidable.not_not] at hne
        exact ok_start_finish c hok hne
  exact Prod.ext hv hs

/-- The same for `cjet_is_text_valid` (verdict). -/
theorem text_checker_eq_spec (bs : List UInt8) : (textSeq init bs true).1 = wellFormed bs := by
  rw [← accepts_eq_wellFormed, accepts, byteSeq, textSeq]
  rcases runBytes init bs with ⟨v, c⟩
  cases v <;> simp <;> split <;> rfl

/-- `cjet_is_text_valid` and `cjet_is_byte_sequence_valid` agree on the verdict in every state. -/
theorem text_eq_byte (c : Checker) (bs : List UInt8) (k : Bool) :
    (textSeq c bs k).1 = (byteSeq c bs k).1 := by
  rw [byteSeq, textSeq]
  rcases runBytes c bs with ⟨v, c'⟩
  cases v <;> simp <;> split <;> rfl

/-- **byte_checker_eq_spec** (fragment, `is_complete = false`): the verdict is "some continuation
    makes this a well-formed text". -/
theorem byte_checker_incomplete_eq_prefix (bs : List UInt8) :
    (byteSeq init bs false).1 = true ↔ ∃ ext, wellFormed (bs ++ ext) = true := by
  rw [byteSeq_false_eq]
  constructor
  · intro h
    refine ⟨completion (runBytes init bs).2, ?_⟩
    rw [← accepts_eq_wellFormed, accepts, byteSeq_eq_finish, runBytes_append, h, if_pos rfl,
      runBytes_completion _ (ok_runBytes init bs ok_init)]
    decide
  · rintro ⟨ext, h⟩
    rw [← accepts_eq_wellFormed, accepts, byteSeq_eq_finish, runBytes_append] at h
    cases hv : (runBytes init bs).1
    · rw [hv] at h
      simp only [Bool.false_eq_true, if_false] at h
      rcases hr : runBytes init bs with ⟨v, c⟩
      rw [hr] at h hv
      simp only at hv
      subst hv
      simp [finish] at h
    · rfl

/-- … and, as a statement about the automaton: an accepted fragment ends at a character boundary
    (`start_byte == UC_FINISH`) exactly when the fragment itself is well-formed. -/
theorem byte_checker_boundary (bs : List UInt8) (c : Checker)
    (h : byteSeq init bs false = (true, c)) : atBoundary c = wellFormed bs := by
  rw [← accepts_eq_wellFormed, accepts, byteSeq_eq_finish]
  rw [byteSeq_false_eq] at h
  rw [h, finish, atBoundary]
  by_cases hc : c.start = ucFinish <;> simp [hc]

example : byteSeq init [0xE2, 0x82] false = (true, ⟨0xE2, 3, 3⟩) := by decide

/-! ## Splitting across calls -/

/-- **split_irrelevant**: feeding `bs₁` as a fragment and then `bs₂` (caller stops at the first
    `false`, as every caller must) is the same — verdict and checker — as feeding `bs₁ ++ bs₂` in
    one call; for every state, every split point and either value of `is_complete`. -/
theorem split_irrelevant (c : Checker) (bs₁ bs₂ : List UInt8) (k : Bool) :
    (let r₁ := byteSeq c bs₁ false
     if r₁.1 then byteSeq r₁.2 bs₂ k else r₁) = byteSeq c (bs₁ ++ bs₂) k := by
  simp only [byteSeq_eq_finish, runBytes_append]
  rcases runBytes c bs₁ with ⟨v, c'⟩
  cases v <;> simp [finish]

/-- Feeding a list of fragments (`is_complete = false` for each) and a last piece with
    `is_complete = k`, stopping at the first `false`. -/
def feedChunks (c : Checker) : List (List UInt8) → List UInt8 → Bool → Bool × Checker
  | [], last, k => byteSeq c last k
  | ch :: chunks, last, k =>
    let r := byteSeq c ch false
    if r.1 then feedChunks r.2 chunks last k else r

/-- **split_irrelevant** for any number of split points. -/
theorem chunks_irrelevant (chunks : List (List UInt8)) (last : List UInt8) (k : Bool) :
    ∀ c : Checker, feedChunks c chunks last k = byteSeq c (chunks.flatten ++ last) k := by
  induction chunks with
  | nil => intro c; simp [feedChunks]
  | cons ch chunks ih =>
    intro c
    rw [feedChunks, List.flatten_cons, List.append_assoc, ← split_irrelevant c ch]
    simp only [ih]

/-- Hence any way of cutting a complete text into calls gives the verdict of the spec. -/
theorem chunked_eq_spec (chunks : List (List UInt8)) (last : List UInt8) :
    (feedChunks init chunks last true).1 = wellFormed (chunks.flatten ++ last) := by
  rw [chunks_irrelevant, byte_checker_eq_spec]

/-! ## Reachable checker states -/

theorem ok_iff_reachable (c : Checker) : c.ok = true ↔ Reachable c :=
  ⟨ok_reachable c, reachable_ok c⟩

/-! ## The word fast paths -/

/-- **word_path_eq_byte_path**, 32 bit: for every reachable checker state, every list of words and
    either `is_complete`, `cjet_is_word_sequence_valid` returns the same verdict and leaves the
    same checker as `cjet_is_byte_sequence_valid` on the bytes of those words in the order of the
    inner loop (`(tmp >> 8j) & 0xFF`, j = 0..3). -/
theorem word_path_eq_byte_path (c : Checker) (hc : c.ok = true) (ws : List UInt32) (k : Bool) :
    word32Seq c ws k = byteSeq c (ws.flatMap bytes32) k :=
  word32Seq_eq_byteSeq c hc ws k

example : (Checker.mk 0xE2 3 3).ok = true := by decide

/-- **word_path_eq_byte_path**, 64 bit. -/
theorem word64_path_eq_byte_path (c : Checker) (hc : c.ok = true) (ws : List UInt64) (k : Bool) :
    word64Seq c ws k = byteSeq c (ws.flatMap bytes64) k :=
  word64Seq_eq_byteSeq c hc ws k

example : (Checker.mk 0xF4 4 2).ok = true := by decide

/-- The hypothesis `c.ok` cannot be dropped: in a struct that no sequence of calls can produce
    (`next_byte == 1` with a stale `start_byte`) the fast path skips an ASCII word and leaves the
    struct untouched, while the byte loop normalises it.  The verdict is the same. -/
theorem word_path_unreachable_state_differs :
    (Checker.mk 0x41 3 1).ok = false ∧
    word32Seq ⟨0x41, 3, 1⟩ [0x41414141] false = (true, ⟨0x41, 3, 1⟩) ∧
    byteSeq ⟨0x41, 3, 1⟩ (bytes32 0x41414141) false = (true, init) := by
  decide

/-- Hence the word entry points decide the spec on complete texts. -/
theorem word_paths_eq_spec (ws32 : List UInt32) (ws64 : List UInt64) :
    word32Seq init ws32 true = (wellFormed (ws32.flatMap bytes32), init) ∧
    word64Seq init ws64 true = (wellFormed (ws64.flatMap bytes64), init) := by
  rw [word_path_eq_byte_path init ok_init, word64_path_eq_byte_path init ok_init,
    byte_checker_eq_spec, byte_checker_eq_spec]
  exact ⟨rfl, rfl⟩

/-- F22: with the fast-path predicates as they were before the fix the theorem above is false —
    `C0 80 C2 80` (an overlong NUL followed by U+0080) is ill-formed and rejected byte-wise, but
    accepted as one 32-bit word, as half of a 64-bit word, and through the auto-aligned front end. -/
theorem word_path_counterexample_before_fix :
    wellFormed [0xC0, 0x80, 0xC2, 0x80] = false ∧
    byteSeq init (bytes32 0x80C280C0) true = (false, init) ∧
    bytes32 0x80C280C0 = [0xC0, 0x80, 0xC2, 0x80] ∧
    word32SeqOld init [0x80C280C0] true = (true, init) ∧
    word32Seq init [0x80C280C0] true = (false, init) ∧
    word64SeqOld init [0x80C280C280C280C0] true = (true, init) ∧
    word64Seq init [0x80C280C280C280C0] true = (false, init) ∧
    (autoAlignedOld 0 init
      [0xC2, 0x80, 0xC2, 0x80, 0xC2, 0x80, 0xC2, 0x80,
       0xC0, 0x80, 0xC2, 0x80, 0xC2, 0x80, 0xC2, 0x80] true).1 = true := by
  decide

/-! ## The auto-aligned front end -/

/-- **auto_aligned_eq**: for every platform word width (`sizeof(uint_fast16_t)`; 8 and 4 select
    the word paths, anything else the byte path), every address (hence every alignment 0..7),
    every reachable checker state, every byte string and either `is_complete`:
    the verdict is that of `cjet_is_byte_sequence_valid` on the same bytes, and whenever the
    verdict is `true` or `is_complete` is set the checker afterwards is the same too.
    (After a *rejected fragment* the C code goes on to feed the remaining parts, so the checker may
    then differ from the byte-wise one — `auto_aligned_state_after_rejected_fragment`.) -/
theorem auto_aligned_eq (width addr : Nat) (c : Checker) (hc : c.ok = true) (bs : List UInt8)
    (k : Bool) :
    (autoAligned width addr c bs k).1 = (byteSeq c bs k).1 ∧
    ((k = true ∨ (autoAligned width addr c bs k).1 = true) →
      autoAligned width addr c bs k = byteSeq c bs k) :=
  autoAligned_spec width addr c hc bs k

example : init.ok = true := by decide

/-- On complete texts the auto-aligned entry point decides the spec, at every alignment. -/
theorem auto_aligned_eq_spec (width addr : Nat) (bs : List UInt8) :
    autoAligned width addr init bs true = (wellFormed bs, init) := by
  rw [(auto_aligned_eq width addr init ok_init bs true).2 (Or.inl rfl), byte_checker_eq_spec]

/-- The one observable difference: a fragment rejected in its first part still has its later
    parts fed, so the checker can be left inside a character (verdict `false` either way). -/
theorem auto_aligned_state_after_rejected_fragment :
    autoAligned 8 1 init [0xFF, 0x41, 0x41, 0x41, 0x41, 0x41, 0x41, 0xC2] false
      = (false, ⟨0xC2, 2, 2⟩) ∧
    byteSeq init [0xFF, 0x41, 0x41, 0x41, 0x41, 0x41, 0x41, 0xC2] false = (false, init) := by
  decide

/-! ## The invariant is kept by every entry point -/

theorem entry_points_preserve_ok (c : Checker) (hc : c.ok = true) (bs : List UInt8)
    (ws32 : List UInt32) (ws64 : List UInt64) (width addr : Nat) (k : Bool) :
    (byteSeq c bs k).2.ok = true ∧ (textSeq c bs k).2.ok = true ∧
    (word32Seq c ws32 k).2.ok = true ∧ (word64Seq c ws64 k).2.ok = true ∧
    (autoAligned width addr c bs k).2.ok = true := by
  have hb := ok_byteSeq c bs k hc
  refine ⟨hb, ?_, ?_, ?_, ?_⟩
  · rw [textSeq]
    have := ok_runBytes c bs hc
    rcases h : runBytes c bs with ⟨v, c'⟩
    rw [h] at this
    cases v
    · exact this
    · simp only; split <;> exact this
  · rw [word_path_eq_byte_path c hc]; exact ok_byteSeq c _ k hc
  · rw [word64_path_eq_byte_path c hc]; exact ok_byteSeq c _ k hc
  · -- the front end is a composition of entry points followed by an epilogue that re-initialises
    have e : ∀ r : Bool × Checker, r.2.ok = true → (autoEpilogue r k).2.ok = true := by
      intro r hr; rw [autoEpilogue]; split
      · exact ok_init
      · exact hr
    have sw : ∀ bw, (autoSwitch bw addr c bs k).2.ok = true := by
      intro bw
      unfold autoSwitch
      by_cases h8 : (bw == 8) = true
      · rw [if_pos h8]
        have h1 := ok_byteSeq c (bs.take (8 - addr % 8)) false hc
        simp only [autoWords64]
        apply ok_byteSeq
        rw [word64_path_eq_byte_path _ h1]
        exact ok_byteSeq _ _ _ h1
      · rw [if_neg h8]
        by_cases h4 : (bw == 4) = true
        · rw [if_pos h4]
          have h1 := ok_byteSeq c (bs.take (4 - addr % 4)) false hc
          simp only [autoWords32]
          apply ok_byteSeq
          rw [word_path_eq_byte_path _ h1]
          exact ok_byteSeq _ _ _ h1
        · rw [if_neg h4]; exact hb
    unfold autoAligned
    exact e _ (sw _)

example : (Checker.mk 0xED 3 2).ok = true := by decide

end Cjet.Utf8
