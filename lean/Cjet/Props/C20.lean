import Cjet.Lemmas.Authfile
import Cjet.Props.CjsonTree
/-!
# C20 — password changes are authorised, effective and crash-atomic on disk

Theorems about the model `Cjet.Authfile` of `src/posix/auth_file.c` / `src/authenticate.c`.

* `change_authorised`, `refusal_order`, `step_changes_authorised`, `named_peer_was_authenticated`
  — who can change what, over all databases, callers, targets, histories;
* `new_authenticates_old_does_not`, `other_users_untouched` — effect of a change, for every
  `crypt` satisfying `CryptOk`;
* `salt_fits_buffer` — the re-derived `crypt` setting fits `char salt[22]` for every stored hash
  and every random input (over the regenerated method table);
* crash atomicity: the full statement is FALSE for the code as it is (F24: the file is truncated
  first and written afterwards).  `update_counterexample` (concrete, by `decide`) and
  `truncate_window_unloadable` (every update passes through an unloadable empty file) show it;
  `update_crash_atomic_partial` proves the statement for every crash point outside that window;
  `legacy_short_write_counterexample` records the corrected write-loop defect (F24b).
-/

namespace Cjet.Props.C20

open Cjet Cjet.Authfile

/-! ## Concrete objects used by the non-vacuity examples and the counterexamples -/

def exUser (n : UInt8) (ro adm : Bool) : User := ⟨[n], .str [n, 1], ro, adm, some [123, 125]⟩
/-- `a` plain, `b` admin, `c` read-only -/
def exDb : Db := [exUser 97 false false, exUser 98 false true, exUser 99 true false]
/-- a `crypt` that satisfies `CryptOk`: first byte of the setting, then the password -/
def exCrypt : Crypt := fun p s => some (s.headD 0 :: p)
def exDb' : Db := replacePassword exDb [97] [36, 120]
/-- serialisations `[1,1]` (old) and `[2,2]` (new) -/
def exCodec : Codec :=
  { ser := fun d => if d = exDb' then [2, 2] else [1, 1]
    parse := fun b => if b = [2, 2] then some exDb' else if b = [1, 1] then some exDb else none }
def exFs : Fs := ⟨[1, 1], 0⟩

/-! ## Authorisation -/

/-- A `passwd` request touches the in-memory database or the file (makes any file-system call)
    ONLY IF the caller is authenticated, the target exists and is not read-only, and the caller is
    the target or an admin; otherwise nothing changes and an error is returned. -/
theorem change_authorised (crypt : Crypt) (c : Codec) (db : Db) (fs : Fs) (caller : Option Bytes)
    (target newpw rnd : Bytes) (outs : List Outcome) :
    let r := changePassword crypt c db fs caller target newpw rnd outs
    (¬ Authorised db caller target → r.db = db ∧ r.trace = [] ∧ r.fs = fs ∧ r.err.isSome = true) ∧
    ((r.db ≠ db ∨ r.trace ≠ [] ∨ r.fs ≠ fs ∨ r.err = none) → Authorised db caller target) := by
  intro r
  have h1 : ¬ Authorised db caller target → r.db = db ∧ r.trace = [] ∧ r.fs = fs ∧ r.err.isSome = true := by
    intro hna
    obtain ⟨e, he, _⟩ := precheck_unauthorised hna
    have : r = ⟨db, [], fs, some e, none⟩ := by
      show changePassword crypt c db fs caller target newpw rnd outs = _
      unfold changePassword
      rw [he]
    rw [this]
    exact ⟨rfl, rfl, rfl, rfl⟩
  refine ⟨h1, ?_⟩
  intro hch
  by_cases ha : Authorised db caller target
  · exact ha
  · obtain ⟨a, b, c', d⟩ := h1 ha
    rcases hch with h | h | h | h
    · exact absurd a h
    · exact absurd b h
    · exact absurd c' h
    · rw [h] at d; cases d

/-- The refusals come in the order of the code: unauthenticated caller, unknown target,
    then "not allowed" (read-only target, or a foreign account without admin). -/
theorem refusal_order (crypt : Crypt) (c : Codec) (db : Db) (fs : Fs) (caller : Option Bytes)
    (target newpw rnd : Bytes) (outs : List Outcome) :
    let r := changePassword crypt c db fs caller target newpw rnd outs
    (caller = none → r.err = some .notAuthenticated) ∧
    (caller ≠ none → lookup db target = none → r.err = some .userNotInDb) ∧
    (∀ cn u, caller = some cn → lookup db target = some u →
      (u.readonly = true ∨ (cn ≠ target ∧ isAdmin db cn = false)) → r.err = some .notAllowed) := by
  intro r
  refine ⟨?_, ?_, ?_⟩
  · intro hc
    show (changePassword crypt c db fs caller target newpw rnd outs).err = _
    subst hc
    simp [changePassword, precheck]
  · intro hc hl
    show (changePassword crypt c db fs caller target newpw rnd outs).err = _
    cases caller with
    | none => exact absurd rfl hc
    | some cn => simp [changePassword, precheck, hl]
  · intro cn u hc hl hcond
    show (changePassword crypt c db fs caller target newpw rnd outs).err = _
    subst hc
    have : (!u.readonly && (cn == target || isAdmin db cn)) = false := by
      rcases hcond with h | ⟨h1, h2⟩
      · simp [h]
      · simp [h1, h2]
    simp [changePassword, precheck, hl, this]

example : Authorised exDb (some [98]) [97] := by decide
example : ¬ Authorised exDb (some [97]) [98] := by decide
example : ¬ Authorised exDb (some [98]) [99] := by decide
example : (changePassword exCrypt exCodec exDb exFs (some [97]) [98] [120] [] []).err = some .notAllowed := by decide
example : (changePassword exCrypt exCodec exDb exFs (some [97]) [97] [120] [] []).err = none := by decide

/-! ## Effect of a change -/

/-- The two stated assumptions about `crypt`.  libcrypt answers an unusable setting with a
    "failure token" (`*0`/`*1`, never equal to its setting) instead of NULL; `failure` recognises
    those results and both assumptions are about proper hashes only. -/
structure CryptOk (crypt : Crypt) (failure : Bytes → Bool) : Prop where
  /-- `crypt` verifies its own output: hashing the same password with the produced hash as
      setting reproduces the hash -/
  verifies : ∀ p s h, crypt p s = some h → failure h = false → crypt p h = some h
  /-- distinct passwords give distinct hashes under the same setting -/
  distinct : ∀ p q s h, crypt p s = some h → crypt q s = some h → failure h = false → p = q

example : CryptOk exCrypt (fun _ => false) :=
  ⟨by intro p s h hh _; simp [exCrypt] at hh ⊢; subst hh; simp,
   by intro p q s h h1 h2 _; simp [exCrypt] at h1 h2; rw [← h2] at h1; exact (List.cons.inj h1).2⟩

/-- Whenever the request stored a new hash (success response, or the late "could not write
    password file" error — the in-memory database is already changed then): the new password
    authenticates as the target (the result is the target's `auth` object) and NO other password
    does — in particular not the old one.  (Hypothesis `hnf`: libcrypt supports the method the
    setting was derived for, i.e. the hash that was stored is not a failure token.) -/
theorem new_authenticates_old_does_not (crypt : Crypt) (failure : Bytes → Bool) (hc : CryptOk crypt failure)
    (c : Codec) (db : Db) (fs : Fs)
    (caller : Option Bytes) (target newpw rnd : Bytes) (outs : List Outcome) :
    let r := changePassword crypt c db fs caller target newpw rnd outs
    (r.err = none ∨ r.err = some .writeFailed) →
    (∀ setting e, r.hashed = some (setting, some e) → failure e = false) →
    ∃ u, lookup db target = some u ∧
      credentialsOk crypt r.db target newpw = u.auth ∧
      ∀ q, q ≠ newpw → credentialsOk crypt r.db target q = none := by
  intro r hr hnf
  have hr' : (changePassword crypt c db fs caller target newpw rnd outs).err = none ∨
      (changePassword crypt c db fs caller target newpw rnd outs).err = some .writeFailed := hr
  have hnf' : ∀ setting e, (changePassword crypt c db fs caller target newpw rnd outs).hashed = some (setting, some e) →
      failure e = false := hnf
  show ∃ u, lookup db target = some u ∧
      credentialsOk crypt (changePassword crypt c db fs caller target newpw rnd outs).db target newpw = u.auth ∧
      ∀ q, q ≠ newpw → credentialsOk crypt (changePassword crypt c db fs caller target newpw rnd outs).db target q = none
  unfold changePassword at hr' hnf' ⊢
  cases hp : precheck db caller target with
  | error e =>
    exfalso
    obtain ⟨e', he', hk⟩ : ∃ e', precheck db caller target = .error e' ∧
        (e' = .notAuthenticated ∨ e' = .userNotInDb ∨ e' = .notAllowed ∨ e' = .noPassword ∨ e' = .passwordNotString) := by
      refine ⟨e, hp, ?_⟩
      unfold precheck at hp
      cases caller with
      | none => simp at hp; simp [← hp]
      | some cn =>
        simp only at hp
        cases hl : lookup db target with
        | none => simp [hl] at hp; simp [← hp]
        | some v =>
          simp only [hl] at hp
          by_cases hcond : (!v.readonly && (cn == target || isAdmin db cn)) = true
          · simp only [hcond, ↓reduceIte] at hp
            cases hpw : v.password with
            | absent => simp [hpw] at hp; simp [← hp]
            | notString => simp [hpw] at hp; simp [← hp]
            | str s => simp [hpw] at hp
          · simp [hcond] at hp; simp [← hp]
    rw [he'] at hr'
    simp only at hr'
    rcases hr' with h | h
    · cases h
    · rcases hk with k | k | k | k | k <;> (subst k; cases h)
  | ok v =>
    obtain ⟨u, stored⟩ := v
    rw [hp] at hr' hnf'
    simp only at hr' hnf' ⊢
    obtain ⟨_, hl, _⟩ := precheck_ok hp
    cases hs : deriveSetting stored rnd with
    | none =>
      rw [hs] at hr'
      simp at hr'
    | some setting =>
      rw [hs] at hr' hnf'
      simp only at hr' hnf' ⊢
      cases hcr : crypt newpw setting with
      | none =>
        rw [hcr] at hr'
        simp at hr'
      | some e =>
        rw [hcr] at hnf'
        simp only at hnf'
        have hne : failure e = false := hnf' setting e rfl
        simp only
        refine ⟨u, hl, ?_, ?_⟩
        · unfold credentialsOk
          rw [lookup_replacePassword_self db target e u hl]
          simp only
          rw [hc.verifies newpw setting e hcr hne]
          simp
        · intro q hq
          unfold credentialsOk
          rw [lookup_replacePassword_self db target e u hl]
          simp only
          cases hq2 : crypt q e with
          | none => rfl
          | some e' =>
            simp only
            by_cases he : e' = e
            · subst he
              exact absurd (hc.distinct q newpw e' e' hq2 (hc.verifies newpw setting e' hcr hne) hne) hq
            · simp [he]

example : (changePassword exCrypt exCodec exDb exFs (some [97]) [97] [120] [] []).err = none ∧
    ∀ setting e, (changePassword exCrypt exCodec exDb exFs (some [97]) [97] [120] [] []).hashed = some (setting, some e) →
      (fun _ => false) e = false := ⟨by decide, fun _ _ _ => rfl⟩
example : credentialsOk exCrypt (changePassword exCrypt exCodec exDb exFs (some [97]) [97] [120] [] []).db [97] [120]
    = some [123, 125] := by decide

/-- Nobody else is affected: every other name resolves to the same entry and authenticates exactly
    as before; and the list of entries keeps its order, names, flags and group data (only a
    `password` member differs). -/
theorem other_users_untouched (crypt : Crypt) (c : Codec) (db : Db) (fs : Fs)
    (caller : Option Bytes) (target newpw rnd : Bytes) (outs : List Outcome) :
    let r := changePassword crypt c db fs caller target newpw rnd outs
    (∀ name, caseEq name target = false →
      lookup r.db name = lookup db name ∧ ∀ pw, credentialsOk crypt r.db name pw = credentialsOk crypt db name pw) ∧
    r.db.map erasePw = db.map erasePw ∧
    (∀ name, isAdmin r.db name = isAdmin db name) := by
  intro r
  have hdb : r.db = db ∨ ∃ e, r.db = replacePassword db target e := by
    show (changePassword crypt c db fs caller target newpw rnd outs).db = db ∨
      ∃ e, (changePassword crypt c db fs caller target newpw rnd outs).db = replacePassword db target e
    unfold changePassword
    cases precheck db caller target with
    | error e => exact Or.inl rfl
    | ok v =>
      obtain ⟨u, stored⟩ := v
      simp only
      cases deriveSetting stored rnd with
      | none => exact Or.inl rfl
      | some setting =>
        simp only
        cases crypt newpw setting with
        | none => exact Or.inl rfl
        | some e => exact Or.inr ⟨e, rfl⟩
  rcases hdb with h | ⟨e, h⟩
  · rw [h]
    exact ⟨fun _ _ => ⟨rfl, fun _ => rfl⟩, rfl, fun _ => rfl⟩
  · rw [h]
    refine ⟨?_, replacePassword_erase db target e, fun name => isAdmin_replacePassword db target e name⟩
    intro name hn
    have hl := lookup_replacePassword_other db target e name hn
    refine ⟨hl, ?_⟩
    intro pw
    unfold credentialsOk
    rw [hl]

/-! ## Histories: all sequences of authenticate / passwd requests over any number of peers -/

/-- In every state, a step changes the database or the file only if it is a `passwd` request
    whose peer carries a user name for which the change is authorised. -/
theorem step_changes_authorised (crypt : Crypt) (c : Codec) (st : State) (op : Op) :
    ((step crypt c st op).db ≠ st.db ∨ (step crypt c st op).fs ≠ st.fs) →
    ∃ i target newpw rnd outs, op = .passwd i target newpw rnd outs ∧ Authorised st.db (st.names i) target := by
  intro h
  cases op with
  | fresh i => simp [step] at h
  | auth i user pw => simp [step] at h
  | passwd i target newpw rnd outs =>
    refine ⟨i, target, newpw, rnd, outs, rfl, ?_⟩
    have := (change_authorised crypt c st.db st.fs (st.names i) target newpw rnd outs).2
    apply this
    simp only [step] at h
    rcases h with h | h
    · exact Or.inl h
    · exact Or.inr (Or.inr (Or.inl h))

/-- Along every history that starts with unnamed peers: a peer carries user name `n` only if an
    earlier `authenticate` request of that very peer for `n` was accepted by `credentials_ok`
    against the database of that moment. -/
theorem named_peer_was_authenticated (crypt : Crypt) (c : Codec) (st0 : State)
    (h0 : ∀ i, st0.names i = none) (ops : List Op) (i : Nat) (n : Bytes) :
    (run crypt c st0 ops).names i = some n →
    ∃ pre pw post, ops = pre ++ Op.auth i n pw :: post ∧
      (credentialsOk crypt (run crypt c st0 pre).db n pw).isSome = true := by
  -- invariant over prefixes, extended one operation at a time
  suffices hgen : ∀ (rest pre : List Op),
      (∀ i n, (run crypt c st0 pre).names i = some n →
        ∃ p pw post, pre = p ++ Op.auth i n pw :: post ∧ (credentialsOk crypt (run crypt c st0 p).db n pw).isSome = true) →
      (∀ i n, (run crypt c st0 (pre ++ rest)).names i = some n →
        ∃ p pw post, pre ++ rest = p ++ Op.auth i n pw :: post ∧ (credentialsOk crypt (run crypt c st0 p).db n pw).isSome = true) by
    have := hgen ops [] (by
      intro i n h
      simp [run] at h
      rw [h0 i] at h
      cases h)
    simpa using this i n
  intro rest
  induction rest with
  | nil => intro pre h; simpa using h
  | cons op rest ih =>
    intro pre hpre
    have happ : pre ++ op :: rest = (pre ++ [op]) ++ rest := by simp
    rw [happ]
    apply ih
    intro i n hn
    rw [run_append] at hn
    simp only [run, List.foldl_cons, List.foldl_nil] at hn
    -- `hn` speaks about `step (run st0 pre) op`
    have keep : (run crypt c st0 pre).names i = some n →
        ∃ p pw post, pre ++ [op] = p ++ Op.auth i n pw :: post ∧
          (credentialsOk crypt (run crypt c st0 p).db n pw).isSome = true := by
      intro hold
      obtain ⟨p, pw, post, he, hcred⟩ := hpre i n hold
      exact ⟨p, pw, post ++ [op], by rw [he]; simp, hcred⟩
    cases op with
    | fresh j =>
      simp only [step, setName] at hn
      by_cases hij : i = j
      · simp [hij] at hn
      · simp only [hij, ↓reduceIte] at hn
        exact keep hn
    | passwd j target newpw rnd outs =>
      simp only [step] at hn
      exact keep hn
    | auth j user pw =>
      simp only [step, setName] at hn
      by_cases hij : i = j
      · simp only [hij, ↓reduceIte] at hn
        unfold authenticate at hn
        cases hcr : credentialsOk crypt (List.foldl (step crypt c) st0 pre).db user pw with
        | none =>
          rw [hcr] at hn
          simp only at hn
          subst hij
          exact keep hn
        | some a =>
          rw [hcr] at hn
          simp only at hn
          cases hn
          subst hij
          exact ⟨pre, pw, [], rfl, by simp only [run]; rw [hcr]; rfl⟩
      · simp only [hij, ↓reduceIte] at hn
        exact keep hn

example : (run exCrypt exCodec ⟨exDb, exFs, fun _ => none⟩ [.auth 0 [97] [1], .passwd 0 [97] [120] [] []]).names 0
    = some [97] := by decide

/-! ## Salt re-derivation stays inside `char salt[22]` -/

/-- For every stored hash and every random input, the setting handed to `crypt` plus its NUL fits
    the `salt` buffer of `change_password` (both sizes come from the source). -/
theorem salt_fits_buffer (stored rnd s : Bytes) (h : deriveSetting stored rnd = some s) :
    s.length + 1 ≤ Generated.Authfile.saltBufSize := by
  unfold deriveSetting deriveSettingWith at h
  cases hm : findMethod Generated.Authfile.methods stored with
  | none => simp [hm] at h
  | some m =>
    obtain ⟨pfx, minlen, maxlen⟩ := m
    have hmem : (pfx, minlen, maxlen) ∈ Generated.Authfile.methods := by
      unfold findMethod at hm
      split at hm
      · exact List.mem_of_find?_eq_some hm
      · exact List.mem_of_mem_head? hm
    simp only [hm] at h
    simp only [Generated.Authfile.methods, List.mem_cons, Prod.mk.injEq, List.not_mem_nil, or_false] at hmem
    rcases hmem with ⟨h1, h2, h3⟩ | ⟨h1, h2, h3⟩ | ⟨h1, h2, h3⟩ | ⟨h1, h2, h3⟩ <;>
      (subst h1 h2 h3
       simp only [ne_eq, Nat.reduceEqDiff, not_true_eq_false, not_false_eq_true, ↓reduceIte, Option.some.injEq] at h
       subst h
       simp only [List.length_append, List.length_map, takeRnd_length, List.length_cons, List.length_nil,
         Generated.Authfile.saltBufSize]
       omega)

example : deriveSetting [36, 54, 36, 97, 36, 98] [0, 0, 0, 0, 1, 2, 3, 4, 5, 6, 7, 8]
    = some [36, 54, 36, 98, 99, 100, 101, 102, 103, 104, 105, 36] := by decide

/-! ## Crash atomicity of the file update -/

def truncFailed (trace : List Step) : Bool :=
  match trace.head? with
  | some ⟨.ftruncate _, .err, _⟩ => true
  | _ => false

def seekFailed (trace : List Step) : Bool :=
  trace.any fun s => match s with
    | ⟨.lseek _, .err, _⟩ => true
    | _ => false

/-- Crash points OUTSIDE the window of F24 — decidable on a call trace, it is the complement of the
    trigger recorded in `known_findings.json` ("crash or write error between ftruncate and the
    completion of the last write"; an `lseek` that fails counts as inside):
    before the first call; anywhere when `ftruncate` itself failed; after the last call of a run
    that reported success with a successful `lseek`. -/
def OutsideWindow (trace : List Step) (ok : Bool) : CrashPoint → Bool
  | .between 0 => true
  | .between i => truncFailed trace || (ok && !seekFailed trace && decide (trace.length ≤ i))
  | .inside _ _ => truncFailed trace

/-
  FULL STATEMENT (does not hold for the code as it is — F24, see `update_counterexample`):

  theorem update_crash_atomic (c : Codec) (db db' : Db) (old : Bytes) (fs0 : Fs) (outs : List Outcome)
      (cp : CrashPoint) (hOld : c.parse old = some db) (hNew : c.Sound db') (h0 : fs0.data = old) :
      let disk := diskAt fs0 (writeUserData fs0 (c.ser db') outs).1 cp
      c.loadable disk = true ∧ (disk = old ∨ disk = c.ser db')
-/

/-- For every outcome sequence and every crash point outside the window: the file is loadable and
    holds the old or the new serialisation. -/
theorem update_crash_atomic_partial (c : Codec) (db db' : Db) (old : Bytes) (fs0 : Fs) (outs : List Outcome)
    (cp : CrashPoint) (hOld : c.parse old = some db) (hNew : c.Sound db') (h0 : fs0.data = old)
    (hout : OutsideWindow (writeUserData fs0 (c.ser db') outs).1 (writeUserData fs0 (c.ser db') outs).2 cp = true) :
    let disk := diskAt fs0 (writeUserData fs0 (c.ser db') outs).1 cp
    c.loadable disk = true ∧ (disk = old ∨ disk = c.ser db') := by
  intro disk
  suffices h : disk = old ∨ disk = c.ser db' by
    refine ⟨?_, h⟩
    rcases h with h | h
    · rw [h]; simp [Codec.loadable, hOld]
    · rw [h]; simp [Codec.loadable, hNew.roundtrip]
  show diskAt fs0 (writeUserData fs0 (c.ser db') outs).1 cp = old ∨
    diskAt fs0 (writeUserData fs0 (c.ser db') outs).1 cp = c.ser db'
  -- the crash point before the first call
  have hzero : diskAt fs0 (writeUserData fs0 (c.ser db') outs).1 (.between 0) = old := by
    simp [diskAt, fsAfter, h0]
  cases hh : outs.headD .ok with
  | err =>
    -- ftruncate failed: a single call, nothing changed
    have ht : writeUserData fs0 (c.ser db') outs = ([⟨.ftruncate 0, .err, fs0⟩], false) := by
      unfold writeUserData; rw [hh]
    left
    rw [ht]
    cases cp with
    | between i =>
      cases i with
      | zero => simp [diskAt, fsAfter, h0]
      | succ i =>
        cases i with
        | zero => simp [diskAt, fsAfter, h0]
        | succ i => simp [diskAt, fsAfter, h0]
    | inside i j =>
      cases i with
      | zero => simp [diskAt, fsAfter, h0]
      | succ i =>
        cases i with
        | zero => simp [diskAt, fsAfter, h0]
        | succ i => simp [diskAt, fsAfter, h0]
  | ok | short k =>
    all_goals
      -- ftruncate succeeded
      have hnotrunc : truncFailed (writeUserData fs0 (c.ser db') outs).1 = false := by
        unfold writeUserData; rw [hh]; rfl
      cases cp with
      | inside i j => simp [OutsideWindow, hnotrunc] at hout
      | between i =>
        cases i with
        | zero => exact Or.inl hzero
        | succ i =>
          right
          simp only [OutsideWindow, hnotrunc, Bool.false_or, Bool.and_eq_true, Bool.not_eq_true',
            decide_eq_true_eq] at hout
          obtain ⟨⟨hok, hseek⟩, hlen⟩ := hout
          -- the lseek did not fail
          cases hs : (outs.drop 1).headD .ok with
          | err =>
            exfalso
            have : seekFailed (writeUserData fs0 (c.ser db') outs).1 = true := by
              unfold writeUserData; rw [hh]; simp only [hs]; simp [seekFailed]
            rw [this] at hseek
            cases hseek
          | ok | short k2 =>
            all_goals
              have ht : writeUserData fs0 (c.ser db') outs =
                  (⟨.ftruncate 0, .ok, { fs0 with data := [] }⟩ :: ⟨.lseek 0, .count 0, ⟨[], 0⟩⟩ ::
                    (writeLoop ⟨[], 0⟩ (c.ser db') ((outs.drop 1).drop 1)).1,
                   (writeLoop ⟨[], 0⟩ (c.ser db') ((outs.drop 1).drop 1)).2) := by
                unfold writeUserData; rw [hh]; simp only [hs]
              rw [ht] at hok hlen ⊢
              simp only at hok hlen
              have hfin := writeLoop_final ((outs.drop 1).drop 1) ⟨[], 0⟩ (c.ser db') rfl hok
              simp only [diskAt]
              rw [fsAfter_beyond _ _ _ hlen, lastFs_cons, lastFs_cons, hfin]
              rfl

example : OutsideWindow (writeUserData exFs [2, 2] [.ok, .ok, .short 1]).1 (writeUserData exFs [2, 2] [.ok, .ok, .short 1]).2
    (.between 4) = true := by decide
example : exCodec.parse [1, 1] = some exDb ∧ exCodec.Sound exDb' :=
  ⟨by decide, ⟨by decide, by decide⟩⟩

/-- What the window holds (after the correction of the write loop): at every crash point after a
    successful `ftruncate` + `lseek`, the file is a PREFIX of the new serialisation — so it is
    unloadable exactly until the last byte is written, and never a mixture of old and new. -/
theorem window_holds_prefix_of_new (fs0 : Fs) (data : Bytes) (outs : List Outcome) (i : Nat)
    (htr : outs.headD .ok ≠ .err) (hseek : (outs.drop 1).headD .ok ≠ .err) :
    ∃ k, diskAt fs0 (writeUserData fs0 data outs).1 (.between (i + 1)) = data.take k := by
  have hall : ∀ s ∈ (writeUserData fs0 data outs).1, ∃ k, s.after.data = data.take k := by
    unfold writeUserData
    cases hh : outs.headD .ok with
    | err => exact absurd hh htr
    | ok | short k =>
      all_goals
        cases hs : (outs.drop 1).headD .ok with
        | err => exact absurd hs hseek
        | ok | short k2 =>
          all_goals
            simp only [hs]
            intro s hsm
            rcases List.mem_cons.mp hsm with h | hsm
            · subst h; exact ⟨0, by simp⟩
            rcases List.mem_cons.mp hsm with h | hsm
            · subst h; exact ⟨0, by simp⟩
            obtain ⟨k, hk⟩ := writeLoop_prefix ((outs.drop 1).drop 1) ⟨[], 0⟩ data rfl s hsm
            exact ⟨k, by simpa using hk⟩
  have hne : (writeUserData fs0 data outs).1 ≠ [] := by
    unfold writeUserData
    cases hh : outs.headD .ok with
    | err => exact absurd hh htr
    | ok => simp
    | short k => simp
  obtain ⟨s, hs, he⟩ := fsAfter_mem fs0 _ i hne
  simp only [diskAt]
  rw [he]
  exact hall s hs

example : diskAt exFs (writeUserData exFs [5, 6, 7, 8] [.ok, .ok, .short 3]).1 (.between 3) = [5, 6, 7] := by decide

/-- F24, general form: EVERY update whose `ftruncate` succeeds passes through a state in which the
    credential file is empty — and an empty file does not load. -/
theorem truncate_window_unloadable (c : Codec) (db' : Db) (fs0 : Fs) (outs : List Outcome)
    (hNew : c.Sound db') (hne : c.ser db' ≠ []) (htr : outs.headD .ok ≠ .err) :
    diskAt fs0 (writeUserData fs0 (c.ser db') outs).1 (.between 1) = [] ∧ c.loadable [] = false := by
  constructor
  · unfold writeUserData
    cases hh : outs.headD .ok with
    | err => exact absurd hh htr
    | ok => simp [diskAt, fsAfter]
    | short k => simp [diskAt, fsAfter]
  · have hpos : 0 < (c.ser db').length := List.length_pos_iff.mpr hne
    have := hNew.prefixes 0 hpos
    simp at this
    simp [Codec.loadable, this]

example : exCodec.Sound exDb' ∧ exCodec.ser exDb' ≠ [] ∧ ([] : List Outcome).headD .ok ≠ .err :=
  ⟨⟨by decide, by decide⟩, by decide, by decide⟩

/-- F24, concrete witness: the full crash-atomicity statement is false — old file `[1,1]`, new
    serialisation `[2,2]`, every call succeeds, crash right after the `ftruncate`: the file is
    empty, which is neither of the two and is not loadable. -/
theorem update_counterexample :
    ¬ (∀ (c : Codec) (db db' : Db) (old : Bytes) (fs0 : Fs) (outs : List Outcome) (cp : CrashPoint),
        c.parse old = some db → c.Sound db' → fs0.data = old →
        c.loadable (diskAt fs0 (writeUserData fs0 (c.ser db') outs).1 cp) = true ∧
          (diskAt fs0 (writeUserData fs0 (c.ser db') outs).1 cp = old ∨
           diskAt fs0 (writeUserData fs0 (c.ser db') outs).1 cp = c.ser db')) := by
  intro h
  have := h exCodec exDb exDb' [1, 1] exFs [] (.between 1) (by decide) ⟨by decide, by decide⟩ (by decide)
  revert this
  decide

/-- A crash INSIDE a write (after `j` bytes) is also a counterexample: a strict prefix of the new
    serialisation is on disk. -/
theorem update_counterexample_inside_write :
    diskAt exFs (writeUserData exFs (exCodec.ser exDb') []).1 (.inside 2 1) = [2] ∧
    exCodec.loadable [2] = false := by decide

/-- F24b (corrected by commit c5f7d0d): with the write loop as it was, a short write corrupted the
    file even without any crash or error — `write` accepts 1 of 4 bytes, the loop then writes the
    first 3 bytes AGAIN and reports success: the file holds `[5,5,6,7]` instead of `[5,6,7,8]`;
    when the short write covers at least half, the loop stops early: `[5,6]`. -/
theorem legacy_short_write_counterexample :
    (lastFs exFs (Legacy.writeUserData exFs [5, 6, 7, 8] [.ok, .ok, .short 1]).1).data = [5, 5, 6, 7] ∧
    (Legacy.writeUserData exFs [5, 6, 7, 8] [.ok, .ok, .short 1]).2 = true ∧
    (lastFs exFs (Legacy.writeUserData exFs [5, 6, 7, 8] [.ok, .ok, .short 2]).1).data = [5, 6] ∧
    (Legacy.writeUserData exFs [5, 6, 7, 8] [.ok, .ok, .short 2]).2 = true := by decide

/-- … and the corrected loop delivers the complete data for EVERY sequence of short writes that
    ends without an error. -/
theorem short_writes_complete (fs0 : Fs) (data : Bytes) (outs : List Outcome)
    (htr : outs.headD .ok ≠ .err) (hseek : (outs.drop 1).headD .ok ≠ .err)
    (hok : (writeUserData fs0 data outs).2 = true) :
    (lastFs fs0 (writeUserData fs0 data outs).1).data = data := by
  unfold writeUserData at hok ⊢
  cases hh : outs.headD .ok with
  | err => exact absurd hh htr
  | ok | short k =>
    all_goals
      cases hs : (outs.drop 1).headD .ok with
      | err => exact absurd hs hseek
      | ok | short k2 =>
        all_goals
          simp only [hh, hs] at hok ⊢
          rw [lastFs_cons, lastFs_cons]
          have := writeLoop_final ((outs.drop 1).drop 1) ⟨[], 0⟩ data rfl hok
          simpa using this

example : (writeUserData exFs [5, 6, 7, 8] [.ok, .ok, .short 1, .short 0, .short 2]).2 = true ∧
    (lastFs exFs (writeUserData exFs [5, 6, 7, 8] [.ok, .ok, .short 1, .short 0, .short 2]).1).data = [5, 6, 7, 8] := by
  decide

theorem json_replace_checked_failure_changes_nothing : type_of% @Cjet.Props.CjsonTree.replace_checked_failure_changes_nothing := @Cjet.Props.CjsonTree.replace_checked_failure_changes_nothing
theorem json_replace_unchecked_failure_strips_the_name : type_of% @Cjet.Props.CjsonTree.replace_unchecked_failure_strips_the_name := @Cjet.Props.CjsonTree.replace_unchecked_failure_strips_the_name
theorem json_replace_unchecked_failure_loses_the_member : type_of% @Cjet.Props.CjsonTree.replace_unchecked_failure_loses_the_member := @Cjet.Props.CjsonTree.replace_unchecked_failure_loses_the_member
theorem json_replace_success_in_place : type_of% @Cjet.Props.CjsonTree.replace_success_in_place := @Cjet.Props.CjsonTree.replace_success_in_place

end Cjet.Props.C20
