import Cjet.Lemmas.DaemonC11Answer
import Cjet.Lemmas.DaemonC11Accept
import Cjet.Lemmas.DaemonC11Example
import Cjet.Props.Evloop
import Cjet.Props.Accept
/-!
# C11 — a slow, failing or hostile peer harms only itself

Fault model of the daemon model `Cjet.Daemon`: the result of every send is an oracle input
(`Oracle.sends`, one value per send, in order).  A peer is faulty in a step if the sends addressed
to it may fail.  Garbage from a peer ends that peer's own connection (C05); here: what the *other*
peers see does not depend on how the sends to a faulty peer went.

Vocabulary (`Cjet.Lemmas.DaemonC11*`):
* `strip` erases the result flag of a send; `Sim x y`: the working contexts `x`, `y` have the same
  state, the same table-refusal flags and the same outputs up to send results (oracles arbitrary);
  `SimR a b`: `Sim a.1 b.1 ∧ a.2 = b.2`;
* `isRouted j`: `j` has the shape of a routed request; `Crit c d j := d = c ∨ isRouted j`: the
  decisive sends of a message of `c`; `critOf op` the same per operation (none for disconnect,
  timer expiry, connect);
* `AgreeOn K o1 o2`: at every position where both output lists have a send to the same peer and
  `K` holds, the results are equal; `AgreeRun K ops os1 os2`: the same, step by step;
* `SameOp`, `SameOps`: the same operation(s) with the same table refusals, any send results;
* `received r o`: the messages (with delivery result) sent to `r` in the output list `o`.
-/

namespace Cjet.Props.C11

open Cjet Cjet.Json Cjet.Daemon Cjet.Daemon.C05 Cjet.Daemon.C11

/-! ## concrete history for the examples: `Cjet.Lemmas.DaemonC11Example` (peer 1 owns state "a"; peers 2 and 3 fetch everything) -/

example : (step {} exS (.message 1 exChange { sends := [false, true, true] })).2.length = 3 := by decide +kernel

/-! ## 5a. the results of notification sends are ignored -/

/-- The post-state and what is sent to whom by `notifyFetchers`, `findFetchersForElement`,
    `offerAllElements`, `removeElement`, `freePeerResources`, `timeoutFired` and `routingResponse`
    do not depend on the send results at all: from contexts that differ only in send results
    (in particular: from the same context with ANY other oracle list, `Sim.of_sends`) they produce
    contexts that differ only in send results, and the same auxiliary results. -/
theorem notify_results_ignored (cfg : Config) (x y : Ctx) (h : Sim x y) :
    (∀ l, Sim x { x with sends := l }) ∧
    (∀ e ev, Sim (notifyFetchers x e ev) (notifyFetchers y e ev)) ∧
    (∀ e, SimR (findFetchersForElement cfg x e) (findFetchersForElement cfg y e)) ∧
    (∀ fp f, Sim (offerAllElements cfg x fp f) (offerAllElements cfg y fp f)) ∧
    (∀ e, Sim (removeElement x e) (removeElement y e)) ∧
    (∀ c, Sim (freePeerResources x c) (freePeerResources y c)) ∧
    (∀ c, Sim (closePeer x c) (closePeer y c)) ∧
    (∀ t, Sim (timeoutFired x t) (timeoutFired y t)) ∧
    (∀ p msg payload typ, SimR (routingResponse x p msg payload typ) (routingResponse y p msg payload typ)) :=
  ⟨Sim.of_sends x, notifyFetchers_sim h, findFetchersForElement_sim cfg h, offerAllElements_sim cfg h,
   removeElement_sim h, freePeerResources_sim h, closePeer_sim h, timeoutFired_sim h, routingResponse_sim h⟩

example : Sim (mkCtx exS { sends := [false, true] }) (mkCtx exS { sends := [true, false, false] }) :=
  ⟨rfl, rfl, rfl, rfl⟩

/-- The same, spelled out: run any of the seven functions from the same context with ANY other
    oracle list `l` — the post-state is the same and the same (target, json) sequence is sent. -/
theorem results_ignored_any_oracle (cfg : Config) (x : Ctx) (l : List Bool) :
    let y : Ctx := { x with sends := l }
    (∀ e ev, (notifyFetchers y e ev).st = (notifyFetchers x e ev).st ∧
      (notifyFetchers y e ev).out.map strip = (notifyFetchers x e ev).out.map strip) ∧
    (∀ e, (findFetchersForElement cfg y e).1.st = (findFetchersForElement cfg x e).1.st ∧
      (findFetchersForElement cfg y e).1.out.map strip = (findFetchersForElement cfg x e).1.out.map strip ∧
      (findFetchersForElement cfg y e).2 = (findFetchersForElement cfg x e).2) ∧
    (∀ fp f, (offerAllElements cfg y fp f).st = (offerAllElements cfg x fp f).st ∧
      (offerAllElements cfg y fp f).out.map strip = (offerAllElements cfg x fp f).out.map strip) ∧
    (∀ e, (removeElement y e).st = (removeElement x e).st ∧
      (removeElement y e).out.map strip = (removeElement x e).out.map strip) ∧
    (∀ c, (freePeerResources y c).st = (freePeerResources x c).st ∧
      (freePeerResources y c).out.map strip = (freePeerResources x c).out.map strip) ∧
    (∀ t, (timeoutFired y t).st = (timeoutFired x t).st ∧
      (timeoutFired y t).out.map strip = (timeoutFired x t).out.map strip) ∧
    (∀ p msg payload typ, (routingResponse y p msg payload typ).1.st = (routingResponse x p msg payload typ).1.st ∧
      (routingResponse y p msg payload typ).1.out.map strip = (routingResponse x p msg payload typ).1.out.map strip ∧
      (routingResponse y p msg payload typ).2 = (routingResponse x p msg payload typ).2) := by
  intro y
  have h : Sim x y := Sim.of_sends x l
  refine ⟨fun e ev => ?_, fun e => ?_, fun fp f => ?_, fun e => ?_, fun c => ?_, fun t => ?_, fun p msg pl typ => ?_⟩
  · have := notifyFetchers_sim h e ev; exact ⟨this.1.symm, this.2.2.2.symm⟩
  · have := findFetchersForElement_sim cfg h e; exact ⟨this.1.1.symm, this.1.2.2.2.symm, this.2.symm⟩
  · have := offerAllElements_sim cfg h fp f; exact ⟨this.1.symm, this.2.2.2.symm⟩
  · have := removeElement_sim h e; exact ⟨this.1.symm, this.2.2.2.symm⟩
  · have := freePeerResources_sim h c; exact ⟨this.1.symm, this.2.2.2.symm⟩
  · have := timeoutFired_sim h t; exact ⟨this.1.symm, this.2.2.2.symm⟩
  · have := routingResponse_sim h p msg pl typ; exact ⟨this.1.1.symm, this.1.2.2.2.symm, this.2.symm⟩

/-- every request handler except set/call: same state, same outputs up to results, same response -/
theorem handlers_results_ignored (cfg : Config) (x y : Ctx) (h : Sim x y) (p : Peer) (req : Json) :
    SimR (changeState x p req) (changeState y p req) ∧
    SimR (addElement cfg x p req) (addElement cfg y p req) ∧
    SimR (removeElementReq x p req) (removeElementReq y p req) ∧
    SimR (fetchReq cfg x p req) (fetchReq cfg y p req) ∧
    SimR (unfetchReq x p req) (unfetchReq y p req) ∧
    SimR (getReq cfg x p req) (getReq cfg y p req) ∧
    SimR (configReq x p req) (configReq y p req) ∧
    SimR (infoReq cfg x req) (infoReq cfg y req) ∧
    SimR (authenticateReq cfg x p req) (authenticateReq cfg y p req) ∧
    SimR (passwdReq x p req) (passwdReq y p req) :=
  ⟨changeState_sim h p req, addElement_sim cfg h p req, removeElementReq_sim h p req, fetchReq_sim cfg h p req,
   unfetchReq_sim h p req, getReq_sim cfg h p req, configReq_sim h p req, infoReq_sim cfg h req,
   authenticateReq_sim cfg h p req, passwdReq_sim h p req⟩

/-! ## 5b. one JSON-RPC object: only the response send and the routed-request send matter -/

/-- `parse_json_rpc` for connection `c` from two contexts that differ only in send results: if
    the two runs (whose final outputs, oldest first, are any lists `o1`, `o2` that begin with the
    outputs of the respective result) agree on the results of the sends to `c` and of routed
    requests, they end in contexts that differ only in send results and return the same verdict. -/
theorem parseJsonRpc_independent (cfg : Config) (x y : Ctx) (h : Sim x y) (c : Nat) (req : Json)
    (o1 o2 : List Obs) (e1 : Ext (parseJsonRpc cfg x c req).1 o1) (e2 : Ext (parseJsonRpc cfg y c req).1 o2)
    (ha : AgreeOn (Crit c) o1 o2) :
    SimR (parseJsonRpc cfg x c req) (parseJsonRpc cfg y c req) :=
  parseJsonRpc_sync cfg h c req e1 e2 ha

/-- `fanout_independent`, step level.  The same message of `c` served from the same reachable
    state with two oracles (same table refusals, ANY send results): if the outputs of the two
    steps agree on the results of the sends to `c` and of the routed requests, then the post-states
    are equal and the same things are sent to the same peers in the same order.  The results of
    all other sends — notifications and routed replies to bystanders — are irrelevant. -/
theorem fanout_independent (cfg : Config) (s : State) (hr : Reachable cfg s) (c : Nat) (msg : Option Json)
    (o1 o2 : Oracle) (hif : o1.indexFull = o2.indexFull) (hrf : o1.routeFull = o2.routeFull)
    (ha : AgreeOn (Crit c) (step cfg s (.message c msg o1)).2 (step cfg s (.message c msg o2)).2) :
    (step cfg s (.message c msg o1)).1 = (step cfg s (.message c msg o2)).1 ∧
    (step cfg s (.message c msg o1)).2.map strip = (step cfg s (.message c msg o2)).2.map strip :=
  message_sync cfg hr.inv c msg o1 o2 hif hrf ha

/-- non-vacuity: the send to subscriber 2 fails in one run and succeeds in the other; subscriber 3
    and the requester 1 are served identically -/
example : Reachable {} exS ∧
    AgreeOn (Crit 1) (step {} exS (.message 1 exChange { sends := [false, true, true] })).2
      (step {} exS (.message 1 exChange { sends := [true, true, true] })).2 := by
  refine ⟨exS_reachable, ?_⟩
  have h1 : ((step {} exS (.message 1 exChange { sends := [false, true, true] })).2.map
      (fun o => match o with | .send d _ b => (d, b) | _ => (0, true))) = [(2, false), (3, true), (1, true)] := by
    decide +kernel
  have h2 : ((step {} exS (.message 1 exChange { sends := [true, true, true] })).2.map
      (fun o => match o with | .send d _ b => (d, b) | _ => (0, true))) = [(2, true), (3, true), (1, true)] := by
    decide +kernel
  have e1 : ∀ (l : List Obs) (i d : Nat) (j : Json) (b : Bool), l[i]? = some (Obs.send d j b) →
      (l.map (fun o => match o with | .send d _ b => (d, b) | _ => (0, true)))[i]? = some (d, b) := by
    intro l i d j b h; simp [List.getElem?_map, h]
  intro i d j1 j2 b1 b2 g1 g2 hk
  have f1 := e1 _ i d j1 b1 g1
  have f2 := e1 _ i d j2 b2 g2
  rw [h1] at f1
  rw [h2] at f2
  have hj : isRouted j1 = false := by
    have : ((step {} exS (.message 1 exChange { sends := [false, true, true] })).2.all
        (fun o => match o with | .send _ j _ => !isRouted j | _ => true)) = true := by decide +kernel
    have := List.all_eq_true.1 this _ (List.mem_of_getElem? g1)
    simpa using this
  rcases hk with rfl | hk
  · match i, f1, f2 with
    | 0, f1, f2 => simp at f1
    | 1, f1, f2 => simp at f1
    | 2, f1, f2 => simp at f1 f2; rw [f1, f2]
    | n + 3, f1, f2 => simp at f1
  · rw [hj] at hk; cases hk

/-! ## 6. runs -/

/-- disconnects and timer expiries do not look at any send result -/
theorem teardown_and_expiry_independent (cfg : Config) (s : State) (c t : Nat) (o1 o2 : Oracle)
    (hif : o1.indexFull = o2.indexFull) (hrf : o1.routeFull = o2.routeFull) :
    ((step cfg s (.disconnect c o1)).1 = (step cfg s (.disconnect c o2)).1 ∧
     (step cfg s (.disconnect c o1)).2.map strip = (step cfg s (.disconnect c o2)).2.map strip) ∧
    ((step cfg s (.timerFire t o1)).1 = (step cfg s (.timerFire t o2)).1 ∧
     (step cfg s (.timerFire t o1)).2.map strip = (step cfg s (.timerFire t o2)).2.map strip) :=
  ⟨disconnect_sync cfg s c o1 o2 hif hrf, timerFire_sync cfg s t o1 o2 hif hrf⟩

/-- Two runs of the same operations from the same reachable state, with any send results: if,
    step by step, they agree on the results of the decisive sends (for a message of `c`: the sends
    to `c` and the routed requests), the final states are equal and every step sends the same
    things to the same peers in the same order. -/
theorem runs_independent (cfg : Config) (s : State) (hr : Reachable cfg s) (ops1 ops2 : List Op)
    (hs : SameOps ops1 ops2) (ha : AgreeRun critOf ops1 (run cfg s ops1).2 (run cfg s ops2).2) :
    (run cfg s ops1).1 = (run cfg s ops2).1 ∧
    (run cfg s ops1).2.map (·.map strip) = (run cfg s ops2).2.map (·.map strip) :=
  run_sync cfg hr.inv hs ha

/-- `healthy_peers_unaffected`.  `F` is the set of faulty peers.  Two runs of the same operations
    whose oracles differ only in the results of sends addressed to peers in `F` (`AgreeRun … ¬F`),
    where no peer of `F` is the sender of a message and no routed request is addressed to a peer
    of `F`: the final states are equal, every step sends the same messages to the same peers in the
    same order, and every peer outside `F` is sent the same messages with the same results. -/
theorem healthy_peers_unaffected (cfg : Config) (F : Nat → Prop) (s : State) (hr : Reachable cfg s)
    (ops1 ops2 : List Op) (hs : SameOps ops1 ops2)
    (hreq : ∀ op ∈ ops1, ∀ c m o, op = Op.message c m o → ¬ F c)
    (hrouted : ∀ o ∈ (run cfg s ops1).2, ∀ d j b, Obs.send d j b ∈ o → isRouted j = true → ¬ F d)
    (ha : AgreeRun (fun _ d _ => ¬ F d) ops1 (run cfg s ops1).2 (run cfg s ops2).2) :
    (run cfg s ops1).1 = (run cfg s ops2).1 ∧
    (run cfg s ops1).2.map (·.map strip) = (run cfg s ops2).2.map (·.map strip) ∧
    ∀ r, ¬ F r → (run cfg s ops1).2.map (received r) = (run cfg s ops2).2.map (received r) :=
  run_sync_faulty cfg F hr.inv hs hreq hrouted ha

/-- non-vacuity: F = {2}; peer 1 changes its state, the notification to 2 fails in one run only -/
example : Reachable {} exS ∧
    SameOps [.message 1 exChange { sends := [false, true, true] }] [.message 1 exChange { sends := [true, true, true] }] ∧
    (∀ op ∈ [Op.message 1 exChange { sends := [false, true, true] }], ∀ c m o, op = Op.message c m o → ¬ (c = 2)) ∧
    (∀ o ∈ (run {} exS [.message 1 exChange { sends := [false, true, true] }]).2, ∀ d j b,
      Obs.send d j b ∈ o → isRouted j = true → ¬ (d = 2)) := by
  refine ⟨exS_reachable, .cons ⟨rfl, rfl, rfl, rfl⟩ .nil, ?_, ?_⟩
  · intro op hop c m o h
    simp only [List.mem_singleton] at hop
    subst hop
    cases h
    decide
  · intro o ho d j b hm hrt
    have : (((run {} exS [.message 1 exChange { sends := [false, true, true] }]).2.all
        (fun o => o.all (fun ob => match ob with | .send _ j _ => !isRouted j | _ => true)))) = true := by
      decide +kernel
    have h1 := List.all_eq_true.1 (List.all_eq_true.1 this o ho) _ hm
    simp only [hrt] at h1
    cases h1

/-- `answered_exactly_once_under_faults`.  A `set`/`call` request of `c` that passes every check
    (`RoutedBy`) and whose delivery to the owner fails, from a requester whose own connection
    works: the whole step is — arm the timer, attempt the delivery, destroy the timer, and send `c`
    exactly one response, the INTERNAL_ERROR "could not send routing information" carrying the
    request's id.  Afterwards the owner's routing table is what it was before (minus entries
    carrying the same routed id), no routing entry holds the timer that was armed, and nothing
    else in the state changed but the two counters. -/
theorem answered_exactly_once_under_faults (cfg : Config) (s : State) (hr : Reachable cfg s) (c : Nat)
    (l : List (Bytes × Json)) (p : Peer) (isState : Bool) (path : Bytes) (e : Element) (id : Json)
    (value : Option Json) (tns : Nat)
    (h : RoutedBy cfg s c (.obj l) p isState path e id value tns) (o : Oracle) (hrf : o.routeFull = false)
    (rest : List Bool) (hs : o.sends = false :: true :: rest) :
    let rid := routedId (some id) s.uuid p.addrTok
    let s' := (step cfg s (.message c (some (.obj l)) o)).1
    (step cfg s (.message c (some (.obj l)) o)).2 =
      [.timerArm s.nextTimer tns,
       .send e.owner (routedMessage rid path isState value) false,
       .timerDestroy s.nextTimer,
       .send c (.obj [(k "id", id), (k "error",
         errorObject INTERNAL_ERROR "reason" (k "could not send routing information"))]) true] ∧
    s' = { s with uuid := (s.uuid + 1) % 4294967296, nextTimer := s.nextTimer + 1,
                  peers := removeRoute s.peers e.owner rid } ∧
    (∀ q ∈ s'.peers, ∀ r ∈ q.routes, r.timer ≠ s.nextTimer) ∧
    (∀ q ∈ s'.peers, ∀ r ∈ q.routes, ∃ q0 ∈ s.peers, q0.conn = q.conn ∧ r ∈ q0.routes) := by
  have hstep := routed_failed_delivery cfg h o hrf rest hs
  have hrem := removeRoute_added s.peers e.owner
    (⟨routedId (some id) s.uuid p.addrTok, c, e.owner, some id, s.nextTimer⟩ : Route)
  dsimp only at hrem ⊢
  rw [hstep]
  dsimp only
  rw [hrem]
  have hold : ∀ q ∈ removeRoute s.peers e.owner (routedId (some id) s.uuid p.addrTok), ∀ r ∈ q.routes,
      ∃ q0 ∈ s.peers, q0.conn = q.conn ∧ r ∈ q0.routes := by
    intro q hq r hrm
    unfold removeRoute at hq
    obtain ⟨q0, hq0, rfl⟩ := mem_updatePeer.1 hq
    refine ⟨q0, hq0, by split <;> rfl, ?_⟩
    split at hrm
    · exact (List.mem_filter.1 hrm).1
    · exact hrm
  refine ⟨rfl, rfl, ?_, hold⟩
  intro q hq r hrm
  obtain ⟨q0, hq0, _, hr0⟩ := hold q hq r hrm
  exact Nat.ne_of_lt (hr.inv.routes q0 hq0 r hr0).2.2

/-- non-vacuity: peer 3 sets "a", owned by peer 1 -/
example : Reachable {} exS ∧ ∃ p path e value tns, RoutedBy {} exS 3 exSet p true path e (exNum 9) value tns :=
  ⟨exS_reachable, exP, exPlan.2.1, exPlan.2.2.1, exPlan.2.2.2.2, 5000000000, ex_routedBy⟩

/-- the same request when the delivery succeeds is routed (so `RoutedBy` is what it says) -/
theorem routed_when_delivered (cfg : Config) (s : State) (c : Nat) (l : List (Bytes × Json)) (p : Peer)
    (isState : Bool) (path : Bytes) (e : Element) (id : Json) (value : Option Json) (tns : Nat)
    (h : RoutedBy cfg s c (.obj l) p isState path e id value tns) (o : Oracle) (hrf : o.routeFull = false)
    (rest : List Bool) (hs : o.sends = true :: rest) :
    (step cfg s (.message c (some (.obj l)) o)).2 =
      [.timerArm s.nextTimer tns,
       .send e.owner (routedMessage (routedId (some id) s.uuid p.addrTok) path isState value) true] ∧
    (step cfg s (.message c (some (.obj l)) o)).1.peers =
      updatePeer s.peers e.owner (fun q => { q with routes := q.routes ++
        [⟨routedId (some id) s.uuid p.addrTok, c, e.owner, some id, s.nextTimer⟩] }) := by
  rw [routed_delivered cfg h o hrf rest hs]
  exact ⟨rfl, rfl⟩

/-! ## 7. accept failures -/

open Cjet.Daemon.C11.Accept in
/-- `accept_failure_survived`: for every sequence of accept results, the repaired accept loop
    * aborts the event loop only if the result that ended the loop is one of the "listening socket
      unusable" errnos (EBADF, EINVAL, ENOTSOCK, EOPNOTSUPP, EFAULT) — and does abort then;
    * hands to the peer function exactly the descriptors the kernel returned before the loop
      ended, each once, in order;
    * is never ended by ECONNABORTED or EINTR: with or without such a result in the sequence the
      outcome is the same. -/
theorem accept_failure_survived (rs : List Res) :
    ((acceptCommon rs).1 = .abortLoop ↔
      ∃ e, (consumed rs).getLast? = some (.err e) ∧
        (e = .EBADF ∨ e = .EINVAL ∨ e = .ENOTSOCK ∨ e = .EOPNOTSUPP ∨ e = .EFAULT)) ∧
    (acceptCommon rs).2 = fdsOf (consumed rs) ∧
    (∀ pre rest e, rs = pre ++ .err e :: rest → (∀ r ∈ pre, ∃ n, r = .fd n) →
      (e = .ECONNABORTED ∨ e = .EINTR) → acceptCommon rs = acceptCommon (pre ++ rest)) := by
  refine ⟨?_, accept_fds rs, ?_⟩
  · rw [accept_abort_iff]
    constructor
    · rintro ⟨e, h1, h2⟩
      refine ⟨e, h1, ?_⟩
      cases e <;> simp_all [unusable]
    · rintro ⟨e, h1, h2⟩
      refine ⟨e, h1, ?_⟩
      rcases h2 with rfl | rfl | rfl | rfl | rfl <;> rfl
  · intro pre rest e hrs hpre he
    rw [hrs]
    apply accept_skips_retry pre rest e hpre
    rcases he with rfl | rfl <;> rfl

open Cjet.Daemon.C11.Accept in
example : [Res.fd 4, .err .ECONNABORTED, .fd 5] = [Res.fd 4] ++ .err .ECONNABORTED :: [.fd 5] ∧
    (∀ r ∈ [Res.fd 4], ∃ n, r = .fd n) := by
  refine ⟨rfl, ?_⟩
  intro r hr
  simp only [List.mem_singleton] at hr
  exact ⟨4, hr⟩

open Cjet.Daemon.C11.Accept in
/-- the code before the repair: an aborted connection attempt (or a signal, or a transient lack of
    descriptors) ended the event loop and lost the connection queued behind it; the repaired loop
    accepts it and keeps serving -/
theorem accept_original_counterexample :
    acceptOriginal [.err .ECONNABORTED, .fd 7] = (.abortLoop, []) ∧
    acceptCommon [.err .ECONNABORTED, .fd 7] = (.continueLoop, [7]) ∧
    acceptOriginal [.fd 3, .err .EMFILE] = (.abortLoop, [3]) ∧
    acceptCommon [.fd 3, .err .EMFILE] = (.continueLoop, [3]) ∧
    acceptOriginal [.err .EINTR] = (.abortLoop, []) ∧
    acceptCommon [.err .EINTR] = (.continueLoop, []) := by decide

/-! ### component level: the real dispatcher (eventloop_epoll.c) and the real accept loop (linux_io.c) — one peer's events, removals and failed connection attempts leave the turns of all others and the listener untouched -/

theorem evloop_others_undisturbed : type_of% @Cjet.Props.Evloop.others_undisturbed := @Cjet.Props.Evloop.others_undisturbed
theorem evloop_every_entry_gets_its_turn : type_of% @Cjet.Props.Evloop.every_entry_gets_its_turn := @Cjet.Props.Evloop.every_entry_gets_its_turn
theorem evloop_error_mask_only_error_function : type_of% @Cjet.Props.Evloop.error_mask_only_error_function_in_batch := @Cjet.Props.Evloop.error_mask_only_error_function_in_batch
theorem evloop_abort_stops_everything : type_of% @Cjet.Props.Evloop.abort_stops_everything := @Cjet.Props.Evloop.abort_stops_everything
theorem evloop_eintr_continues : type_of% @Cjet.Props.Evloop.eintr_continues := @Cjet.Props.Evloop.eintr_continues
theorem accept_fatal_class_exact : type_of% @Cjet.Props.Accept.fatal_class_exact := @Cjet.Props.Accept.fatal_class_exact
theorem accept_retry_class_exact : type_of% @Cjet.Props.Accept.retry_class_exact := @Cjet.Props.Accept.retry_class_exact
theorem accept_abort_only_on_fatal : type_of% @Cjet.Props.Accept.abort_only_on_fatal := @Cjet.Props.Accept.abort_only_on_fatal
theorem accept_listener_survives_transient : type_of% @Cjet.Props.Accept.listener_survives_transient := @Cjet.Props.Accept.listener_survives_transient
theorem accept_retry_class_continues_accepting : type_of% @Cjet.Props.Accept.retry_class_continues_accepting := @Cjet.Props.Accept.retry_class_continues_accepting
theorem accept_loop_terminates_when_queue_drains : type_of% @Cjet.Props.Accept.loop_terminates_when_queue_drains := @Cjet.Props.Accept.loop_terminates_when_queue_drains

end Cjet.Props.C11
