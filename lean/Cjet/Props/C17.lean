import Cjet.Lemmas.HoptableSweep

/-!
# C17 — the hopscotch hash tables behave as exact finite maps

Model: `Cjet.Hoptable` (transcription of `src/hashtable.h`); vocabulary: `Cjet.Hoptable.Spec`.
All theorems hold for **every** order, every key type with decidable equality, and every hash
function whose values are below the table size (collisions are therefore included), for both
variants of `find_closer_entry` (`clr`) unless stated otherwise.  `N = tableSize order`
(`1 << order`), `A = addRange order` (`1 << (order - 1)`), hop width `W = hopInfoBits`, all
regenerated from the C source.
-/

namespace Cjet.Props.C17

open Cjet Cjet.Hoptable

section
variable {K V : Type} [DecidableEq K] [Inhabited V]

/-- a concrete history used by the non-vacuity examples: order 3, real `hs_hash32`; 22, 31, 57 all
hash to bucket 7 (so they wrap around the end of the table into slots 0 and 1), 9 and 12 hash to
bucket 0 (already taken: they are pushed to slots 2 and 1), one overwrite, one remove -/
def demoOps : List (Op Nat Nat) :=
  [.put 22 1, .put 31 2, .put 57 3, .put 9 10, .put 22 11, .remove 31, .put 12 40]

/-- order 3: four keys of bucket 0 fill its whole probe window (`addRange 3 = 4`) -/
def fullOps : List (Op Nat Nat) := [.put 9 1, .put 12 2, .put 28 3, .put 30 4]

/-- order 7: the 32 keys of bucket 0 with the real `hs_hash32` (they occupy slots 0..31 and use up
all 32 hop bits), then key 27 whose home is slot 32.  A further key of bucket 0 (4021) finds the
empty slot 33, moves 27 from 32 to 33 and then gets stuck at slot 32 (replay of finding F25). -/
def stuckOps : List (Op Nat Nat) :=
  ([61, 190, 278, 654, 813, 846, 883, 991, 1037, 1208, 1239, 1451, 1478, 1565, 1815, 2038, 2041, 2141,
    2149, 2270, 2335, 2412, 2446, 2630, 2833, 2865, 3103, 3178, 3369, 3460, 3582, 3979].map (fun k => Op.put k k))
  ++ [.put 27 500]

def tableOf (order : Nat) (clr : Bool) (ops : List (Op Nat Nat)) : Table Nat Nat :=
  (runTable (tableSize order) (addRange order) (hashU32 order) clr (empty (tableSize order)) ops).2

def demoTable : Table Nat Nat := tableOf 3 true demoOps

/-- The empty table satisfies the invariant (with no ghost slots) and denotes the empty map. -/
theorem wf_empty (order : Nat) (hash : K → Nat) :
    WFS (tableSize order) hash (empty (tableSize order) : Table K V) ∧
      ∀ k v, ¬ Maps (tableSize order) (empty (tableSize order) : Table K V) k v :=
  ⟨wfs_empty, not_maps_empty⟩

/-- Every table reachable from the empty one is well-formed; with fix F25 (`clr = true`) it has no
ghost slots either. -/
theorem wf_run (order : Nat) (hash : K → Nat) (hhash : ∀ k, hash k < tableSize order)
    (clr : Bool) (ops : List (Op K V)) :
    let t := (runTable (tableSize order) (addRange order) hash clr (empty (tableSize order)) ops).2
    WF (tableSize order) hash t ∧ (clr = true → NoStale (tableSize order) t) := by
  obtain ⟨_, h2, h3⟩ := run_refines (tableSize_pos order) (addRange_le order) clr hhash ops _ []
    (wfs_empty (N := tableSize order) (hash := hash) (K := K) (V := V)).toWF abs_empty
  exact ⟨h2, fun hc => h3 hc (wfs_empty (hash := hash)).nostale⟩

/-- non-vacuity of `hhash`: the three real hash functions satisfy the range hypothesis for every
order the C code can express -/
example (order : Nat) (ho : order ≤ 32) : ∀ k, hashU32 order k < tableSize order := hashU32_lt order ho
example (order : Nat) (ho : order ≤ 32) : ∀ k, hashU64 order k < tableSize order := hashU64_lt order ho
example (order : Nat) (ho : order ≤ 32) : ∀ k, hashStr order k < tableSize order := hashStr_lt order ho

/-- non-vacuity of `WF` / `WFS`: the tables of the examples below are reachable, hence well-formed -/
theorem demo_wfs (order : Nat) (ho : order ≤ 32) (ops : List (Op Nat Nat)) :
    WFS (tableSize order) (hashU32 order) (tableOf order true ops) :=
  let h := wf_run order (hashU32 order) (hashU32_lt order ho) true ops
  { toWF := h.1, nostale := h.2 rfl }

example : WF (tableSize 3) (hashU32 3) demoTable := (demo_wfs 3 (by decide) demoOps).toWF

/-- `get` returns `v` exactly when the table maps the key to `v`. -/
theorem get_iff_maps (order : Nat) (hash : K → Nat) (hhash : ∀ k, hash k < tableSize order)
    (t : Table K V) (wf : WF (tableSize order) hash t) (k : K) (v : V) :
    get (tableSize order) hash t k = some v ↔ Maps (tableSize order) t k v :=
  get_iff_maps' (tableSize_pos order) wf (hhash k) v

/-- instance: lookups in `demoTable` — overwritten value, entry wrapped around the table end,
removed key -/
example : get (tableSize 3) (hashU32 3) demoTable 22 = some 11 ∧
    get (tableSize 3) (hashU32 3) demoTable 57 = some 3 ∧
    get (tableSize 3) (hashU32 3) demoTable 31 = none := by decide

/-- An accepted `put` keeps the invariant and updates the denoted map to `abs[k ↦ v]`;
`prev` is the value stored before (zero if none). -/
theorem put_ok (order : Nat) (hash : K → Nat) (hhash : ∀ k, hash k < tableSize order) (clr : Bool)
    (t : Table K V) (wf : WF (tableSize order) hash t) (k : K) (v : V)
    (hrc : (put (tableSize order) (addRange order) hash clr t k v).rc = .ok) :
    let r := put (tableSize order) (addRange order) hash clr t k v
    WF (tableSize order) hash r.tab ∧
      (∀ k' v', Maps (tableSize order) r.tab k' v' ↔
        (k' = k ∧ v' = v) ∨ (k' ≠ k ∧ Maps (tableSize order) t k' v')) ∧
      r.prev = (get (tableSize order) hash t k).getD default := by
  obtain ⟨h1, _, h3, _, h5⟩ := put_spec (tableSize_pos order) (addRange_le order) clr wf (hhash k) v
  exact ⟨h1, h3 hrc, h5⟩

/-- instance of the hypothesis of `put_ok`: an accepted put of a new, colliding key -/
example : (put (tableSize 3) (addRange 3) (hashU32 3) true demoTable 28 5).rc = .ok := by decide

/-- A refused `put` keeps the invariant, leaves the denoted map unchanged (the table may have
been rearranged), and the key was absent. -/
theorem put_full (order : Nat) (hash : K → Nat) (hhash : ∀ k, hash k < tableSize order) (clr : Bool)
    (t : Table K V) (wf : WF (tableSize order) hash t) (k : K) (v : V)
    (hrc : (put (tableSize order) (addRange order) hash clr t k v).rc = .full) :
    let r := put (tableSize order) (addRange order) hash clr t k v
    WF (tableSize order) hash r.tab ∧
      (∀ k' v', Maps (tableSize order) r.tab k' v' ↔ Maps (tableSize order) t k' v') ∧
      ¬ ∃ v, Maps (tableSize order) t k v := by
  obtain ⟨h1, _, _, h4, _⟩ := put_spec (tableSize_pos order) (addRange_le order) clr wf (hhash k) v
  obtain ⟨h4a, h4b⟩ := h4 hrc
  exact ⟨h1, h4a, fun ⟨v, m⟩ => h4b v m⟩

/-- instance of the hypothesis of `put_full`: the window of bucket 0 is occupied (order 3) -/
example : (put (tableSize 3) (addRange 3) (hashU32 3) true (tableOf 3 true fullOps) 32 5).rc = .full := by
  decide

/-- `remove` keeps the invariant, returns the stored value exactly when the key was present,
removes the key and leaves every other key's mapping unchanged. -/
theorem remove_spec (order : Nat) (hash : K → Nat) (hhash : ∀ k, hash k < tableSize order)
    (t : Table K V) (wf : WF (tableSize order) hash t) (k : K) :
    let r := remove (tableSize order) hash t k
    WF (tableSize order) hash r.2 ∧
      (∀ v, r.1 = some v ↔ Maps (tableSize order) t k v) ∧
      (∀ v, ¬ Maps (tableSize order) r.2 k v) ∧
      (∀ k', k' ≠ k → ∀ v', Maps (tableSize order) r.2 k' v' ↔ Maps (tableSize order) t k' v') := by
  obtain ⟨h1, _, h3, h4, h5⟩ := remove_spec_full (tableSize_pos order) wf (hhash k)
  exact ⟨h1, h3, h4, h5⟩

/-- instance: removing a present and an absent key from `demoTable` -/
example : (remove (tableSize 3) (hashU32 3) demoTable 22).1 = some 11 ∧
    (remove (tableSize 3) (hashU32 3) demoTable 31).1 = none := by decide

/-- No operation on key `k` changes what a lookup of any other key returns. -/
theorem others_undisturbed (order : Nat) (hash : K → Nat) (hhash : ∀ k, hash k < tableSize order)
    (clr : Bool) (t : Table K V) (wf : WF (tableSize order) hash t) (k k' : K) (hne : k' ≠ k) (v : V) :
    get (tableSize order) hash (put (tableSize order) (addRange order) hash clr t k v).tab k' =
        get (tableSize order) hash t k' ∧
      get (tableSize order) hash (remove (tableSize order) hash t k).2 k' =
        get (tableSize order) hash t k' := by
  have hN := tableSize_pos order
  obtain ⟨p1, _, p3, p4, _⟩ := put_spec hN (addRange_le order) clr wf (hhash k) v
  obtain ⟨r1, _, _, _, r5⟩ := remove_spec_full hN wf (hhash k)
  constructor
  · apply Option.ext
    intro v'
    rw [get_iff_maps' hN p1 (hhash k') v', get_iff_maps' hN wf (hhash k') v']
    cases hrc : (put (tableSize order) (addRange order) hash clr t k v).rc with
    | ok =>
      rw [p3 hrc k' v']
      constructor
      · rintro (⟨e, _⟩ | ⟨_, m⟩)
        · exact absurd e hne
        · exact m
      · intro m; exact Or.inr ⟨hne, m⟩
    | full => exact (p4 hrc).1 k' v'
  · apply Option.ext
    intro v'
    rw [get_iff_maps' hN r1 (hhash k') v', get_iff_maps' hN wf (hhash k') v']
    exact r5 k' hne v'

/-- instance of `hne`, with both keys present in `demoTable` and hashing to the same bucket -/
example : (57 : Nat) ≠ 22 ∧ hashU32 3 57 = hashU32 3 22 := by decide

/-- **Refinement.** Any operation sequence applied to the empty table produces exactly the outputs
of an association-list map; the only freedom is that a `put` of an absent key may be refused
(`refusals` marks where the table did), and a refused `put` changes nothing. -/
theorem run_refines_map (order : Nat) (hash : K → Nat) (hhash : ∀ k, hash k < tableSize order)
    (clr : Bool) (ops : List (Op K V)) :
    let outs := (runTable (tableSize order) (addRange order) hash clr (empty (tableSize order)) ops).1
    outs = runAssoc [] ops (refusals outs) :=
  (run_refines (tableSize_pos order) (addRange_le order) clr hhash ops _ []
    wfs_empty.toWF abs_empty).1

/-- instance: the outputs of `demoOps` and of a history with a refusal -/
example : (runTable (tableSize 3) (addRange 3) (hashU32 3) true (empty (tableSize 3)) demoOps).1 =
    [.putOk 0, .putOk 0, .putOk 0, .putOk 0, .putOk 1, .removed (some 2), .putOk 0] := by decide

example : (runTable (tableSize 3) (addRange 3) (hashU32 3) true (empty (tableSize 3))
      (fullOps ++ [.put 32 5, .get 32, .put 9 7, .get 9])).1 =
    [.putOk 0, .putOk 0, .putOk 0, .putOk 0, .putFull, .got none, .putOk 1, .got (some 7)] := by decide

/-- **Why `put` refuses** (fixed code, tables without ghost slots): the key is absent, and either
every slot of the probe window `[hash k, hash k + A)` holds a live entry, or the greedy
displacement got stuck: the rearranged table has an empty slot at a distance `≥ W` inside the
window, everything before it is live, and none of the `W - 1` preceding buckets owns an entry
that could legally be moved into it. -/
theorem full_reason (order : Nat) (hash : K → Nat) (hhash : ∀ k, hash k < tableSize order)
    (t : Table K V) (wfs : WFS (tableSize order) hash t) (k : K) (v : V)
    (hrc : (put (tableSize order) (addRange order) hash true t k v).rc = .full) :
    (¬ ∃ v, Maps (tableSize order) t k v) ∧
      (WindowOccupied (tableSize order) (addRange order) t (hash k) ∨
        Stuck (tableSize order) (addRange order)
          (put (tableSize order) (addRange order) hash true t k v).tab (hash k)) := by
  obtain ⟨h1, h2, _⟩ := put_full_reason (tableSize_pos order) (addRange_le order) wfs (hhash k) v hrc
  exact ⟨h1, h2⟩

/-- instances of the hypotheses of `full_reason` / `no_capacity_loss`: a refusal because the window
is occupied (order 3, above) and one because the displacement got stuck (order 7: the replay of
finding F25 on the fixed code); both tables satisfy `WFS` by `demo_wfs` -/
example : (put (tableSize 7) (addRange 7) (hashU32 7) true (tableOf 7 true stuckOps) 4021 600).rc = .full := by
  decide +kernel

example : WFS (tableSize 7) (hashU32 7) (tableOf 7 true stuckOps) := demo_wfs 7 (by decide) stuckOps
example : WFS (tableSize 3) (hashU32 3) (tableOf 3 true fullOps) := demo_wfs 3 (by decide) fullOps

/-- the hypothesis of `full_iff_small` holds for every order up to 6 (tables of at most 64 slots) -/
theorem small_orders (order : Nat) (ho : order ≤ 6) : addRange order ≤ W := by
  rw [addRange_eq]
  have hW : W = 2 ^ 5 := by decide
  rw [hW]
  exact Nat.pow_le_pow_right (by decide) (by omega)

/-- instance: `small_orders` applies to the default routing table order (6), not to order 7 -/
example : addRange 6 ≤ W ∧ ¬ addRange 7 ≤ W := by decide

/-- When the add range does not exceed the hop range (`N ≤ 2·W`, i.e. `N ≤ 64`) no displacement
is ever attempted: `put` refuses **iff** the key is absent and the window is fully occupied. -/
theorem full_iff_small (order : Nat) (hsmall : addRange order ≤ W) (hash : K → Nat)
    (hhash : ∀ k, hash k < tableSize order) (clr : Bool)
    (t : Table K V) (wfs : WFS (tableSize order) hash t) (k : K) (v : V) :
    (put (tableSize order) (addRange order) hash clr t k v).rc = .full ↔
      (¬ ∃ v, Maps (tableSize order) t k v) ∧
        WindowOccupied (tableSize order) (addRange order) t (hash k) :=
  put_full_iff_small (tableSize_pos order) (addRange_le order) hsmall clr wfs (hhash k) v

/-- **No capacity loss** (fixed code): a refused `put` leaves the number of empty slots
unchanged (and the table without ghost slots).  False for the code before fix F25, see
`no_capacity_loss_legacy_counterexample`. -/
theorem no_capacity_loss (order : Nat) (hash : K → Nat) (hhash : ∀ k, hash k < tableSize order)
    (t : Table K V) (wfs : WFS (tableSize order) hash t) (k : K) (v : V)
    (hrc : (put (tableSize order) (addRange order) hash true t k v).rc = .full) :
    emptyCount (tableSize order) (put (tableSize order) (addRange order) hash true t k v).tab =
        emptyCount (tableSize order) t ∧
      WFS (tableSize order) hash (put (tableSize order) (addRange order) hash true t k v).tab := by
  obtain ⟨_, _, h3⟩ := put_full_reason (tableSize_pos order) (addRange_le order) wfs (hhash k) v hrc
  obtain ⟨p1, p2, _⟩ := put_spec (tableSize_pos order) (addRange_le order) true wfs.toWF (hhash k) v
  exact ⟨h3, { toWF := p1, nostale := p2 rfl wfs.nostale }⟩

/-- The invariant with no ghost slots is kept by every operation of the fixed code. -/
theorem wfs_step (order : Nat) (hash : K → Nat) (hhash : ∀ k, hash k < tableSize order)
    (t : Table K V) (wfs : WFS (tableSize order) hash t) (op : Op K V) :
    WFS (tableSize order) hash (stepTable (tableSize order) (addRange order) hash true t op).2 := by
  cases op with
  | get k => exact wfs
  | remove k =>
    obtain ⟨h1, h2, _⟩ := remove_spec_full (tableSize_pos order) wfs.toWF (hhash k)
    exact { toWF := h1, nostale := h2 wfs.nostale }
  | put k v =>
    obtain ⟨h1, h2, _⟩ := put_spec (tableSize_pos order) (addRange_le order) true wfs.toWF (hhash k) v
    have : (stepTable (tableSize order) (addRange order) hash true t (.put k v)).2 =
        (put (tableSize order) (addRange order) hash true t k v).tab := by
      simp only [stepTable]; split <;> rfl
    rw [this]
    exact { toWF := h1, nostale := h2 rfl wfs.nostale }

/-- **The router's sweep** (`remove_routing_info_from_peer`, `remove_peer_from_routing_table`):
iterating over all slots and removing the key found in each non-empty slot, on a table without
ghost slots, (1) ends with a table that maps nothing, in which every key is the empty pattern and
every bitmap is zero; (2) hands out exactly the values the table held; (3) removes exactly as
many entries as there were occupied slots. -/
theorem sweep_spec (order : Nat) (hash : K → Nat) (hhash : ∀ k, hash k < tableSize order)
    (t : Table K V) (wfs : WFS (tableSize order) hash t) :
    let s := sweep (tableSize order) hash t
    (∀ k v, ¬ Maps (tableSize order) s.2 k v) ∧
      (∀ j, j < tableSize order → (slot s.2 j).key = none ∧ (slot s.2 j).hop = 0) ∧
      (∀ v, v ∈ s.1 ↔ ∃ k, Maps (tableSize order) t k v) ∧
      s.1.length + emptyCount (tableSize order) t = tableSize order := by
  have hN := tableSize_pos order
  obtain ⟨h1, h2, h3, h4⟩ := sweepFrom_spec hN hhash (tableSize order) 0 t (by omega) wfs
    (fun j hj => by omega)
  refine ⟨no_maps_of_all_none h1.toWF hN h2, fun j hj => ⟨h2 j hj, ?_⟩, h3, h4⟩
  apply BitVec.eq_of_getLsbD_eq
  intro d hd
  have hz : (0 : BitVec W).getLsbD d = false := by simp
  rw [hz]
  cases hb : (slot (sweep (tableSize order) hash t).2 j).hop.getLsbD d with
  | false => rfl
  | true =>
    obtain ⟨_, k, hk, _⟩ := h1.bits j hj d hd hb
    rw [h2 _ (Nat.mod_lt _ hN)] at hk; cases hk

/-- instance: sweeping `demoTable` (slots 0, 1, 2 and 7 occupied, two of them by wrapped entries of
bucket 7) hands out the four stored values in slot order and leaves a pristine table -/
example : (sweep (tableSize 3) (hashU32 3) demoTable).1 = [40, 3, 10, 11] ∧
    (sweep (tableSize 3) (hashU32 3) demoTable).2 = empty (tableSize 3) := by decide

end

/-- **F25, code before the fix** (`clr = false`): the same refused put *loses* an empty slot — the
slot vacated by the displacement keeps its key although no bitmap refers to it any more.
(The full-strength `no_capacity_loss` above is proved for the committed, fixed code.) -/
theorem no_capacity_loss_legacy_counterexample :
    let t := tableOf 7 false stuckOps
    let r := put (tableSize 7) (addRange 7) (hashU32 7) false t 4021 600
    r.rc = .full ∧ emptyCount (tableSize 7) r.tab + 1 = emptyCount (tableSize 7) t ∧
      (slot r.tab 32).key = some 27 ∧ (slot r.tab 33).key = some 27 := by
  decide +kernel

end Cjet.Props.C17
