import Cjet.Lemmas.HoptableRun

/-!
# C17 — the hopscotch hash tables behave as exact finite maps

Model: `Cjet.Hoptable` (transcription of `src/hashtable.h`); vocabulary: `Cjet.Hoptable.Spec`.
All theorems hold for **every** order, every key type with decidable equality, and every hash
function whose values are below the table size (collisions are therefore included), for both
variants of `find_closer_entry` (`clr`) unless stated otherwise.  `N = tableSize order`
(`1 << order`), `A = addRange order` (`1 << (order - 1)`), hop width `W = hopInfoBits`, all
regenerated from the C source.
-/

namespace Cjet.Props.C17

open Cjet Cjet.Hoptable

section
variable {K V : Type} [DecidableEq K] [Inhabited V]

/-- a concrete table used by the non-vacuity examples: order 3, real `hs_hash32`, five puts
(two of which collide and one overwrites) and a remove -/
def demoOps : List (Op Nat Nat) :=
  [.put 1 10, .put 9 20, .put 17 30, .put 1 11, .remove 9, .put 25 40]

def demoTable : Table Nat Nat :=
  (runTable (tableSize 3) (addRange 3) (hashU32 3) true (empty (tableSize 3)) demoOps).2

/-- The empty table satisfies the invariant (with no ghost slots) and denotes the empty map. -/
theorem wf_empty (order : Nat) (hash : K → Nat) :
    WFS (tableSize order) hash (empty (tableSize order) : Table K V) ∧
      ∀ k v, ¬ Maps (tableSize order) (empty (tableSize order) : Table K V) k v :=
  ⟨wfs_empty, not_maps_empty⟩

/-- `get` returns `v` exactly when the table maps the key to `v`. -/
theorem get_iff_maps (order : Nat) (hash : K → Nat) (hhash : ∀ k, hash k < tableSize order)
    (t : Table K V) (wf : WF (tableSize order) hash t) (k : K) (v : V) :
    get (tableSize order) hash t k = some v ↔ Maps (tableSize order) t k v :=
  get_iff_maps' (tableSize_pos order) wf (hhash k) v

/-- An accepted `put` keeps the invariant and updates the denoted map to `abs[k ↦ v]`;
`prev` is the value stored before (zero if none). -/
theorem put_ok (order : Nat) (hash : K → Nat) (hhash : ∀ k, hash k < tableSize order) (clr : Bool)
    (t : Table K V) (wf : WF (tableSize order) hash t) (k : K) (v : V)
    (hrc : (put (tableSize order) (addRange order) hash clr t k v).rc = .ok) :
    let r := put (tableSize order) (addRange order) hash clr t k v
    WF (tableSize order) hash r.tab ∧
      (∀ k' v', Maps (tableSize order) r.tab k' v' ↔
        (k' = k ∧ v' = v) ∨ (k' ≠ k ∧ Maps (tableSize order) t k' v')) ∧
      r.prev = (get (tableSize order) hash t k).getD default := by
  obtain ⟨h1, _, h3, _, h5⟩ := put_spec (tableSize_pos order) (addRange_le order) clr wf (hhash k) v
  exact ⟨h1, h3 hrc, h5⟩

/-- A refused `put` keeps the invariant, leaves the denoted map unchanged (the table may have
been rearranged), and the key was absent. -/
theorem put_full (order : Nat) (hash : K → Nat) (hhash : ∀ k, hash k < tableSize order) (clr : Bool)
    (t : Table K V) (wf : WF (tableSize order) hash t) (k : K) (v : V)
    (hrc : (put (tableSize order) (addRange order) hash clr t k v).rc = .full) :
    let r := put (tableSize order) (addRange order) hash clr t k v
    WF (tableSize order) hash r.tab ∧
      (∀ k' v', Maps (tableSize order) r.tab k' v' ↔ Maps (tableSize order) t k' v') ∧
      ¬ ∃ v, Maps (tableSize order) t k v := by
  obtain ⟨h1, _, _, h4, _⟩ := put_spec (tableSize_pos order) (addRange_le order) clr wf (hhash k) v
  obtain ⟨h4a, h4b⟩ := h4 hrc
  exact ⟨h1, h4a, fun ⟨v, m⟩ => h4b v m⟩

/-- `remove` keeps the invariant, returns the stored value exactly when the key was present,
removes the key and leaves every other key's mapping unchanged. -/
theorem remove_spec (order : Nat) (hash : K → Nat) (hhash : ∀ k, hash k < tableSize order)
    (t : Table K V) (wf : WF (tableSize order) hash t) (k : K) :
    let r := remove (tableSize order) hash t k
    WF (tableSize order) hash r.2 ∧
      (∀ v, r.1 = some v ↔ Maps (tableSize order) t k v) ∧
      (∀ v, ¬ Maps (tableSize order) r.2 k v) ∧
      (∀ k', k' ≠ k → ∀ v', Maps (tableSize order) r.2 k' v' ↔ Maps (tableSize order) t k' v') := by
  obtain ⟨h1, _, h3, h4, h5⟩ := remove_spec_full (tableSize_pos order) wf (hhash k)
  exact ⟨h1, h3, h4, h5⟩

/-- No operation on key `k` changes what a lookup of any other key returns. -/
theorem others_undisturbed (order : Nat) (hash : K → Nat) (hhash : ∀ k, hash k < tableSize order)
    (clr : Bool) (t : Table K V) (wf : WF (tableSize order) hash t) (k k' : K) (hne : k' ≠ k) (v : V) :
    get (tableSize order) hash (put (tableSize order) (addRange order) hash clr t k v).tab k' =
        get (tableSize order) hash t k' ∧
      get (tableSize order) hash (remove (tableSize order) hash t k).2 k' =
        get (tableSize order) hash t k' := by
  have hN := tableSize_pos order
  obtain ⟨p1, _, p3, p4, _⟩ := put_spec hN (addRange_le order) clr wf (hhash k) v
  obtain ⟨r1, _, _, _, r5⟩ := remove_spec_full hN wf (hhash k)
  constructor
  · apply Option.ext
    intro v'
    rw [get_iff_maps' hN p1 (hhash k') v', get_iff_maps' hN wf (hhash k') v']
    cases hrc : (put (tableSize order) (addRange order) hash clr t k v).rc with
    | ok =>
      rw [p3 hrc k' v']
      constructor
      · rintro (⟨e, _⟩ | ⟨_, m⟩)
        · exact absurd e hne
        · exact m
      · intro m; exact Or.inr ⟨hne, m⟩
    | full => exact (p4 hrc).1 k' v'
  · apply Option.ext
    intro v'
    rw [get_iff_maps' hN r1 (hhash k') v', get_iff_maps' hN wf (hhash k') v']
    exact r5 k' hne v'

/-- **Refinement.** Any operation sequence applied to the empty table produces exactly the outputs
of an association-list map; the only freedom is that a `put` of an absent key may be refused
(`refusals` marks where the table did), and a refused `put` changes nothing. -/
theorem run_refines_map (order : Nat) (hash : K → Nat) (hhash : ∀ k, hash k < tableSize order)
    (clr : Bool) (ops : List (Op K V)) :
    let outs := (runTable (tableSize order) (addRange order) hash clr (empty (tableSize order)) ops).1
    outs = runAssoc [] ops (refusals outs) :=
  (run_refines (tableSize_pos order) (addRange_le order) clr hhash ops _ []
    wfs_empty.toWF abs_empty).1

/-- Every table reachable from the empty one is well-formed; with fix F25 (`clr = true`) it has no
ghost slots either. -/
theorem wf_run (order : Nat) (hash : K → Nat) (hhash : ∀ k, hash k < tableSize order)
    (clr : Bool) (ops : List (Op K V)) :
    let t := (runTable (tableSize order) (addRange order) hash clr (empty (tableSize order)) ops).2
    WF (tableSize order) hash t ∧ (clr = true → NoStale (tableSize order) t) := by
  obtain ⟨_, h2, h3⟩ := run_refines (tableSize_pos order) (addRange_le order) clr hhash ops _ []
    (wfs_empty (N := tableSize order) (hash := hash) (K := K) (V := V)).toWF abs_empty
  exact ⟨h2, fun hc => h3 hc (wfs_empty (hash := hash)).nostale⟩

end

/-! ## Non-vacuity: the hypotheses are satisfiable by concrete, non-trivial instances -/

/-- the real 32-bit hash satisfies the range hypothesis for every order the C code can express -/
example (order : Nat) (ho : order ≤ 32) : ∀ k, hashU32 order k < tableSize order := hashU32_lt order ho
example (order : Nat) (ho : order ≤ 32) : ∀ k, hashU64 order k < tableSize order := hashU64_lt order ho
example (order : Nat) (ho : order ≤ 32) : ∀ k, hashStr order k < tableSize order := hashStr_lt order ho

/-- `demoTable` (collisions, overwrite, removal) is well-formed -/
example : WF (tableSize 3) (hashU32 3) demoTable :=
  (wf_run 3 (hashU32 3) (hashU32_lt 3 (by decide)) true demoOps).1

end Cjet.Props.C17
