import Cjet.Lemmas.DaemonC04Examples

/-!
# C04 — element namespace: unique paths, owner-only mutation, state/method typing

Model: `Cjet.Daemon.Model` (frozen).  Abstraction: `absElems : State → List (Bytes × ElemInfo)`, the
association list path ↦ (owner, value — `none` for a method —, fetchOnly, timeout, groups) in
peer-list / element-list order, with lookup `absGet`.  `WF` is the well-formedness invariant
(definitions in `Cjet.Lemmas.DaemonC04Defs`).

All theorems quantify over every configuration, every well-formed state (every reachable state is
well-formed: `wf_invariant`), every JSON request, every oracle value carried by the context
(`sends`, `indexFull`, `routeFull`) and any number of peers.  Theorems about one request object are
stated for `parseJsonRpc` on an arbitrary context `x` (state + outputs so far + oracle rest), which
is what `step` runs for an object message and for every member of a batch array.
-/

namespace Cjet.Daemon.C04

open Cjet Cjet.Json Cjet.Daemon

/-! ## 1. the invariant -/

theorem wf_init (us : List User) : WF ({ users := us } : State) :=
  (wf_iff_wfs _).2 (wfs_init us)

/-- every operation (connect, message — object, batch, garbage, with or without close —,
    disconnect, timer expiry) preserves well-formedness -/
theorem wf_step (cfg : Config) (s : State) (op : Op) (h : WF s) : WF (step cfg s op).1 :=
  (wf_iff_wfs _).2 (wfs_step cfg s op ((wf_iff_wfs _).1 h))

theorem wf_run (cfg : Config) (s : State) (ops : List Op) (h : WF s) : WF (run cfg s ops).1 :=
  (wf_iff_wfs _).2 (wfs_run cfg ops s ((wf_iff_wfs _).1 h))

/-- In every reachable state: the index and the element lists are in sync, no path occurs twice
    (neither in the index nor across all element lists), every element's owner field is the
    connection of the peer holding it, peer connections are distinct. -/
theorem wf_invariant (cfg : Config) (us : List User) (ops : List Op) :
    WF (run cfg { users := us } ops).1 :=
  wf_run cfg _ ops (wf_init us)

/-- one request object keeps the context's state well-formed (used for batch members) -/
theorem wf_parseJsonRpc (cfg : Config) (x : Ctx) (c : Nat) (req : Json) (h : WF x.st) :
    WF (parseJsonRpc cfg x c req).1.st :=
  (wf_iff_wfs _).2 (parseJsonRpc_own cfg x c req ((wf_iff_wfs _).1 h)).wfs

/-- non-vacuity for `wf_step`, `wf_run`, `wf_parseJsonRpc`: well-formed states exist, e.g. the initial
    one and `exS` (three peers, peer 1 owning a state and a method, peer 2 a fetch-only state) -/
example : WF ({ users := [] } : State) ∧ WF exS ∧ WF (mkCtx exS {}).st ∧
    (absElems exS).map (·.1) = [[0x73], [0x6d], [0x66]] ∧
    (absElems exS).map (·.2.owner) = [1, 1, 2] :=
  ⟨wf_init [], exS_wf, exS_wf, by decide +kernel, by decide +kernel⟩

/-! ## 2. the abstraction and `element_table_get` -/

/-- Under `WF`, `findElement` (element_table_get through the index) finds exactly the elements of
    the peers' lists, and agrees with the lookup in the abstraction. -/
theorem findElement_iff_abs {s : State} (h : WF s) (path : Bytes) :
    (∀ e, findElement s path = some e ↔ e ∈ allElems s ∧ e.path = path) ∧
    (findElement s path).map info = absGet s path ∧
    (∀ i, absGet s path = some i ↔ (path, i) ∈ absElems s) := by
  have hs := (wf_iff_wfs _).1 h
  refine ⟨?_, findElement_map_info hs path, fun i => absGet_eq_some_iff hs⟩
  intro e
  rw [findElement_eq_some_iff hs]
  simp only [allElems, List.mem_flatMap]

example : WF exS ∧ ((findElement exS [0x73]).map (·.owner)) = some 1 := ⟨exS_wf, by decide +kernel⟩

/-! ## 6. an error answer means nothing changed -/

/-- For ANY request object from any peer in a well-formed state: if among the observations the
    request produced there is the sending — to the requester or to anybody — of an object with an
    "error" member, the element abstraction (paths, owners, values, flags, order) is unchanged. -/
theorem error_means_unchanged (cfg : Config) (x : Ctx) (c : Nat) (req : Json) (hwf : WF x.st)
    (new : List Obs) (hout : (parseJsonRpc cfg x c req).1.out = new ++ x.out)
    (herr : ∃ c' j b, Obs.send c' j b ∈ new ∧ (j.getItem (k "error")).isSome = true) :
    absElems (parseJsonRpc cfg x c req).1.st = absElems x.st := by
  rcases parseJsonRpc_eff cfg x c req ((wf_iff_wfs _).1 hwf) with h | ⟨_, new', hnew', hall⟩
  · exact absElems_of_store_eq h
  · exfalso
    rw [hout] at hnew'
    have := List.append_cancel_right hnew'
    subst this
    obtain ⟨c', j, b, hmem, hj⟩ := herr
    have := hall _ hmem c' j b rfl
    rw [this] at hj
    cases hj

/-- non-vacuity: removing an unknown path in `exS` is answered with an error object -/
example : ∃ new, WF (mkCtx exS {}).st ∧
    (parseJsonRpc {} (mkCtx exS {}) 1 (mkReq "remove" [0x75])).1.out = new ++ (mkCtx exS {}).out ∧
    ∃ c' j b, Obs.send c' j b ∈ new ∧ (j.getItem (k "error")).isSome = true :=
  ⟨(parseJsonRpc {} (mkCtx exS {}) 1 (mkReq "remove" [0x75])).1.out, exS_wf,
   by simp only [mkCtx, List.append_nil], exists_errSend_of_any (by decide +kernel)⟩

/-- Handlers only append: the output after one request object is the output before it with the new
    observations in front, so the `new` of `error_means_unchanged` always exists.  Combined form. -/
theorem error_means_unchanged_ex (cfg : Config) (x : Ctx) (c : Nat) (req : Json) (hwf : WF x.st) :
    ∃ new, (parseJsonRpc cfg x c req).1.out = new ++ x.out ∧
      ((∃ c' j b, Obs.send c' j b ∈ new ∧ (j.getItem (k "error")).isSome = true) →
        absElems (parseJsonRpc cfg x c req).1.st = absElems x.st) := by
  obtain ⟨new, hnew⟩ := parseJsonRpc_ext cfg x c req
  exact ⟨new, hnew, error_means_unchanged cfg x c req hwf new hnew⟩

example : WF (mkCtx exS {}).st := exS_wf

/-- Handler level, covering requests that cannot be answered (no id, or an id that is neither
    string nor number): the abstraction changes only if the handler's answer is the success answer
    (which is "no answer" for such requests) — every refusal leaves it unchanged. -/
theorem refused_means_unchanged (cfg : Config) (x : Ctx) (c : Nat) (p : Peer) (req : Json) (m : Bytes)
    (hwf : WF x.st) (hp : findPeer x.st.peers c = some p)
    (hne : (handleMethod cfg x p req m).2 ≠ successFromRequest req) :
    absElems (handleMethod cfg x p req m).1.st = absElems x.st := by
  rcases handleMethod_eff (cfg := cfg) (req := req) m hp ((wf_iff_wfs _).1 hwf) with h | ⟨_, h, _⟩
  · exact absElems_of_store_eq h
  · exact absurd h hne

/-- non-vacuity: a refused `remove` (its answer carries an "error" member, the success answer does not) -/
example : ∃ p, WF (mkCtx exS {}).st ∧ findPeer (mkCtx exS {}).st.peers 1 = some p ∧
    (handleMethod {} (mkCtx exS {}) p (mkReq "remove" [0x75]) (k "remove")).2 ≠
      successFromRequest (mkReq "remove" [0x75]) := by
  obtain ⟨p, hp⟩ := exists_of_isSome (o := findPeer (mkCtx exS {}).st.peers 1) (by decide +kernel)
  refine ⟨p, exS_wf, hp, ?_⟩
  intro h
  obtain ⟨j, hj, hje⟩ := successFromRequest_isSome (mkReq_answerable "remove" [0x75])
  rw [handleMethod_remove, removeElementReq] at h
  simp only [getParamsAndPath_ok (mkReq_params _ _) (mkParams_path _)] at h
  split at h
  · rename_i e he
    have : (p.elements.find? (·.path == [0x75])).isSome = true := by rw [he]; rfl
    have h2 : ((findPeer (mkCtx exS {}).st.peers 1).bind (·.elements.find? (·.path == [0x75]))).isSome = false := by
      decide +kernel
    rw [hp] at h2
    simp only [Option.bind_some] at h2
    rw [h2] at this; cases this
  · simp only at h
    obtain ⟨je, hje1, hje2⟩ := errorFromRequest_isSome (mkReq_answerable "remove" [0x75]) INVALID_PARAMS "not exists" [0x75]
    rw [hje1, hj] at h
    have := Option.some.inj h
    subst this
    simp only [hasError, hje] at hje2
    cases hje2

/-- set and call — refused, routed or failed — never change the abstraction -/
theorem set_call_unchanged (cfg : Config) (x : Ctx) (c : Nat) (req : Json) (m : Bytes)
    (hm : req.getItem (k "method") = some (.str m)) (hsc : m = k "set" ∨ m = k "call") :
    absElems (parseJsonRpc cfg x c req).1.st = absElems x.st := by
  rw [parseJsonRpc_eq]
  cases hp : findPeer x.st.peers c with
  | none => rfl
  | some p =>
    simp only [hm, sendResponse_st]
    rcases hsc with rfl | rfl
    · rw [handleMethod_set]; exact absElems_of_store_eq (setOrCall_frame ..)
    · rw [handleMethod_call]; exact absElems_of_store_eq (setOrCall_frame ..)

example : (mkReq "set" [0x73]).getItem (k "method") = some (.str (k "set")) ∧ (k "set" = k "set" ∨ k "set" = k "call") :=
  ⟨mkReq_method _ _, Or.inl rfl⟩

/-! ## 3. add -/

/-- the abstract value of the element a well-formed `add` creates -/
def addedInfo (c : Nat) (params : Json) (tns : Nat) (g : Nat × Nat × Nat) : ElemInfo :=
  { owner := c, value := params.getItem (k "value"), fetchOnly := fetchOnlyFlag params, timeoutNs := tns,
    fetchGroups := g.1, setGroups := g.2.1, callGroups := g.2.2 }

/-- A well-formed add (string path; fetchOnly absent or boolean; acceptable timeout and access
    members; allowed origin) from a live peer in a well-formed state.
    * path free and the index does not refuse: the requester is answered with the success response
      and the abstraction is the old one plus exactly the new element, owned by the requester, with the
      value / kind and flags of the request;
    * path taken: error "exists", whole state unchanged, nothing else emitted;
    * path free but the index refuses (resource limit): "Internal error", abstraction unchanged. -/
theorem add_spec (cfg : Config) (x : Ctx) (c : Nat) (p : Peer) (req params : Json) (path : Bytes)
    (tns : Nat) (g : Nat × Nat × Nat)
    (hwf : WF x.st) (hp : findPeer x.st.peers c = some p)
    (hm : req.getItem (k "method") = some (.str (k "add")))
    (hparams : req.getItem (k "params") = some params)
    (hpath : params.getItem (k "path") = some (.str path))
    (horigin : (cfg.localOnlyAdd && !p.isLocal) = false)
    (hfo : fetchOnlyOk (params.getItem (k "fetchOnly")) = true)
    (hto : getTimeout cfg (params.getItem (k "timeout")) cfg.defaultTimeoutNs = .ns tns)
    (hacc : fillAccess cfg (params.getItem (k "value")).isSome (params.getItem (k "access")) = .ok g) :
    (absGet x.st path = none → x.indexFull = false →
      Answered (parseJsonRpc cfg x c req).1 c (successFromRequest req) ∧
      (∀ q, absGet (parseJsonRpc cfg x c req).1.st q =
        if q = path then some (addedInfo c params tns g) else absGet x.st q) ∧
      (∀ e, e ∈ absElems (parseJsonRpc cfg x c req).1.st ↔
        e ∈ absElems x.st ∨ e = (path, addedInfo c params tns g))) ∧
    ((absGet x.st path).isSome = true →
      Refused x c (errorFromRequest req INVALID_PARAMS "exists" path) (parseJsonRpc cfg x c req).1) ∧
    (absGet x.st path = none → x.indexFull = true →
      Answered (parseJsonRpc cfg x c req).1 c
        (errorFromRequest req INTERNAL_ERROR "reason" (k "element table full")) ∧
      absElems (parseJsonRpc cfg x c req).1.st = absElems x.st) := by
  have hs := (wf_iff_wfs _).1 hwf
  have hpp := getParamsAndPath_ok hparams hpath
  obtain ⟨hmi, hmem, hc⟩ := mem_image_of_findPeer hp
  have hfree := lookupIndex_isSome_iff hs path
  rw [parseJsonRpc_method hp hm, handleMethod_add, addElement_eq]
  simp only [horigin, Bool.false_eq_true, ↓reduceIte, hpp, hfo, hto, hacc, hfree]
  refine ⟨?_, ?_, ?_⟩
  · intro hnone hfull
    simp only [hnone, Option.isSome_none, Bool.false_eq_true, ↓reduceIte, sendResponse_st]
    have hok := addTail_ok (cfg := cfg) (p := p) (req := req) (path := path)
      (e0 := newElement cfg p params path tns g) hfull rfl
    have hinfo : info (newElement cfg p params path tns g) = addedInfo c params tns g := by
      simp only [info, newElement, addedInfo, hc]
    rw [hinfo, hc] at hok
    have hmut : Mut c (store x.st) (store (addTail cfg x p req path (newElement cfg p params path tns g)).1.st) := by
      rw [hok.2.1]
      refine Mut.add _ _ _ _ ?_ ?_ rfl
      · exact lookupIndex_none.1 (by rw [hfree, hnone]; rfl)
      · rw [image_conns]; exact List.mem_map.2 ⟨p, hmem, hc⟩
    have hs' : WFS (addTail cfg x p req path (newElement cfg p params path tns g)).1.st := hmut.wfp hs
    have hmemiff : ∀ e, e ∈ absElems (addTail cfg x p req path (newElement cfg p params path tns g)).1.st ↔
        e ∈ absElems x.st ∨ e = (path, addedInfo c params tns g) := by
      intro e
      have h1 := congrArg Prod.fst hok.2.1
      simp only [store_def] at h1
      rw [absElems_eq_imElems, absElems_eq_imElems, h1]
      exact mem_imElems_add (by rw [image_conns]; exact List.mem_map.2 ⟨p, hmem, hc⟩)
    refine ⟨?_, ?_, hmemiff⟩
    · rw [← hok.1]; exact answered_sendResponse _ _ _
    · apply absGet_of_mem_iff hs hs' path (some (addedInfo c params tns g))
      intro e
      rw [hmemiff]
      constructor
      · rintro (h1 | rfl)
        · refine Or.inl ⟨h1, ?_⟩
          intro hp1
          obtain ⟨q, i⟩ := e
          simp only at hp1
          subst hp1
          exact absGet_eq_none_iff.1 hnone i h1
        · exact Or.inr ⟨rfl, rfl⟩
      · rintro (⟨h1, _⟩ | ⟨h1, h2⟩)
        · exact Or.inl h1
        · obtain ⟨q, i⟩ := e
          simp only at h1 h2
          subst h1
          rw [Option.some.inj h2]
          exact Or.inr rfl
  · intro hsome
    simp only [hsome, ↓reduceIte]
    exact refused_sendResponse _ _ _
  · intro hnone hfull
    simp only [hnone, Option.isSome_none, Bool.false_eq_true, ↓reduceIte, sendResponse_st]
    have hf := addTail_full (cfg := cfg) (p := p) (req := req) (path := path)
      (e0 := newElement cfg p params path tns g) hfull
    refine ⟨?_, by rw [hf.2.1]⟩
    rw [← hf.1]; exact answered_sendResponse _ _ _

/-- The "exactly when" of the property text, for a request that can be answered (string or number
    id): the requester receives the success response iff the path was free and the index did not
    refuse. -/
theorem add_success_iff (cfg : Config) (x : Ctx) (c : Nat) (p : Peer) (req params : Json) (path : Bytes)
    (tns : Nat) (g : Nat × Nat × Nat)
    (hwf : WF x.st) (hp : findPeer x.st.peers c = some p)
    (hm : req.getItem (k "method") = some (.str (k "add")))
    (hparams : req.getItem (k "params") = some params)
    (hpath : params.getItem (k "path") = some (.str path))
    (horigin : (cfg.localOnlyAdd && !p.isLocal) = false)
    (hfo : fetchOnlyOk (params.getItem (k "fetchOnly")) = true)
    (hto : getTimeout cfg (params.getItem (k "timeout")) cfg.defaultTimeoutNs = .ns tns)
    (hacc : fillAccess cfg (params.getItem (k "value")).isSome (params.getItem (k "access")) = .ok g)
    (hid : answerable req) :
    (∃ j b, successFromRequest req = some j ∧
      (parseJsonRpc cfg x c req).1.out.head? = some (Obs.send c j b)) ↔
    (absGet x.st path = none ∧ x.indexFull = false) := by
  obtain ⟨h1, h2, h3⟩ := add_spec cfg x c p req params path tns g hwf hp hm hparams hpath horigin hfo hto hacc
  obtain ⟨js, hjs, hjsne⟩ := successFromRequest_isSome hid
  have hclash : ∀ je, hasError je → ∀ b b', some (Obs.send c je b) = some (Obs.send c js b') → False := by
    intro je hje b b' h
    have := Option.some.inj h
    injection this with _ hj _
    subst hj
    simp only [hasError, hjsne] at hje
    cases hje
  constructor
  · rintro ⟨j, b, hj, hhead⟩
    rw [hjs] at hj
    have := Option.some.inj hj
    subst this
    cases hget : absGet x.st path with
    | some i =>
      exfalso
      obtain ⟨je, hje, herr⟩ := errorFromRequest_isSome hid INVALID_PARAMS "exists" path
      have hr := (h2 (by rw [hget]; rfl)).2
      rw [hje] at hr
      simp only at hr
      rw [hr] at hhead
      exact hclash je herr _ _ hhead
    | none =>
      cases hfull : x.indexFull with
      | false => exact ⟨rfl, rfl⟩
      | true =>
        exfalso
        obtain ⟨je, hje, herr⟩ := errorFromRequest_isSome hid INTERNAL_ERROR "reason" (k "element table full")
        obtain ⟨b', hb'⟩ := (h3 hget hfull).1 je hje
        rw [hb'] at hhead
        exact hclash je herr _ _ hhead
  · rintro ⟨hget, hfull⟩
    obtain ⟨b, hb⟩ := (h1 hget hfull).1 js hjs
    exact ⟨js, b, hjs, hb⟩

example : answerable (mkReq "add" [0x6e]) := mkReq_answerable _ _

/-- non-vacuity: a well-formed add of the free path "n" by peer 3 in `exS` (success branch), of the
    taken path "s" (exists branch), and with a refusing index (resource branch) -/
example : ∃ (p : Peer) (tns : Nat) (g : Nat × Nat × Nat),
    WF (mkCtx exS {}).st ∧ findPeer (mkCtx exS {}).st.peers 3 = some p ∧
    (mkReq "add" [0x6e]).getItem (k "method") = some (.str (k "add")) ∧
    (mkReq "add" [0x6e]).getItem (k "params") = some (mkParams [0x6e]) ∧
    (mkParams [0x6e]).getItem (k "path") = some (.str [0x6e]) ∧
    (({} : Config).localOnlyAdd && !p.isLocal) = false ∧
    fetchOnlyOk ((mkParams [0x6e]).getItem (k "fetchOnly")) = true ∧
    getTimeout {} ((mkParams [0x6e]).getItem (k "timeout")) ({} : Config).defaultTimeoutNs = .ns tns ∧
    fillAccess {} ((mkParams [0x6e]).getItem (k "value")).isSome ((mkParams [0x6e]).getItem (k "access")) = .ok g ∧
    absGet (mkCtx exS {}).st [0x6e] = none ∧ (mkCtx exS {}).indexFull = false ∧
    (absGet (mkCtx exS {}).st [0x73]).isSome = true ∧
    (mkCtx exS { indexFull := true }).indexFull = true := by
  obtain ⟨p, hp⟩ := exists_of_isSome (o := findPeer (mkCtx exS {}).st.peers 3) (by decide +kernel)
  refine ⟨p, 5000000000, (0, 0, 0), exS_wf, hp, mkReq_method _ _, mkReq_params _ _, mkParams_path _, rfl, ?_, ?_, ?_,
    eq_none_of_isNone (by decide +kernel), rfl, by decide +kernel, rfl⟩
  · rw [mkParams_fetchOnly]; rfl
  · rw [mkParams_timeout]; rfl
  · rw [mkParams_value, mkParams_access]; rfl

/-! ## 4. remove and change -/

/-- `remove` succeeds exactly for an element owned by the requester, removes exactly that element
    and leaves every other element untouched; for an unknown path or somebody else's element the
    answer is the error "not exists" and the whole state is unchanged. -/
theorem remove_spec (cfg : Config) (x : Ctx) (c : Nat) (p : Peer) (req params : Json) (path : Bytes)
    (hwf : WF x.st) (hp : findPeer x.st.peers c = some p)
    (hm : req.getItem (k "method") = some (.str (k "remove")))
    (hparams : req.getItem (k "params") = some params)
    (hpath : params.getItem (k "path") = some (.str path)) :
    (∀ i, absGet x.st path = some i → i.owner = c →
      Answered (parseJsonRpc cfg x c req).1 c (successFromRequest req) ∧
      (∀ q, absGet (parseJsonRpc cfg x c req).1.st q = if q = path then none else absGet x.st q) ∧
      (∀ e, e ∈ absElems (parseJsonRpc cfg x c req).1.st ↔ e ∈ absElems x.st ∧ e.1 ≠ path)) ∧
    ((∀ i, absGet x.st path = some i → i.owner ≠ c) →
      Refused x c (errorFromRequest req INVALID_PARAMS "not exists" path) (parseJsonRpc cfg x c req).1) := by
  have hs := (wf_iff_wfs _).1 hwf
  have hpp := getParamsAndPath_ok hparams hpath
  obtain ⟨hmi, hmem, hc⟩ := mem_image_of_findPeer hp
  rw [parseJsonRpc_method hp hm, handleMethod_remove]
  cases hf : p.elements.find? (·.path == path) with
  | none =>
    rw [removeElementReq_missing hpp hf]
    refine ⟨?_, fun _ => refused_sendResponse _ _ _⟩
    intro i hi hown
    exact absurd hown (own_find_none hs hp hf hi)
  | some e =>
    rw [removeElementReq_found hpp hf]
    obtain ⟨hget, hown, hepath⟩ := own_find_some hs hp hf
    refine ⟨?_, ?_⟩
    · intro i hi _
      have hst := removeElement_store x e
      rw [hown, hepath] at hst
      have hent : (path, info e) ∈ peerAbs p := by
        rw [← hepath]; exact List.mem_map.2 ⟨e, List.mem_of_find?_eq_some hf, rfl⟩
      have hmut : Mut c (store x.st) (store (removeElement x e).st) := by
        rw [hst]; exact Mut.remove _ _ _ (peerAbs p) (info e) hmi hent
      have hs' : WFS (removeElement x e).st := hmut.wfp hs
      have hmemiff : ∀ y, y ∈ absElems (removeElement x e).st ↔ y ∈ absElems x.st ∧ y.1 ≠ path := by
        intro y
        have h1 := congrArg Prod.fst hst
        simp only [store_def] at h1
        rw [absElems_eq_imElems, absElems_eq_imElems, h1]
        exact mem_imElems_remove hs hmi hent
      simp only [sendResponse_st]
      refine ⟨answered_sendResponse _ _ _, ?_, hmemiff⟩
      apply absGet_of_mem_iff hs hs' path none
      intro y
      rw [hmemiff]
      constructor
      · intro h1; exact Or.inl h1
      · rintro (h1 | ⟨_, h2⟩)
        · exact h1
        · cases h2
    · intro hall
      exact absurd hown (hall _ hget)

/-- non-vacuity: peer 1 removes its own "s" (success branch); peer 3 tries the same and an unknown
    path (refusal branch) -/
example : ∃ (p p3 : Peer) (i : ElemInfo),
    WF (mkCtx exS {}).st ∧ findPeer (mkCtx exS {}).st.peers 1 = some p ∧
    findPeer (mkCtx exS {}).st.peers 3 = some p3 ∧
    (mkReq "remove" [0x73]).getItem (k "method") = some (.str (k "remove")) ∧
    (mkReq "remove" [0x73]).getItem (k "params") = some (mkParams [0x73]) ∧
    (mkParams [0x73]).getItem (k "path") = some (.str [0x73]) ∧
    absGet (mkCtx exS {}).st [0x73] = some i ∧ i.owner = 1 ∧
    (∀ i, absGet (mkCtx exS {}).st [0x73] = some i → i.owner ≠ 3) ∧
    (∀ i, absGet (mkCtx exS {}).st [0x75] = some i → i.owner ≠ 3) := by
  obtain ⟨p, hp⟩ := exists_of_isSome (o := findPeer (mkCtx exS {}).st.peers 1) (by decide +kernel)
  obtain ⟨p3, hp3⟩ := exists_of_isSome (o := findPeer (mkCtx exS {}).st.peers 3) (by decide +kernel)
  obtain ⟨i, hi⟩ := exists_of_isSome (o := absGet (mkCtx exS {}).st [0x73]) (by decide +kernel)
  have hown : (absGet (mkCtx exS {}).st [0x73]).map (·.owner) = some 1 := by decide +kernel
  rw [hi] at hown
  have hown : i.owner = 1 := Option.some.inj hown
  refine ⟨p, p3, i, exS_wf, hp, hp3, mkReq_method _ _, mkReq_params _ _, mkParams_path _, hi, hown, ?_, ?_⟩
  · intro i' hi'
    rw [hi] at hi'
    rw [← Option.some.inj hi', hown]
    decide
  · intro i' hi'
    have : absGet (mkCtx exS {}).st [0x75] = none := eq_none_of_isNone (by decide +kernel)
    rw [this] at hi'; cases hi'

/-- `change` succeeds only for the owner, only for a state, only with a value member; it then
    replaces exactly that element's value and nothing else (path, owner, flags of the element and
    all other elements are untouched).  Every other case is answered with the stated error and the
    whole state is unchanged. -/
theorem change_spec (cfg : Config) (x : Ctx) (c : Nat) (p : Peer) (req params : Json) (path : Bytes)
    (hwf : WF x.st) (hp : findPeer x.st.peers c = some p)
    (hm : req.getItem (k "method") = some (.str (k "change")))
    (hparams : req.getItem (k "params") = some params)
    (hpath : params.getItem (k "path") = some (.str path)) :
    (∀ v i, params.getItem (k "value") = some v → absGet x.st path = some i → i.owner = c →
        i.value.isSome = true →
      Answered (parseJsonRpc cfg x c req).1 c (successFromRequest req) ∧
      (∀ q, absGet (parseJsonRpc cfg x c req).1.st q =
        if q = path then some (setValue i v) else absGet x.st q) ∧
      (∀ e, e ∈ absElems (parseJsonRpc cfg x c req).1.st ↔
        (e ∈ absElems x.st ∧ e.1 ≠ path) ∨ e = (path, setValue i v))) ∧
    (params.getItem (k "value") = none →
      Refused x c (errorFromRequest req INVALID_PARAMS "reason" (k "no value found"))
        (parseJsonRpc cfg x c req).1) ∧
    (∀ v, params.getItem (k "value") = some v → absGet x.st path = none →
      Refused x c (errorFromRequest req INVALID_PARAMS "not exists" path) (parseJsonRpc cfg x c req).1) ∧
    (∀ v i, params.getItem (k "value") = some v → absGet x.st path = some i → i.owner ≠ c →
      Refused x c (errorFromRequest req INVALID_PARAMS "not owner of state" path)
        (parseJsonRpc cfg x c req).1) ∧
    (∀ v i, params.getItem (k "value") = some v → absGet x.st path = some i → i.owner = c →
        i.value = none →
      Refused x c (errorFromRequest req INVALID_PARAMS "change on method not possible" path)
        (parseJsonRpc cfg x c req).1) := by
  have hs := (wf_iff_wfs _).1 hwf
  have hpp := getParamsAndPath_ok hparams hpath
  obtain ⟨hmi, hmem, hc⟩ := mem_image_of_findPeer hp
  have hinfo := findElement_map_info hs path
  rw [parseJsonRpc_method hp hm, handleMethod_change, changeState_eq]
  simp only [hpp]
  refine ⟨?_, ?_, ?_, ?_, ?_⟩
  · intro v i hv hi hown hval
    simp only [hv]
    cases hfe : findElement x.st path with
    | none => rw [hfe, hi] at hinfo; cases hinfo
    | some e =>
      rw [hfe, hi] at hinfo
      have hie : info e = i := Option.some.inj hinfo
      have h1 : (e.owner != c) = false := by
        have : e.owner = c := by rw [← hown, ← hie]; rfl
        simpa using this
      have h2 : e.value.isNone = false := by
        have : e.value = i.value := by rw [← hie]; rfl
        rw [this]
        cases hiv : i.value with
        | none => rw [hiv] at hval; cases hval
        | some _ => rfl
      simp only [hc, h1, h2, Bool.false_eq_true, ↓reduceIte, sendResponse_st, notifyFetchers_st]
      have heown : e.owner = c := by rw [← hown, ← hie]; rfl
      obtain ⟨hst, hml, hent⟩ := changedState_store hs hp hfe heown v
      rw [hie] at hst hent
      have hmut : Mut c (store x.st) (store (changedState x.st c path e v)) := by
        rw [hst]; exact Mut.change _ _ _ (peerAbs p) i v hml hent
      have hs' : WFS (changedState x.st c path e v) := hmut.wfp hs
      have hmemiff : ∀ y, y ∈ absElems (changedState x.st c path e v) ↔
          (y ∈ absElems x.st ∧ y.1 ≠ path) ∨ y = (path, setValue i v) := by
        intro y
        have h1 := congrArg Prod.fst hst
        simp only [store_def] at h1
        rw [absElems_eq_imElems, absElems_eq_imElems, h1]
        exact mem_imElems_change hs hml hent
      refine ⟨answered_sendResponse _ _ _, ?_, hmemiff⟩
      apply absGet_of_mem_iff hs hs' path (some (setValue i v))
      intro y
      rw [hmemiff]
      constructor
      · rintro (h1 | rfl)
        · exact Or.inl h1
        · exact Or.inr ⟨rfl, rfl⟩
      · rintro (h1 | ⟨h1, h2⟩)
        · exact Or.inl h1
        · obtain ⟨q, j⟩ := y
          simp only at h1 h2
          subst h1
          rw [Option.some.inj h2]
          exact Or.inr rfl
  · intro hv
    simp only [hv]
    exact refused_sendResponse _ _ _
  · intro v hv hnone
    simp only [hv]
    cases hfe : findElement x.st path with
    | none => exact refused_sendResponse _ _ _
    | some e => rw [hfe, hnone] at hinfo; cases hinfo
  · intro v i hv hi hown
    simp only [hv]
    cases hfe : findElement x.st path with
    | none => rw [hfe, hi] at hinfo; cases hinfo
    | some e =>
      rw [hfe, hi] at hinfo
      have hie : info e = i := Option.some.inj hinfo
      have h1 : (e.owner != c) = true := by
        have : e.owner ≠ c := by intro h; apply hown; rw [← hie]; exact h
        simpa using this
      simp only [hc, h1, ↓reduceIte]
      exact refused_sendResponse _ _ _
  · intro v i hv hi hown hval
    simp only [hv]
    cases hfe : findElement x.st path with
    | none => rw [hfe, hi] at hinfo; cases hinfo
    | some e =>
      rw [hfe, hi] at hinfo
      have hie : info e = i := Option.some.inj hinfo
      have h1 : (e.owner != c) = false := by
        have : e.owner = c := by rw [← hown, ← hie]; rfl
        simpa using this
      have h2 : e.value.isNone = true := by
        have : e.value = i.value := by rw [← hie]; rfl
        rw [this, hval]; rfl
      simp only [hc, h1, h2, Bool.false_eq_true, ↓reduceIte]
      exact refused_sendResponse _ _ _

/-- non-vacuity: peer 1 changes its state "s" (success); changes its method "m" (refused); peer 3
    changes "s" (not owner); an unknown path; a request without value member -/
example : ∃ (p : Peer) (i im : ElemInfo),
    WF (mkCtx exS {}).st ∧ findPeer (mkCtx exS {}).st.peers 1 = some p ∧
    (mkReq "change" [0x73]).getItem (k "method") = some (.str (k "change")) ∧
    (mkReq "change" [0x73]).getItem (k "params") = some (mkParams [0x73]) ∧
    (mkParams [0x73]).getItem (k "path") = some (.str [0x73]) ∧
    (mkParams [0x73]).getItem (k "value") = some .null ∧
    absGet (mkCtx exS {}).st [0x73] = some i ∧ i.owner = 1 ∧ i.owner ≠ 3 ∧ i.value.isSome = true ∧
    absGet (mkCtx exS {}).st [0x6d] = some im ∧ im.owner = 1 ∧ im.value = none ∧
    absGet (mkCtx exS {}).st [0x75] = none ∧
    (Json.obj [(k "path", .str [0x73])]).getItem (k "value") = none := by
  obtain ⟨p, hp⟩ := exists_of_isSome (o := findPeer (mkCtx exS {}).st.peers 1) (by decide +kernel)
  obtain ⟨i, hi⟩ := exists_of_isSome (o := absGet (mkCtx exS {}).st [0x73]) (by decide +kernel)
  obtain ⟨im, him⟩ := exists_of_isSome (o := absGet (mkCtx exS {}).st [0x6d]) (by decide +kernel)
  have h1 : (absGet (mkCtx exS {}).st [0x73]).map (·.owner) = some 1 := by decide +kernel
  have h2 : (absGet (mkCtx exS {}).st [0x73]).map (·.value.isSome) = some true := by decide +kernel
  have h3 : (absGet (mkCtx exS {}).st [0x6d]).map (·.owner) = some 1 := by decide +kernel
  have h4 : (absGet (mkCtx exS {}).st [0x6d]).map (·.value.isNone) = some true := by decide +kernel
  rw [hi] at h1 h2
  rw [him] at h3 h4
  have h1 : i.owner = 1 := Option.some.inj h1
  have h4 : im.value.isNone = true := Option.some.inj h4
  refine ⟨p, i, im, exS_wf, hp, mkReq_method _ _, mkReq_params _ _, mkParams_path _, mkParams_value _, hi, h1,
    by rw [h1]; decide, Option.some.inj h2, him, Option.some.inj h3, eq_none_of_isNone h4,
    eq_none_of_isNone (by decide +kernel), ?_⟩
  exact (getItem_cons_ne keyEq_path_value _ _).trans rfl

/-! ## 5. set / call refusals -/

/-- set (`isState = true`) resp. call (`isState = false`) on an unknown path, on a fetch-only
    element, or on an element of the wrong kind (set on a method, call on a state) is refused: the
    answer is the stated error, the WHOLE state is as before (no routing entry, no timer, counters
    untouched) and nothing but that answer — to the requester — is emitted. -/
theorem set_call_refusals (cfg : Config) (x : Ctx) (c : Nat) (p : Peer) (req params : Json) (path : Bytes)
    (isState : Bool) (hp : findPeer x.st.peers c = some p) (hwf : WF x.st)
    (hm : req.getItem (k "method") = some (.str (if isState then k "set" else k "call")))
    (hparams : req.getItem (k "params") = some params)
    (hpath : params.getItem (k "path") = some (.str path)) :
    (absGet x.st path = none →
      Refused x c (errorFromRequest req INVALID_PARAMS "not exists" path) (parseJsonRpc cfg x c req).1) ∧
    (∀ i, absGet x.st path = some i → i.fetchOnly = true →
      Refused x c (errorFromRequest req INVALID_PARAMS "fetchOnly" path) (parseJsonRpc cfg x c req).1) ∧
    (∀ i, absGet x.st path = some i → i.fetchOnly = false → i.value.isSome ≠ isState →
      Refused x c (errorFromRequest req INVALID_PARAMS "set/call on element not possible" path)
        (parseJsonRpc cfg x c req).1) := by
  have hs := (wf_iff_wfs _).1 hwf
  have hpp := getParamsAndPath_ok hparams hpath
  have hinfo := findElement_map_info hs path
  have hdisp : (handleMethod cfg x p req (if isState then k "set" else k "call")) =
      setOrCall cfg x p req isState := by
    cases isState
    · exact handleMethod_call ..
    · exact handleMethod_set ..
  rw [parseJsonRpc_method hp hm, hdisp, setOrCall_eq]
  simp only [hpp]
  refine ⟨?_, ?_, ?_⟩
  · intro hnone
    cases hfe : findElement x.st path with
    | none => exact refused_sendResponse _ _ _
    | some e => rw [hfe, hnone] at hinfo; cases hinfo
  · intro i hi hfo
    cases hfe : findElement x.st path with
    | none => rw [hfe, hi] at hinfo; cases hinfo
    | some e =>
      rw [hfe, hi] at hinfo
      have hie : info e = i := Option.some.inj hinfo
      have : e.fetchOnly = true := by rw [← hfo, ← hie]; rfl
      simp only [this, ↓reduceIte]
      exact refused_sendResponse _ _ _
  · intro i hi hfo hkind
    cases hfe : findElement x.st path with
    | none => rw [hfe, hi] at hinfo; cases hinfo
    | some e =>
      rw [hfe, hi] at hinfo
      have hie : info e = i := Option.some.inj hinfo
      have h1 : e.fetchOnly = false := by rw [← hfo, ← hie]; rfl
      have h2 : (isState != e.value.isSome) = true := by
        have : e.value = i.value := by rw [← hie]; rfl
        rw [this]
        simp only [bne_iff_ne, ne_eq]
        exact fun h => hkind h.symm
      simp only [h1, Bool.false_eq_true, ↓reduceIte, h2]
      exact refused_sendResponse _ _ _

/-- non-vacuity: set on an unknown path, on the fetch-only state "f", on the method "m"; call on the
    state "s" -/
example : ∃ (p : Peer) (i_f im is : ElemInfo),
    findPeer (mkCtx exS {}).st.peers 3 = some p ∧ WF (mkCtx exS {}).st ∧
    (mkReq "set" [0x6d]).getItem (k "method") = some (.str (if true then k "set" else k "call")) ∧
    (mkReq "call" [0x73]).getItem (k "method") = some (.str (if false then k "set" else k "call")) ∧
    (mkReq "set" [0x6d]).getItem (k "params") = some (mkParams [0x6d]) ∧
    (mkParams [0x6d]).getItem (k "path") = some (.str [0x6d]) ∧
    absGet (mkCtx exS {}).st [0x75] = none ∧
    absGet (mkCtx exS {}).st [0x66] = some i_f ∧ i_f.fetchOnly = true ∧
    absGet (mkCtx exS {}).st [0x6d] = some im ∧ im.fetchOnly = false ∧ im.value.isSome ≠ true ∧
    absGet (mkCtx exS {}).st [0x73] = some is ∧ is.fetchOnly = false ∧ is.value.isSome ≠ false := by
  obtain ⟨p, hp⟩ := exists_of_isSome (o := findPeer (mkCtx exS {}).st.peers 3) (by decide +kernel)
  obtain ⟨i_f, hf⟩ := exists_of_isSome (o := absGet (mkCtx exS {}).st [0x66]) (by decide +kernel)
  obtain ⟨im, hm⟩ := exists_of_isSome (o := absGet (mkCtx exS {}).st [0x6d]) (by decide +kernel)
  obtain ⟨is, hs⟩ := exists_of_isSome (o := absGet (mkCtx exS {}).st [0x73]) (by decide +kernel)
  have h1 : (absGet (mkCtx exS {}).st [0x66]).map (·.fetchOnly) = some true := by decide +kernel
  have h2 : (absGet (mkCtx exS {}).st [0x6d]).map (fun i => (i.fetchOnly, i.value.isSome)) = some (false, false) := by
    decide +kernel
  have h3 : (absGet (mkCtx exS {}).st [0x73]).map (fun i => (i.fetchOnly, i.value.isSome)) = some (false, true) := by
    decide +kernel
  rw [hf] at h1
  rw [hm] at h2
  rw [hs] at h3
  have h2 := Prod.mk.inj (Option.some.inj h2)
  have h3 := Prod.mk.inj (Option.some.inj h3)
  refine ⟨p, i_f, im, is, hp, exS_wf, mkReq_method _ _, mkReq_method _ _, mkReq_params _ _, mkParams_path _,
    eq_none_of_isNone (by decide +kernel), hf, Option.some.inj h1, hm, h2.1, by rw [h2.2]; decide,
    hs, h3.1, by rw [h3.2]; decide⟩

/-- what a refusal looks like to a requester whose request carries a string or number id: exactly
    one new observation, an object with an "error" member sent to the requester -/
theorem refusal_is_error_response (x x' : Ctx) (c : Nat) (req : Json) (code : Int) (tag : String)
    (reason : Bytes) (hid : answerable req) (h : Refused x c (errorFromRequest req code tag reason) x') :
    x'.st = x.st ∧ ∃ j b, x'.out = Obs.send c j b :: x.out ∧ (j.getItem (k "error")).isSome = true := by
  obtain ⟨j, hj, herr⟩ := errorFromRequest_isSome hid code tag reason
  refine ⟨h.1, j, (send x c j).2, ?_, herr⟩
  have := h.2
  rw [hj] at this
  exact this

example : answerable (mkReq "set" [0x75]) ∧
    Refused (mkCtx exS {}) 3 (errorFromRequest (mkReq "set" [0x75]) INVALID_PARAMS "not exists" [0x75])
      (sendResponse (mkCtx exS {}) 3 (errorFromRequest (mkReq "set" [0x75]) INVALID_PARAMS "not exists" [0x75])).1 :=
  ⟨mkReq_answerable _ _, refused_sendResponse _ _ _⟩

/-! ## 7. who can change the abstraction -/

/-- * a message of `c` (object, batch or garbage) leaves every element not owned by `c` exactly as
      it was — same entries, same order; whatever changes is an element owned by `c`; and if the
      step dropped `c` (it is no longer a peer afterwards) exactly `c`'s elements vanished;
    * a disconnect of `c` removes exactly the elements owned by `c`;
    * connect and timer expiry never change the abstraction. -/
theorem step_elems_only_by_requester_or_close (cfg : Config) (s : State) (op : Op) (hwf : WF s) :
    match op with
    | .message c _ _ =>
      (absElems (step cfg s op).1).filter (fun e => e.2.owner != c) =
        (absElems s).filter (fun e => e.2.owner != c) ∧
      (findPeer (step cfg s op).1.peers c = none →
        absElems (step cfg s op).1 = (absElems s).filter (fun e => e.2.owner != c))
    | .disconnect c _ =>
      absElems (step cfg s op).1 = (absElems s).filter (fun e => e.2.owner != c)
    | .connect _ _ _ _ => absElems (step cfg s op).1 = absElems s
    | .timerFire _ _ => absElems (step cfg s op).1 = absElems s := by
  have hs := (wf_iff_wfs _).1 hwf
  cases op with
  | message c msg o =>
    dsimp only
    obtain ⟨hs', hoth⟩ := step_message (cfg := cfg) (c := c) (msg := msg) (o := o) hs
    refine ⟨absElems_others hs hs' hoth, ?_⟩
    intro hgone
    rw [filter_conn_of_gone hgone] at hoth
    exact absElems_closed hs hoth
  | disconnect c o =>
    dsimp only
    exact absElems_closed hs (step_disconnect hs).2
  | connect c ws isLocal addr => exact (step_connect hs).2
  | timerFire t o => exact absElems_of_store_eq step_timerFire

/-- non-vacuity: in `exS`, a garbage message of peer 1 drops it (its two elements vanish, peer 2's stays) -/
example : WF exS ∧ findPeer (step {} exS (.message 1 none {})).1.peers 1 = none ∧
    (absElems (step {} exS (.message 1 none {})).1).map (·.1) = [[0x66]] :=
  ⟨exS_wf, eq_none_of_isNone (by decide +kernel), by decide +kernel⟩

/-- step-level form of `error_means_unchanged` for an object message: if the step did not drop the
    requester and some output of the step is an error object, the abstraction is unchanged -/
theorem error_means_unchanged_step (cfg : Config) (s : State) (c : Nat) (l : List (Bytes × Json)) (o : Oracle)
    (hwf : WF s)
    (hlive : (findPeer (step cfg s (.message c (some (.obj l)) o)).1.peers c).isSome = true)
    (herr : ∃ c' j b, Obs.send c' j b ∈ (step cfg s (.message c (some (.obj l)) o)).2 ∧
      (j.getItem (k "error")).isSome = true) :
    absElems (step cfg s (.message c (some (.obj l)) o)).1 = absElems s := by
  have hs := (wf_iff_wfs _).1 hwf
  simp only [step] at hlive herr ⊢
  split at hlive
  · rename_i h0; simp only [h0, ↓reduceIte]
  · rename_i h0
    simp only [h0, Bool.false_eq_true, ↓reduceIte] at herr ⊢
    simp only [parseMessage] at hlive herr ⊢
    by_cases hok : (parseJsonRpc cfg (mkCtx s o) c (.obj l)).2 = true
    · simp only [hok, ↓reduceIte] at herr ⊢
      obtain ⟨c', j, b, hmem, hj⟩ := herr
      exact error_means_unchanged cfg (mkCtx s o) c (.obj l) hwf
        (parseJsonRpc cfg (mkCtx s o) c (.obj l)).1.out (by simp only [mkCtx, List.append_nil])
        ⟨c', j, b, by simpa using hmem, hj⟩
    · exfalso
      simp only [hok, Bool.false_eq_true, ↓reduceIte] at hlive
      have hw := (parseJsonRpc_own cfg (mkCtx s o) c (.obj l) hs).wfs
      rw [findPeer_closePeer hw] at hlive
      cases hlive

/-- non-vacuity: peer 3's `remove` of an unknown path, as a whole step -/
example : WF exS ∧
    (findPeer (step {} exS (.message 3 (some (mkReq "remove" [0x75])) {})).1.peers 3).isSome = true ∧
    ∃ c' j b, Obs.send c' j b ∈ (step {} exS (.message 3 (some (mkReq "remove" [0x75])) {})).2 ∧
      (j.getItem (k "error")).isSome = true :=
  ⟨exS_wf, by decide +kernel, exists_errSend_of_any (by decide +kernel)⟩

end Cjet.Daemon.C04
