import Cjet.Lemmas.DaemonC01Examples
import Cjet.Props.Cjson

/-!
# C01 — fetch gives every subscriber an exact, ordered replica of matching elements

Model: `Cjet.Daemon.Model`.  All statements quantify over every configuration, every user table of
the initial state, every list of operations (any number of peers), every JSON value and every
oracle value (send results, index / routing table refusals).  The model ignores the result of a
notification send, so nothing here needs the subscriber to be healthy: the theorems speak about
what the daemon hands to the send function of a connection; for a subscriber all of whose sends
succeeded that is what it received.

Vocabulary (`Cjet.Lemmas.DaemonC01Defs`, `…Replay`, `…Step`):
* `Notif`, `decodeNotif` — a decoded fetch notification (fetch id, path, add/change/remove, value);
  the decoder inverts `notification` (`decodeNotif_notification`) and rejects every value that
  carries an "id" member (responses, routed requests);
* `notifsFor c fid obs` — the notifications among the sends to `c` whose "method" equals `fid`
  (compared as the daemon compares fetch ids, `idsEqual`), in order;
* `replay` / `replayFrom r` — the replica fold; `none` on a spurious event (add of a present path,
  change/remove of an absent one);  `SameMap r img` — `r` has no path twice and the same entries
  as `img`;
* `imageFor cfg s p f` = `imageOf cfg s p.fetchGroups f.rule` — elements of all peers (peer order,
  element order) visible to `p` and matching `f`'s rule, with their current values;
* `Atom cfg s obs s'` — one atomic piece of daemon work: a connect, ONE JSON-RPC object
  (`parseJsonRpc`, for every working context, i.e. every oracle), one `closePeer`, one timer expiry.
  A `message` operation with a batch runs several atoms in one `step`, so the life time of a fetch
  is delimited at this granularity (`run_is_exec` turns every `run` into atoms; see
  `docs/C01-proofs.md` for why step granularity is too coarse for batches);
* `Exec cfg s tr s'` — a sequence of atoms, `tr` lists (observations, state reached) per atom;
  `obsOf tr` all observations in order;
* `HasFetch s c f`, `Alive s c pg f`, `HasFid s c fid` — peer `c` has fetch `f` (and groups `pg`),
  resp. some fetch whose id equals `fid`;
* `StepOK cfg s s' ns` — the per-atom guarantee, fields `inv uidMono fresh stable rstep install origin`;
* `RStep cfg s s' ns c fid pg rule` — `ns` take a replica agreeing with the image in `s` to one
  agreeing with the image in `s'`, never spuriously.
-/

namespace Cjet.Daemon.C01

open Cjet Cjet.Json Cjet.Daemon

/-- the initial state: no peers, an arbitrary user table -/
def init (us : List User) : State := { users := us }

/-! ## 1. the fetcher tables -/

/-- The invariant holds in every reachable state. -/
theorem reachable_inv (cfg : Config) (us : List User) (ops : List Op) :
    Inv cfg (run cfg (init us) ops).1 := by
  obtain ⟨tr, h, _⟩ := run_exec (cfg := cfg) ops (inv_init cfg us)
  exact h.inv (inv_init cfg us)

/-- `fetch_table_char`.  In every reachable state, for every live peer `p`, every fetch `f` of `p`
    and every element `e` of any peer: `f` is in `e`'s fetcher table exactly when `e` is visible to
    `p` and matches `f`'s rule; no key occurs twice in a table; every key in a table is a live
    peer's existing fetch; fetch uids are unique (inside a peer and across peers) and below the
    counter; connections are distinct; fetch ids of one peer are pairwise different under
    `idsEqual`. -/
theorem fetch_table_char (cfg : Config) (us : List User) (ops : List Op) :
    let s := (run cfg (init us) ops).1
    (∀ p ∈ s.peers, ∀ f ∈ p.fetches, ∀ q ∈ s.peers, ∀ e ∈ q.elements,
      (some (⟨p.conn, f.uid⟩ : FetchKey) ∈ e.fetchers ↔
        (hasAccess cfg e.fetchGroups p.fetchGroups = true ∧ ruleMatches f.rule e.path = true))) ∧
    (∀ q ∈ s.peers, ∀ e ∈ q.elements, (e.fetchers.filterMap id).Nodup) ∧
    (∀ q ∈ s.peers, ∀ e ∈ q.elements, ∀ fk, some fk ∈ e.fetchers →
      ∃ p ∈ s.peers, p.conn = fk.peer ∧ ∃ f ∈ p.fetches, f.uid = fk.uid) ∧
    (∀ p ∈ s.peers, (p.fetches.map (·.uid)).Nodup) ∧
    (∀ p ∈ s.peers, ∀ q ∈ s.peers, ∀ f ∈ p.fetches, ∀ g ∈ q.fetches, f.uid = g.uid → p.conn = q.conn) ∧
    (∀ p ∈ s.peers, ∀ f ∈ p.fetches, f.uid < s.nextUid) ∧
    (s.peers.map (·.conn)).Nodup ∧
    (∀ p ∈ s.peers, p.fetches.Pairwise (fun a b => idsEqual a.fid b.fid = false)) := by
  intro s
  have inv : Inv cfg s := reachable_inv cfg us ops
  refine ⟨?_, ?_, ?_, inv.fetches.uidNodup, inv.fetches.uidGlobal, inv.fetches.uidLt,
    inv.fetches.connNodup, inv.fetches.fidDistinct⟩
  · intro p hp f hf q hq e he
    have ok := inv.tbl e (mem_allElems.2 ⟨q, hq, he⟩)
    rw [← mem_keys, ok.char p hp f hf]
    simp [visible]
  · intro q hq e he
    exact (inv.tbl e (mem_allElems.2 ⟨q, hq, he⟩)).nodup
  · intro q hq e he fk hfk
    exact (inv.tbl e (mem_allElems.2 ⟨q, hq, he⟩)).live fk (mem_keys.2 hfk)

/-- `groups_stable_while_fetching`.  A fetch that exists before and after an operation (any
    operation, batches included) belongs to a peer whose fetch groups did not change: access
    cannot change under a live fetch (`authenticate` is refused while the peer has fetches). -/
theorem groups_stable_while_fetching (cfg : Config) (us : List User) (ops : List Op) (op : Op)
    (p : Peer) (f : Fetch) (p' : Peer)
    (hp : p ∈ (run cfg (init us) ops).1.peers) (hf : f ∈ p.fetches)
    (hp' : p' ∈ (step cfg (run cfg (init us) ops).1 op).1.peers) (hc : p'.conn = p.conn)
    (hf' : f ∈ p'.fetches) : p'.fetchGroups = p.fetchGroups := by
  have inv := reachable_inv cfg us ops
  obtain ⟨tr, h, _⟩ := step_exec inv op
  obtain ⟨⟨q, hq, hqc, hqg, _⟩, _⟩ := h.replica inv (c := p.conn) (pg := p.fetchGroups) (f := f)
    ⟨p, hp, rfl, rfl, hf⟩ ⟨p', hp', hc, hf'⟩
  have : q = p' := eq_of_conn_eq (h.inv inv).fetches.connNodup hq hp' (hqc.trans hc.symm)
  subst this
  exact hqg

example : ∃ p f p', p ∈ (run Ex.cfg (init []) Ex.ops1).1.peers ∧ f ∈ p.fetches ∧
    p' ∈ (step Ex.cfg (run Ex.cfg (init []) Ex.ops1).1 Ex.opChange).1.peers ∧ p'.conn = p.conn ∧
    f ∈ p'.fetches :=
  Ex.sameFetch_exists (by decide +kernel)

/-! ## 2. the replica -/

/-- `step_replica` (per atom, for every kind of atom and every handler).  From a state that
    satisfies the invariant, one atom
    * re-establishes the invariant;
    * (`rstep`) for every fetch `f` of a peer `c` with groups `pg` that exists before and after: the
      notifications for `(c, f.fid)` emitted by the atom transform any replica that agrees with
      `imageOf s pg f.rule` into one that agrees with `imageOf s' pg f.rule`, with no spurious event;
    * (`install`) for a fetch that appears in this atom the notifications build the image of the
      post-state from the empty replica;
    * (`stable`) keeps the groups of a peer whose fetch survives;
    * (`fresh`) creates a fetch only with a uid ≥ the counter and only if its id was not in use;
    * (`origin`) emits a notification only to a peer that had or now has a fetch with that id. -/
theorem step_replica (cfg : Config) (s s' : State) (obs : List Obs) (inv : Inv cfg s)
    (h : Atom cfg s obs s') : StepOK cfg s s' (notifs obs) :=
  atom_ok inv h

example : Inv Ex.cfg (init []) ∧ Atom Ex.cfg (init []) []
    { (init []) with peers := (init []).peers ++ [{ conn := 1, ws := false, isLocal := true, addrTok := [] }] } :=
  ⟨inv_init _ _, Atom.connect (init []) 1 false true [] rfl⟩

/-- Every run is a sequence of atoms with the same final state and the same observations. -/
theorem run_is_exec (cfg : Config) (us : List User) (ops : List Op) :
    ∃ tr, Exec cfg (init us) tr (run cfg (init us) ops).1 ∧ obsOf tr = (run cfg (init us) ops).2.flatten :=
  run_exec ops (inv_init cfg us)

/-- `replica_exact`.  Start in the initial state, run any atoms (`tr0`), then an atom in which peer
    `c` gets the fetch `f` (it did not have it before), then any atoms (`tr`).  If at the end a peer
    `p3` with connection `c` still has `f` (not unfetched, still connected), then replaying all
    notifications for `(c, f.fid)` from the installing atom on — `o ++ obsOf tr`, in emission
    order — succeeds and yields exactly the image of `f` in the final state. -/
theorem replica_exact (cfg : Config) (us : List User) (tr0 tr : List (List Obs × State)) (o : List Obs)
    (s1 s2 s3 : State) (c : Nat) (f : Fetch) (p3 : Peer)
    (h0 : Exec cfg (init us) tr0 s1) (hi : Atom cfg s1 o s2) (h : Exec cfg s2 tr s3)
    (hnew : ¬ HasFetch s1 c f) (hinst : HasFetch s2 c f)
    (hp3 : p3 ∈ s3.peers) (hc3 : p3.conn = c) (hf3 : f ∈ p3.fetches) :
    ∃ r, replay (notifsFor c f.fid (o ++ obsOf tr)) = some r ∧ SameMap r (imageFor cfg s3 p3 f) := by
  have inv1 : Inv cfg s1 := h0.inv (inv_init cfg us)
  have ok := atom_ok inv1 hi
  obtain ⟨p2, hp2, hc2, hf2⟩ := hinst
  have ha2 : Alive s2 c p2.fetchGroups f := ⟨p2, hp2, hc2, rfl, hf2⟩
  obtain ⟨r1, e1, m1⟩ := ok.install c p2.fetchGroups f hnew ha2
  obtain ⟨⟨q, hq, hqc, hqg, _⟩, rs⟩ := h.replica ok.inv ha2 ⟨p3, hp3, hc3, hf3⟩
  have : q = p3 := eq_of_conn_eq (h.inv ok.inv).fetches.connNodup hq hp3 (hqc.trans hc3.symm)
  subst this
  obtain ⟨r2, e2, m2⟩ := rs r1 m1
  refine ⟨r2, ?_, ?_⟩
  · unfold replay notifsFor
    rw [notifs_append, pick_append, replayFrom_append, e1]
    simpa using e2
  · rw [imageFor_eq, hqg]; exact m2

example : ∃ tr0 o s1 s2 f p3, Exec Ex.cfg (init []) tr0 s1 ∧ Atom Ex.cfg s1 o s2 ∧ Exec Ex.cfg s2 [] s2 ∧
    ¬ HasFetch s1 1 f ∧ HasFetch s2 1 f ∧ p3 ∈ s2.peers ∧ p3.conn = 1 ∧ f ∈ p3.fetches := by
  obtain ⟨tr0, h0, _⟩ := run_is_exec Ex.cfg [] Ex.ops0
  obtain ⟨o1, s1', hat, hcase⟩ :=
    step_single (reachable_inv Ex.cfg [] Ex.ops0) 1 Ex.fetch1 {} (by decide +kernel)
  obtain ⟨f, p3, h1, h2, h3, h4, h5⟩ := Ex.install_exists (s1 := (run Ex.cfg (init []) Ex.ops0).1)
    (s2 := (step Ex.cfg (run Ex.cfg (init []) Ex.ops0).1 (.message 1 (some (.obj Ex.fetch1)) {})).1)
    (s3 := (step Ex.cfg (run Ex.cfg (init []) Ex.ops0).1 (.message 1 (some (.obj Ex.fetch1)) {})).1)
    (c := 1) (by decide +kernel) (by decide +kernel)
  rcases hcase with heq | ⟨o2, _, _, hgone⟩
  · rw [heq] at h2 h3
    exact ⟨tr0, o1, _, s1', f, p3, h0, hat, Exec.nil _, h1, h2, h3, h4, h5⟩
  · obtain ⟨p2, hp2, hc2, _⟩ := h2
    exact absurd hc2 (hgone p2 hp2)

/-- `replica_exact` on `run`: any operations, then a `message` that is a single JSON object and in
    which `c` gets the fetch `f`, then any operations (batches allowed before and after).  If `c`
    still has `f` at the end, the replay of all notifications for `(c, f.fid)` from the installing
    operation on gives exactly the image of `f` in the final state. -/
theorem replica_exact_run (cfg : Config) (us : List User) (ops0 ops1 : List Op) (c : Nat)
    (l : List (Bytes × Json)) (orc : Oracle) (f : Fetch) (p3 : Peer)
    (hnew : ¬ HasFetch (run cfg (init us) ops0).1 c f)
    (hinst : HasFetch (step cfg (run cfg (init us) ops0).1 (.message c (some (.obj l)) orc)).1 c f)
    (hp3 : p3 ∈ (run cfg (step cfg (run cfg (init us) ops0).1 (.message c (some (.obj l)) orc)).1 ops1).1.peers)
    (hc3 : p3.conn = c) (hf3 : f ∈ p3.fetches) :
    ∃ r, replay (notifsFor c f.fid
        ((step cfg (run cfg (init us) ops0).1 (.message c (some (.obj l)) orc)).2 ++
         (run cfg (step cfg (run cfg (init us) ops0).1 (.message c (some (.obj l)) orc)).1 ops1).2.flatten)) = some r ∧
      SameMap r (imageFor cfg
        (run cfg (step cfg (run cfg (init us) ops0).1 (.message c (some (.obj l)) orc)).1 ops1).1 p3 f) := by
  obtain ⟨tr0, h0, _⟩ := run_is_exec cfg us ops0
  have inv1 : Inv cfg (run cfg (init us) ops0).1 := reachable_inv cfg us ops0
  have hlive : (findPeer (run cfg (init us) ops0).1.peers c).isSome = true := by
    cases hfp : findPeer (run cfg (init us) ops0).1.peers c with
    | some p => rfl
    | none =>
      exfalso
      have : step cfg (run cfg (init us) ops0).1 (.message c (some (.obj l)) orc) =
          ((run cfg (init us) ops0).1, []) := by
        unfold step; simp [hfp]
      rw [this] at hinst
      exact hnew hinst
  obtain ⟨o1, s1', hat, hcase⟩ := step_single inv1 c l orc hlive
  rcases hcase with heq | ⟨o2, _, _, hgone⟩
  · rw [heq] at hinst hp3 ⊢
    have inv2 : Inv cfg s1' := (atom_ok inv1 hat).inv
    obtain ⟨tr, h, hobs⟩ := run_exec (cfg := cfg) ops1 inv2
    rw [← hobs]
    exact replica_exact cfg us tr0 tr o1 _ s1' _ c f p3 h0 hat h hnew hinst hp3 hc3 hf3
  · obtain ⟨p2, hp2, hc2, _⟩ := hinst
    exact absurd hc2 (hgone p2 hp2)

example : ∃ f p3, ¬ HasFetch (run Ex.cfg (init []) Ex.ops0).1 1 f ∧
    HasFetch (step Ex.cfg (run Ex.cfg (init []) Ex.ops0).1 (.message 1 (some (.obj Ex.fetch1)) {})).1 1 f ∧
    p3 ∈ (run Ex.cfg (step Ex.cfg (run Ex.cfg (init []) Ex.ops0).1
      (.message 1 (some (.obj Ex.fetch1)) {})).1 [Ex.opChange]).1.peers ∧ p3.conn = 1 ∧ f ∈ p3.fetches :=
  Ex.install_exists (by decide +kernel) (by decide +kernel)

/-- Why atoms and not operations: the statement of `replica_exact` with "the operation that
    installed `f`" in place of "the atom that installed `f`" is FALSE for batches.  Peer 1 sends
    `[fetch id 1, unfetch id 1, fetch id 1]` in one message while peer 2 owns state "a": the
    operation installs a fetch with id 1 that peer 1 did not have before, but the operation's
    notifications for `(1, 1)` are "add a", "add a" (one per life time of the id), which do not
    replay from the empty replica.  The daemon is right (each life time of the id is exact, by
    `replica_exact`); life times simply have to be cut at request granularity. -/
theorem step_granularity_too_coarse :
    ∃ (ops : List Op) (op : Op) (c : Nat) (f : Fetch),
      ¬ HasFetch (run {} (init []) ops).1 c f ∧
      HasFetch (step {} (run {} (init []) ops).1 op).1 c f ∧
      replay (notifsFor c f.fid (step {} (run {} (init []) ops).1 op).2) = none := by
  obtain ⟨f, h1, h2, h3⟩ := Ex.coarse_exists (s := (run {} (init []) Ex.ops0).1)
    (s' := (step {} (run {} (init []) Ex.ops0).1 Ex.opBatch).1) (c := 1)
    (obs := (step {} (run {} (init []) Ex.ops0).1 Ex.opBatch).2) (by decide +kernel) (by decide +kernel)
  exact ⟨Ex.ops0, Ex.opBatch, 1, f, h1, h2, h3⟩

/-- A subscriber all of whose sends succeeded received exactly what was emitted: dropping the
    failed sends to `c` from the observations changes nothing, so every statement about
    `notifsFor c fid obs` is a statement about what a healthy `c` received. -/
theorem healthy_receives_all (c : Nat) (fid : Json) (obs : List Obs)
    (h : ∀ j b, Obs.send c j b ∈ obs → b = true) :
    notifsFor c fid (recvd c obs) = notifsFor c fid obs := by
  rw [recvd_eq_of_healthy h]

example : ∀ j b, Obs.send 1 j b ∈ ([] : List Obs) → b = true := by
  intro j b h; cases h

/-! ## 3. adds before the success response -/

/-- `adds_before_success`.  One JSON-RPC object `req` from connection `c`, any context.  If a
    fetch `f` appears for some connection `c'` in this atom, then `c' = c` and the output of the
    atom splits into `front ++ back` (chronological): `back` is exactly the success response of the
    request to `c` (or empty when the request carries no usable id), and the notifications for
    `(c, f.fid)` in `front` alone — everything before the response — already replay to the image
    of `f`: every "add" for a pre-existing match precedes the success response. -/
theorem adds_before_success (cfg : Config) (x : Ctx) (inv : Inv cfg x.st) (c : Nat) (req : Json)
    (c' pg : Nat) (f : Fetch) (hnew : ¬ HasFetch x.st c' f)
    (hinst : Alive (parseJsonRpc cfg x c req).1.st c' pg f) :
    c' = c ∧ ∃ front back : List Obs,
      (parseJsonRpc cfg x c req).1.out = (front ++ back).reverse ++ x.out ∧
      (∃ r, replay (notifsFor c f.fid front) = some r ∧
        SameMap r (imageOf cfg (parseJsonRpc cfg x c req).1.st pg f.rule)) ∧
      notifs back = [] ∧
      ((successFromRequest req = none ∧ back = []) ∨
        ∃ j b, successFromRequest req = some j ∧ back = [Obs.send c j b]) := by
  obtain ⟨new, resp, hout, hstep, hresp, hwho⟩ := (parseJsonRpc_ok inv c req).shape
  obtain ⟨hcc, hback⟩ := hwho c' f hinst.hasFetch hnew
  subst hcc
  refine ⟨rfl, new.reverse, resp.reverse, ?_, ?_, ?_, ?_⟩
  · rw [hout]; simp
  · exact hstep.install c' pg f hnew hinst
  · rcases hresp with rfl | ⟨j, b, rfl, hj⟩
    · rfl
    · simp [notifs_send, decodeNotif_of_isResp hj]
  · rcases hback with ⟨h1, rfl⟩ | ⟨j, b, h1, rfl⟩
    · exact Or.inl ⟨h1, rfl⟩
    · exact Or.inr ⟨j, b, h1, rfl⟩

example : Inv Ex.cfg (mkCtx (run Ex.cfg (init []) Ex.ops0).1 {}).st ∧
    ∃ pg f, ¬ HasFetch (mkCtx (run Ex.cfg (init []) Ex.ops0).1 {}).st 1 f ∧
      Alive (parseJsonRpc Ex.cfg (mkCtx (run Ex.cfg (init []) Ex.ops0).1 {}) 1 (.obj Ex.fetch1)).1.st 1 pg f :=
  ⟨reachable_inv _ _ _, Ex.alive_exists (by decide +kernel) (by decide +kernel)⟩

/-! ## 4. silence -/

/-- `silence_after_unfetch`, first half.  An `unfetch` request of peer `p` (connection `p.conn`)
    whose id `fid` names one of its fetches is answered with the success response, emits nothing
    else, and afterwards `p` has no fetch whose id equals `fid`. -/
theorem unfetch_silences (cfg : Config) (x : Ctx) (inv : Inv cfg x.st) (p : Peer) (hp : p ∈ x.st.peers)
    (req params fid : Json) (hid : getFetchId req false = .ok params fid) (hhas : HasFid x.st p.conn fid) :
    (unfetchReq x p req).2 = successFromRequest req ∧ (unfetchReq x p req).1.out = x.out ∧
    ¬ HasFid (unfetchReq x p req).1.st p.conn fid :=
  unfetchReq_removes inv hp req hid hhas

/-- `silence_after_unfetch`, second half.  From any state satisfying the invariant in which `c` has
    no fetch whose id equals `fid` (e.g. after the unfetch above, or after `closed c`), as long as
    no state reached has such a fetch — i.e. unless a new fetch with an equal id is installed —
    no atom emits a notification for `(c, fid)`. -/
theorem silence_after_unfetch (cfg : Config) (s s' : State) (tr : List (List Obs × State)) (inv : Inv cfg s)
    (h : Exec cfg s tr s') (c : Nat) (fid : Json) (h0 : ¬ HasFid s c fid)
    (hall : ∀ t ∈ tr.map (·.2), ¬ HasFid t c fid) : notifsFor c fid (obsOf tr) = [] :=
  h.silent inv h0 hall

/-- a fetch id comes into use only by an atom that installs a fetch with that id -/
theorem fid_only_by_install (s s' : State) (c : Nat) (fid : Json) (h0 : ¬ HasFid s c fid)
    (h1 : HasFid s' c fid) : ∃ f, HasFetch s' c f ∧ ¬ HasFetch s c f ∧ idsEqual f.fid fid = true := by
  obtain ⟨p, hp, hc, g, hg, hi⟩ := h1
  refine ⟨g, ⟨p, hp, hc, hg⟩, ?_, hi⟩
  rintro ⟨q, hq, hqc, hqg⟩
  exact h0 ⟨q, hq, hqc, g, hqg, hi⟩

example : ¬ HasFid (run Ex.cfg (init []) Ex.ops0).1 1 (Ex.n 1) ∧ HasFid (run Ex.cfg (init []) Ex.ops1).1 1 (Ex.n 1) :=
  ⟨fun ⟨p, hp, hc, g, hg, _⟩ => Ex.noFetches (s := (run Ex.cfg (init []) Ex.ops0).1) (c := 1)
      (by decide +kernel) g ⟨p, hp, hc, hg⟩,
   Ex.hasFid_of_bool (by decide +kernel)⟩

/-- after `closePeer x c` the connection has no peer, hence no fetch id in use: nothing is emitted
    for it (`silence_after_unfetch`) until it connects and fetches again -/
theorem nothing_after_closed (x : Ctx) (c : Nat) (fid : Json) : ¬ HasFid (closePeer x c).st c fid := by
  rintro ⟨p, hp, hc, _⟩
  exact closePeer_gone x c p hp hc

example : Inv Ex.cfg (mkCtx (run Ex.cfg (init []) Ex.ops1).1 {}).st ∧
    ∃ p params fid, p ∈ (mkCtx (run Ex.cfg (init []) Ex.ops1).1 {}).st.peers ∧
      getFetchId (.obj Ex.unfetch1) false = .ok params fid ∧
      HasFid (mkCtx (run Ex.cfg (init []) Ex.ops1).1 {}).st p.conn fid :=
  ⟨reachable_inv _ _ _, Ex.hasFid_exists (c := 1) (by decide +kernel)⟩

example : Inv Ex.cfg (init []) ∧ Exec Ex.cfg (init []) [] (init []) ∧ ¬ HasFid (init []) 1 (Ex.n 1) :=
  ⟨inv_init _ _, Exec.nil _, by rintro ⟨p, hp, _⟩; cases hp⟩

/-! ## 5. refused add -/

/-- `no_spurious_on_rollback`.  An `add` processed while the path index refuses the insertion
    (`x.indexFull`): the state is unchanged, and for every live fetch the notifications of this
    request are either none, or exactly "add" followed by "remove" of the same path — every
    subscriber that received the "add" receives the "remove" in the same request — so every
    replica is unchanged by it. -/
theorem no_spurious_on_rollback (cfg : Config) (x : Ctx) (inv : Inv cfg x.st) (p : Peer) (req : Json)
    (hfull : x.indexFull = true) :
    (addElement cfg x p req).1.st = x.st ∧
    ∃ ns, Emits x (addElement cfg x p req).1 ns ∧
      ∀ c pg f, Alive x.st c pg f →
        (pick c f.fid ns = [] ∨
          ∃ path v, pick c f.fid ns =
            [{ fid := f.fid, path := path, event := .add, value := v },
             { fid := f.fid, path := path, event := .remove, value := v }]) ∧
        ∀ r, SameMap r (imageOf cfg x.st pg f.rule) →
          ∃ r', replayFrom r (pick c f.fid ns) = some r' ∧ SameMap r' (imageOf cfg x.st pg f.rule) := by
  obtain ⟨hst, ns, hem, hpick⟩ := addElement_rollback inv p req hfull
  refine ⟨hst, ns, hem, ?_⟩
  intro c pg f ha
  rcases hpick c pg f ha with h | ⟨path, v, hno, h⟩
  · refine ⟨Or.inl h, ?_⟩
    intro r hr
    rw [h]; exact ⟨r, rfl, hr⟩
  · refine ⟨Or.inr ⟨path, v, h⟩, ?_⟩
    intro r hr
    rw [h]
    apply sameMap_add_remove hr
    intro hin
    obtain ⟨a, ha', hap⟩ := List.mem_map.1 hin
    obtain ⟨e0, he0, _, rfl⟩ := mem_imageOf.1 ha'
    exact hno e0 he0 hap

example : Inv Ex.cfg (mkCtx (run Ex.cfg (init []) Ex.ops1).1 { indexFull := true }).st ∧
    (mkCtx (run Ex.cfg (init []) Ex.ops1).1 { indexFull := true }).indexFull = true :=
  ⟨reachable_inv _ _ _, rfl⟩

/-! ## 6. order -/

/-- `order_is_generation_order`.  The notification stream of one `(c, fid)` over a run is the
    concatenation, operation by operation (and inside an operation atom by atom, in the order the
    requests were processed), of the notifications each piece emitted; `replica_exact` consumes
    exactly this concatenation, so no reordering is needed for the replay to succeed. -/
theorem order_is_generation_order (cfg : Config) (s : State) (ops : List Op) (c : Nat) (fid : Json) :
    notifsFor c fid (run cfg s ops).2.flatten = ((run cfg s ops).2.map (notifsFor c fid)).flatten ∧
    ∀ tr : List (List Obs × State), notifsFor c fid (obsOf tr) = (tr.map (fun a => notifsFor c fid a.1)).flatten := by
  have key : ∀ l : List (List Obs), notifsFor c fid l.flatten = (l.map (notifsFor c fid)).flatten := by
    intro l
    induction l with
    | nil => rfl
    | cons a t ih => simp [notifsFor_append, ih]
  refine ⟨key _, ?_⟩
  intro tr
  unfold obsOf
  rw [key, List.map_map]
  rfl

/-! ### values pass through the daemon by parse then print (vendored cJSON.c): strings and number-free trees come back exactly; a double comes back bit for bit given strtod(sprintf %.17g d) = d (code as repaired, F65) -/

theorem json_string_survives_print_parse : type_of% @Cjet.Props.Cjson.print_parse_string_roundtrip := @Cjet.Props.Cjson.print_parse_string_roundtrip
theorem json_tree_survives_print_parse : type_of% @Cjet.Props.Cjson.print_parse_tree_roundtrip := @Cjet.Props.Cjson.print_parse_tree_roundtrip
theorem json_number_survives_print_parse_given_number_oracle_partial : type_of% @Cjet.Props.Cjson.number_survives_print_parse_given_number_oracle_partial := @Cjet.Props.Cjson.number_survives_print_parse_given_number_oracle_partial
theorem json_print_number_is_exact_as_built : type_of% @Cjet.Props.Cjson.print_number_is_exact_as_built := @Cjet.Props.Cjson.print_number_is_exact_as_built
theorem json_number_print_before_fix : type_of% @Cjet.Props.Cjson.number_print_counterexample_before_fix := @Cjet.Props.Cjson.number_print_counterexample_before_fix

end Cjet.Daemon.C01
