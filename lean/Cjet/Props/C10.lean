import Cjet.Bufwrite
import Cjet.Lemmas.Bufwrite
import Cjet.Generated.Consts
/-!
# C10 — outbound byte streams are whole frames in order, whatever the socket accepts

Model: `Cjet.Bufwrite` (write side of `src/buffered_socket.c` + gather order of
`src/posix/socket.c`).  All theorems are for every buffer capacity `cap`, every element type,
every sequence of frames (each an iovec = list of chunks), every script of kernel answers
(accept all / accept any number of bytes / would block / hard error, in any order and amount)
and every interleaving with writability events.

`failed` is the model of `bs->write_failed` ("the connection is dead": nothing is ever handed
to the kernel again and the next writability event calls the owner's error callback).
-/
namespace Cjet.Props.C10

open Cjet.Bufwrite

variable {α : Type}

/-! ## stream integrity -/

/-- **stream_integrity.** On a connection that has not been marked failed: the bytes accepted by
    the kernel so far followed by the bytes still queued are exactly the concatenation, in
    generation order, of the frames whose `writev` reported success. -/
theorem stream_integrity (cap : Nat) (ops : List (Op α)) (h : (run cap ops).w.failed = false) :
    (run cap ops).accepted ++ (run cap ops).w.pending = streamOf (run cap ops).completed :=
  (inv_run cap ops).live h

/-- non-vacuity: a history with a cut inside the header, a cut inside the payload, flushes and a
    refused frame in between stays live, with bytes both at the kernel and queued. -/
example :
    let r : Run Nat := run 16
      [ .writev [[1, 2, 3, 4], [5, 6, 7, 8, 9, 10, 11, 12]] [.part 3, .part 2],
        .writev [[13, 14, 15, 16], [17, 18, 19, 20, 21, 22, 23, 24, 25, 26]] [.block],
        .writable [.part 4],
        .writev [[27, 28], [29]] [.block] ]
    r.w.failed = false ∧ r.accepted = [1, 2, 3, 4, 5, 6, 7, 8, 9] ∧ r.w.pending = [10, 11, 12, 27, 28, 29] ∧
      r.completed.length = 2 := by decide

/-- Even on a failed connection the kernel has seen nothing but whole completed frames followed
    by a (possibly empty) prefix of the one frame that was being written when it failed. -/
theorem torn_frame_is_last (cap : Nat) (ops : List (Op α)) (h : (run cap ops).w.failed = true) :
    (run cap ops).accepted <+: streamOf (run cap ops).completed ++ (run cap ops).torn.flatten :=
  List.prefix_iff_exists_append_eq.mpr ((inv_run cap ops).dead h)

example :
    let r : Run Nat := run 16 [ .writev [[1, 2, 3, 4], List.range 20] [.part 2] ]
    r.w.failed = true ∧ r.accepted = [1, 2] ∧ r.completed = [] := by decide

/-- **order_preserved.** The completed frames are a subsequence of the offered frames in
    generation order, and the kernel's byte stream is a prefix of their concatenation in that
    order (plus, on a failed connection, the beginning of the torn frame): nothing is reordered. -/
theorem order_preserved (cap : Nat) (ops : List (Op α)) :
    (run cap ops).completed.Sublist (offered ops) ∧
    (run cap ops).accepted <+: streamOf (run cap ops).completed ++ (run cap ops).torn.flatten := by
  constructor
  · obtain ⟨x, hx, he⟩ := completed_sublist cap ops ({} : Run α)
    have : (run cap ops).completed = x := by simpa [run] using he
    rw [this]; exact hx
  · cases h : (run cap ops).w.failed with
    | true => exact torn_frame_is_last cap ops h
    | false =>
      rw [← stream_integrity cap ops h, List.append_assoc]
      exact List.prefix_append _ _

/-- **no_dup.** Byte accounting: on a live connection every byte of every completed frame is
    either at the kernel or queued exactly once (together with `stream_integrity`: at its own
    position). -/
theorem no_dup (cap : Nat) (ops : List (Op α)) (h : (run cap ops).w.failed = false) :
    (run cap ops).accepted.length + (run cap ops).w.pending.length =
      ((run cap ops).completed.map frameLen).sum := by
  rw [← length_streamOf, ← stream_integrity cap ops h, List.length_append]

example : (run 16 [ .writev [[1, 2], [3]] [.part 1], .writable [.part 1] ] : Run Nat).w.failed = false := by
  decide

/-! ## refusal is clean -/

/-- **accepted_frame_is_whole.** When `writev` reports success the whole frame is behind the
    previously pending bytes — at the kernel or queued — and the connection is live. -/
theorem accepted_frame_is_whole (cap : Nat) (w : Writer α) (f : List (List α)) (ks : List KW)
    (h : (writev cap w f ks).rc = 0) :
    (writev cap w f ks).w.failed = false ∧
    (writev cap w f ks).out ++ (writev cap w f ks).w.pending = w.pending ++ f.flatten := by
  cases hw : w.failed with
  | true => rw [writev_of_failed cap w f ks hw] at h; simp at h
  | false => exact (writev_post cap w f ks hw).ok h

example : (writev 16 (⟨[1, 2], false⟩ : Writer Nat) [[3, 4], [5]] [.part 3, .block]).rc = 0 := by decide

/-- **refusal_is_clean.** When `writev` reports failure, either nothing of the frame was queued
    or handed to the kernel (the stream consists of the previously pending bytes only and the
    connection stays usable), or the connection is marked failed (see `dead_is_final`). -/
theorem refusal_is_clean (cap : Nat) (w : Writer α) (f : List (List α)) (ks : List KW)
    (h : (writev cap w f ks).rc ≠ 0) :
    ((writev cap w f ks).out ++ (writev cap w f ks).w.pending = w.pending ∧
        (writev cap w f ks).w.failed = false) ∨
    (writev cap w f ks).w.failed = true := by
  cases hw : w.failed with
  | true => right; rw [writev_of_failed cap w f ks hw]; exact hw
  | false =>
    cases hf : (writev cap w f ks).w.failed with
    | true => right; rfl
    | false => left; exact ⟨(writev_post cap w f ks hw).refused h hf, rfl⟩

/-- both outcomes occur: a clean refusal after part of the *pending* bytes went out, and a
    refusal that has to kill the connection because part of the *frame* is already at the kernel -/
example :
    let r := writev 16 (⟨List.range 12, false⟩ : Writer Nat) [[100, 101, 102, 103], [104, 105, 106]] [.part 2]
    r.rc ≠ 0 ∧ r.w.failed = false ∧ r.out = [0, 1] ∧ r.w.pending = [2, 3, 4, 5, 6, 7, 8, 9, 10, 11] := by decide
example :
    let r := writev 16 (⟨[], false⟩ : Writer Nat) [[100, 101, 102, 103], List.range 20] [.part 5]
    r.rc ≠ 0 ∧ r.w.failed = true := by decide

/-- **dead_is_final.** On a failed connection `writev` reports failure and `write_function`
    calls the error callback; neither makes a kernel call, hands over a byte or changes the state. -/
theorem dead_is_final (cap : Nat) (w : Writer α) (f : List (List α)) (ks : List KW) (h : w.failed = true) :
    writev cap w f ks = ⟨w, -1, [], ks, 0⟩ ∧ writable w ks = (⟨w, -1, [], ks, 0⟩, true) := by
  refine ⟨writev_of_failed cap w f ks h, ?_⟩
  unfold writable
  rw [sendBuffer_of_failed w ks h]
  simp

/-- **nothing_after_dead.** Whatever is attempted after the connection was marked failed, the
    kernel's byte stream and the set of completed frames never change again: a peer never sees
    part of a frame followed by other data. -/
theorem nothing_after_dead (cap : Nat) (ops more : List (Op α)) (h : (run cap ops).w.failed = true) :
    (run cap (ops ++ more)).accepted = (run cap ops).accepted ∧
    (run cap (ops ++ more)).completed = (run cap ops).completed ∧
    (run cap (ops ++ more)).w.failed = true := by
  have key : ∀ (more : List (Op α)) (r : Run α), r.w.failed = true →
      (more.foldl (step cap) r).accepted = r.accepted ∧ (more.foldl (step cap) r).completed = r.completed ∧
      (more.foldl (step cap) r).w.failed = true := by
    intro more
    induction more with
    | nil => intro r hr; exact ⟨rfl, rfl, hr⟩
    | cons op more ih =>
      intro r hr
      obtain ⟨e1, e2, e3⟩ := step_of_failed cap r op hr
      obtain ⟨i1, i2, i3⟩ := ih (step cap r op) (by rw [e1]; exact hr)
      exact ⟨by rw [List.foldl_cons, i1, e2], by rw [List.foldl_cons, i2, e3], by rw [List.foldl_cons]; exact i3⟩
  unfold run at h ⊢
  rw [List.foldl_append]
  exact key more _ h

example : (run 16 [ .writev [[1, 2, 3, 4], List.range 20] [.part 2] ] : Run Nat).w.failed = true := by decide

/-- The owner's error callback is called by `write_function` exactly when the connection is
    (now or already) failed — so a failed connection is reported at the next writability event. -/
theorem error_callback_iff_failed (w : Writer α) (ks : List KW) :
    (writable w ks).2 = true ↔ (writable w ks).1.w.failed = true := by
  unfold writable
  cases hw : w.failed with
  | true => rw [sendBuffer_of_failed w ks hw]; simp [hw]
  | false =>
    unfold sendBuffer
    simp only [hw, Bool.false_eq_true, if_false, decide_eq_true_eq]
    obtain ⟨h1, h2, _⟩ := sendLoop_spec w.pending ks w.pending
    cases hf : (sendLoop w.pending ks w.pending).w.failed with
    | true => simp [(h2 hf).1]
    | false => simp [(h1 hf).1]

/-! ## buffer bounds -/

/-- **fill_le_cap.** `to_write` never exceeds the size of the write buffer. -/
theorem fill_le_cap (cap : Nat) (ops : List (Op α)) : (run cap ops).w.pending.length ≤ cap :=
  (inv_run cap ops).le

/-- …in particular for the repository's `CONFIG_MAX_WRITE_BUFFER_SIZE`. -/
theorem fill_le_config (ops : List (Op α)) :
    (run Cjet.Generated.cfgMaxWriteBufferSize ops).w.pending.length ≤ Cjet.Generated.cfgMaxWriteBufferSize :=
  fill_le_cap _ ops

/-- **copy_in_bounds.** Every `memcpy` of `copy_single_buffer` stays inside the buffer: whatever
    the frame and the cut position, the buffer content after `copy_iovec_to_write_buffer` (which
    only appends) is at most `cap` long. -/
theorem copy_in_bounds (cap : Nat) (buf : List α) (cs : List (List α)) (ivw : Nat) (h : buf.length ≤ cap) :
    (copyIovec cap buf cs ivw).1.length ≤ cap :=
  copyIovec_le cap buf cs ivw h

example : ([1, 2, 3] : List Nat).length ≤ 16 := by decide

/-- **copy_never_refuses.** After the size check of `buffered_socket_writev` the element-wise
    copy cannot stop half way: it queues exactly the unsent tail of the frame (the cut may be
    inside any element, elements may be empty). -/
theorem copy_never_refuses (cap : Nat) (buf : List α) (cs : List (List α)) (ivw : Nat)
    (h : buf.length + (cs.flatten.length - ivw) ≤ cap) :
    copyIovec cap buf cs ivw = (buf ++ cs.flatten.drop ivw, true) :=
  copyIovec_spec cap buf cs ivw h

example : ([1, 2, 3] : List Nat).length + (([[4, 5], [], [6, 7, 8]] : List (List Nat)).flatten.length - 3) ≤ 16 := by
  decide

/-! ## no spinning -/

/-- **send_buffer_terminates.** Under the kernel contract (a successful write of `m > 0`
    requested bytes returns `1..m`) the flush loop makes at most one kernel call per pending
    byte — however many answers the script offers — and each call consumes one answer. -/
theorem send_buffer_terminates (w : Writer α) (ks : List KW) (hks : ∀ k ∈ ks, k.ok = true) :
    (sendBuffer w ks).calls ≤ w.pending.length :=
  sendBuffer_calls w ks hks

example : ∀ k ∈ [KW.part 1, .part 7, .all, .block, .err], k.ok = true := by decide

/-- The same for `buffered_socket_writev` including its first gathered write. -/
theorem writev_terminates (cap : Nat) (w : Writer α) (f : List (List α)) (ks : List KW)
    (hks : ∀ k ∈ ks, k.ok = true) :
    (writev cap w f ks).calls ≤ w.pending.length + frameLen f := by
  have := writev_calls cap w f ks hks
  simpa [frameLen] using this

/-- Kernel calls are paid for with script answers: the loop cannot make more calls than there
    are answers plus the final implicit "would block". -/
theorem send_buffer_consumes (w : Writer α) (ks : List KW) :
    (sendBuffer w ks).rest.length + (sendBuffer w ks).calls ≤ ks.length + 1 := by
  unfold sendBuffer
  cases hw : w.failed with
  | true => simp
  | false => simpa using sendLoop_consumes w.pending ks w.pending

/-! ## the defect that was repaired (F19), on the transcription of the code before the repair -/

/-- Before the repair: the pending buffer is full enough that the 4-byte header fits and the
    payload does not; the kernel would block.  `writev` reports failure, the connection stays in
    use, and the header of the refused frame is queued behind the pending bytes. -/
theorem refusal_is_clean_counterexample_before_fix :
    let w : Writer Nat := ⟨List.range 12, false⟩
    let r := Legacy.writev 16 w [[100, 101, 102, 103], [104, 105, 106, 107, 108, 109, 110, 111]] [.block]
    r.rc ≠ 0 ∧ r.w.failed = false ∧ r.out ++ r.w.pending = List.range 12 ++ [100, 101, 102, 103] := by
  decide

/-- Before the repair, after a partial kernel write that cut the frame's header: the first byte
    of the frame is at the kernel, the rest of the header is queued, the payload is dropped,
    `writev` reports failure and the connection stays in use. -/
theorem torn_after_partial_write_counterexample_before_fix :
    let w : Writer Nat := ⟨[], false⟩
    let r := Legacy.writev 16 w [[100, 101, 102, 103], List.range 14] [.part 1]
    r.rc ≠ 0 ∧ r.w.failed = false ∧ r.out = [100] ∧ r.w.pending = [101, 102, 103] := by
  decide

end Cjet.Props.C10
