/-
  The epoll dispatcher `src/linux/eventloop_epoll.c` (model `Cjet.Evloop`): the part of
  C05 ("once the daemon has released the connection nothing is ever … looked up through it"),
  C06 ("any batching of readiness events … read or write memory outside live objects") and
  C11 ("harms only itself") that is decided inside the event loop.

  Everything is quantified over all parameters (`P`: which function pointers are NULL, the array
  size), all loop states, all harvested arrays / ready lists, all masks and all callback scripts.
  `P.nulling = true` is the code as committed (commit 676ccd4); `false` is the code before it and
  appears only in the counterexample.
-/
import Cjet.Lemmas.Evloop

namespace Cjet.Props.Evloop

open Cjet.Evloop

/-! ### a removed `io_event` is never called again -/

/-- Within one `dispatch_events`: once `eventloop_epoll_remove(x)` has run — in a callback of `x`
    itself or of any other array position — no function of `x` is invoked in the rest of the batch
    (not even if `x` is registered again meanwhile).  For every array, also one with duplicates or
    entries that were never registered. -/
theorem no_call_after_remove (P : Params) (hn : P.nulling = true) (L : Loop) (sc : List Answer)
    (pre post : List TEv) (x : Nat) (f : Fn)
    (h : (dispatch P L sc).trace = pre ++ .removed x :: post) : TEv.call x f ∉ post := by
  have hm := (dispatch_inv P hn x L sc .ok ⟨fun h => (by cases h), fun h => absurd rfl h⟩).1
  rw [h, show pre ++ TEv.removed x :: post = (pre ++ [.removed x]) ++ post by simp, monX_append,
    statusAfter_removed] at hm
  refine monX_no_call (by simp) hm.2 (fun b hb => ?_) f
  have : TEv.harvest b ∈ (dispatch P L sc).trace := by rw [h]; simp [hb]
  exact dispatchLoop_no_harvest P _ L sc b this

example : TEv.removed 2 ∈ (dispatch {} { reg := [1, 2], todo := [⟨some 1, 1#32⟩, ⟨some 2, 1#32⟩] }
    [⟨.cont, [.remove 2]⟩]).trace := by decide

/-- Over the whole life of `eventloop_epoll_run`, per `io_event`: a function of `x` is invoked only
    while `x` is in status `ok` — not after it was removed, and after a new registration only
    once `epoll_wait` has returned again (see `Cjet.Evloop.monX`). -/
theorem no_call_after_remove_monitor (P : Params) (hn : P.nulling = true) (ws : List Wait) (L : Loop)
    (sc : List Answer) (x : Nat) : monX x .ok (run P ws L sc).trace :=
  run_inv P hn x ws L sc .ok ⟨fun h => (by cases h), fun h => absurd rfl h⟩

/-- The same, as a statement about positions: a call of `x` that comes after a remove of `x` is
    separated from it by a successful `add` of `x` and, after that, a fresh `epoll_wait` result. -/
theorem no_call_after_remove_across_batches (P : Params) (hn : P.nulling = true) (ws : List Wait) (L : Loop)
    (sc : List Answer) (x : Nat) (f : Fn) (pre mid post : List TEv)
    (h : (run P ws L sc).trace = pre ++ .removed x :: (mid ++ .call x f :: post)) :
    ∃ m1 m2 b m3, mid = m1 ++ .added x true :: (m2 ++ .harvest b :: m3) := by
  have hm := no_call_after_remove_monitor P hn ws L sc x
  rw [h, show pre ++ TEv.removed x :: (mid ++ TEv.call x f :: post) =
      (pre ++ [.removed x]) ++ (mid ++ TEv.call x f :: post) by simp] at hm
  have hm2 := ((monX_append _ _ _ _).1 hm).2
  rw [statusAfter_removed] at hm2
  have hm3 := ((monX_append _ _ _ _).1 hm2).2
  have hok : statusAfter x .dead mid = .ok := hm3.1 f rfl
  exact (statusAfter_ok_decomp x mid .dead (by simp) hok).2 rfl

example : ∃ pre mid post, (run {} [.batch [(1, 1#32)], .batch [(1, 1#32)]] { reg := [1] }
    [⟨.cont, [.remove 1, .add 1 true]⟩]).trace = pre ++ .removed 1 :: (mid ++ .call 1 .read :: post) :=
  ⟨[.harvest [(1, 1#32)], .call 1 .read],
   [.added 1 true, .snap { reg := [1], done := [⟨none, 1#32⟩] }, .ret .cont, .harvest [(1, 1#32)]],
   [.snap { reg := [1], current := some 1, done := [⟨some 1, 1#32⟩] }, .ret .cont, .term, .runRet 0], by decide⟩

/-- The defect repaired by commit 676ccd4, on the model of the code before it: the callback of the
    first array position removes (and frees) `io_event 2`, whose own event is the second array
    position — and its read function is called all the same. -/
theorem no_call_after_remove_counterexample_before_fix :
    callsOf (run { nulling := false } [.batch [(1, EPOLLIN), (2, EPOLLIN)]] { reg := [1, 2] }
      [⟨.cont, [.remove 2]⟩]).trace = [(1, .read), (2, .read)] ∧
    removedIn (run { nulling := false } [.batch [(1, EPOLLIN), (2, EPOLLIN)]] { reg := [1, 2] }
      [⟨.cont, [.remove 2]⟩]).trace = [2] ∧
    callsOf (run { nulling := true } [.batch [(1, EPOLLIN), (2, EPOLLIN)]] { reg := [1, 2] }
      [⟨.cont, [.remove 2]⟩]).trace = [(1, .read)] := by decide

/-! ### what one array entry calls -/

/-- An event with any bit other than `EPOLLIN | EPOLLOUT` calls exactly the error function of its
    `io_event` and nothing else, whatever the callback does. -/
theorem error_mask_only_error_function (P : Params) (x : Nat) (m : Mask) (L : Loop) (sc : List Answer)
    (hm : isErr m = true) : callsOf (entry P ⟨some x, m⟩ L sc).seg = [(x, .error)] := by
  rcases entry_calls P ⟨some x, m⟩ L sc x rfl with h | ⟨h, _⟩
  · rw [h]; simp [prescribed, hm]
  · simp [hm] at h

example : isErr (EPOLLIN ||| 0x10#32) = true := by decide

/-- `isErr` is the test the statement speaks of: some bit other than bit 0 (`EPOLLIN`) and bit 2 (`EPOLLOUT`). -/
theorem error_mask_iff_foreign_bit (m : Mask) :
    isErr m = true ↔ ∃ i, i < 32 ∧ i ≠ 0 ∧ i ≠ 2 ∧ m.getLsbD i = true := isErr_iff_bit m

/-- The same inside a batch, relative to the array as harvested: position `i` with an error mask
    calls exactly the error function of its `io_event` — or nothing at all, and then only because an
    earlier position removed that `io_event`. -/
theorem error_mask_only_error_function_in_batch (P : Params) (hn : P.nulling = true) (L : Loop) (sc : List Answer)
    (i x : Nat) (m : Mask) (seg : List TEv) (hi : L.todo[i]? = some ⟨some x, m⟩) (hm : isErr m = true)
    (hs : (dispatch P L sc).segs[i]? = some seg) :
    callsOf seg = [(x, .error)] ∨
      (seg = [] ∧ TEv.removed x ∈ ((dispatch P L sc).segs.take i).flatten) := by
  rcases dispatchLoop_at P hn _ L sc i x m seg hi hs with ⟨h1, h2⟩ | ⟨_, L', sc', h2⟩
  · exact Or.inr ⟨h2, mem_removedIn.1 h1⟩
  · exact Or.inl (h2 ▸ error_mask_only_error_function P x m L' sc' hm)

example : ({ todo := [⟨some 7, 0x19#32⟩] } : Loop).todo[0]? = some ⟨some 7, 0x19#32⟩ ∧ isErr 0x19#32 = true ∧
    (dispatch {} { todo := [⟨some 7, 0x19#32⟩] } []).segs[0]? =
      some [.call 7 .error, .snap { current := some 7, done := [⟨some 7, 0x19#32⟩] }, .ret .cont] := by decide

/-- For every array position: if both the read and the write function are called, the read
    function is called first. -/
theorem read_before_write (P : Params) (L : Loop) (sc : List Answer) (seg : List TEv)
    (hs : seg ∈ (dispatch P L sc).segs) (i j y z : Nat)
    (hi : (callsOf seg)[i]? = some (y, .read)) (hj : (callsOf seg)[j]? = some (z, .write)) : i < j := by
  obtain ⟨e, L', sc', rfl⟩ := dispatchLoop_segs_entry P _ L sc seg hs
  obtain ⟨x, hx⟩ := entry_shapes' P e L' sc'
  simp only [List.mem_cons, List.not_mem_nil, or_false] at hx
  rcases hx with h | h | h | h | h <;> rw [h] at hi hj
  · simp at hi
  · cases i <;> simp at hi
  · cases j <;> simp at hj
  · cases i <;> simp at hi
  · match i, j with
    | 0, 0 => simp at hj
    | 0, j + 1 => omega
    | 1, _ => simp at hi
    | i + 2, _ => simp at hi

example : [.call 1 .read, .snap { current := some 1, done := [⟨some 1, 5#32⟩] }, .ret .cont,
           .call 1 .write, .snap { current := some 1, done := [⟨some 1, 5#32⟩] }, .ret .cont] ∈
    (dispatch {} { todo := [⟨some 1, 5#32⟩] } []).segs := by decide

/-- For every array position: each of the three functions is called at most once, and only
    functions of one `io_event` are called. -/
theorem at_most_one_call_per_function_per_event_entry (P : Params) (L : Loop) (sc : List Answer) (seg : List TEv)
    (hs : seg ∈ (dispatch P L sc).segs) :
    (∀ y f, (callsOf seg).count (y, f) ≤ 1) ∧ ∃ x, ∀ c ∈ callsOf seg, c.1 = x := by
  obtain ⟨e, L', sc', rfl⟩ := dispatchLoop_segs_entry P _ L sc seg hs
  obtain ⟨x, hx⟩ := entry_shapes' P e L' sc'
  simp only [List.mem_cons, List.not_mem_nil, or_false] at hx
  refine ⟨fun y f => ?_, x, fun c hc => ?_⟩
  · rcases hx with h | h | h | h | h <;> rw [h] <;> cases f <;>
      simp [List.count_cons] <;> split <;> simp
  · rcases hx with h | h | h | h | h <;> rw [h] at hc <;> simp at hc
    · rw [hc]
    · rw [hc]
    · rw [hc]
    · rcases hc with hc | hc <;> rw [hc]

/-- The calls of an array position belong to the `io_event` that was harvested at that position. -/
theorem calls_are_for_the_harvested_event (P : Params) (hn : P.nulling = true) (L : Loop) (sc : List Answer)
    (i x : Nat) (m : Mask) (seg : List TEv) (hi : L.todo[i]? = some ⟨some x, m⟩)
    (hs : (dispatch P L sc).segs[i]? = some seg) : ∀ c ∈ callsOf seg, c.1 = x := by
  rcases dispatchLoop_at P hn _ L sc i x m seg hi hs with ⟨_, h2⟩ | ⟨_, L', sc', h2⟩
  · rw [h2]; simp [callsOf]
  · intro c hc
    rw [h2] at hc
    have := entry_shapes P ⟨some x, m⟩ L' sc' x rfl
    simp only [List.mem_cons, List.not_mem_nil, or_false] at this
    rcases this with h | h | h | h | h <;> rw [h] at hc <;> simp at hc
    · rw [hc]
    · rw [hc]
    · rw [hc]
    · rcases hc with hc | hc <;> rw [hc]

/-! ### nobody else is disturbed -/

/-- Whatever the callbacks of other array positions do (remove themselves, remove others, add,
    return "removed"): an `io_event` that nobody has removed by the end of its own turn, and whose
    own callbacks return "continue", gets exactly the calls its mask prescribes, at its array
    position (segments are in array order). -/
theorem others_undisturbed (P : Params) (hn : P.nulling = true) (L : Loop) (sc : List Answer)
    (i x : Nat) (m : Mask) (seg : List TEv) (hi : L.todo[i]? = some ⟨some x, m⟩)
    (hs : (dispatch P L sc).segs[i]? = some seg)
    (hnot : TEv.removed x ∉ ((dispatch P L sc).segs.take (i + 1)).flatten)
    (hret : ∀ r, TEv.ret r ∈ seg → r = .cont) :
    callsOf seg = prescribed P x m := by
  have htake : ((dispatch P L sc).segs.take (i + 1)).flatten =
      ((dispatch P L sc).segs.take i).flatten ++ seg := by
    rw [List.take_add_one, hs]; simp
  rw [htake] at hnot
  rcases dispatchLoop_at P hn _ L sc i x m seg hi hs with ⟨h1, _⟩ | ⟨_, L', sc', h2⟩
  · exact absurd (List.mem_append_left _ (mem_removedIn.1 h1)) hnot
  · rcases entry_calls P ⟨some x, m⟩ L' sc' x rfl with h | ⟨_, _, _, ⟨r, hr, hne⟩ | hx⟩
    · rw [h2]; exact h
    · exact absurd (hret r (by rw [h2]; exact mem_retsOf.1 hr)) hne
    · exact absurd (List.mem_append_right _ (by rw [h2]; exact mem_removedIn.1 hx)) hnot

example : ({ todo := [⟨some 1, 1#32⟩, ⟨some 2, 5#32⟩] } : Loop).todo[1]? = some ⟨some 2, 5#32⟩ ∧
    TEv.removed 2 ∉ ((dispatch {} { todo := [⟨some 1, 1#32⟩, ⟨some 2, 5#32⟩] } [⟨.removed, [.remove 1]⟩]).segs.take 2).flatten ∧
    callsOf (((dispatch {} { todo := [⟨some 1, 1#32⟩, ⟨some 2, 5#32⟩] } [⟨.removed, [.remove 1]⟩]).segs)[1]?.getD []) =
      [(2, .read), (2, .write)] := by decide

/-- Every array position gets its turn unless a callback answered `EL_ABORT_LOOP` before. -/
theorem every_entry_gets_its_turn (P : Params) (L : Loop) (sc : List Answer) :
    (dispatch P L sc).segs.length ≤ L.todo.length ∧
      ((dispatch P L sc).aborted = false → (dispatch P L sc).segs.length = L.todo.length) :=
  dispatchLoop_length P _ L sc rfl

/-! ### abort, EINTR, other errors -/

/-- After a callback has answered `EL_ABORT_LOOP` nothing more happens in the loop: the only event
    that follows is the return of `eventloop_epoll_run`, with `-1`. -/
theorem abort_stops_everything (P : Params) (ws : List Wait) (L : Loop) (sc : List Answer) (pre post : List TEv)
    (h : (run P ws L sc).trace = pre ++ .ret .abort :: post) :
    post = [.runRet (-1)] ∧ (run P ws L sc).rc = -1 := by
  rcases run_abortShape P ws L sc with hno | ⟨p, hp, hn, hrc⟩
  · exact absurd (by rw [mem_retsOf, h]; simp) hno
  · rw [hp, show p ++ [TEv.ret .abort, .runRet (-1)] = p ++ .ret .abort :: [.runRet (-1)] by simp] at h
    have := split_unique (fun hm => hn (mem_retsOf.2 hm)) (by simp) h
    exact ⟨this.2, hrc⟩

example : TEv.ret .abort ∈ (run {} [.batch [(1, 1#32), (2, 1#32)], .batch [(2, 1#32)]] { reg := [1, 2] }
    [⟨.abort, []⟩]).trace := by decide

/-- Inside one `dispatch_events`: the abort is the last thing that happens, and the result is `EL_ABORT_LOOP`. -/
theorem abort_stops_dispatch (P : Params) (L : Loop) (sc : List Answer) (pre post : List TEv)
    (h : (dispatch P L sc).trace = pre ++ .ret .abort :: post) :
    post = [] ∧ (dispatch P L sc).aborted = true :=
  abortShape_last (dispatchLoop_abortShape P _ L sc) pre post h

/-- `epoll_wait` failing with `EINTR` is not an error: the loop goes on with the next `epoll_wait`. -/
theorem eintr_continues (P : Params) (ws : List Wait) (L : Loop) (sc : List Answer) (hg : L.goAhead = true) :
    (run P (.eintr :: ws) L sc).trace = .eintr :: (run P ws L sc).trace ∧
    (run P (.eintr :: ws) L sc).rc = (run P ws L sc).rc ∧
    (run P (.eintr :: ws) L sc).loop = (run P ws L sc).loop := by
  simp [run, hg]

example : ({} : Loop).goAhead = true := rfl

/-- `epoll_wait` failing with any other `errno` ends `eventloop_epoll_run` with `-1`; no callback runs,
    the loop state is untouched. -/
theorem wait_error_aborts (P : Params) (ws : List Wait) (L : Loop) (sc : List Answer) (hg : L.goAhead = true) :
    (run P (.err :: ws) L sc).trace = [.waitErr, .runRet (-1)] ∧ (run P (.err :: ws) L sc).rc = -1 ∧
    (run P (.err :: ws) L sc).loop = L := by
  simp [run, hg]

/-- A cleared `go_ahead` ends the loop before the next `epoll_wait`, with 0. -/
theorem go_ahead_cleared_returns_zero (P : Params) (ws : List Wait) (L : Loop) (sc : List Answer)
    (hg : L.goAhead = false) : (run P ws L sc).trace = [.runRet 0] ∧ (run P ws L sc).rc = 0 := by
  cases ws <;> simp [run, hg]

example : ({ goAhead := false } : Loop).goAhead = false := rfl

/-! ### the harvested array does not outlive its batch -/

/-- `handle_events` withdraws the array (`pending_events = NULL`, `num_pending_events = 0`) on every
    path, also when the dispatch was aborted; so does `eventloop_epoll_run` as a whole. -/
theorem pending_cleared_between_batches (P : Params) :
    (∀ b L sc, (handleBatch P b L sc).loop.pending = []) ∧
    (∀ ws L sc, L.pending = [] → (run P ws L sc).loop.pending = []) := by
  refine ⟨fun b L sc => rfl, fun ws L sc h => ?_⟩
  have h' : L.done = [] ∧ L.todo = [] := by simpa [Loop.pending] using h
  have := run_pending P ws L sc h'.1 h'.2
  simp [Loop.pending, this.1, this.2]

example : ({ reg := [3] } : Loop).pending = [] := rfl

/-- A remove outside a dispatch (array withdrawn) touches the interest list and `current_ev` only. -/
theorem remove_outside_dispatch_touches_no_array (P : Params) (x : Nat) (L : Loop) (h : L.pending = []) :
    removeEv P x L =
      { L with reg := L.reg.filter (· != x), current := if L.current = some x then none else L.current } := by
  have h' : L.done = [] ∧ L.todo = [] := by simpa [Loop.pending] using h
  unfold removeEv
  rw [h'.1, h'.2]
  cases P.nulling <;> simp [nullify]

/-! ### add -/

/-- `eventloop_epoll_add` reports failure exactly when `epoll_ctl` refuses, and then changes nothing. -/
theorem add_failure_changes_nothing (x : Nat) (ok : Bool) (L : Loop) :
    ((addEv x ok L).2 = false → (addEv x ok L).1 = L) ∧
    ((addEv x ok L).2 = true → (addEv x ok L).1 = { L with reg := L.reg ++ [x] } ∧ ok = true ∧ x ∉ L.reg) := by
  unfold addEv
  split
  · rename_i h
    simp only [Bool.and_eq_true, Bool.not_eq_true', List.contains_eq_mem, decide_eq_false_iff_not] at h
    simp [h.1, h.2]
  · simp

end Cjet.Props.Evloop
