import Cjet.Props.CjsonTree
/-!
Audit entry for the stand-alone check `./check cjsontree_dev` (vlib/props/cjsontree_dev.py): every theorem of
`Cjet.Props.CjsonTree`, restated, so that the audit of this module lists and `#print axioms`-checks them.
-/
namespace Cjet.Props.CJSONTREE_DEV

theorem duplicate_is_faithful_copy : type_of% @Cjet.Props.CjsonTree.duplicate_is_faithful_copy := @Cjet.Props.CjsonTree.duplicate_is_faithful_copy
theorem duplicate_exact_without_references : type_of% @Cjet.Props.CjsonTree.duplicate_exact_without_references := @Cjet.Props.CjsonTree.duplicate_exact_without_references
theorem duplicate_failure_leaks_nothing : type_of% @Cjet.Props.CjsonTree.duplicate_failure_leaks_nothing := @Cjet.Props.CjsonTree.duplicate_failure_leaks_nothing
theorem duplicate_stops_at_first_failure : type_of% @Cjet.Props.CjsonTree.duplicate_stops_at_first_failure := @Cjet.Props.CjsonTree.duplicate_stops_at_first_failure
theorem duplicate_succeeds_when_allocations_do : type_of% @Cjet.Props.CjsonTree.duplicate_succeeds_when_allocations_do := @Cjet.Props.CjsonTree.duplicate_succeeds_when_allocations_do
theorem duplicate_children_ledger : type_of% @Cjet.Props.CjsonTree.duplicate_children_ledger := @Cjet.Props.CjsonTree.duplicate_children_ledger
theorem norm_idempotent : type_of% @Cjet.Props.CjsonTree.norm_idempotent := @Cjet.Props.CjsonTree.norm_idempotent
theorem get_object_item_first_hit : type_of% @Cjet.Props.CjsonTree.get_object_item_first_hit := @Cjet.Props.CjsonTree.get_object_item_first_hit
theorem get_object_item_ci_none_iff : type_of% @Cjet.Props.CjsonTree.get_object_item_ci_none_iff := @Cjet.Props.CjsonTree.get_object_item_ci_none_iff
theorem get_object_item_cs_stops_at_nameless : type_of% @Cjet.Props.CjsonTree.get_object_item_cs_stops_at_nameless := @Cjet.Props.CjsonTree.get_object_item_cs_stops_at_nameless
theorem ciEq_refl : type_of% @Cjet.Props.CjsonTree.ciEq_refl := @Cjet.Props.CjsonTree.ciEq_refl
theorem ciEq_symm : type_of% @Cjet.Props.CjsonTree.ciEq_symm := @Cjet.Props.CjsonTree.ciEq_symm
theorem get_array_item_in_range : type_of% @Cjet.Props.CjsonTree.get_array_item_in_range := @Cjet.Props.CjsonTree.get_array_item_in_range
theorem add_member_failure_changes_nothing : type_of% @Cjet.Props.CjsonTree.add_member_failure_changes_nothing := @Cjet.Props.CjsonTree.add_member_failure_changes_nothing
theorem add_member_attaches_last : type_of% @Cjet.Props.CjsonTree.add_member_attaches_last := @Cjet.Props.CjsonTree.add_member_attaches_last
theorem add_member_conserves_blocks : type_of% @Cjet.Props.CjsonTree.add_member_conserves_blocks := @Cjet.Props.CjsonTree.add_member_conserves_blocks
theorem add_member_then_lookup : type_of% @Cjet.Props.CjsonTree.add_member_then_lookup := @Cjet.Props.CjsonTree.add_member_then_lookup

theorem replace_checked_failure_changes_nothing : type_of% @Cjet.Props.CjsonTree.replace_checked_failure_changes_nothing := @Cjet.Props.CjsonTree.replace_checked_failure_changes_nothing
theorem replace_unchecked_failure_strips_the_name : type_of% @Cjet.Props.CjsonTree.replace_unchecked_failure_strips_the_name := @Cjet.Props.CjsonTree.replace_unchecked_failure_strips_the_name
theorem replace_unchecked_failure_loses_the_member : type_of% @Cjet.Props.CjsonTree.replace_unchecked_failure_loses_the_member := @Cjet.Props.CjsonTree.replace_unchecked_failure_loses_the_member
theorem replace_success_in_place : type_of% @Cjet.Props.CjsonTree.replace_success_in_place := @Cjet.Props.CjsonTree.replace_success_in_place
theorem create_string_ledger : type_of% @Cjet.Props.CjsonTree.create_string_ledger := @Cjet.Props.CjsonTree.create_string_ledger

end Cjet.Props.CJSONTREE_DEV
