/-
  Cjet.Unwind.Ladders — the acquisition ladders of the daemon, transcribed from the C sources.
  `docs/C15-proofs.md` lists, per ladder and per step, the C lines transcribed.

  Conventions: a resource name stands for one object of one invocation (`elem` = the
  `struct element` this `add` allocates).  Names that are never acquired (`index`, `peerList`,
  `subs`, `rtable`, …) are the long-lived containers links start from.  Validation failures that
  use the same unwinding as an allocation failure are kept as steps (`validate …`): they are error
  paths too.
-/
import Cjet.Unwind

namespace Cjet.Unwind

open Act

/-! ## (a) `add`: add_element_to_peer + init_element (element.c) -/

inductive RA where
  | elem | ftable | path | value        -- struct element, fetcher table, path copy, value copy
  | subs | index | peerList             -- subscribers that were told "add"; element table; p->element_list
  deriving DecidableEq, Repr

inductive LA where
  | fill_access_failed | value_copy_failed | alloc_path_failed | caller
  deriving DecidableEq, Repr

/-- `free_element(e)` (element.c:225-234) -/
def freeElement (hasValue : Bool) : List (Act RA) :=
  (if hasValue then [release .value] else []) ++ [release .path, release .ftable, release .elem]

/-- `hasValue`: the request carries a `value` (a state); otherwise a method is added -/
def ladderAdd (hasValue : Bool) : Ladder RA LA where
  steps := [
    { name := "alloc_element: cjet_calloc(struct element)", ok := [acquire .elem],
      failPre := [respond] },
    { name := "init_element: params / path / fetchOnly / timeout / exists checks", ok := [],
      failPre := [respond], failTo := some .caller },
    { name := "init_element: cjet_calloc(fetcher_table)", ok := [acquire .ftable],
      failPre := [respond], failTo := some .caller },
    { name := "init_element: duplicate_string(path)", ok := [acquire .path],
      failPre := [respond], failTo := some .alloc_path_failed },
    { name := "init_element: cJSON_Duplicate(value)", ok := if hasValue then [acquire .value] else [],
      canFail := hasValue, failPre := [respond], failTo := some .value_copy_failed },
    { name := "init_element: fill_access", ok := [],
      failPre := [respond], failTo := some .fill_access_failed },
    { name := "find_fetchers_for_element (table growth / notification allocations)", ok := [link .subs .elem],
      half := [link .subs .elem],
      failPre := [unlink .subs .elem] ++ freeElement hasValue ++ [respond] },
    { name := "element_table_put", ok := [link .index .elem],
      failPre := [unlink .subs .elem] ++ freeElement hasValue ++ [respond] },
    { name := "list_add_tail(element_list)", ok := [link .peerList .elem], canFail := false } ]
  chain := [
    (.fill_access_failed, if hasValue then [release .value] else []),
    (.value_copy_failed, [release .path]),
    (.alloc_path_failed, [release .ftable]),
    (.caller, [release .elem]) ]          -- add_element_to_peer: `cjet_free(e); return response;`
  done := [respond]
  intended := (if hasValue then [.value] else []) ++ [.path, .ftable, .elem]
  intendedLinks := [(.peerList, .elem), (.index, .elem), (.subs, .elem)]

/-! ## (c) `set` / `call`: set_or_call (element.c) + alloc_routing_request, create_routed_message,
       setup_routing_information, remove_routing_information (router.c) -/

inductive RC where
  | req | idcopy | msg | timer | rendered     -- routing_request, origin id copy, routed message, timerfd, rendered text
  | rtable | timerCb                          -- owner's routing table; the armed timer's callback context
  deriving DecidableEq, Repr

inductive LC where
  | delete_json | no_value_found
  deriving DecidableEq, Repr

/-- `remove_routing_information(routing_request)` (router.c:236-246) -/
def removeRoutingInformation (hasId : Bool) : List (Act RC) :=
  [unlink .rtable .req, unlink .timerCb .req, release .timer] ++
  (if hasId then [release .idcopy] else []) ++ [release .req]

/-- `hasId`: the request carries an id (a copy is kept for the answer) -/
def ladderRoute (hasId : Bool) : Ladder RC LC where
  steps := [
    { name := "set_or_call: params / path / element / fetchOnly / kind / access / id-type checks", ok := [],
      failPre := [respond] },
    { name := "alloc_routing_request: cjet_malloc(routing_request + id)", ok := [acquire .req],
      failPre := [respond] },
    { name := "alloc_routing_request: cJSON_Duplicate(origin_request_id)",
      ok := if hasId then [acquire .idcopy] else [], canFail := hasId,
      failPre := [release .req, respond] },              -- duplicate_id_failed: cjet_free(request); caller answers
    { name := "set_or_call: value of a set present", ok := [],
      failPre := [respond], failTo := some .no_value_found },
    { name := "create_routed_message (all-or-nothing: its own `error:` deletes the partial message)",
      ok := [acquire .msg], failPre := [respond], failTo := some .no_value_found },
    { name := "setup_routing_information: get_timeout_in_nsec", ok := [],
      failPre := [respond], failTo := some .delete_json },
    { name := "setup_routing_information: cjet_timer_init", ok := [acquire .timer],
      failPre := [respond], failTo := some .delete_json },
    { name := "setup_routing_information: HASHTABLE_PUT(route_table)", ok := [link .rtable .req],
      failPre := [release .timer, respond], failTo := some .delete_json },
    { name := "setup_routing_information: timer.start", ok := [link .timerCb .req],
      failPre := [unlink .rtable .req, release .timer, respond], failTo := some .delete_json },
    { name := "cJSON_PrintUnformatted(routed_message)", ok := [acquire .rendered],
      failPre := [respond] ++ removeRoutingInformation hasId ++ [release .msg] },
    { name := "owner->send_message", ok := [],
      failPre := [respond] ++ removeRoutingInformation hasId ++ [release .rendered, release .msg] } ]
  chain := [
    (.delete_json, [release .msg]),
    (.no_value_found, (if hasId then [release .idcopy] else []) ++ [release .req]) ]
  done := [release .rendered, release .msg]             -- no response now: the owner's reply is relayed later
  intended := [.timer] ++ (if hasId then [.idcopy] else []) ++ [.req]
  intendedLinks := [(.timerCb, .req), (.rtable, .req)]

/-! ## (b) `fetch`: add_fetch_to_peer, create_fetch, alloc_fetch, add_matchers, create_matcher,
       fill_path_elements, add_fetch_to_states (fetch.c) -/

inductive RB where
  | fetch | fid                        -- struct fetch, fetch id copy
  | pm (k : Nat) | pe (k j : Nat)      -- path matcher k, its j-th path element string
  | fetchList | elemTables             -- p->fetch_list; the fetcher tables of the matching elements
  deriving DecidableEq, Repr

inductive LB where
  | none
  deriving DecidableEq, Repr

/-- `free_path_elements(pm)` + `cjet_free(pm)` for matcher `k` with `m` path elements -/
def freeMatcher (k m : Nat) : List (Act RB) :=
  (List.range m).map (fun j => release (.pe k j)) ++ [release (.pm k)]

/-- `free_matcher(f)` for the matchers `0 … k-1`; `shape j` = number of path elements of matcher `j` -/
def freeMatchers (shape : List Nat) (k : Nat) : List (Act RB) :=
  ((shape.take k).zipIdx.flatMap (fun (m, j) => freeMatcher j m))

/-- the steps of `create_matcher` for matcher `k` with `m` path elements -/
def matcherSteps (shape : List Nat) (k m : Nat) : List (Step RB LB) :=
  -- whatever fails here: create_matcher returns -1, add_matchers `goto error` (free_matcher), create_fetch
  -- answers, deletes the id copy and frees the fetch
  let tail : List (Act RB) := freeMatchers shape k ++ [respond, release .fid, release .fetch]
  { name := s!"create_matcher {k}: name / type checks", ok := [], failPre := tail } ::
  { name := s!"create_path_matcher {k}", ok := [acquire (.pm k)], failPre := tail } ::
  (List.range m).map (fun j =>
    { name := s!"fill_path_elements {k}: duplicate_string {j}", ok := [acquire (.pe k j)],
      -- `error: free_path_elements(pm)` (or nothing to free for a single element), then `cjet_free(pm)`
      failPre := (List.range j).map (fun i => release (.pe k i)) ++ [release (.pm k)] ++ tail })

/-- `shape`: one entry per matcher of the path object = its number of path elements
    (1 for equals/contains/…, the array length for containsAllOf); `[]` = fetch-all (no path) -/
def ladderFetch (shape : List Nat) : Ladder RB LB where
  steps :=
    [ { name := "add_fetch_to_peer / create_fetch: params, match, id, id in use, path, matcher count checks",
        ok := [], failPre := [respond] },
      { name := "alloc_fetch: cjet_calloc(struct fetch)", ok := [acquire .fetch], failPre := [respond] },
      { name := "alloc_fetch: cJSON_Duplicate(id)", ok := [acquire .fid],
        failPre := [respond, release .fetch] } ] ++
    (shape.zipIdx.flatMap (fun (m, k) => matcherSteps shape k m)) ++
    [ { name := "add_matchers: every matcher slot filled", ok := [],
        canFail := !shape.isEmpty,
        failPre := freeMatchers shape shape.length ++ [respond, release .fid, release .fetch] },
      { name := "list_add_tail(fetch_list)", ok := [link .fetchList .fetch], canFail := false },
      { name := "add_fetch_to_states (table growth / notification allocations)",
        ok := [link .elemTables .fetch], half := [link .elemTables .fetch],
        failPre := [unlink .elemTables .fetch, unlink .fetchList .fetch] ++
          freeMatchers shape shape.length ++ [release .fid, release .fetch, respond] } ]
  done := [respond]
  intended :=
    (shape.zipIdx.flatMap (fun (m, k) => RB.pm k :: (List.range m).map (fun j => RB.pe k j))).reverse ++
      [.fid, .fetch]
  intendedLinks := [(.elemTables, .fetch), (.fetchList, .fetch)]

/-- all matcher shapes with at most `len` matchers of 1 … `maxm` operands each -/
def shapes : Nat → Nat → List (List Nat)
  | 0, _ => [[]]
  | len + 1, maxm =>
    shapes len maxm ++ (shapes len maxm).flatMap (fun s =>
      if s.length = len then (List.range maxm).map (fun m => (m + 1) :: s) else [])

/-! ## (d) add_fetch_to_state: growth of an element's fetcher table (fetch.c) -/

inductive RD where
  | oldTable | newTable | element
  deriving DecidableEq, Repr

inductive LD where
  | none
  deriving DecidableEq, Repr

def ladderGrow : Ladder RD LD where
  pre := [.oldTable]
  preLinks := [(.element, .oldTable)]
  steps := [
    { name := "cjet_calloc(new_size)", ok := [acquire .newTable] },           -- failure: `return -1`, nothing touched
    { name := "memcpy; cjet_free(old); e->fetcher_table = new", canFail := false,
      ok := [unlink .element .oldTable, release .oldTable, link .element .newTable] } ]
  intended := [.newTable]
  intendedLinks := [(.element, .newTable)]

/-! ## (e) connection set-up (linux_io.c, socket_peer.c, peer.c, http_connection.c, websocket_peer.c) -/

inductive RE where
  | fd | peer | bs | rtable | conn | wspeer
  | peerList | epoll | connList | parserData
  deriving DecidableEq, Repr

inductive LE where
  | init_failed | alloc_bs_failed | alloc_failed | alloc_peer_failed
  deriving DecidableEq, Repr

/-- handle_new_jet_connection + init_socket_peer + init_peer -/
def ladderJetConn : Ladder RE LE where
  steps := [
    { name := "accept_common: accept()", ok := [acquire .fd], canFail := false },
    { name := "prepare_peer_socket", ok := [], failPre := [release .fd] },
    { name := "alloc_jet_peer: cjet_malloc", ok := [acquire .peer], failTo := some .alloc_peer_failed },
    { name := "buffered_socket_acquire: cjet_malloc", ok := [acquire .bs], failTo := some .alloc_bs_failed },
    { name := "init_socket_peer: init_peer: add_routing_table", ok := [acquire .rtable],
      failPre := [release .bs], failTo := some .alloc_bs_failed },
    { name := "init_peer: list_add_tail(peer_list)", ok := [link .peerList .peer], canFail := false },
    { name := "read_exactly: register with the event loop", ok := [link .epoll .bs], canFail := false } ]
  chain := [
    (.alloc_bs_failed, [release .peer]),
    (.alloc_peer_failed, [release .fd]) ]
  intended := [.rtable, .bs, .peer, .fd]
  intendedLinks := [(.epoll, .bs), (.peerList, .peer)]

/-- handle_http + init_http_connection2 -/
def ladderHttpConn : Ladder RE LE where
  steps := [
    { name := "accept_common: accept()", ok := [acquire .fd], canFail := false },
    { name := "prepare_peer_socket", ok := [], failPre := [release .fd] },
    { name := "alloc_http_connection: cjet_malloc", ok := [acquire .conn], failTo := some .alloc_failed },
    { name := "buffered_socket_acquire: cjet_malloc", ok := [acquire .bs], failTo := some .alloc_bs_failed },
    { name := "init_http_connection2: list_add_tail(connection_list)", ok := [link .connList .conn],
      canFail := false },
    { name := "init_http_connection2: read_until: register with the event loop", ok := [link .epoll .bs],
      failPre := [unlink .connList .conn], failTo := some .init_failed } ]
  chain := [
    (.init_failed, [release .bs]),
    (.alloc_bs_failed, [release .conn]),
    (.alloc_failed, [release .fd]) ]
  intended := [.bs, .conn, .fd]
  intendedLinks := [(.epoll, .bs), (.connList, .conn)]

/-- `free_connection(connection)` (http_connection.c:103-112) of a connection whose parser data may
    point into a websocket peer -/
def freeConnection (withParserData : Bool) : List (Act RE) :=
  [unlink .epoll .bs, release .fd, release .bs, unlink .connList .conn] ++
  (if withParserData then [unlink .parserData .wspeer] else []) ++ [release .conn]

/-- read_start_line → handler->create = alloc_websocket_peer + init_websocket_peer + init_peer;
    on failure read_start_line answers 500 and frees the connection -/
def ladderWsPeer : Ladder RE LE where
  steps := [
    { name := "(entry) the HTTP connection exists", canFail := false,
      ok := [acquire .fd, acquire .conn, acquire .bs, link .connList .conn, link .epoll .bs] },
    { name := "alloc_websocket_peer: cjet_calloc", ok := [acquire .wspeer],
      failPre := [respond] ++ freeConnection false },
    { name := "connection->parser.data = &ws_peer->websocket", ok := [link .parserData .wspeer],
      canFail := false },
    { name := "init_websocket_peer: init_peer: add_routing_table", ok := [acquire .rtable],
      failPre := [release .wspeer, respond] ++ freeConnection true },
    { name := "init_peer: list_add_tail(peer_list)", ok := [link .peerList .wspeer], canFail := false },
    { name := "init_websocket_peer: websocket_init (fails only without an error routine)", ok := [],
      -- free_peer_resources(&ws_peer->peer); return -1; then as above
      failPre := [unlink .peerList .wspeer, release .rtable, release .wspeer, respond] ++ freeConnection true } ]
  intended := [.rtable, .wspeer, .bs, .conn, .fd]
  intendedLinks := [(.peerList, .wspeer), (.parserData, .wspeer), (.epoll, .bs), (.connList, .conn)]

end Cjet.Unwind
