import Cjet.Basic
import Cjet.Generated.Consts
/-!
# Cjet.Bufwrite — the write side of `src/buffered_socket.c` (property C10)

Transcription of `buffered_socket_writev`, `copy_iovec_to_write_buffer`, `copy_single_buffer`,
`send_buffer` and `write_function` as committed in /repo (with the F19 repair: the
`write_failed` flag and the size check before anything of a frame is queued), and of the
gather step of `posix/socket.c` (`socket_writev_with_prefix`: pending buffer first, then the
iovec elements).  The code before the repair is kept in `Cjet.Bufwrite.Legacy` (only to state
the counterexample that motivated the repair).

Nothing here looks at byte *values*, so the model is generic in the element type `α`
(the driver uses `UInt8`), and generic in the buffer capacity `cap`
(`CONFIG_MAX_WRITE_BUFFER_SIZE`; `Cjet.Generated.cfgMaxWriteBufferSize` for the repository).

The kernel is an input: every kernel `writev` call that requests `m > 0` bytes consumes one
answer of the script (`KW`); when the script is exhausted the kernel answers "would block".
A request of 0 bytes returns 0 and consumes nothing (that is what `writev(2)` does and what
`socket_writev_with_prefix` short-cuts for `len == 0 && count == 0`).
-/

namespace Cjet.Bufwrite

/-- Answer of the kernel to one `writev` request of `m > 0` bytes. -/
inductive KW where
  /-- every requested byte accepted -/
  | all
  /-- `min k m` bytes accepted (the contract of `writev(2)` has `1 ≤ k`; see `KW.ok`) -/
  | part (k : Nat)
  /-- `-1`, `EAGAIN`/`EWOULDBLOCK` -/
  | block
  /-- `-1`, any other `errno` (`EPIPE`, `ECONNRESET`, … and also `EINTR`, which the code does not retry) -/
  | err
  deriving DecidableEq, Repr, Inhabited

/-- What a `writev` call for `m` bytes returns. -/
inductive KRes where
  | took (n : Nat)
  | again
  | fail
  deriving DecidableEq, Repr

def KW.res (m : Nat) : KW → KRes
  | .all => .took m
  | .part k => .took (min k m)
  | .block => .again
  | .err => .fail

/-- The answer to the next kernel call: the head of the script, "would block" once it is used up. -/
def nextAnswer : List KW → KW × List KW
  | [] => (.block, [])
  | k :: ks => (k, ks)

/-- Kernel contract used by the termination theorem only: a successful write of `m > 0`
    requested bytes returns at least 1. -/
def KW.ok : KW → Bool
  | .part k => decide (1 ≤ k)
  | _ => true

/-- State of the write side of one `struct buffered_socket`:
    `pending = write_buffer[0 .. to_write)`, `failed = write_failed`. -/
structure Writer (α : Type) where
  pending : List α := []
  failed : Bool := false
  deriving Repr

instance {α : Type} [DecidableEq α] : DecidableEq (Writer α) := fun a b => by
  cases a; cases b; simp only [Writer.mk.injEq]; exact inferInstance

/-- Result of one operation. `out` = bytes the kernel accepted during the operation, `rest` =
    unused kernel answers, `calls` = kernel calls made (each consumed one answer, or the
    implicit "would block" after the script ended). -/
structure Res (α : Type) where
  w : Writer α
  rc : Int
  out : List α
  rest : List KW
  calls : Nat
  deriving Repr

/-- The loop of `send_buffer`: `orig` is `write_buffer[0 .. to_write)` at entry, the second list
    is what is still unsent (`write_buffer_ptr .. +to_write`).
    * nothing left: `to_write == 0`, return 0;
    * would block: `memmove` of the unsent rest to the buffer start, return 0;
    * hard error: **no** `memmove` — `to_write` was already decremented, so the buffer start
      still holds bytes that were sent (`orig.take rem.length`); `write_failed` is set, return -1. -/
def sendLoop {α : Type} (orig : List α) : List KW → List α → Res α
  | ks, [] => ⟨⟨[], false⟩, 0, [], ks, 0⟩
  | [], a :: rem => ⟨⟨a :: rem, false⟩, 0, [], [], 1⟩
  | k :: ks, a :: rem =>
    match k.res (a :: rem).length with
    | .took n =>
      let r := sendLoop orig ks ((a :: rem).drop n)
      { r with out := (a :: rem).take n ++ r.out, calls := r.calls + 1 }
    | .again => ⟨⟨a :: rem, false⟩, 0, [], ks, 1⟩
    | .fail => ⟨⟨orig.take (a :: rem).length, true⟩, -1, [], ks, 1⟩

/-- `send_buffer`. -/
def sendBuffer {α : Type} (w : Writer α) (ks : List KW) : Res α :=
  if w.failed then ⟨w, -1, [], ks, 0⟩ else sendLoop w.pending ks w.pending

/-- `write_function`: the event loop reports the socket writable.  Returns the result of
    `send_buffer` and whether the error callback `bs->error` was called. -/
def writable {α : Type} (w : Writer α) (ks : List KW) : Res α × Bool :=
  let r := sendBuffer w ks
  (r, decide (r.rc < 0))

/-- `copy_iovec_to_write_buffer` with `copy_single_buffer` inlined: `buf` is
    `write_buffer[0 .. to_write)`, `ivw` is `iovec_written`.  Element by element; an element
    (or its unsent tail) that is larger than the free space stops the copy with `false`,
    leaving what was copied before in the buffer. -/
def copyIovec {α : Type} (cap : Nat) (buf : List α) : List (List α) → Nat → List α × Bool
  | [], _ => (buf, true)
  | c :: cs, ivw =>
    if ivw < c.length then
      let piece := c.drop ivw
      if piece.length > cap - buf.length then (buf, false)
      else copyIovec cap (buf ++ piece) cs 0
    else copyIovec cap buf cs (ivw - c.length)

/-- Total number of bytes of a frame given as iovec. -/
def frameLen {α : Type} (frame : List (List α)) : Nat := frame.flatten.length

/-- `buffered_socket_writev` (repaired code). -/
def writev {α : Type} (cap : Nat) (w : Writer α) (frame : List (List α)) (ks : List KW) : Res α :=
  if w.failed then ⟨w, -1, [], ks, 0⟩ else
  let data := w.pending ++ frame.flatten          -- what socket_writev_with_prefix gathers
  let total := data.length                       -- `to_write` (local)
  if total = 0 then ⟨⟨[], false⟩, 0, [], ks, 0⟩ else
  -- one kernel call
  let k := (nextAnswer ks).1
  let ks' := (nextAnswer ks).2
  match k.res total with
  | .fail => ⟨w, -1, [], ks', 1⟩
  | .took n =>
    if n = total then ⟨⟨[], false⟩, 0, data, ks', 1⟩ else
    -- partial write: `written = n`
    let pend' := w.pending.drop n                 -- both branches of `written <= bs->to_write`
    let ivw := n - w.pending.length
    if total - n > cap then
      ⟨⟨pend', decide (ivw > 0)⟩, -1, data.take n, ks', 1⟩
    else
      match copyIovec cap pend' frame ivw with
      | (buf, false) => ⟨⟨buf, false⟩, -1, data.take n, ks', 1⟩
      | (buf, true) =>
        let r := sendBuffer ⟨buf, false⟩ ks'
        { r with out := data.take n ++ r.out, calls := r.calls + 1 }
  | .again =>
    if total > cap then ⟨w, -1, [], ks', 1⟩
    else
      match copyIovec cap w.pending frame 0 with
      | (buf, false) => ⟨⟨buf, false⟩, -1, [], ks', 1⟩
      | (buf, true) => ⟨⟨buf, false⟩, 0, [], ks', 1⟩

/-! ## Scripts: sequences of frames × kernel answers × writability events -/

inductive Op (α : Type) where
  | writev (frame : List (List α)) (ks : List KW)
  | writable (ks : List KW)
  deriving Repr

/-- Ghost record of a whole history on one connection. -/
structure Run (α : Type) where
  w : Writer α := {}
  /-- every byte the kernel accepted so far, in order -/
  accepted : List α := []
  /-- the frames whose `writev` returned 0, in generation order -/
  completed : List (List (List α)) := []
  /-- the frame during whose `writev` the connection was marked failed (if any) -/
  torn : List (List α) := []
  /-- how often the error callback was called -/
  errs : Nat := 0
  /-- kernel calls so far -/
  calls : Nat := 0
  deriving Repr

def step {α : Type} (cap : Nat) (r : Run α) : Op α → Run α
  | .writev f ks =>
    let x := writev cap r.w f ks
    { w := x.w
      accepted := r.accepted ++ x.out
      completed := if x.rc = 0 then r.completed ++ [f] else r.completed
      torn := if !r.w.failed && x.w.failed then f else r.torn
      errs := r.errs
      calls := r.calls + x.calls }
  | .writable ks =>
    let (x, e) := writable r.w ks
    { w := x.w
      accepted := r.accepted ++ x.out
      completed := r.completed
      torn := r.torn
      errs := r.errs + (if e then 1 else 0)
      calls := r.calls + x.calls }

def run {α : Type} (cap : Nat) (ops : List (Op α)) : Run α := ops.foldl (step cap) {}

/-- The frames offered by a script, in generation order. -/
def offered : List (Op α) → List (List (List α))
  | [] => []
  | .writev f _ :: ops => f :: offered ops
  | .writable _ :: ops => offered ops

/-- Concatenation of frames in order. -/
def streamOf {α : Type} (frames : List (List (List α))) : List α := (frames.map List.flatten).flatten

/-! ## The code before the F19 repair (for the record and for the counterexample) -/

namespace Legacy

/-- `send_buffer` before the repair: no flag. -/
def sendLoop {α : Type} (orig : List α) : List KW → List α → Res α
  | ks, [] => ⟨⟨[], false⟩, 0, [], ks, 0⟩
  | [], a :: rem => ⟨⟨a :: rem, false⟩, 0, [], [], 1⟩
  | k :: ks, a :: rem =>
    match k.res (a :: rem).length with
    | .took n =>
      let r := sendLoop orig ks ((a :: rem).drop n)
      { r with out := (a :: rem).take n ++ r.out, calls := r.calls + 1 }
    | .again => ⟨⟨a :: rem, false⟩, 0, [], ks, 1⟩
    | .fail => ⟨⟨orig.take (a :: rem).length, false⟩, -1, [], ks, 1⟩

/-- `buffered_socket_writev` before the repair: the remainder is copied element by element and
    the first element that does not fit aborts with -1, keeping the elements copied before. -/
def writev {α : Type} (cap : Nat) (w : Writer α) (frame : List (List α)) (ks : List KW) : Res α :=
  let data := w.pending ++ frame.flatten
  let total := data.length
  if total = 0 then ⟨⟨[], false⟩, 0, [], ks, 0⟩ else
  let k := (nextAnswer ks).1
  let ks' := (nextAnswer ks).2
  match k.res total with
  | .fail => ⟨w, -1, [], ks', 1⟩
  | .took n =>
    if n = total then ⟨⟨[], false⟩, 0, data, ks', 1⟩ else
    match copyIovec cap (w.pending.drop n) frame (n - w.pending.length) with
    | (buf, false) => ⟨⟨buf, false⟩, -1, data.take n, ks', 1⟩
    | (buf, true) =>
      let r := sendLoop buf ks' buf
      { r with out := data.take n ++ r.out, calls := r.calls + 1 }
  | .again =>
    match copyIovec cap w.pending frame 0 with
    | (buf, false) => ⟨⟨buf, false⟩, -1, [], ks', 1⟩
    | (buf, true) => ⟨⟨buf, false⟩, 0, [], ks', 1⟩

end Legacy

end Cjet.Bufwrite
