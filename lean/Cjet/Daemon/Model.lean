/-
  Cjet.Daemon.Model — the executable daemon model: one `step` per operation.
  Function names follow the C functions they transcribe.
-/
import Cjet.Daemon.Types

namespace Cjet.Daemon

open Cjet Cjet.Json

/-! ## small helpers -/

def k (s : String) : Bytes := Json.key s

def findPeer (ps : List Peer) (c : Nat) : Option Peer := ps.find? (·.conn == c)

def updatePeer (ps : List Peer) (c : Nat) (f : Peer → Peer) : List Peer :=
  ps.map (fun p => if p.conn == c then f p else p)

def mapElements (ps : List Peer) (f : Element → Element) : List Peer :=
  ps.map (fun p => { p with elements := p.elements.map f })

def lookupIndex (idx : List (Bytes × Nat)) (path : Bytes) : Option Nat :=
  (idx.find? (·.1 == path)).map (·.2)

/-- element_table_get: the element object reached through the path index -/
def findElement (s : State) (path : Bytes) : Option Element :=
  match lookupIndex s.index path with
  | none => none
  | some o =>
    match findPeer s.peers o with
    | none => none
    | some p => p.elements.find? (·.path == path)

/-! ## groups.c -/

def groupBit (all : List Bytes) (g : Bytes) : Nat :=
  (all.zipIdx.filter (fun (n, _) => n == g)).foldl (fun acc (_, j) => acc ||| (1 <<< j)) 0

/-- get_groups: OR of the bits of every known group named by a string member of the array -/
def getGroups (cfg : Config) (j : Option Json) : Nat :=
  if !cfg.authLoaded then 0 else
  match j with
  | some (.arr l) => l.foldl (fun acc g => match g with
      | .str s => acc ||| groupBit cfg.allGroups s
      | _ => acc) 0
  | _ => 0

/-- has_access(has, wants) -/
def hasAccess (cfg : Config) (has wants : Nat) : Bool :=
  if !cfg.authLoaded then true else (has &&& wants) != 0

/-! ## response.c -/

def errorMessage (code : Int) : String :=
  if code == INVALID_REQUEST then "Invalid Request"
  else if code == METHOD_NOT_FOUND then "Method not found"
  else if code == INVALID_PARAMS then "Invalid params"
  else if code == INTERNAL_ERROR then "Internal error"
  else "Unknown error"

/-- create_common_response: only string and number ids can be answered -/
def commonResponse (id : Json) : Option (List (Bytes × Json)) :=
  match id with
  | .str s => some [(k "id", .str s)]
  | .num n => some [(k "id", .num n)]
  | _ => none

def errorObject (code : Int) (tag : String) (reason : Bytes) : Json :=
  .obj [(k "message", mkStr (errorMessage code)), (k "code", ofInt code),
        (k "data", .obj [(k tag, .str reason)])]

def errorResponse (id : Json) (code : Int) (tag : String) (reason : Bytes) : Option Json :=
  (commonResponse id).map (fun l => .obj (l ++ [(k "error", errorObject code tag reason)]))

def errorFromRequest (req : Json) (code : Int) (tag : String) (reason : Bytes) : Option Json :=
  match req.getItem (k "id") with
  | some id => errorResponse id code tag reason
  | none => none

def resultResponse (id : Json) (result : Json) (typ : String) : Option Json :=
  (commonResponse id).map (fun l => .obj (l ++ [(k typ, result)]))

def resultFromRequest (req : Json) (result : Json) : Option Json :=
  match req.getItem (k "id") with
  | some id => resultResponse id result "result"
  | none => none

def successFromRequest (req : Json) : Option Json := resultFromRequest req (.bool true)

/-! ## sending -/

/-- one `p->send_message`: consumes one oracle value (default: success) -/
def send (x : Ctx) (c : Nat) (j : Json) : Ctx × Bool :=
  match x.sends with
  | [] => ({ x with out := Obs.send c j true :: x.out }, true)
  | b :: rest => ({ x with out := Obs.send c j b :: x.out, sends := rest }, b)

def send' (x : Ctx) (c : Nat) (j : Json) : Ctx := (send x c j).1

def emit (x : Ctx) (o : Obs) : Ctx := { x with out := o :: x.out }

/-! ## fetch.c: rules -/

def matcherKind (name : Bytes) : Option MKind :=
  if name == k "equals" then some .equals
  else if name == k "contains" then some .contains
  else if name == k "startsWith" then some .startsWith
  else if name == k "endsWith" then some .endsWith
  else if name == k "equalsNot" then some .equalsNot
  else if name == k "containsAllOf" then some .containsAllOf
  else none

def strOperands : List Json → Option (List Bytes)
  | [] => some []
  | .str s :: rest => (strOperands rest).map (s :: ·)
  | _ :: _ => none

/-- create_matcher for one member of the path object -/
def createMatcher (ci : Bool) (name : Bytes) (v : Json) : Option Matcher :=
  match matcherKind name with
  | none => none
  | some .containsAllOf =>
    match v with
    | .arr l => if l.isEmpty then none else (strOperands l).map (fun ops => { kind := .containsAllOf, ci := ci, ops := ops })
    | _ => none
  | some kd =>
    match v with
    | .str s => some { kind := kd, ci := ci, ops := [s] }
    | _ => none

/-- add_matchers: every member except those named exactly "caseInsensitive" -/
def addMatchers (ci : Bool) : List (Bytes × Json) → Option (List Matcher)
  | [] => some []
  | (name, v) :: rest =>
    if name == k "caseInsensitive" then addMatchers ci rest
    else match createMatcher ci name v, addMatchers ci rest with
      | some m, some ms => some (m :: ms)
      | _, _ => none

inductive RuleResult where
  | ok (r : Rule)
  | err (code : Int) (reason : String)

/-- create_fetch: the rule of a fetch/get request (`params`), or the error it is refused with -/
def createRule (cfg : Config) (params : Json) : RuleResult :=
  match params.getItem (k "path") with
  | none => .ok []
  | some (.obj members) =>
    let n := members.length
    let ciItem := findItem (k "caseInsensitive") members
    let n := if ciItem.isSome then n - 1 else n
    let ci := match ciItem with | some (.bool true) => true | _ => false
    if n == 0 then .err INVALID_PARAMS "no matcher in path object"
    else if n > cfg.maxMatchers then .err INVALID_PARAMS "too many matchers in path object"
    else match addMatchers ci members with
      | some ms => if ms.length == n then .ok ms else .err INTERNAL_ERROR "could not add matchers to fetch"
      | none => .err INTERNAL_ERROR "could not add matchers to fetch"
  | some _ => .err INVALID_PARAMS "fetch path is not an object"

def lower (b : Bytes) : Bytes := b.map Json.asciiLower

def isInfix (needle hay : Bytes) : Bool :=
  (List.range (hay.length + 1)).any (fun i => needle.isPrefixOf (hay.drop i))

def matchOne (m : Matcher) (path : Bytes) : Bool :=
  let p := if m.ci then lower path else path
  let ops := if m.ci then m.ops.map lower else m.ops
  match m.kind with
  | .equals => ops.all (· == p)
  | .equalsNot => ops.all (· != p)
  | .contains => ops.all (isInfix · p)
  | .containsAllOf => ops.all (isInfix · p)
  | .startsWith => ops.all (·.isPrefixOf p)
  | .endsWith => ops.all (·.isSuffixOf p)

/-- state_matches -/
def ruleMatches (r : Rule) (path : Bytes) : Bool := r.all (matchOne · path)

/-! ## fetch.c: fetcher tables and notifications -/

/-- add_fetch_to_state: first free slot, else grow (to max(initial, 2·size)) and take the first new one -/
def addFetcher (cfg : Config) (tbl : List (Option FetchKey)) (f : FetchKey) : List (Option FetchKey) :=
  match tbl.findIdx? (·.isNone) with
  | some i => tbl.set i (some f)
  | none =>
    let newSize := max cfg.initFetchTable (tbl.length * 2)
    (tbl ++ [some f]) ++ List.replicate (newSize - tbl.length - 1) none

def removeFetcher (tbl : List (Option FetchKey)) (f : FetchKey) : List (Option FetchKey) :=
  tbl.map (fun s => if s == some f then none else s)

def notification (e : Element) (fid : Json) (event : String) : Json :=
  .obj [(k "method", fid),
        (k "params", .obj ((if e.fetchOnly then [(k "fetchOnly", Json.bool true)] else []) ++
          [(k "path", .str e.path), (k "event", mkStr event)] ++
          (match e.value with | some v => [(k "value", v)] | none => [])))]

def findFetch (ps : List Peer) (fk : FetchKey) : Option Fetch :=
  match findPeer ps fk.peer with
  | none => none
  | some p => p.fetches.find? (·.uid == fk.uid)

/-- notify_fetching_peer; a failed send is logged and otherwise ignored -/
def notifyOne (x : Ctx) (e : Element) (fk : FetchKey) (event : String) : Ctx :=
  match findFetch x.st.peers fk with
  | some f => send' x fk.peer (notification e f.fid event)
  | none => x

/-- notify_fetchers: every occupied slot, in slot order -/
def notifyFetchers (x : Ctx) (e : Element) (event : String) : Ctx :=
  e.fetchers.foldl (fun x s => match s with | some fk => notifyOne x e fk event | none => x) x

def idsEqual (a b : Json) : Bool :=
  match a, b with
  | .num x, .num y => x.vint == y.vint
  | .str x, .str y => x == y
  | _, _ => false

/-- add_fetch_to_state_and_notify for a fetch `f` of peer `fp` and element `e`; returns the
    (possibly extended) element -/
def offerElement (cfg : Config) (x : Ctx) (e : Element) (fp : Peer) (f : Fetch) : Ctx × Element :=
  if !hasAccess cfg e.fetchGroups fp.fetchGroups then (x, e)
  else if ruleMatches f.rule e.path then
    let e' := { e with fetchers := addFetcher cfg e.fetchers ⟨fp.conn, f.uid⟩ }
    (send' x fp.conn (notification e' f.fid "add"), e')
  else (x, e)

/-- find_fetchers_for_element: all fetches of all peers, in peer-list / fetch-list order -/
def findFetchersForElement (cfg : Config) (x : Ctx) (e : Element) : Ctx × Element :=
  x.st.peers.foldl (fun (acc : Ctx × Element) fp =>
    fp.fetches.foldl (fun (acc : Ctx × Element) f => offerElement cfg acc.1 acc.2 fp f) acc) (x, e)

/-! ## timer.c -/

inductive Timeout where
  | ns (n : Nat)
  | err (reason : String)

def secondsToNs (bits : UInt64) : Nat := ((Float.ofBits bits) * 1000000000.0).toUInt64.toNat

/-- get_timeout_in_nsec -/
def getTimeout (cfg : Config) (t : Option Json) (dflt : Nat) : Timeout :=
  match t with
  | none => .ns dflt
  | some (.num n) =>
    if Float.ofBits n.bits < Float.ofBits cfg.minTimeoutBits then .err "timeout value is too small"
    else .ns (secondsToNs n.bits)
  | some _ => .err "timeout is not a number"

/-! ## element.c -/

/-- get_params / get_path_from_params, shared prefix of most handlers -/
inductive PathResult where
  | ok (params : Json) (path : Bytes)
  | err (resp : Option Json)

def getParamsAndPath (req : Json) : PathResult :=
  match req.getItem (k "params") with
  | none => .err (errorFromRequest req INVALID_PARAMS "reason" (k "no params found"))
  | some params =>
    match params.getItem (k "path") with
    | none => .err (errorFromRequest req INVALID_PARAMS "reason" (k "no path given"))
    | some (.str path) => .ok params path
    | some _ => .err (errorFromRequest req INVALID_PARAMS "reason" (k "path is not a string"))

def removeIndex (idx : List (Bytes × Nat)) (path : Bytes) : List (Bytes × Nat) :=
  idx.filter (·.1 != path)

/-- the three FILL_GROUP functions + fill_access -/
def fillAccess (cfg : Config) (isState : Bool) (access : Option Json) : Except String (Nat × Nat × Nat) :=
  match access with
  | none => .ok (0, 0, 0)
  | some a =>
    let grp (key : String) (label : String) : Except String Nat :=
      match a.getItem (k key) with
      | some (.arr l) => .ok (getGroups cfg (some (.arr l)))
      | some _ => .error (label ++ " is not an array")
      | none => .ok 0
    match grp "fetchGroups" "fetch_groups" with
    | .error e => .error e
    | .ok fg =>
      if isState then
        match grp "setGroups" "set_groups" with
        | .error e => .error e
        | .ok sg => .ok (fg, sg, 0)
      else
        match grp "callGroups" "call_groups" with
        | .error e => .error e
        | .ok cg => .ok (fg, 0, cg)

/-- add_element_to_peer -/
def addElement (cfg : Config) (x : Ctx) (p : Peer) (req : Json) : Ctx × Option Json :=
  if cfg.localOnlyAdd && !p.isLocal then
    (x, errorFromRequest req INVALID_REQUEST "reason" (k "add only allowed from localhost"))
  else
  match getParamsAndPath req with
  | .err r => (x, r)
  | .ok params path =>
    match params.getItem (k "fetchOnly") with
    | some (.bool _) | none =>
      let fetchOnly := match params.getItem (k "fetchOnly") with | some (.bool true) => true | _ => false
      match getTimeout cfg (params.getItem (k "timeout")) cfg.defaultTimeoutNs with
      | .err reason => (x, errorFromRequest req INVALID_PARAMS "reason" (k reason))
      | .ns tns =>
        if (lookupIndex x.st.index path).isSome then
          (x, errorFromRequest req INVALID_PARAMS "exists" path)
        else
          let value := params.getItem (k "value")
          match fillAccess cfg value.isSome (params.getItem (k "access")) with
          | .error reason => (x, errorFromRequest req INVALID_PARAMS "reason" (k reason))
          | .ok (fg, sg, cg) =>
            let e : Element := { path := path, owner := p.conn, value := value, fetchOnly := fetchOnly,
                                 timeoutNs := tns, fetchGroups := fg, setGroups := sg, callGroups := cg,
                                 fetchers := List.replicate cfg.initFetchTable none }
            let (x, e) := findFetchersForElement cfg x e
            if x.indexFull then
              -- element_table_put refused: subscribers that saw "add" are told "remove"
              let x := notifyFetchers x e "remove"
              ({ x with indexFull := false },
               errorFromRequest req INTERNAL_ERROR "reason" (k "element table full"))
            else
              let st := { x.st with
                index := x.st.index ++ [(path, p.conn)],
                peers := updatePeer x.st.peers p.conn (fun q => { q with elements := q.elements ++ [e] }) }
              ({ x with st := st }, successFromRequest req)
    | some _ => (x, errorFromRequest req INVALID_PARAMS "reason" (k "fetchOnly is not a bool"))

/-- remove_element: notify, unlink from the owner's list and the index -/
def removeElement (x : Ctx) (e : Element) : Ctx :=
  let x := notifyFetchers x e "remove"
  let st := { x.st with
    index := removeIndex x.st.index e.path,
    peers := updatePeer x.st.peers e.owner (fun q => { q with elements := q.elements.filter (·.path != e.path) }) }
  { x with st := st }

/-- remove_element_from_peer: searches the requester's own list only -/
def removeElementReq (x : Ctx) (p : Peer) (req : Json) : Ctx × Option Json :=
  match getParamsAndPath req with
  | .err r => (x, r)
  | .ok _ path =>
    match p.elements.find? (·.path == path) with
    | some e => (removeElement x e, successFromRequest req)
    | none => (x, errorFromRequest req INVALID_PARAMS "not exists" path)

/-- change_state -/
def changeState (x : Ctx) (p : Peer) (req : Json) : Ctx × Option Json :=
  match getParamsAndPath req with
  | .err r => (x, r)
  | .ok params path =>
    match params.getItem (k "value") with
    | none => (x, errorFromRequest req INVALID_PARAMS "reason" (k "no value found"))
    | some v =>
      match findElement x.st path with
      | none => (x, errorFromRequest req INVALID_PARAMS "not exists" path)
      | some e =>
        if e.owner != p.conn then (x, errorFromRequest req INVALID_PARAMS "not owner of state" path)
        else if e.value.isNone then (x, errorFromRequest req INVALID_PARAMS "change on method not possible" path)
        else
          let e' := { e with value := some v }
          let st := { x.st with peers := updatePeer x.st.peers p.conn (fun q =>
            { q with elements := q.elements.map (fun el => if el.path == path then e' else el) }) }
          let x := notifyFetchers { x with st := st } e' "change"
          (x, successFromRequest req)

/-! ## router.c -/

def hexDigits (n : Nat) : Bytes := (Nat.toDigits 16 n).map (fun c => UInt8.ofNat c.toNat)

/-- what `%s` prints for the origin id: its string, or glibc's "(null)" for a number -/
def idString (id : Option Json) : Option Bytes :=
  match id with
  | none => none
  | some (.str s) => some s
  | some _ => some (k "(null)")

/-- fill_routed_request_id: "<id>_<uuid hex>_<%p>" (or without the id part), cut by one
    character because the size computed by snprintf(NULL, 0, …) is used as the buffer size -/
def routedId (originId : Option Json) (uuid : Nat) (addr : Bytes) : Bytes :=
  let core := hexDigits uuid ++ k "_" ++ addr
  let full := match idString originId with
    | some s => s ++ k "_" ++ core
    | none => core
  full.dropLast

def routedMessage (rid : Bytes) (path : Bytes) (isState : Bool) (value : Option Json) : Json :=
  let v := match value with | some v => v | none => Json.obj []
  .obj [(k "id", .str rid), (k "method", .str path),
        (k "params", if isState then .obj [(k "value", v)] else v)]

def removeRoute (ps : List Peer) (owner : Nat) (rid : Bytes) : List Peer :=
  updatePeer ps owner (fun q => { q with routes := q.routes.filter (·.rid != rid) })

/-- set_or_call -/
def setOrCall (cfg : Config) (x : Ctx) (p : Peer) (req : Json) (isState : Bool) : Ctx × Option Json :=
  match getParamsAndPath req with
  | .err r => (x, r)
  | .ok params path =>
    match findElement x.st path with
    | none => (x, errorFromRequest req INVALID_PARAMS "not exists" path)
    | some e =>
      if e.fetchOnly then (x, errorFromRequest req INVALID_PARAMS "fetchOnly" path)
      else if isState != e.value.isSome then
        (x, errorFromRequest req INVALID_PARAMS "set/call on element not possible" path)
      else if !(if isState then hasAccess cfg e.setGroups p.setGroups else hasAccess cfg e.callGroups p.callGroups) then
        (x, errorFromRequest req INVALID_PARAMS "request not authorized" path)
      else
        let originId := req.getItem (k "id")
        match originId with
        | some (.str _) | some (.num _) | none =>
          -- alloc_routing_request: the id is built and the counter advances, whatever follows
          let rid := routedId originId x.st.uuid p.addrTok
          let x := { x with st := { x.st with uuid := (x.st.uuid + 1) % 4294967296 } }
          let value := if isState then params.getItem (k "value") else params.getItem (k "args")
          if isState && value.isNone then
            (x, errorFromRequest req INVALID_PARAMS "reason" (k "no value found"))
          else
            -- setup_routing_information
            match getTimeout cfg (params.getItem (k "timeout")) e.timeoutNs with
            | .err reason => (x, errorFromRequest req INVALID_PARAMS "reason" (k reason))
            | .ns tns =>
              let t := x.st.nextTimer
              let x := { x with st := { x.st with nextTimer := t + 1 } }
              if x.routeFull then
                ({ emit x (.timerDestroy t) with routeFull := false },
                 errorFromRequest req INTERNAL_ERROR "reason" (k "routing table full"))
              else
                let r : Route := { rid := rid, requester := p.conn, owner := e.owner, originId := originId, timer := t }
                let st := { x.st with peers := updatePeer x.st.peers e.owner (fun q => { q with routes := q.routes ++ [r] }) }
                let x := emit { x with st := st } (.timerArm t tns)
                let (x, ok) := send x e.owner (routedMessage rid path isState value)
                if ok then (x, none)
                else
                  let x := emit { x with st := { x.st with peers := removeRoute x.st.peers e.owner rid } } (.timerDestroy t)
                  (x, errorFromRequest req INTERNAL_ERROR "reason" (k "could not send routing information"))
        | some _ => (x, errorFromRequest req INVALID_PARAMS "request id is neither string nor number" path)

/-- handle_routing_response; `false` = the connection of the replying peer is dropped -/
def routingResponse (x : Ctx) (p : Peer) (msg : Json) (payload : Json) (typ : String) : Ctx × Bool :=
  match msg.getItem (k "id") with
  | some (.str rid) =>
    match p.routes.find? (·.rid == rid) with
    | none => (x, true)
    | some r =>
      let x := emit { x with st := { x.st with peers := removeRoute x.st.peers p.conn rid } } (.timerDestroy r.timer)
      match r.originId with
      | none => (x, true)
      | some oid =>
        match resultResponse oid payload typ with
        | some resp => (send' x r.requester resp, true)
        | none => (x, true)
  | _ => (x, false)

/-- request_timeout_handler -/
def timeoutFired (x : Ctx) (t : Nat) : Ctx :=
  match (x.st.peers.flatMap (·.routes)).find? (·.timer == t) with
  | none => x
  | some r =>
    let x := { x with st := { x.st with peers := removeRoute x.st.peers r.owner r.rid } }
    let x := match r.originId with
      | none => x
      | some oid =>
        match errorResponse oid INTERNAL_ERROR "reason" (k "timeout for routed request") with
        | some resp => send' x r.requester resp
        | none => x
    emit x (.timerDestroy t)

/-! ## fetch.c: fetch / unfetch / get -/

inductive FetchIdResult where
  | ok (params : Json) (id : Json)
  | err (resp : Option Json)

def getFetchId (req : Json) (checkMatch : Bool) : FetchIdResult :=
  match req.getItem (k "params") with
  | none => .err (errorFromRequest req INVALID_PARAMS "reason" (k "no params found"))
  | some params =>
    if checkMatch && (params.getItem (k "match")).isSome then
      .err (errorFromRequest req INVALID_PARAMS "reason" (k "No support for deprecated match"))
    else
    match params.getItem (k "id") with
    | none => .err (errorFromRequest req INVALID_PARAMS "reason" (k "no fetch id given"))
    | some (.str s) => .ok params (.str s)
    | some (.num n) => .ok params (.num n)
    | some _ => .err (errorFromRequest req INVALID_PARAMS "reason" (k "fetch id is neither string nor number"))

/-- add_fetch_to_states_in_peer for every peer: offers every existing element to the new fetch -/
def offerAllElements (cfg : Config) (x : Ctx) (fp : Peer) (f : Fetch) : Ctx :=
  x.st.peers.foldl (fun x owner =>
    owner.elements.foldl (fun x e0 =>
      -- the element as it is now (an earlier iteration cannot have changed it, but read it back)
      let e := match (findPeer x.st.peers owner.conn).bind (·.elements.find? (·.path == e0.path)) with
        | some e => e | none => e0
      let (x, e') := offerElement cfg x e fp f
      { x with st := { x.st with peers := updatePeer x.st.peers owner.conn (fun q =>
          { q with elements := q.elements.map (fun el => if el.path == e'.path then e' else el) }) } }) x) x

/-- process_fetch = add_fetch_to_peer + add_fetch_to_states -/
def fetchReq (cfg : Config) (x : Ctx) (p : Peer) (req : Json) : Ctx × Option Json :=
  match getFetchId req true with
  | .err r => (x, r)
  | .ok params fid =>
    if p.fetches.any (fun f => idsEqual f.fid fid) then
      (x, errorFromRequest req INVALID_PARAMS "reason" (k "fetch id already in use"))
    else
      match createRule cfg params with
      | .err code reason => (x, errorFromRequest req code "reason" (k reason))
      | .ok rule =>
        let f : Fetch := { uid := x.st.nextUid, fid := fid, rule := rule }
        let st := { x.st with
          nextUid := x.st.nextUid + 1,
          peers := updatePeer x.st.peers p.conn (fun q => { q with fetches := q.fetches ++ [f] }) }
        let x := { x with st := st }
        let fp := match findPeer x.st.peers p.conn with | some q => q | none => p
        let x := offerAllElements cfg x fp f
        (x, successFromRequest req)

def dropFetch (ps : List Peer) (fk : FetchKey) : List Peer :=
  updatePeer (mapElements ps (fun e => { e with fetchers := removeFetcher e.fetchers fk })) fk.peer
    (fun q => { q with fetches := q.fetches.filter (·.uid != fk.uid) })

/-- remove_fetch_from_peer -/
def unfetchReq (x : Ctx) (p : Peer) (req : Json) : Ctx × Option Json :=
  match getFetchId req false with
  | .err r => (x, r)
  | .ok _ fid =>
    match p.fetches.find? (fun f => idsEqual f.fid fid) with
    | none => (x, errorFromRequest req INVALID_PARAMS "reason" (k "fetch id not found for unfetch"))
    | some f =>
      ({ x with st := { x.st with peers := dropFetch x.st.peers ⟨p.conn, f.uid⟩ } }, successFromRequest req)

/-- get_elements -/
def getReq (cfg : Config) (x : Ctx) (p : Peer) (req : Json) : Ctx × Option Json :=
  match req.getItem (k "params") with
  | none => (x, errorFromRequest req INVALID_PARAMS "reason" (k "no params found"))
  | some params =>
    match createRule cfg params with
    | .err code reason => (x, errorFromRequest req code "reason" (k reason))
    | .ok rule =>
      let states := x.st.peers.flatMap (fun owner => owner.elements.filterMap (fun e =>
        if hasAccess cfg e.fetchGroups p.fetchGroups && ruleMatches rule e.path then
          match e.value with
          | some v => some (Json.obj [(k "path", .str e.path), (k "value", v)])
          | none => none
        else none))
      (x, resultFromRequest req (.arr states))

/-! ## config.c, info.c, authenticate.c -/

def configReq (x : Ctx) (p : Peer) (req : Json) : Ctx × Option Json :=
  match req.getItem (k "params") with
  | none => (x, errorFromRequest req INVALID_PARAMS "reason" (k "no params found"))
  | some params =>
    match params.getItem (k "name") with
    | none => (x, successFromRequest req)
    | some (.str n) =>
      ({ x with st := { x.st with peers := updatePeer x.st.peers p.conn (fun q => { q with name := some n }) } },
       successFromRequest req)
    | some _ => (x, errorFromRequest req INVALID_PARAMS "reason" (k "name is not a string"))

def infoReq (cfg : Config) (x : Ctx) (req : Json) : Ctx × Option Json :=
  (x, resultFromRequest req (.obj [
    (k "name", .str cfg.name), (k "version", .str cfg.version), (k "protocolVersion", mkStr "1.0.0"),
    (k "features", .obj [(k "batches", .bool true), (k "authentication", .bool true), (k "fetch", mkStr "full")])]))

def findUser (us : List User) (name : Bytes) : Option User := us.find? (fun u => keyEq u.name name)

/-- the common parameter checks of authenticate and passwd -/
inductive CredResult where
  | ok (user pass : Bytes)
  | err (resp : Option Json)

def getCredentials (req : Json) : CredResult :=
  match req.getItem (k "params") with
  | none => .err (errorFromRequest req INVALID_PARAMS "reason" (k "no params found"))
  | some params =>
    match params.getItem (k "user") with
    | none => .err (errorFromRequest req INVALID_PARAMS "reason" (k "no user given"))
    | some (.str u) =>
      match params.getItem (k "password") with
      | none => .err (errorFromRequest req INVALID_PARAMS "reason" (k "no password given"))
      | some (.str pw) => .ok u pw
      | some _ => .err (errorFromRequest req INVALID_PARAMS "reason" (k "password is not a string"))
    | some _ => .err (errorFromRequest req INVALID_PARAMS "reason" (k "user is not a string"))

/-- handle_authentication -/
def authenticateReq (cfg : Config) (x : Ctx) (p : Peer) (req : Json) : Ctx × Option Json :=
  match getCredentials req with
  | .err r => (x, r)
  | .ok u pw =>
    if !p.fetches.isEmpty then (x, errorFromRequest req INVALID_PARAMS "fetched before authenticate" u)
    else
      -- credentials_ok: user found (case-folded lookup), password matches, "auth" member present
      match (findUser x.st.users u).bind (fun usr => if usr.password == pw then usr.auth else none) with
      | none => (x, errorFromRequest req INVALID_PARAMS "invalid credentials" u)
      | some auth =>
        let fg := getGroups cfg (auth.getItem (k "fetchGroups"))
        let sg := getGroups cfg (auth.getItem (k "setGroups"))
        let cg := getGroups cfg (auth.getItem (k "callGroups"))
        ({ x with st := { x.st with peers := updatePeer x.st.peers p.conn (fun q =>
            { q with fetchGroups := fg, setGroups := sg, callGroups := cg, user := some u }) } },
         successFromRequest req)

/-- handle_change_password + change_password (decision only; the file update is C20's model) -/
def passwdReq (x : Ctx) (p : Peer) (req : Json) : Ctx × Option Json :=
  match getCredentials req with
  | .err r => (x, r)
  | .ok u pw =>
    match p.user with
    | none => (x, errorFromRequest req INVALID_PARAMS "reason" (k "non-authenticated peer can't change any passwords"))
    | some me =>
      match findUser x.st.users u with
      | none => (x, errorFromRequest req INVALID_PARAMS "reason" (k "user not in password database"))
      | some target =>
        let iAmAdmin := match findUser x.st.users me with | some m => m.admin | none => false
        if !target.readonly && (me == u || iAmAdmin) then
          let users := x.st.users.map (fun usr => if usr.name == target.name then { usr with password := pw } else usr)
          ({ x with st := { x.st with users := users } }, successFromRequest req)
        else (x, errorFromRequest req INVALID_PARAMS "reason" (k "user not allowed to change password"))

/-! ## peer.c: free_peer_resources -/

/-- clear_routing_entry: timer destroyed; the requester is told unless it is the leaving peer -/
def clearRoute (x : Ctx) (r : Route) (leaving : Nat) : Ctx :=
  let x := emit x (.timerDestroy r.timer)
  if r.requester == leaving then x
  else match r.originId with
    | none => x
    | some oid =>
      match errorResponse oid INTERNAL_ERROR "reason" (k "peer shuts down") with
      | some resp => send' x r.requester resp
      | none => x

def freePeerResources (x : Ctx) (c : Nat) : Ctx :=
  match findPeer x.st.peers c with
  | none => x
  | some p =>
    -- remove_routing_info_from_peer: everything routed to p
    let x := p.routes.foldl (fun x r => clearRoute x r c) x
    let x := { x with st := { x.st with peers := updatePeer x.st.peers c (fun q => { q with routes := [] }) } }
    -- remove_peer_from_routes: p's own requests in every table (nobody is told)
    let mine := x.st.peers.flatMap (fun q => q.routes.filter (·.requester == c))
    let x := mine.foldl (fun x r => clearRoute x r c) x
    let x := { x with st := { x.st with peers := x.st.peers.map (fun (q : Peer) => { q with routes := q.routes.filter (·.requester != c) }) } }
    -- remove_all_fetchers_from_peer
    let unsub : Element → Element := fun e => { e with fetchers := e.fetchers.map (fun s =>
      match s with | some fk => if fk.peer == c then none else some fk | none => none) }
    let ps := updatePeer (mapElements x.st.peers unsub) c (fun q => { q with fetches := [] })
    let x := { x with st := { x.st with peers := ps } }
    -- remove_all_elements_from_peer, in list order
    let x := p.elements.foldl (fun x e0 =>
      match (findPeer x.st.peers c).bind (·.elements.find? (·.path == e0.path)) with
      | some e => removeElement x e
      | none => x) x
    -- list_del
    { x with st := { x.st with peers := x.st.peers.filter (·.conn != c) } }

/-! ## parse.c -/

/-- handle_method -/
def handleMethod (cfg : Config) (x : Ctx) (p : Peer) (req : Json) (method : Bytes) : Ctx × Option Json :=
  if method == k "change" then changeState x p req
  else if method == k "set" then setOrCall cfg x p req true
  else if method == k "call" then setOrCall cfg x p req false
  else if method == k "add" then addElement cfg x p req
  else if method == k "remove" then removeElementReq x p req
  else if method == k "fetch" then fetchReq cfg x p req
  else if method == k "unfetch" then unfetchReq x p req
  else if method == k "get" then getReq cfg x p req
  else if method == k "config" then configReq x p req
  else if method == k "info" then infoReq cfg x req
  else if method == k "authenticate" then authenticateReq cfg x p req
  else if method == k "passwd" then passwdReq x p req
  else (x, errorFromRequest req METHOD_NOT_FOUND "reason" method)

/-- send_response: `true` = keep the connection -/
def sendResponse (x : Ctx) (c : Nat) (resp : Option Json) : Ctx × Bool :=
  match resp with
  | none => (x, true)
  | some r => send x c r

/-- parse_json_rpc for one object; `false` = processing failed (the connection is dropped) -/
def parseJsonRpc (cfg : Config) (x : Ctx) (c : Nat) (req : Json) : Ctx × Bool :=
  match findPeer x.st.peers c with
  | none => (x, false)
  | some p =>
    match req.getItem (k "method") with
    | some (.str m) =>
      let (x, resp) := handleMethod cfg x p req m
      sendResponse x c resp
    | some _ => sendResponse x c (errorFromRequest req INVALID_REQUEST "reason" (k "method is not a string"))
    | none =>
      match req.getItem (k "result") with
      | some res => routingResponse x p req res "result"
      | none =>
        match req.getItem (k "error") with
        | some err => routingResponse x p req err "error"
        | none => sendResponse x c (errorFromRequest req INVALID_REQUEST "reason" (k "neither request nor response"))

/-- parse_json_array: members in order, stop at the first failure -/
def parseJsonArray (cfg : Config) (x : Ctx) (c : Nat) : List Json → Ctx × Bool
  | [] => (x, true)
  | .obj l :: rest =>
    let (x, ok) := parseJsonRpc cfg x c (.obj l)
    if ok then parseJsonArray cfg x c rest else (x, false)
  | _ :: _ => (x, false)

/-- parse_message on an already parsed text -/
def parseMessage (cfg : Config) (x : Ctx) (c : Nat) (msg : Option Json) : Ctx × Bool :=
  match msg with
  | some (.arr l) => parseJsonArray cfg x c l
  | some (.obj l) => parseJsonRpc cfg x c (.obj l)
  | _ => (x, false)

def closePeer (x : Ctx) (c : Nat) : Ctx :=
  emit (freePeerResources x c) (.closed c)

def mkCtx (s : State) (o : Oracle) : Ctx :=
  { st := s, sends := o.sends, indexFull := o.indexFull, routeFull := o.routeFull }

/-- One operation of the daemon. Outputs are returned oldest first. -/
def step (cfg : Config) (s : State) (op : Op) : State × List Obs :=
  match op with
  | .connect c ws isLocal addr =>
    if (findPeer s.peers c).isSome then (s, [])
    else ({ s with peers := s.peers ++ [{ conn := c, ws := ws, isLocal := isLocal, addrTok := addr }] }, [])
  | .message c msg o =>
    if (findPeer s.peers c).isNone then (s, [])
    else
      let (x, ok) := parseMessage cfg (mkCtx s o) c msg
      let x := if ok then x else closePeer x c
      (x.st, x.out.reverse)
  | .disconnect c o =>
    if (findPeer s.peers c).isNone then (s, [])
    else
      let x := closePeer (mkCtx s o) c
      (x.st, x.out.reverse)
  | .timerFire t o =>
    let x := timeoutFired (mkCtx s o) t
    (x.st, x.out.reverse)

def run (cfg : Config) (s : State) : List Op → State × List (List Obs)
  | [] => (s, [])
  | op :: rest =>
    let (s1, o) := step cfg s op
    let (s2, os) := run cfg s1 rest
    (s2, o :: os)

end Cjet.Daemon
