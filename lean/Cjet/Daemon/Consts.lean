/-
  The constants hard-wired in the (frozen) daemon model agree with the ones regenerated from the
  source tree on this run.  A change of an error code, of the minimum timeout or of the default
  timeout in /repo breaks this file (a proof obligation of every daemon-level property that imports
  it) instead of silently leaving the theorems talk about stale constants.
-/
import Cjet.Daemon.Types
import Cjet.Generated.Daemon

namespace Cjet.Daemon

open Cjet.Generated.Daemon

theorem codes_match_source :
    INVALID_REQUEST = codeInvalidRequest ∧ METHOD_NOT_FOUND = codeMethodNotFound ∧
    INVALID_PARAMS = codeInvalidParams ∧ INTERNAL_ERROR = codeInternalError := by decide

theorem min_timeout_matches_source : ({} : Config).minTimeoutBits = minTimeoutBits := by decide

theorem default_timeout_matches_source : ({} : Config).defaultTimeoutNs = defaultTimeoutNs := by decide

end Cjet.Daemon
