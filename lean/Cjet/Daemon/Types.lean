/-
  Cjet.Daemon.Types — state, operations and observations of the daemon model
  (the JET protocol core: parse.c, response.c, element.c, fetch.c, router.c, peer.c,
  config.c, info.c, authenticate.c, groups.c, timer.c at message level).

  Abstractions, stated once:
  * a peer and its connection have one lifetime at this level (transport close sequences are the
    business of the lifecycle model and of the Ws model);
  * the path index and the per-peer routing tables are association lists; whether the real
    hopscotch table refuses an insertion is an ORACLE input of the operation (`Oracle.indexFull`,
    `Oracle.routeFull`) — theorems quantify over every refusal pattern, C17 characterises the real
    one;
  * the result of every send is an oracle input too (`Oracle.sends`, consumed one per send);
  * struct fetch identity (a pointer in the C code) is a fresh number `uid`;
  * cJSON parse/print are outside the model: messages arrive as `Json` values.
-/
import Cjet.Json

namespace Cjet.Daemon

open Cjet

/-- JSON-RPC error codes (error_codes.h / response.c) -/
def INVALID_REQUEST : Int := -32600
def METHOD_NOT_FOUND : Int := -32601
def INVALID_PARAMS : Int := -32602
def INTERNAL_ERROR : Int := -32603

inductive MKind | equals | contains | startsWith | endsWith | equalsNot | containsAllOf
  deriving DecidableEq, Repr

structure Matcher where
  kind : MKind
  ci : Bool
  ops : List Bytes
  deriving Repr

/-- `[]` is "fetch all" (no path rule given). -/
abbrev Rule := List Matcher

structure User where
  name : Bytes
  password : Bytes          -- plaintext in the model; `crypt` is outside it
  auth : Option Json        -- the "auth" object of the credential file
  readonly : Bool
  admin : Bool
  deriving Repr

structure Config where
  localOnlyAdd : Bool := false
  authLoaded : Bool := false
  allGroups : List Bytes := []      -- group names in the order load_passwd_data registered them
  maxMatchers : Nat := 12
  initFetchTable : Nat := 4
  defaultTimeoutNs : Nat := 5000000000
  minTimeoutBits : UInt64 := 0x3F50624DD2F1A9FC   -- 0.001 as IEEE double
  name : Bytes := Json.key "cjet"
  version : Bytes := Json.key "1.10.0"
  deriving Repr

structure FetchKey where
  peer : Nat
  uid : Nat
  deriving DecidableEq, Repr

structure Fetch where
  uid : Nat
  fid : Json
  rule : Rule
  deriving Repr

structure Element where
  path : Bytes
  owner : Nat
  value : Option Json
  fetchOnly : Bool
  timeoutNs : Nat
  fetchGroups : Nat
  setGroups : Nat
  callGroups : Nat
  fetchers : List (Option FetchKey)     -- element.fetcher_table, slot by slot
  deriving Repr

structure Route where
  rid : Bytes
  requester : Nat
  owner : Nat
  originId : Option Json
  timer : Nat
  deriving Repr

structure Peer where
  conn : Nat
  ws : Bool
  isLocal : Bool
  addrTok : Bytes               -- what "%p" prints for this struct peer
  name : Option Bytes := none
  user : Option Bytes := none
  fetchGroups : Nat := 0
  setGroups : Nat := 0
  callGroups : Nat := 0
  elements : List Element := []
  fetches : List Fetch := []
  routes : List Route := []
  deriving Repr

structure State where
  peers : List Peer := []
  index : List (Bytes × Nat) := []       -- global path index: path ↦ owner connection
  users : List User := []
  uuid : Nat := 0                        -- router.c's counter, modulo 2^32
  nextTimer : Nat := 0
  nextUid : Nat := 0
  deriving Repr

structure Oracle where
  sends : List Bool := []
  indexFull : Bool := false
  routeFull : Bool := false
  deriving Repr

inductive Obs where
  | send (c : Nat) (j : Json) (ok : Bool)
  | closed (c : Nat)
  | timerArm (t : Nat) (ns : Nat)
  | timerDestroy (t : Nat)
  deriving Repr

inductive Op where
  | connect (c : Nat) (ws : Bool) (isLocal : Bool) (addr : Bytes)
  | message (c : Nat) (j : Option Json) (o : Oracle)     -- `none`: the text did not parse
  | disconnect (c : Nat) (o : Oracle)
  | timerFire (t : Nat) (o : Oracle)
  deriving Repr

/-- Working context of one operation: the state, the outputs so far (newest first) and the
    oracle values not yet consumed. -/
structure Ctx where
  st : State
  out : List Obs := []
  sends : List Bool := []
  indexFull : Bool := false
  routeFull : Bool := false

end Cjet.Daemon
