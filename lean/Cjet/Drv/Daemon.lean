/-
  drv_daemon — line protocol driver of the daemon model (Cjet.Daemon.Model).

  input  (one operation per line)
    cfg localOnly=<0|1> auth=<0|1> maxMatchers=<n> initFetch=<n> defaultNs=<n> minBits=<n> name=<hex> version=<hex>
    group <hex>                                         register a group name (load order)
    user <namehex> <passhex> <readonly> <admin> <json… | ->   credential record with its "auth" object
    connect <c> <ws> <local> <addrhex>
    msg <c> <sends|-> <indexFull> <routeFull> <json… | !>       sends: string of 0/1, one per send; ! = unparsable text
    disc <c> <sends|->
    timer <t> <sends|->
    dump
  output: for every operation its observations, one per line, then a line "."
    send <c> <ok> <json…> | closed <c> | arm <t> <ns> | tdestroy <t>
  dump prints the state (peers in list order, their elements with fetcher tables, fetches, routes).
-/
import Cjet.Daemon.Model

namespace Cjet.Drv.Daemon

open Cjet Cjet.Daemon

structure DState where
  cfg : Config := {}
  st : State := {}
  pending : List Bool := []      -- send results shared by the following operations that say "="

def parseBools (s : String) : List Bool :=
  if s == "-" then [] else s.toList.map (· == '1')

def kv (w : String) : String × String :=
  match w.splitOn "=" with
  | [a, b] => (a, b)
  | _ => (w, "")

def obsLines (os : List Obs) : List String :=
  os.map (fun o => match o with
    | .send c j ok => s!"send {c} {if ok then 1 else 0} {j.render}"
    | .closed c => s!"closed {c}"
    | .timerArm t ns => s!"arm {t} {ns}"
    | .timerDestroy t => s!"tdestroy {t}")

def optHex (b : Option Bytes) : String := match b with | some x => Hex.ofBytes x | none => "~"

/-- JSON inside a dump line: tokens joined by ';' so that the line still splits on blanks -/
def jd (j : Json) : String := ";".intercalate j.encode

def fidOf (s : State) (fk : FetchKey) : String :=
  match findFetch s.peers fk with
  | some f => jd f.fid
  | none => "?"

def dumpState (s : State) : List String :=
  s.peers.flatMap (fun p =>
    [s!"peer {p.conn} name={optHex p.name} user={optHex p.user} local={if p.isLocal then 1 else 0} groups={p.fetchGroups},{p.setGroups},{p.callGroups} elements={",".intercalate (p.elements.map (fun e => Hex.ofBytes e.path))} fetches={"|".intercalate (p.fetches.map (fun f => jd f.fid))} routes={",".intercalate (p.routes.map (fun r => Hex.ofBytes r.rid))}"] ++
    p.elements.map (fun e =>
      let slots := (e.fetchers.zipIdx.filterMap (fun (s', i) => s'.map (fun fk => s!"{i}:{fk.peer}:{fidOf s fk}")))
      s!"elem {Hex.ofBytes e.path} owner={e.owner} value={match e.value with | some v => jd v | none => "~"} fetchOnly={if e.fetchOnly then 1 else 0} timeout={e.timeoutNs} groups={e.fetchGroups},{e.setGroups},{e.callGroups} tablesize={e.fetchers.length} fetchers={"|".intercalate slots}")) ++
  [s!"index {",".intercalate (s.index.map (fun (p, o) => Hex.ofBytes p ++ ":" ++ toString o))}",
   s!"uuid {s.uuid} timers {s.nextTimer}"]

def applyOp (d : DState) (op : Op) : DState × List String :=
  let (s', os) := step d.cfg d.st op
  ({ d with st := s' }, obsLines os ++ ["."])

def countSends (os : List Obs) : Nat :=
  (os.filter (fun o => match o with | .send _ _ _ => true | _ => false)).length

/-- run an operation whose send results come from the shared pending list ("=" in the script):
    every send consumes one value, so the values this operation used are dropped afterwards -/
def applyShared (d : DState) (mk : List Bool → Op) : DState × List String :=
  let (s', os) := step d.cfg d.st (mk d.pending)
  ({ d with st := s', pending := d.pending.drop (countSends os) }, obsLines os ++ ["."])

def stepLine (d : DState) (line : String) : DState × List String :=
  match Cjet.words line with
  | [] => (d, [])
  | "cfg" :: rest =>
    let cfg := rest.foldl (fun (c : Config) w =>
      let (a, b) := kv w
      match a with
      | "localOnly" => { c with localOnlyAdd := b == "1" }
      | "auth" => { c with authLoaded := b == "1" }
      | "maxMatchers" => { c with maxMatchers := b.toNat?.getD c.maxMatchers }
      | "initFetch" => { c with initFetchTable := b.toNat?.getD c.initFetchTable }
      | "defaultNs" => { c with defaultTimeoutNs := b.toNat?.getD c.defaultTimeoutNs }
      | "minBits" => { c with minTimeoutBits := (b.toNat?.map UInt64.ofNat).getD c.minTimeoutBits }
      | "name" => { c with name := (Hex.toBytes? b).getD c.name }
      | "version" => { c with version := (Hex.toBytes? b).getD c.version }
      | _ => c) d.cfg
    ({ d with cfg := cfg }, [])
  | ["oracle", bits] => ({ d with pending := parseBools bits }, [])
  | ["group", g] =>
    match Hex.toBytes? g with
    | some gb => ({ d with cfg := { d.cfg with allGroups := d.cfg.allGroups ++ [gb] } }, [])
    | none => (d, ["bad-op"])
  | "user" :: n :: pw :: ro :: ad :: rest =>
    match Hex.toBytes? n, Hex.toBytes? pw with
    | some nb, some pb =>
      let auth := if rest == ["-"] then none else (Json.decode rest).map (·.1)
      ({ d with st := { d.st with users := d.st.users ++ [{ name := nb, password := pb, auth := auth, readonly := ro == "1", admin := ad == "1" }] } }, [])
    | _, _ => (d, ["bad-op"])
  | ["connect", c, ws, loc, addr] =>
    match c.toNat?, Hex.toBytes? addr with
    | some cn, some ab => applyOp d (.connect cn (ws == "1") (loc == "1") ab)
    | _, _ => (d, ["bad-op"])
  | "msg" :: c :: sends :: ixf :: rtf :: rest =>
    match c.toNat? with
    | some cn =>
      let mk (j : Option Json) (bs : List Bool) : Op :=
        .message cn j { sends := bs, indexFull := ixf == "1", routeFull := rtf == "1" }
      let go (j : Option Json) := if sends == "=" then applyShared d (mk j) else applyOp d (mk j (parseBools sends))
      if rest == ["!"] then go none
      else match Json.decode rest with
        | some (j, []) => go (some j)
        | _ => (d, ["bad-op"])
    | none => (d, ["bad-op"])
  | ["disc", c, sends] =>
    match c.toNat? with
    | some cn =>
      if sends == "=" then applyShared d (fun bs => .disconnect cn { sends := bs })
      else applyOp d (.disconnect cn { sends := parseBools sends })
    | none => (d, ["bad-op"])
  | ["timer", t, sends] =>
    match t.toNat? with
    | some tn =>
      if sends == "=" then applyShared d (fun bs => .timerFire tn { sends := bs })
      else applyOp d (.timerFire tn { sends := parseBools sends })
    | none => (d, ["bad-op"])
  | ["dump"] => (d, dumpState d.st ++ ["."])
  | _ => (d, ["bad-op"])

def run (_args : List String) : IO UInt32 := do
  Cjet.runLines stepLine ({} : DState)
  return 0

end Cjet.Drv.Daemon
