/-
  Driver for component `cjson`: answers the script protocol of harness/comp/cjson.c from the model
  Cjet.Cjson.  One observation line per op:

    p <hex>         `ok <end> <tree>` | `FAIL <error position>` | `OOB <offset>` | `NOFUEL`
                    (parse = cJSON_ParseWithLengthOpts(buf, len, &end, 0), guard flag from the tree)
    s <off> <hex>   parse_string alone: `ok <new offset> alloc=<n> raw=<hex>` | `FAIL <new offset>` | `OOB <i>`
    w <tree>        cJSON_PrintUnformatted: `ok <hex>` (a number prints its token text) | `FAIL`
    parse <hex>     the parsed value in the token encoding of Cjet.Json (`Json.encode`: n t f
                    d<bits>:<valueint> s<hex> a<k> … o<k> <key> …), or `none` when cJSON returns NULL
                    (an over-read answers `oob <i>`): raw, lenient texts for the daemon model with
                    cJSON's semantics
    num <hex>       the double (bits, valueint) this driver computes for a number token: `ok <bits>:<valueint>`

  <tree> (prefix form):  n | t | f | N<token hex>:<bits hex> | s<hex> | a<k> item*k | o<k> (<key hex> value)*k.
  Option `--guard 0|1` overrides the object-comma guard flag (default: Generated.Cjson.objCommaGuard).

  The double of a number token is NOT part of the model (strtod is an oracle there); the driver
  computes it with exact integer arithmetic (`decToBits`, round to nearest even) so that the dump
  can be compared with the implementation's bit for bit and `parse` can feed the daemon model.
-/
import Cjet.Cjson
import Cjet.Json

namespace Cjet.Drv.Cjson
open Cjet Cjet.Cjson

/-! ### decimal token → IEEE-754 double, exactly (driver only) -/

def natLog2 (n : Nat) : Nat := if n = 0 then 0 else Nat.log2 n

/-- round-half-even quotient of `num / den` -/
def divRound (num den : Nat) : Nat :=
  let q := num / den
  let r := num % den
  if 2 * r > den then q + 1 else if 2 * r < den then q else if q % 2 = 1 then q + 1 else q

/-- the scaled quotient `num / den / 2^k`, rounded half-even -/
def scaled (num den : Nat) (k : Int) : Nat :=
  if k ≥ 0 then divRound num (den <<< k.toNat) else divRound (num <<< (-k).toNat) den

def scaledFloor (num den : Nat) (k : Int) : Nat :=
  if k ≥ 0 then num / (den <<< k.toNat) else (num <<< (-k).toNat) / den

/-- magnitude bits (without sign) of `m * 10^e10`, correctly rounded -/
def magBits (m : Nat) (e10 : Int) : Nat :=
  let inf : Nat := 0x7FF0000000000000
  if m = 0 then 0
  else if e10 > 400 then inf
  else if e10 < -500 then 0
  else
    let num := if e10 ≥ 0 then m * 10 ^ e10.toNat else m
    let den := if e10 ≥ 0 then 1 else 10 ^ (-e10).toNat
    -- k with 2^52 ≤ floor(v / 2^k) < 2^53
    let k0 : Int := (natLog2 num : Int) - (natLog2 den : Int) - 52
    let q0 := scaledFloor num den k0
    let k1 : Int := if q0 ≥ 2 ^ 53 then k0 + 1 else if q0 < 2 ^ 52 then k0 - 1 else k0
    let k : Int := if k1 < -1074 then -1074 else k1
    let q := scaled num den k
    -- rounding may carry into the next binade
    let (q, k) := if q ≥ 2 ^ 53 then (q / 2, k + 1) else (q, k)
    if q < 2 ^ 52 then q                                -- subnormal (k = -1074) or zero
    else
      let e : Int := k + 52 + 1023
      if e ≥ 2047 then inf else e.toNat * 2 ^ 52 + (q - 2 ^ 52)

def digitsVal (s : Bytes) : Nat := s.foldl (fun a c => a * 10 + (c.toNat - 0x30)) 0

structure Dbl where
  bits : UInt64
  vint : Int

/-- bits and valueint for a complete number token (as consumed by strtod) -/
def tokDouble (tok : Bytes) : Dbl :=
  let sg := signLen tok
  let neg := match tok with | c :: _ => c == 0x2D | [] => false
  let s1 := tok.drop sg
  let n1 := digitsLen s1
  let ip := s1.take n1
  let s2 := s1.drop n1
  let (fp, s3) := match s2 with
    | c :: r => if c = 0x2E then (r.take (digitsLen r), r.drop (digitsLen r)) else ([], s2)
    | [] => ([], [])
  let ex : Int := match s3 with
    | c :: r =>
      if c = 0x65 ∨ c = 0x45 then
        let sl := signLen r
        let eneg := match r with | d :: _ => d == 0x2D | [] => false
        let ds := ((r.drop sl).take (digitsLen (r.drop sl))).dropWhile (· == 0x30)
        -- clamp huge exponents (the value is 0 or inf long before)
        let v : Nat := if ds.length > 6 then 1000000 else digitsVal ds
        if eneg then -(v : Int) else (v : Int)
      else 0
    | [] => 0
  let m := digitsVal (ip ++ fp)
  let e10 : Int := ex - (fp.length : Int)
  let mag := magBits m e10
  let bits : Nat := if neg then mag + 2 ^ 63 else mag
  -- valueint: saturating truncation of the double
  let efield : Nat := mag / 2 ^ 52
  let frac : Nat := mag % 2 ^ 52
  let vmag : Nat :=
    if efield = 2047 then 2 ^ 40        -- inf (strtod never yields NaN here)
    else if efield = 0 then 0
    else
      let q : Nat := 2 ^ 52 + frac
      let k : Int := (efield : Int) - 1075
      if k ≥ 0 then (if k > 20 then 2 ^ 40 else q <<< k.toNat) else q >>> (-k).toNat
  let vint : Int :=
    if neg then (if vmag ≥ 2147483648 then -2147483648 else -(vmag : Int))
    else (if vmag ≥ 2147483647 then 2147483647 else (vmag : Int))
  { bits := UInt64.ofNat bits, vint := vint }

def natToHex (n : Nat) : String := Json.natToHex n

/-! ### tree dump / reader -/

partial def dump : Tree → List String
  | .null => ["n"]
  | .fls => ["f"]
  | .tru => ["t"]
  | .num tok => [s!"N{Hex.ofBytes tok}:{natToHex (tokDouble tok).bits.toNat}"]
  | .str s => ["s" ++ Hex.ofBytes s]
  | .arr l => s!"a{l.length}" :: (l.map dump).flatten
  | .obj l => s!"o{l.length}" :: (l.map (fun (k, v) => Hex.ofBytes k :: dump v)).flatten

partial def toJson : Tree → Json
  | .null => .null
  | .fls => .bool false
  | .tru => .bool true
  | .num tok => let d := tokDouble tok; .num { bits := d.bits, vint := d.vint }
  | .str s => .str s
  | .arr l => .arr (l.map toJson)
  | .obj l => .obj (l.map (fun (k, v) => (k, toJson v)))

partial def readTree : List String → Option (Tree × List String)
  | [] => none
  | tok :: rest =>
    match tok.toList with
    | ['n'] => some (.null, rest)
    | ['t'] => some (.tru, rest)
    | ['f'] => some (.fls, rest)
    | 'N' :: cs =>
      match (String.ofList cs).splitOn ":" with
      | h :: _ => (Hex.toBytes? h).map (fun b => (.num b, rest))
      | [] => none
    | 's' :: cs => (Hex.toBytes? (String.ofList cs)).map (fun b => (.str b, rest))
    | 'a' :: cs =>
      match (String.ofList cs).toNat? with
      | none => none
      | some n =>
        let rec items (k : Nat) (toks : List String) (acc : List Tree) : Option (List Tree × List String) :=
          match k with
          | 0 => some (acc.reverse, toks)
          | k + 1 =>
            match readTree toks with
            | some (j, toks') => items k toks' (j :: acc)
            | none => none
        (items n rest []).map (fun (l, r) => (.arr l, r))
    | 'o' :: cs =>
      match (String.ofList cs).toNat? with
      | none => none
      | some n =>
        let rec members (k : Nat) (toks : List String) (acc : List (Bytes × Tree)) :
            Option (List (Bytes × Tree) × List String) :=
          match k with
          | 0 => some (acc.reverse, toks)
          | k + 1 =>
            match toks with
            | [] => none
            | kt :: toks1 =>
              match Hex.toBytes? kt, readTree toks1 with
              | some kb, some (j, toks') => members k toks' ((kb, j) :: acc)
              | _, _ => none
        (members n rest []).map (fun (l, r) => (.obj l, r))
    | _ => none

/-! ### ops -/

def opParse (guard : Bool) (h : String) : String :=
  match Hex.toBytes? h with
  | none => "error hex"
  | some inp =>
    match parseG guard inp with
    | .ok t e => s!"ok {e} " ++ " ".intercalate (dump t)
    | .fail p => s!"FAIL {p}"
    | .oob i => s!"OOB {i}"
    | .nofuel => "NOFUEL"

def opParseJson (guard : Bool) (h : String) : String :=
  match Hex.toBytes? h with
  | none => "error hex"
  | some inp =>
    match parseG guard inp with
    | .ok t _ => Json.render (toJson t)
    | .fail _ => "none"
    | .oob i => s!"oob {i}"
    | .nofuel => "nofuel"

def opString (off : String) (h : String) : String :=
  match off.toNat?, Hex.toBytes? h with
  | some o, some inp =>
    match parseString inp ⟨o, 0⟩ with
    | .ok s b => s!"ok {b.off} alloc={s.alloc} raw={Hex.ofBytes s.written}"
    | .fail b => s!"FAIL {b.off}"
    | .oob i => s!"OOB {i}"
    | .nofuel => "NOFUEL"
  | _, _ => "error args"

def opPrint (toks : List String) : String :=
  match readTree toks with
  | some (t, []) => "ok " ++ Hex.ofBytes (printValue id t)
  | _ => "FAIL"

def opNum (h : String) : String :=
  match Hex.toBytes? h with
  | some tok => let d := tokDouble tok; s!"ok {natToHex d.bits.toNat}:{d.vint}"
  | none => "error hex"

def step (guard : Bool) (_ : Unit) (line : String) : Unit × List String :=
  match words line with
  | ["p", h] => ((), [opParse guard h])
  | ["p"] => ((), [opParse guard "-"])
  | ["parse", h] => ((), [opParseJson guard h])
  | ["s", o, h] => ((), [opString o h])
  | "w" :: toks => ((), [opPrint toks])
  | ["num", h] => ((), [opNum h])
  | [] => ((), ["-"])
  | _ => ((), ["error op"])

def guardOf : List String → Bool
  | "--guard" :: v :: _ => v != "0"
  | _ :: rest => guardOf rest
  | [] => Cjet.Generated.Cjson.objCommaGuard

def run (args : List String) : IO UInt32 := do
  runLines (step (guardOf args)) ()
  pure 0

end Cjet.Drv.Cjson
