import Cjet.Basic
namespace Cjet.Drv.Cjson
def run (_args : List String) : IO UInt32 := pure 0
end Cjet.Drv.Cjson
