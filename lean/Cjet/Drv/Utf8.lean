/-
  Driver for component `utf8` (property C18): answers the script protocol of harness/comp/utf8.c
  from the model Cjet.Utf8.  Arguments: `--width N` = sizeof(uint_fast16_t) of the platform the
  harness reported (default 8).  One observation line per op:

    info | reset | state | set ss ll nn | bytes <hex> <c> | text <hex> <c> | word32 <c> <w>… |
    word64 <c> <w>… | auto <align> <hex> <c> | row ss ll nn | prod32[v] / prod64[v] ss ll nn c <reps> |
    refprod32 / refprod64 ss ll nn c <reps>   (same product through the byte path = the spec automaton) |
    spec <hex>                                (`wellFormed`)
-/
import Cjet.Utf8

namespace Cjet.Drv.Utf8
open Cjet Cjet.Utf8

def hexDigit (n : Nat) : Char := Hex.digit n

def hexNat? (s : String) : Option Nat :=
  s.toList.foldl (fun acc c => match acc, Hex.nibble? c with
    | some a, some d => some (a * 16 + d)
    | _, _ => none) (some 0)

def hexPad (digits : Nat) (n : Nat) : String :=
  String.ofList ((List.range digits).reverse.map (fun i => hexDigit (n / 16 ^ i % 16)))

def stStr (c : Checker) : String :=
  s!"st {Hex.ofByte c.start} {Hex.ofByte c.length} {Hex.ofByte c.next}"

def rStr (r : Bool × Checker) : String :=
  s!"r {if r.1 then 1 else 0} {stStr r.2}"

def parseBool (s : String) : Bool := s != "0"

def byteOf (s : String) : UInt8 := UInt8.ofNat ((hexNat? s).getD 0)

def fnvInit : UInt64 := 0xcbf29ce484222325
@[inline] def fnvByte (h : UInt64) (b : UInt8) : UInt64 := (h ^^^ b.toUInt64) * 0x100000001b3

def fnvResult (h : UInt64) (r : Bool × Checker) : UInt64 :=
  fnvByte (fnvByte (fnvByte (fnvByte h (if r.1 then 1 else 0)) r.2.start) r.2.length) r.2.next

/-- tuple number `t` of the product `reps^wide`, byte 0 fastest -/
def tupleOf (reps : Array UInt8) (wide t : Nat) : List UInt8 :=
  (List.range wide).map (fun j => reps[(t / reps.size ^ j) % reps.size]!)

def wordOfBytes (bs : List UInt8) : Nat :=
  bs.foldr (fun b acc => b.toNat + 256 * acc) 0

/-- one product op: returns the output lines -/
def prodOp (name : String) (wide : Nat) (verbose reference : Bool) (args : List String) : List String :=
  match args with
  | [ss, ll, nn, c, repsHex] =>
    match Hex.toBytes? repsHex with
    | some repsL =>
      if repsL.isEmpty then ["error reps"] else
      let reps := repsL.toArray
      let st : Checker := ⟨byteOf ss, byteOf ll, byteOf nn⟩
      let k := parseBool c
      let total := reps.size ^ wide
      let step (acc : UInt64 × Nat × List String) (t : Nat) : UInt64 × Nat × List String :=
        let bytes := tupleOf reps wide t
        let w := wordOfBytes bytes
        let r : Bool × Checker :=
          if reference then byteSeq st bytes k
          else if wide == 4 then word32Seq st [UInt32.ofNat w] k
          else word64Seq st [UInt64.ofNat w] k
        let (h, a, ls) := acc
        let ls := if verbose then s!"w {hexPad (2 * wide) w} {rStr r}" :: ls else ls
        (fnvResult h r, (if r.1 then a + 1 else a), ls)
      let (h, a, ls) := (List.range total).foldl step (fnvInit, 0, [])
      ls.reverse ++ [s!"{name} n={total} acc={a} digest={hexPad 16 h.toNat}"]
    | none => ["error reps"]
  | _ => ["error args"]

def rowOp (st : Checker) : String :=
  "row" ++ String.join ((List.range 256).map (fun b =>
    let r := byteSeq st [UInt8.ofNat b] false
    s!" {if r.1 then 1 else 0}:{Hex.ofByte r.2.start}:{Hex.ofByte r.2.length}:{Hex.ofByte r.2.next}"))

def parseWords (ws : List String) : Option (List Nat) :=
  if ws == ["-"] then some [] else ws.mapM hexNat?

def step (width : Nat) (c : Checker) (line : String) : Checker × List String :=
  match words line with
  | [] => (c, [])
  | ["info"] => (c, [s!"info width={width} le=1"])
  | ["reset"] => (init, [stStr init])
  | ["state"] => (c, [stStr c])
  | ["set", ss, ll, nn] =>
    let c' : Checker := ⟨byteOf ss, byteOf ll, byteOf nn⟩
    (c', [stStr c'])
  | ["bytes", hex, k] =>
    match Hex.toBytes? hex with
    | some bs => let r := byteSeq c bs (parseBool k); (r.2, [rStr r])
    | none => (c, ["error hex"])
  | ["text", hex, k] =>
    match Hex.toBytes? hex with
    | some bs => let r := textSeq c bs (parseBool k); (r.2, [rStr r])
    | none => (c, ["error hex"])
  | "word32" :: k :: ws =>
    match parseWords ws with
    | some ns => let r := word32Seq c (ns.map UInt32.ofNat) (parseBool k); (r.2, [rStr r])
    | none => (c, ["error hex"])
  | "word64" :: k :: ws =>
    match parseWords ws with
    | some ns => let r := word64Seq c (ns.map UInt64.ofNat) (parseBool k); (r.2, [rStr r])
    | none => (c, ["error hex"])
  | ["auto", align, hex, k] =>
    match Hex.toBytes? hex with
    | some bs =>
      let r := autoAligned width (align.toNat?.getD 0 % 8) c bs (parseBool k)
      (r.2, [rStr r])
    | none => (c, ["error hex"])
  | ["row", ss, ll, nn] => (init, [rowOp ⟨byteOf ss, byteOf ll, byteOf nn⟩])
  | "prod32" :: args => (init, prodOp "prod32" 4 false false args)
  | "prod32v" :: args => (init, prodOp "prod32" 4 true false args)
  | "prod64" :: args => (init, prodOp "prod64" 8 false false args)
  | "prod64v" :: args => (init, prodOp "prod64" 8 true false args)
  | "refprod32" :: args => (c, prodOp "refprod32" 4 false true args)
  | "refprod64" :: args => (c, prodOp "refprod64" 8 false true args)
  | ["spec", hex] =>
    match Hex.toBytes? hex with
    | some bs => (c, [s!"spec {if wellFormed bs then 1 else 0}"])
    | none => (c, ["error hex"])
  | _ => (c, ["error op"])

def run (args : List String) : IO UInt32 := do
  let width := match args with
    | ["--width", n] => n.toNat?.getD 8
    | _ => 8
  Cjet.runLines (step width) init
  return 0

end Cjet.Drv.Utf8
