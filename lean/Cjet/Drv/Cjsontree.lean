/-
  Driver for component `cjsontree`: answers the script protocol of harness/comp/cjsontree.c from the model
  Cjet.Cjson.TreeOps.  One observation line per op:

    D <fails> <item>     cJSON_Duplicate(item, 1) with the allocation calls listed in <fails> (`-` = none,
                         else comma separated call numbers from 0) failing
                         -> `ok <item> next=<calls> live=<blocks> del=<blocks cJSON_Delete(copy) gives back>`
                          | `NULL next=<calls> live=<blocks>`
    F <fails> <item>     cJSON_Duplicate(item, 0), same answers
    G <cs> <key> <item>  get_object_item(item, key, cs) -> `some <index of the child>` | `none`
    O <fails> <const> <key> <object> <item>   add_item_to_object(object, key, item, &global_hooks, const) with the ledger starting at
                         live=1000 -> `ok|FAIL next=<calls> live=<blocks> | <object> | attached` or `… | orphan <item>`
    R <fails> <checked> <key> <object> <item>   cJSON_ReplaceItemInObject(object, key, item), ledger from live=1000; <checked> = does the
                         code inspect the key copy (the harness ignores it, the tie passes what it observed)
                         -> `ok|FAIL next= live= | <object> | consumed` or `… | orphan <item>`
    S <fails> <hex>      cJSON_CreateString(text), answers as D
    A <idx> <item>       cJSON_GetArraySize / cJSON_GetArrayItem -> `size <n> some <j>` | `size <n> none`

  <item> (prefix form): I <kind> <flags: 1 = IsReference, 2 = StringIsConst> <valueint> <valuedouble bits hex>
                        <valuestring hex | - (empty) | ~ (NULL)> <name hex | - | ~> <number of children> child*
-/
import Cjet.Cjson.TreeOps

namespace Cjet.Drv.Cjsontree
open Cjet Cjet.Cjson.TreeOps

def optBytes? (s : String) : Option (Option Bytes) :=
  if s == "~" then some none else (Hex.toBytes? s).map some

def hexNat? (s : String) : Option Nat :=
  s.toList.foldlM (fun acc c => (Hex.nibble? c).map (fun d => acc * 16 + d)) 0

mutual
partial def parseItem : List String → Option (Item × List String)
  | "I" :: k :: fl :: vi :: vd :: vs :: nm :: n :: rest =>
    match k.toNat?, fl.toNat?, vi.toInt?, hexNat? vd, optBytes? vs, optBytes? nm, n.toNat? with
    | some k, some fl, some vi, some vd, some vs, some nm, some n =>
      match parseItems n rest with
      | some (kids, rest') => some (.mk k (fl % 2 == 1) (fl / 2 % 2 == 1) vi vd vs nm kids, rest')
      | none => none
    | _, _, _, _, _, _, _ => none
  | _ => none
partial def parseItems : Nat → List String → Option (List Item × List String)
  | 0, rest => some ([], rest)
  | n + 1, rest =>
    match parseItem rest with
    | some (i, rest') =>
      match parseItems n rest' with
      | some (is, rest'') => some (i :: is, rest'')
      | none => none
    | none => none
end

def showOpt : Option Bytes → String
  | none => "~"
  | some [] => "-"
  | some b => Hex.ofBytes b

def hexOfNat (n : Nat) : String := String.ofList (Nat.toDigits 16 n)

partial def showItem : Item → String
  | .mk k r c vi vd vs nm kids =>
    let fl := (if r then 1 else 0) + (if c then 2 else 0)
    " ".intercalate (["I", toString k, toString fl, toString vi, hexOfNat vd, showOpt vs, showOpt nm, toString kids.length]
      ++ kids.map showItem)

def parseFails (s : String) : Option (List Nat) :=
  if s == "-" then some [] else (s.splitOn ",").mapM (·.toNat?)

def dupLine (deep : Bool) (fails : String) (rest : List String) : String :=
  match parseFails fails, parseItem rest with
  | some fl, some (i, []) =>
    let s : Nat → Bool := fun n => fl.contains n
    let r := if deep then dup s i ⟨0, 0⟩ else dupFlat s i ⟨0, 0⟩
    match r with
    | (some c, a) => s!"ok {showItem c} next={a.next} live={a.live} del={delFrees c}"
    | (none, a) => s!"NULL next={a.next} live={a.live}"
  | _, _ => "ERROR bad item"

def showIdx : Option Nat → String
  | none => "none"
  | some j => s!"some {j}"

def stepLine (u : Unit) (line : String) : Unit × List String :=
  match words line with
  | [] => (u, [])
  | "D" :: f :: rest => (u, [dupLine true f rest])
  | "F" :: f :: rest => (u, [dupLine false f rest])
  | "G" :: cs :: key :: rest =>
    match Hex.toBytes? key, parseItem rest with
    | some key, some (i, []) => (u, [showIdx (getItem (cs == "1") key (Item.kids i))])
    | _, _ => (u, ["ERROR bad G"])
  | "A" :: idx :: rest =>
    match idx.toInt?, parseItem rest with
    | some idx, some (i, []) => (u, [s!"size {(Item.kids i).length} {showIdx (getArrayItem (Item.kids i) idx)}"])
    | _, _ => (u, ["ERROR bad A"])
  | "O" :: f :: ck :: key :: rest =>
    match parseFails f, Hex.toBytes? key, parseItems 2 rest with
    | some fl, some key, some ([obj, it], []) =>
      let r := addToObject (fun n => fl.contains n) (ck == "1") key obj it ⟨0, 1000⟩
      let orphan := match r.orphan with | none => "attached" | some o => "orphan " ++ showItem o
      (u, [s!"{if r.ok then "ok" else "FAIL"} next={r.a.next} live={r.a.live} | {showItem r.obj} | {orphan}"])
    | _, _, _ => (u, ["ERROR bad O"])
  | ["S", f, str] =>
    match parseFails f, Hex.toBytes? str with
    | some fl, some str =>
      match createString (fun n => fl.contains n) str ⟨0, 0⟩ with
      | (some c, a) => (u, [s!"ok {showItem c} next={a.next} live={a.live} del={delFrees c}"])
      | (none, a) => (u, [s!"NULL next={a.next} live={a.live}"])
    | _, _ => (u, ["ERROR bad S"])
  | "R" :: f :: chk :: key :: rest =>
    match parseFails f, Hex.toBytes? key, parseItems 2 rest with
    | some fl, some key, some ([obj, it], []) =>
      let r := replaceInObject (fun n => fl.contains n) (chk == "1") false key obj it ⟨0, 1000⟩
      let orphan := match r.orphan with | none => "consumed" | some o => "orphan " ++ showItem o
      (u, [s!"{if r.ok then "ok" else "FAIL"} next={r.a.next} live={r.a.live} | {showItem r.obj} | {orphan}"])
    | _, _, _ => (u, ["ERROR bad R"])
  | w :: _ => if w.startsWith "#" then (u, []) else (u, ["ERROR unknown op"])

def run (_args : List String) : IO UInt32 := do
  runLines stepLine ()
  pure 0

end Cjet.Drv.Cjsontree
