import Cjet.Basic
import Cjet.Bufwrite
import Cjet.Generated.Consts
/-!
Driver for component `bufwrite` (property C10).  Script on stdin, one op per line
(the same script `harness/comp/bufwrite.c` reads):

    new <cap>
    writev <hex>,<hex>,… | <answers>        ("-" = empty element; no chunk word = count 0)
    writable | <answers>

answers: comma separated `A` (all), `P<k>` (min k requested), `B`/`W` (would block),
`E`/`I` (hard error).  Observation line per op:

    rc=<int> to_write=<n> pending=<hex> out=<hex> err=<n> calls=<n> left=<n>

`drv_bufwrite cfgcap` prints the repository's `CONFIG_MAX_WRITE_BUFFER_SIZE` as extracted.
-/
namespace Cjet.Drv.Bufwrite

open Cjet Cjet.Bufwrite

structure St where
  cap : Nat := 0
  w : Option (Writer UInt8) := none

def parseAnswer (s : String) : Option KW :=
  match s.toList with
  | ['A'] => some .all
  | ['B'] => some .block
  | ['W'] => some .block
  | ['E'] => some .err
  | ['I'] => some .err
  | 'P' :: ds => (String.ofList ds).toNat?.map KW.part
  | _ => none

def parseAnswers (s : String) : List KW :=
  ((s.splitOn ",").map (fun t => t.trimAscii.toString)).filterMap parseAnswer

def parseChunks (s : String) : Option (List Bytes) :=
  (s.splitOn ",").filter (· ≠ "") |>.mapM Hex.toBytes?

def obs (r : Res UInt8) (err : Nat) : String :=
  s!"rc={r.rc} to_write={r.w.pending.length} pending={Hex.ofBytes r.w.pending} out={Hex.ofBytes r.out} err={err} calls={r.calls} left={r.rest.length}"

def stepLine (st : St) (line : String) : St × List String :=
  let line := line.trimAscii.toString
  if line.isEmpty || line.startsWith "#" then (st, []) else
  let (left, right) := match line.splitOn "|" with
    | [l] => (l, "")
    | l :: r :: _ => (l, r)
    | [] => ("", "")
  let ks := parseAnswers right
  match words left with
  | ["new", c] =>
    match c.toNat? with
    | some cap => ({ cap := cap, w := some {} }, [s!"new cap={cap} ok=1 to_write=0"])
    | none => (st, ["ERROR bad cap"])
  | "writev" :: rest =>
    match st.w with
    | none => (st, ["ERROR no socket"])
    | some w =>
      match parseChunks (String.join rest) with
      | none => (st, ["ERROR bad hex"])
      | some frame =>
        let r := writev st.cap w frame ks
        ({ st with w := some r.w }, [obs r 0])
  | ["writable"] =>
    match st.w with
    | none => (st, ["ERROR no socket"])
    | some w =>
      let (r, e) := writable w ks
      ({ st with w := some r.w }, [obs { r with rc := 0 } (if e then 1 else 0)])
  | _ => (st, ["ERROR unknown op"])

def run (args : List String) : IO UInt32 := do
  match args with
  | ["cfgcap"] =>
    IO.println s!"cfgcap {Cjet.Generated.cfgMaxWriteBufferSize}"
    return 0
  | [] =>
    Cjet.runLines stepLine {}
    return 0
  | _ =>
    IO.eprintln s!"drv_bufwrite: unknown arguments {args}"
    return 2

end Cjet.Drv.Bufwrite
