import Cjet.Basic
import Cjet.Evloop
/-!
Driver for component `evloop` (`src/linux/eventloop_epoll.c`; supports C05, C06, C11).
Script on stdin, one op per line (the same script `harness/comp/evloop.c` reads):

    reset                         fresh loop, no io_events, empty queues
    ev <id> <rw|r|w|->            which of read_function / write_function of io_event <id> are non-NULL (default rw)
    add <id> <ok|fail>            eventloop_epoll_add from outside the loop (`fail`: epoll_ctl fails)
    remove <id>                   eventloop_epoll_remove from outside the loop (and free)
    ans <C|A|R> <act>…            queue one callback answer: return code (continue / abort / event removed) and
                                  actions in order: -<id> remove+free, +<id> add, !<id> add with failing epoll_ctl, S clear go_ahead
    wait <id>:<hexmask> …         queue one epoll_wait result (ready list, possibly empty)
    wait EINTR | wait ERR         queue an epoll_wait failure
    run                           eventloop_epoll_run over the queued waits and answers (both queues are emptied afterwards)

Observation lines:

    RESET max=<CONFIG_MAX_EPOLL_EVENTS> in=<EPOLLIN> out=<EPOLLOUT>
    EV <id> r=<0|1> w=<0|1>
    ADD <id> ok|fail      REMOVE <id>      STOP
    HARVEST n=<k> <id>:<mask>,…
    CALL <id> read|write|error
    RETCB C|A|R
    EINTR   WAITERR   TERM
    RET <rc>
    STATE cur=<id|-> pend=<id|->:<mask>,…|- reg=<sorted ids>|- go=<0|1>     after every callback, after RET and after add/remove
    LEFT answers=<n>
-/
namespace Cjet.Drv.Evloop

open Cjet Cjet.Evloop

structure St where
  cfg : List (Nat × Bool × Bool) := []
  loop : Loop := {}
  waits : List Wait := []       -- newest first
  answers : List Answer := []   -- newest first
  nulling : Bool := true

def St.params (st : St) : Params :=
  { hasRead := fun x => match st.cfg.find? (·.1 == x) with | some c => c.2.1 | none => true
    hasWrite := fun x => match st.cfg.find? (·.1 == x) with | some c => c.2.2 | none => true
    nulling := st.nulling }

def hexNat? (s : String) : Option Nat :=
  if s.isEmpty then none else
  s.toList.foldl (fun acc c => match acc, Hex.nibble? c with
    | some a, some d => some (a * 16 + d)
    | _, _ => none) (some 0)

def hexOfNat (n : Nat) : String :=
  String.ofList ((Nat.toDigits 16 n))

def insertSorted (x : Nat) : List Nat → List Nat
  | [] => [x]
  | y :: ys => if x ≤ y then x :: y :: ys else y :: insertSorted x ys

def sortNat (l : List Nat) : List Nat := l.foldr insertSorted []

def commaOrDash (l : List String) : String := if l.isEmpty then "-" else ",".intercalate l

def showEntry (e : Entry) : String :=
  (match e.ev with | some x => toString x | none => "-") ++ ":" ++ hexOfNat e.mask.toNat

def showState (L : Loop) : String :=
  let cur := match L.current with | some x => toString x | none => "-"
  s!"STATE cur={cur} pend={commaOrDash (L.pending.map showEntry)} reg={commaOrDash ((sortNat L.reg).map toString)} go={if L.goAhead then 1 else 0}"

def showFn : Fn → String
  | .read => "read" | .write => "write" | .error => "error"

def showRet : Ret → String
  | .cont => "C" | .abort => "A" | .removed => "R"

def showEv : TEv → String
  | .call x f => s!"CALL {x} {showFn f}"
  | .removed x => s!"REMOVE {x}"
  | .added x ok => s!"ADD {x} {if ok then "ok" else "fail"}"
  | .stop => "STOP"
  | .snap L => showState L
  | .ret r => s!"RETCB {showRet r}"
  | .harvest b => s!"HARVEST n={b.length} {commaOrDash (b.map fun p => showEntry ⟨some p.1, p.2⟩)}"
  | .eintr => "EINTR"
  | .waitErr => "WAITERR"
  | .term => "TERM"
  | .runRet rc => s!"RET {rc}"

def parseAct (s : String) : Option Act :=
  match s.toList with
  | ['S'] => some .stop
  | '-' :: ds => (String.ofList ds).toNat?.map Act.remove
  | '+' :: ds => (String.ofList ds).toNat?.map (Act.add · true)
  | '!' :: ds => (String.ofList ds).toNat?.map (Act.add · false)
  | _ => none

def parseRet (s : String) : Option Ret :=
  match s with
  | "C" => some .cont | "A" => some .abort | "R" => some .removed | _ => none

def parseReady (s : String) : Option (Nat × Mask) :=
  match s.splitOn ":" with
  | [a, b] =>
    match a.toNat?, hexNat? b with
    | some x, some m => some (x, BitVec.ofNat 32 m)
    | _, _ => none
  | _ => none

def stepLine (st : St) (line : String) : St × List String :=
  let line := line.trimAscii.toString
  if line.isEmpty || line.startsWith "#" then (st, []) else
  match words line with
  | ["reset"] =>
    let st' : St := { nulling := st.nulling }
    (st', [s!"RESET max={st'.params.maxEvents} in={hexOfNat EPOLLIN.toNat} out={hexOfNat EPOLLOUT.toNat}"])
  | ["ev", id, fl] =>
    match id.toNat? with
    | some x =>
      let r := fl.contains 'r'
      let w := fl.contains 'w'
      ({ st with cfg := (x, r, w) :: st.cfg }, [s!"EV {x} r={if r then 1 else 0} w={if w then 1 else 0}"])
    | none => (st, ["ERROR bad id"])
  | ["add", id, verdict] =>
    match id.toNat? with
    | some x =>
      let a := addEv x (verdict == "ok") st.loop
      ({ st with loop := a.1 }, [showEv (.added x a.2), showState a.1])
    | none => (st, ["ERROR bad id"])
  | ["remove", id] =>
    match id.toNat? with
    | some x =>
      let L := removeEv st.params x st.loop
      ({ st with loop := L }, [showEv (.removed x), showState L])
    | none => (st, ["ERROR bad id"])
  | "ans" :: r :: acts =>
    match parseRet r, acts.mapM parseAct with
    | some ret, some as => ({ st with answers := ⟨ret, as⟩ :: st.answers }, [])
    | _, _ => (st, ["ERROR bad answer"])
  | ["wait", "EINTR"] => ({ st with waits := .eintr :: st.waits }, [])
  | ["wait", "ERR"] => ({ st with waits := .err :: st.waits }, [])
  | "wait" :: ready =>
    match ready.mapM parseReady with
    | some b => ({ st with waits := .batch b :: st.waits }, [])
    | none => (st, ["ERROR bad ready list"])
  | ["run"] =>
    let r := Cjet.Evloop.run st.params st.waits.reverse st.loop st.answers.reverse
    ({ st with loop := { r.loop with goAhead := true }, waits := [], answers := [] },
      r.trace.map showEv ++ [showState r.loop, s!"LEFT answers={r.script.length}"])
  | _ => (st, ["ERROR unknown op"])

def run (args : List String) : IO UInt32 := do
  match args with
  | [] =>
    Cjet.runLines stepLine {}
    return 0
  | ["legacy"] =>
    -- the code before commit 676ccd4 (no nulling of harvested entries); used by the tie's self-description only
    Cjet.runLines stepLine { nulling := false }
    return 0
  | _ =>
    IO.eprintln s!"drv_evloop: unknown arguments {args}"
    return 2

end Cjet.Drv.Evloop
