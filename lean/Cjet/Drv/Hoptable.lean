import Cjet.Basic
import Cjet.Hoptable

/-!
Driver `drv_hoptable`: runs the model `Cjet.Hoptable` on the script language of
`harness/comp/hoptable.c` and prints the same observation lines (result codes, values and the
complete non-pristine slot image after every operation).

Script: `new <string|uint32|uint64> <order> [legacy]`, `put <key> <val>`, `get <key>`,
`remove <key>`, `hash <key>`, `sweep`, `dump`.  Keys: hex bytes for `string` (`-` = empty string),
decimal for the integer tables.  `legacy` selects the pre-F25 behaviour of `find_closer_entry`
(vacated slot keeps its key) so that a recurrence of that defect can be recognised.
-/

namespace Cjet.Drv.Hoptable

open Cjet Cjet.Hoptable Cjet.Generated.Hoptable

/-- Keys of the three instantiations. -/
inductive DKey
  | s (b : Bytes)
  | n (x : Nat)
  deriving DecidableEq

structure St where
  kt : Nat := 3            -- 0 string, 1 uint32, 2 uint64, 3 = no table
  order : Nat := 0
  clr : Bool := true
  tab : Table DKey Nat := #[]

def hashOf (kt order : Nat) : DKey → Nat
  | .s b => hashStr order b
  | .n x => if kt == 1 then hashU32 order x else hashU64 order x

def hexDigits (width n : Nat) : String :=
  String.ofList ((List.range width).reverse.map (fun i => Hex.digit ((n >>> (4 * i)) % 16)))

def showKey : DKey → String
  | .s b => Hex.ofBytes b
  | .n x => toString x

def dump (t : Table DKey Nat) : String := Id.run do
  let mut out := ""
  let mut i := 0
  for s in t do
    if !(s.hop == 0 && s.key.isNone && s.val == 0) then
      let k := match s.key with
        | none => "~"
        | some k => showKey k
      out := out ++ s!" {i}={hexDigits (W / 4) s.hop.toNat}:{k}:{s.val}"
    i := i + 1
  return out

def parseKey (kt : Nat) (tok : String) : Option DKey :=
  if kt == 0 then
    match Hex.toBytes? tok with
    | some b => if b.any (· == 0) then none else some (.s b)
    | none => none
  else
    match tok.toNat? with
    | some x => some (.n (if kt == 1 then x % 2 ^ 32 else x % 2 ^ 64))
    | none => none

/-- the key pattern `(type)HASHTABLE_INVALIDENTRY` of the integer tables -/
def isInvalidKey (kt : Nat) : DKey → Bool
  | .s _ => false
  | .n x => if kt == 1 then x == 2 ^ 32 - 1 else x == 2 ^ 64 - 1

def step (st : St) (line : String) : St × List String :=
  match words line with
  | [] => (st, [])
  | "new" :: ty :: ord :: rest =>
    let kt := if ty == "string" then 0 else if ty == "uint32" then 1 else if ty == "uint64" then 2 else 3
    match ord.toNat? with
    | some o =>
      if kt == 3 || o < 2 || o > 13 then ({ st with kt := 3 }, ["error bad-new"])
      else
        let t : Table DKey Nat := empty (tableSize o)
        ({ kt := kt, order := o, clr := !(rest.contains "legacy"), tab := t },
         [s!"new {ty} {o} N={tableSize o} add={addRange o} hop={W} |{dump t}"])
    | none => ({ st with kt := 3 }, ["error bad-new"])
  | op :: args =>
    if op.startsWith "#" then (st, []) else
    if st.kt == 3 then (st, ["error no-table"]) else
    let N := tableSize st.order
    let A := addRange st.order
    let hash := hashOf st.kt st.order
    match op, args with
    | "put", [ks, vs] =>
      match parseKey st.kt ks with
      | none => (st, ["error bad-args"])
      | some k =>
        let v := (vs.toNat?.getD 0) % 2 ^ 64
        if isInvalidKey st.kt k then
          (st, [s!"put rc={rcKeyInval} prev=0 |{dump st.tab}"])
        else
          let r := put N A hash st.clr st.tab k v
          let rc := match r.rc with
            | .ok => rcSuccess
            | .full => rcFull
          ({ st with tab := r.tab }, [s!"put rc={rc} prev={r.prev} |{dump r.tab}"])
    | "get", [ks] =>
      match parseKey st.kt ks with
      | none => (st, ["error bad-args"])
      | some k =>
        -- an INVALIDENTRY key can only match a slot whose hop bit is set and whose key is the
        -- empty pattern; such a slot does not exist in a well-formed table
        let r := if isInvalidKey st.kt k then none else get N hash st.tab k
        match r with
        | some v => (st, [s!"get rc={rcSuccess} val={v} |{dump st.tab}"])
        | none => (st, [s!"get rc={rcInvalidEntry} val=0 |{dump st.tab}"])
    | "remove", [ks] =>
      match parseKey st.kt ks with
      | none => (st, ["error bad-args"])
      | some k =>
        let r := if isInvalidKey st.kt k then (none, st.tab) else remove N hash st.tab k
        match r with
        | (some v, t') => ({ st with tab := t' }, [s!"remove rc={rcSuccess} val={v} |{dump t'}"])
        | (none, t') => ({ st with tab := t' }, [s!"remove rc={rcInvalidEntry} val=0 |{dump t'}"])
    | "hash", [ks] =>
      match parseKey st.kt ks with
      | none => (st, ["error bad-args"])
      | some k => (st, [s!"hash {hash k} |{dump st.tab}"])
    | "sweep", [] =>
      let r := sweep N hash st.tab
      ({ st with tab := r.2 }, [s!"sweep{String.join (r.1.map (fun v => s!" {v}"))} |{dump r.2}"])
    | "dump", [] => (st, [s!"dump |{dump st.tab}"])
    | "put", _ => (st, ["error bad-args"])
    | "get", _ => (st, ["error bad-args"])
    | "remove", _ => (st, ["error bad-args"])
    | "hash", _ => (st, ["error bad-args"])
    | _, _ => (st, ["error unknown-op"])

def run (_args : List String) : IO UInt32 := do
  Cjet.runLines step ({} : St)
  return 0

end Cjet.Drv.Hoptable
