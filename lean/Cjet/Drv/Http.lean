import Cjet.Basic
import Cjet.Http
/-!
Driver for component `http` (property C13): the lifecycle model `Cjet.Http` on event scripts.
One op per line on stdin:

    new <fixed|original|beforeF54|beforeF55> <#other peers> <#other connections>
    accept <ok|prepare|connmem|bsmem|add>
    startline <parsedAll> <handlerFound> <urlValid> <headerData> <ok|peermem|tablemem>   (Bools as 0/1)
    headerline <parsedAll> <upgradeNow> <none|ok|fail>
    eof | readerror | toolong | wsend | term

One observation line per event (key=value words):

    ev=<op> en=<0|1> phase=<…> acts=<a,b,…|-> sent=<400,…|-> fd=<live/acq/rel> bs=… conn=… peer=… rt=…
      peers=<number_of_peers> plist=<o,o,m|-> clist=<…|-> handler=<conn|peer> reader=<…> reg=<0|1>
      sent101=<0|1> settled=<0|1> faults=<f;g;…|->

`acts` are the statements performed by this event, in the order the C code performs them; `en`
says whether the phase can produce the event (otherwise the state is unchanged).
-/
namespace Cjet.Drv.Http

open Cjet Cjet.Http

def objName : Obj → String
  | .fd => "fd" | .bs => "bs" | .conn => "conn" | .peer => "peer" | .rt => "rt"

def handlerName : Handler → String
  | .conn => "conn" | .peer => "peer"

def readerName : Reader → String
  | .none => "none" | .startLine => "startLine" | .headerLine => "headerLine" | .frame => "frame"

def phaseName : Phase → String
  | .listening => "listening" | .start => "start" | .headers => "headers" | .ws => "ws" | .done => "done"

def actName : Act → String
  | .acquire o => s!"acquire.{objName o}"
  | .touch o => s!"touch.{objName o}"
  | .status c ok => s!"status.{c}.{if ok then 1 else 0}"
  | .closeFrame => "closeFrame"
  | .epollAdd => "epollAdd"
  | .epollDel => "epollDel"
  | .closeFd => "closeFd"
  | .release o => s!"release.{objName o}"
  | .listConn => "listConn"
  | .unlistConn => "unlistConn"
  | .registerPeer => "registerPeer"
  | .unregisterPeer => "unregisterPeer"
  | .setHandler h => s!"setHandler.{handlerName h}"
  | .setReader r => s!"setReader.{readerName r}"
  | .otherPeersClosed => "otherPeersClosed"
  | .otherConnsClosed => "otherConnsClosed"

def faultName : Fault → String
  | .useAfterRelease o => s!"useAfterRelease.{objName o}"
  | .doubleRelease o => s!"doubleRelease.{objName o}"
  | .doubleClose => "doubleClose"
  | .doubleAcquire o => s!"doubleAcquire.{objName o}"
  | .releasedWhileListed o => s!"releasedWhileListed.{objName o}"

def joinOr (sep : String) (l : List String) : String :=
  if l.isEmpty then "-" else sep.intercalate l

def cellStr (c : Cell) : String := s!"{if c.live then 1 else 0}/{c.acq}/{c.rel}"

def refName : Ref → String
  | .other n => s!"o{n}"
  | .mine => "m"

def b01 (b : Bool) : String := if b then "1" else "0"

def obs (op : String) (en : Bool) (before after : St) : String :=
  let acts := after.trace.drop before.trace.length
  s!"ev={op} en={b01 en} phase={phaseName after.phase} acts={joinOr "," (acts.map actName)} " ++
  s!"sent={joinOr "," (after.sent.map toString)} fd={cellStr after.fd} bs={cellStr after.bs} " ++
  s!"conn={cellStr after.conn} peer={cellStr after.peer} rt={cellStr after.rt} peers={after.peerCount} " ++
  s!"plist={joinOr "," (after.peerList.map refName)} clist={joinOr "," (after.connList.map refName)} " ++
  s!"handler={handlerName after.handler} reader={readerName after.reader} reg={b01 after.peerRegistered} " ++
  s!"sent101={b01 after.sent101} settled={b01 (decide after.allSettled)} " ++
  s!"faults={joinOr ";" (after.faults.map faultName)}"

def parseBool (s : String) : Option Bool :=
  if s == "1" then some true else if s == "0" then some false else none

def parseEvent (ws : List String) : Option Event :=
  match ws with
  | ["accept", "ok"] => some (.accept .ok)
  | ["accept", "prepare"] => some (.accept .prepareFails)
  | ["accept", "connmem"] => some (.accept .noConnMem)
  | ["accept", "bsmem"] => some (.accept .noBsMem)
  | ["accept", "add"] => some (.accept .addFails)
  | ["startline", p, f, u, d, c] =>
    match parseBool p, parseBool f, parseBool u, parseBool d with
    | some p, some f, some u, some d =>
      (match c with
        | "ok" => some Create.ok
        | "peermem" => some Create.noPeerMem
        | "tablemem" => some Create.noTableMem
        | _ => none).map (Event.startLine p f u d)
    | _, _, _, _ => none
  | ["headerline", p, u, w] =>
    match parseBool p, parseBool u with
    | some p, some u =>
      (match w with
        | "none" => some (none : Option Bool)
        | "ok" => some (some true)
        | "fail" => some (some false)
        | _ => none).map (Event.headerLine p u)
    | _, _ => none
  | ["eof"] => some .eof
  | ["readerror"] => some .readError
  | ["toolong"] => some .lineTooLong
  | ["wsend"] => some .wsEnd
  | ["term"] => some .term
  | _ => none

structure DSt where
  v : Version := fixed
  s : St := {}

def stepLine (d : DSt) (line : String) : DSt × List String :=
  let line := line.trimAscii.toString
  if line.isEmpty || line.startsWith "#" then (d, []) else
  match words line with
  | ["new", v, o, c] =>
    let ver := if v == "original" then some original else if v == "beforeF54" then some beforeF54
      else if v == "beforeF55" then some beforeF55 else if v == "fixed" then some fixed else none
    match ver, o.toNat?, c.toNat? with
    | some ver, some o, some c =>
      let s := before (List.range o) (List.range c)
      ({ v := ver, s := s }, [s!"new version={v} " ++ obs "new" true s s])
    | _, _, _ => (d, ["ERROR bad new"])
  | ws =>
    match parseEvent ws with
    | none => (d, ["ERROR unknown op"])
    | some e =>
      let s' := step d.v d.s e
      ({ d with s := s' }, [obs (ws.headD "?") (enabled d.s e) d.s s'])

def run (_args : List String) : IO UInt32 := do
  runLines stepLine ({} : DSt)
  return 0

end Cjet.Drv.Http
