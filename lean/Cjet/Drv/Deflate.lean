import Cjet.Basic
import Cjet.Deflate
/-!
Driver for component `deflate` (property C19).  Script on stdin, one op per line, the same script
`harness/comp/deflate.c` reads; one observation line per op.

    frags <n1,n2,…>               -> frags <off:len:cap:avail|skip>… [OOB <off:len:cap>] contig=<0|1>
                                     the reassembly trace of the code as it is now (growth statement as
                                     regenerated from compression.c); `OOB` = this copy leaves the buffer
    fragsold <n1,n2,…>            -> the same for the single-doubling code (before fix F23)
    offer <level> <hex> [<hex>]   -> offer acc= cmw= cnc= smw= snc= resp=<hex|->
                                     header value, optionally the bytes that follow it in memory
    outloop <total> <len>         -> outloop have=<n> chunks=<off:len:size,…>     (model only)
    comp <len> <hexfull>          -> comp ret=<n> out=<hex> tail=<0|1>  |  comp WILD
                                     websocket_compress on a payload of <len> bytes for which zlib emits <hexfull>
                                     (the harness measures <hexfull> on a copy of the real deflate stream)

Ops of the harness that have no model counterpart (rt, dec, mut, comp, offerx) are answered with `-`.
`drv_deflate consts` prints the regenerated constants the model uses.
-/
namespace Cjet.Drv.Deflate

open Cjet Cjet.Deflate Cjet.Generated.Deflate

def parseNats (s : String) : Option (List Nat) :=
  if s == "-" then some [] else (s.splitOn ",").filter (· ≠ "") |>.mapM String.toNat?

def showCopy (c : Copy) : String := s!"{c.off}:{c.len}:{c.cap}:{c.availAfter}"

def fragsLine (tag : String) (loops : Bool) (sizes : List Nat) : String :=
  let tr := run loops RState.init sizes
  let toks := tr.map fun
    | none => "skip"
    | some c => if c.inBounds then showCopy c else s!"OOB {c.off}:{c.len}:{c.cap}"
  let total := sizes.foldl (· + ·) 0
  let fin := stateAfter loops RState.init sizes
  let contig := allInBounds tr && (total == 0 || (fin.avail != 0 && contiguousFrom 0 tr))
  s!"{tag} {" ".intercalate toks} contig={if contig then 1 else 0}"

def b2n (b : Bool) : Nat := if b then 1 else 0

def offerLine (level : Nat) (value after : Bytes) : String :=
  let e := negotiate level (value ++ after) value.length
  s!"offer acc={b2n e.accepted} cmw={e.cmw} cnc={b2n e.cnc} smw={e.smw} snc={b2n e.snc} resp={if e.accepted then Hex.ofBytes e.resp else "-"}"

def outloopLine (total len : Nat) : String :=
  let s0 := inflateOutFactor * len
  let r := outLoop (total + 2) total ⟨s0, s0, 0⟩
  let chunks := ",".intercalate (r.1.map fun c => s!"{c.off}:{c.len}:{c.size}")
  s!"outloop have={outHave total s0} chunks={chunks}"

def compLine (len : Nat) (full : Bytes) : String :=
  match compress (fun _ => full) (List.replicate len 0) with
  | .error => "comp ret=-1 out=- tail=0"
  | .wild => "comp WILD"
  | .ok out t => s!"comp ret={out.length} out={Hex.ofBytes out} tail={b2n t}"

def stepLine (_ : Unit) (line : String) : Unit × List String :=
  let out := match words line with
    | [] => ""
    | ["frags"] => fragsLine "frags" reasmGrowLoops []
    | ["frags", l] => match parseNats l with
      | some ns => fragsLine "frags" reasmGrowLoops ns
      | none => "ERROR bad list"
    | ["fragsold", l] => match parseNats l with
      | some ns => fragsLine "frags" false ns
      | none => "ERROR bad list"
    | ["offer", lv, v] => match lv.toNat?, Hex.toBytes? v with
      | some n, some bs => offerLine n bs []
      | _, _ => "ERROR bad args"
    | ["offer", lv, v, a] => match lv.toNat?, Hex.toBytes? v, Hex.toBytes? a with
      | some n, some bs, some af => offerLine n bs af
      | _, _, _ => "ERROR bad args"
    | ["comp", l, f] => match l.toNat?, Hex.toBytes? f with
      | some n, some bs => compLine n bs
      | _, _ => "ERROR bad args"
    | ["outloop", t, l] => match t.toNat?, l.toNat? with
      | some a, some b => outloopLine a b
      | _, _ => "ERROR bad args"
    | w :: _ => if w.startsWith "#" then "" else "-"
  ((), [out])

def run (args : List String) : IO UInt32 := do
  match args with
  | ["consts"] =>
    IO.println s!"reasmGrowLoops={reasmGrowLoops} reasmNoBufferGuard={reasmNoBufferGuard} responseMax={responseMax} factor={reasmFactor} header={reasmHeader} slack={reasmSlack}"
    return 0
  | [] =>
    Cjet.runLines stepLine ()
    return 0
  | _ =>
    IO.eprintln s!"drv_deflate: unknown arguments {args}"
    return 2

end Cjet.Drv.Deflate
