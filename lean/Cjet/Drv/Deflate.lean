import Cjet.Basic
import Cjet.Deflate
/-!
Driver for component `deflate` (property C19).  Script on stdin, one op per line, the same script
`harness/comp/deflate.c` reads; one observation line per op.

    frags <n1,n2,…>               -> frags <off:len:cap:avail|skip>… [OOB <off:len:cap>] contig=<0|1>
                                     the reassembly trace of the code as it is now (growth statement as
                                     regenerated from compression.c); `OOB` = this copy leaves the buffer
    fragsold <n1,n2,…>            -> the same for the single-doubling code (before fix F23)
    offer <level> <hex> [<hex>]   -> offer acc= cmw= cnc= smw= snc= resp=<hex|->
                                     header value, optionally the bytes that follow it in memory
    outloop <total> <len>         -> outloop have=<n> chunks=<off:len:size,…>     (model only)
    comp <level> <len> <size> <hexfull|ERR>
                                  -> comp ret=<n> out=<hex> tail=<0|1>  |  comp WILD
                                     websocket_compress_bounded at this level on a payload of <len> bytes with a
                                     destination of <size> bytes, for which zlib emits <hexfull> (ERR: deflate()
                                     fails); the harness measures <hexfull> on a copy of the real deflate stream.
                                     Level 0 copies the payload (given as <hexfull>).
    reads <level> <hex> [<hex>]   -> reads n=<count> max=<highest index read|-> len=<length> ok=<0|1>   (model only)
                                     the indices of the header value the offer parser reads, element by element

    il <msg>…                     -> il [<events>|<state> …] …          one bracket per message, one token per frame
                                     frames through `ws_handle_frame` on ONE connection (`runFramesNow`);
                                     msg = <t|b|T|B>/<fraghex.fraghex…>/<ctl>/<payloadhex>: text/binary, lower case =
                                     compressed (RSV1 on the first frame), one fragment = unfragmented, `-` = an empty one;
                                     ctl = `-` or <pos><P|Q|X><hex>.… : a ping / pong / close frame with this payload
                                     behind `pos` fragments of the message.  zlib is the oracle "inflate(these fragments
                                     ++ tail) = payload", per message (the harness took the fragments from the real
                                     deflate stream).  events: f<op>:<last>:<len>:<fnv> (frame callback), m<op>:<len>:<fnv>
                                     (message callback), pong:<hex>, close:<code>:<error>, `-` none; state:
                                     <is_fragmented><is_frag_compressed>:<frag_opcode>:<avail_in>, `x` = closed

Ops of the harness that have no model counterpart (rt, dec, mut, offerx) are answered with `-`.
`drv_deflate consts` prints the regenerated constants the model uses.
-/
namespace Cjet.Drv.Deflate

open Cjet Cjet.Deflate Cjet.Generated.Deflate

def parseNats (s : String) : Option (List Nat) :=
  if s == "-" then some [] else (s.splitOn ",").filter (· ≠ "") |>.mapM String.toNat?

def showCopy (c : Copy) : String := s!"{c.off}:{c.len}:{c.cap}:{c.availAfter}"

def fragsLine (tag : String) (loops : Bool) (sizes : List Nat) : String :=
  let tr := run loops RState.init sizes
  let toks := tr.map fun
    | none => "skip"
    | some c => if c.inBounds then showCopy c else s!"OOB {c.off}:{c.len}:{c.cap}"
  let total := sizes.foldl (· + ·) 0
  let fin := stateAfter loops RState.init sizes
  let contig := allInBounds tr && (total == 0 || (fin.avail != 0 && contiguousFrom 0 tr))
  s!"{tag} {" ".intercalate toks} contig={if contig then 1 else 0}"

def b2n (b : Bool) : Nat := if b then 1 else 0

def offerLine (level : Nat) (value after : Bytes) : String :=
  let e := negotiate level (value ++ after) value.length
  s!"offer acc={b2n e.accepted} cmw={e.cmw} cnc={b2n e.cnc} smw={e.smw} snc={b2n e.snc} resp={if e.accepted then Hex.ofBytes e.resp else "-"}"

def outloopLine (total len : Nat) : String :=
  let s0 := inflateOutFactor * len
  let r := outLoop (total + 2) total ⟨s0, s0, 0⟩
  let chunks := ",".intercalate (r.1.map fun c => s!"{c.off}:{c.len}:{c.size}")
  s!"outloop have={outHave total s0} chunks={chunks}"

def compLine (level len size : Nat) (full : Option Bytes) : String :=
  let r := if level == 0 then compressCopy compressStrict size (full.getD [])
           else compressNow (fun _ => full) size (List.replicate len 0)
  match r with
  | .error => "comp ret=-1 out=- tail=0"
  | .wild => "comp WILD"
  | .ok out t => s!"comp ret={out.length} out={Hex.ofBytes out} tail={b2n (t && level != 0)}"

/-- the reads of one header value: every element through `fillReads`, relative to the element -/
def readsLine (level : Nat) (value after : Bytes) : String :=
  let mem := value ++ after
  -- the elements as `extLoop` cuts them: (start, n)
  let rec elems (fuel start length : Nat) (acc : List (Nat × Nat)) : List (Nat × Nat) :=
    match fuel with
    | 0 => acc
    | fuel + 1 =>
      if length = 0 then acc
      else
        let c := rd mem start
        if !isSpace c && c != chComma then
          let n := scanComma mem start length
          if n < length then elems fuel (start + n) (length - n) (acc ++ [(start, n)]) else acc ++ [(start, n)]
        else elems fuel (start + 1) (length - 1) acc
  let es := elems (value.length + 1) 0 value.length []
  let e0 := Ext.init level
  let all := es.map fun (st, n) => ((fillReads e0 (mem.drop st) n), n)
  let cnt : Nat := all.foldl (fun a r => a + r.1.length) 0
  let ok := all.all fun r => r.1.all fun i => decide (i < r.2)
  let mx : Nat := all.foldl (fun a r => r.1.foldl (fun b i => max b (i + 1)) a) 0
  s!"reads n={cnt} max={if mx = 0 then "-" else toString (mx - 1)} elems={es.length} ok={b2n ok}"

/-! ### `il`: frames with control frames between the fragments -/

def fnv (bs : Bytes) : UInt32 :=
  bs.foldl (fun h b => (h ^^^ b.toUInt32) * 16777619) 2166136261

def hex8 (v : UInt32) : String :=
  String.join ((List.range 4).map fun i => Hex.ofByte (v >>> (UInt32.ofNat (8 * (3 - i)))).toUInt8)

def showEv : Ev → String
  | .frame op d last => s!"f{op}:{b2n last}:{d.length}:{hex8 (fnv d)}"
  | .message op d => s!"m{op}:{d.length}:{hex8 (fnv d)}"
  | .pong d => s!"pong:{Hex.ofBytes d}"
  | .closed code e => s!"close:{code}:{b2n e}"
  | .wild => "wild"

def showConn : Option Conn → String
  | none => "x"
  | some c => s!"{b2n c.fl.isFragmented}{b2n c.fl.isFragCompressed}:{c.fl.fragOpcode}:{c.buf.st.avail}"

/-- the status a close frame is answered with (1000 = accepted): `is_status_code_invalid` and, for the reason,
    "all bytes below 0x80" in place of the UTF-8 checker (the check only sends ASCII reasons) -/
def closeCodeOf (p : Bytes) : Nat :=
  if 2 < p.length && !(p.drop 2).all (· < 0x80) then closeUnsupportedData
  else
    let code := if 2 ≤ p.length then (p.getD 0 0).toNat * 256 + (p.getD 1 0).toNat else closeNormal
    let valid := (1000 ≤ code && code ≤ 1003) || (1007 ≤ code && code ≤ 1011) || (3000 ≤ code && code ≤ 4999)
    if p.length == 1 || wsSmallFrame < p.length || !valid then closeProtocolError else closeNormal

/-- `<pos><P|Q|X><hex>` -/
def parseCtlItem (s : String) : Option (Nat × Frame) :=
  let ds := s.toList.takeWhile Char.isDigit
  match s.toList.drop ds.length with
  | k :: rest =>
    match (String.ofList ds).toNat?, (if rest.isEmpty then some [] else Hex.parseList rest) with
    | some pos, some pl =>
      if k == 'P' then some (pos, ⟨true, 0, opPing, pl⟩)
      else if k == 'Q' then some (pos, ⟨true, 0, opPong, pl⟩)
      else if k == 'X' then some (pos, ⟨true, 0, opClose, pl⟩)
      else none
    | _, _ => none
  | [] => none

structure IlMsg where
  compressed : Bool
  op : Nat
  frags : List Bytes
  ctl : List (Nat × Frame)
  payload : Bytes

def parseIlMsg (w : String) : Option IlMsg :=
  match w.splitOn "/" with
  | [k, fr, ct, pl] =>
    let kind : Option (Bool × Nat) :=
      if k == "t" then some (true, opText) else if k == "b" then some (true, opBinary)
      else if k == "T" then some (false, opText) else if k == "B" then some (false, opBinary) else none
    match kind, (fr.splitOn ".").mapM Hex.toBytes?, (if ct == "-" then some [] else (ct.splitOn ".").mapM parseCtlItem),
        Hex.toBytes? pl with
    | some (c, op), some frs, some ctl, some p => if frs.isEmpty then none else some ⟨c, op, frs, ctl, p⟩
    | _, _, _, _ => none
  | _ => none

/-- the frames of one message in wire order: behind `pos` fragments the control frames with that position -/
def ilFrames (m : IlMsg) : List Frame :=
  let n := m.frags.length
  let ctlAt (pos : Nat) : List Frame := (m.ctl.filter (·.1 == pos)).map (·.2)
  let data : List (List Frame) := (List.range n).map fun i =>
    ctlAt i ++ [⟨i + 1 == n, if i == 0 && m.compressed then rsvCompressed else 0,
                 if i == 0 then m.op else opContinuation, m.frags.getD i []⟩]
  data.flatten ++ ctlAt n

/-- one token per frame; nothing behind the frame that closed the connection -/
def ilRun (inflate : Bytes → Option Bytes) : Option Conn → List Frame → List String × Option Conn
  | none, _ => ([], none)
  | some c, [] => ([], some c)
  | some c, f :: rest =>
    let r := handleFrameNow inflate closeCodeOf c f
    let evs := if r.1.isEmpty then "-" else ",".intercalate (r.1.map showEv)
    let t := ilRun inflate r.2 rest
    (s!"{evs}|{showConn r.2}" :: t.1, t.2)

def ilLine (ws : List String) : String :=
  match ws.mapM parseIlMsg with
  | none => "ERROR bad args"
  | some msgs =>
    let step (acc : List String × Option Conn) (m : IlMsg) : List String × Option Conn :=
      match acc.2 with
      | none => (acc.1 ++ ["[skipped]"], none)
      | some c =>
        let body := m.frags.flatten
        let inflate : Bytes → Option Bytes :=
          if m.compressed then fun s => if s == body ++ tail then some m.payload else none else fun _ => none
        let r := ilRun inflate (some c) (ilFrames m)
        (acc.1 ++ ["[" ++ " ".intercalate r.1 ++ "]"], r.2)
    let r := msgs.foldl step ([], some Conn.init)
    "il " ++ " ".intercalate r.1

def stepLine (_ : Unit) (line : String) : Unit × List String :=
  let out := match words line with
    | [] => ""
    | ["frags"] => fragsLine "frags" reasmGrowLoops []
    | ["frags", l] => match parseNats l with
      | some ns => fragsLine "frags" reasmGrowLoops ns
      | none => "ERROR bad list"
    | ["fragsold", l] => match parseNats l with
      | some ns => fragsLine "frags" false ns
      | none => "ERROR bad list"
    | ["offer", lv, v] => match lv.toNat?, Hex.toBytes? v with
      | some n, some bs => offerLine n bs []
      | _, _ => "ERROR bad args"
    | ["offer", lv, v, a] => match lv.toNat?, Hex.toBytes? v, Hex.toBytes? a with
      | some n, some bs, some af => offerLine n bs af
      | _, _, _ => "ERROR bad args"
    | ["comp", lv, l, sz, f] => match lv.toNat?, l.toNat?, sz.toNat?, (if f == "ERR" then some none else (Hex.toBytes? f).map some) with
      | some lvn, some n, some szn, some full => compLine lvn n szn full
      | _, _, _, _ => "ERROR bad args"
    | ["reads", lv, v] => match lv.toNat?, Hex.toBytes? v with
      | some n, some bs => readsLine n bs []
      | _, _ => "ERROR bad args"
    | ["reads", lv, v, a] => match lv.toNat?, Hex.toBytes? v, Hex.toBytes? a with
      | some n, some bs, some af => readsLine n bs af
      | _, _, _ => "ERROR bad args"
    | "il" :: ms => ilLine ms
    | ["outloop", t, l] => match t.toNat?, l.toNat? with
      | some a, some b => outloopLine a b
      | _, _ => "ERROR bad args"
    | w :: _ => if w.startsWith "#" then "" else "-"
  ((), [out])

def run (args : List String) : IO UInt32 := do
  match args with
  | ["consts"] =>
    IO.println s!"reasmGrowLoops={reasmGrowLoops} reasmNoBufferGuard={reasmNoBufferGuard} compressStrict={compressStrict} sendChecked={sendChecked} fragFlagClearedByOpcode={fragFlagClearedByOpcode} flushMarkerMax={flushMarkerMax} flushSpare={flushSpare} responseMax={responseMax} factor={reasmFactor} header={reasmHeader} slack={reasmSlack}"
    return 0
  | [] =>
    Cjet.runLines stepLine ()
    return 0
  | _ =>
    IO.eprintln s!"drv_deflate: unknown arguments {args}"
    return 2

end Cjet.Drv.Deflate
