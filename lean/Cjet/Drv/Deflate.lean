import Cjet.Basic
import Cjet.Deflate
/-!
Driver for component `deflate` (property C19).  Script on stdin, one op per line, the same script
`harness/comp/deflate.c` reads; one observation line per op.

    frags <n1,n2,…>               -> frags <off:len:cap:avail|skip>… [OOB <off:len:cap>] contig=<0|1>
                                     the reassembly trace of the code as it is now (growth statement as
                                     regenerated from compression.c); `OOB` = this copy leaves the buffer
    fragsold <n1,n2,…>            -> the same for the single-doubling code (before fix F23)
    offer <level> <hex> [<hex>]   -> offer acc= cmw= cnc= smw= snc= resp=<hex|->
                                     header value, optionally the bytes that follow it in memory
    outloop <total> <len>         -> outloop have=<n> chunks=<off:len:size,…>     (model only)
    comp <level> <len> <size> <hexfull|ERR>
                                  -> comp ret=<n> out=<hex> tail=<0|1>  |  comp WILD
                                     websocket_compress_bounded at this level on a payload of <len> bytes with a
                                     destination of <size> bytes, for which zlib emits <hexfull> (ERR: deflate()
                                     fails); the harness measures <hexfull> on a copy of the real deflate stream.
                                     Level 0 copies the payload (given as <hexfull>).
    reads <level> <hex> [<hex>]   -> reads n=<count> max=<highest index read|-> len=<length> ok=<0|1>   (model only)
                                     the indices of the header value the offer parser reads, element by element

Ops of the harness that have no model counterpart (rt, dec, mut, offerx) are answered with `-`.
`drv_deflate consts` prints the regenerated constants the model uses.
-/
namespace Cjet.Drv.Deflate

open Cjet Cjet.Deflate Cjet.Generated.Deflate

def parseNats (s : String) : Option (List Nat) :=
  if s == "-" then some [] else (s.splitOn ",").filter (· ≠ "") |>.mapM String.toNat?

def showCopy (c : Copy) : String := s!"{c.off}:{c.len}:{c.cap}:{c.availAfter}"

def fragsLine (tag : String) (loops : Bool) (sizes : List Nat) : String :=
  let tr := run loops RState.init sizes
  let toks := tr.map fun
    | none => "skip"
    | some c => if c.inBounds then showCopy c else s!"OOB {c.off}:{c.len}:{c.cap}"
  let total := sizes.foldl (· + ·) 0
  let fin := stateAfter loops RState.init sizes
  let contig := allInBounds tr && (total == 0 || (fin.avail != 0 && contiguousFrom 0 tr))
  s!"{tag} {" ".intercalate toks} contig={if contig then 1 else 0}"

def b2n (b : Bool) : Nat := if b then 1 else 0

def offerLine (level : Nat) (value after : Bytes) : String :=
  let e := negotiate level (value ++ after) value.length
  s!"offer acc={b2n e.accepted} cmw={e.cmw} cnc={b2n e.cnc} smw={e.smw} snc={b2n e.snc} resp={if e.accepted then Hex.ofBytes e.resp else "-"}"

def outloopLine (total len : Nat) : String :=
  let s0 := inflateOutFactor * len
  let r := outLoop (total + 2) total ⟨s0, s0, 0⟩
  let chunks := ",".intercalate (r.1.map fun c => s!"{c.off}:{c.len}:{c.size}")
  s!"outloop have={outHave total s0} chunks={chunks}"

def compLine (level len size : Nat) (full : Option Bytes) : String :=
  let r := if level == 0 then compressCopy compressStrict size (full.getD [])
           else compressNow (fun _ => full) size (List.replicate len 0)
  match r with
  | .error => "comp ret=-1 out=- tail=0"
  | .wild => "comp WILD"
  | .ok out t => s!"comp ret={out.length} out={Hex.ofBytes out} tail={b2n (t && level != 0)}"

/-- the reads of one header value: every element through `fillReads`, relative to the element -/
def readsLine (level : Nat) (value after : Bytes) : String :=
  let mem := value ++ after
  -- the elements as `extLoop` cuts them: (start, n)
  let rec elems (fuel start length : Nat) (acc : List (Nat × Nat)) : List (Nat × Nat) :=
    match fuel with
    | 0 => acc
    | fuel + 1 =>
      if length = 0 then acc
      else
        let c := rd mem start
        if !isSpace c && c != chComma then
          let n := scanComma mem start length
          if n < length then elems fuel (start + n) (length - n) (acc ++ [(start, n)]) else acc ++ [(start, n)]
        else elems fuel (start + 1) (length - 1) acc
  let es := elems (value.length + 1) 0 value.length []
  let e0 := Ext.init level
  let all := es.map fun (st, n) => ((fillReads e0 (mem.drop st) n), n)
  let cnt : Nat := all.foldl (fun a r => a + r.1.length) 0
  let ok := all.all fun r => r.1.all fun i => decide (i < r.2)
  let mx : Nat := all.foldl (fun a r => r.1.foldl (fun b i => max b (i + 1)) a) 0
  s!"reads n={cnt} max={if mx = 0 then "-" else toString (mx - 1)} elems={es.length} ok={b2n ok}"

def stepLine (_ : Unit) (line : String) : Unit × List String :=
  let out := match words line with
    | [] => ""
    | ["frags"] => fragsLine "frags" reasmGrowLoops []
    | ["frags", l] => match parseNats l with
      | some ns => fragsLine "frags" reasmGrowLoops ns
      | none => "ERROR bad list"
    | ["fragsold", l] => match parseNats l with
      | some ns => fragsLine "frags" false ns
      | none => "ERROR bad list"
    | ["offer", lv, v] => match lv.toNat?, Hex.toBytes? v with
      | some n, some bs => offerLine n bs []
      | _, _ => "ERROR bad args"
    | ["offer", lv, v, a] => match lv.toNat?, Hex.toBytes? v, Hex.toBytes? a with
      | some n, some bs, some af => offerLine n bs af
      | _, _, _ => "ERROR bad args"
    | ["comp", lv, l, sz, f] => match lv.toNat?, l.toNat?, sz.toNat?, (if f == "ERR" then some none else (Hex.toBytes? f).map some) with
      | some lvn, some n, some szn, some full => compLine lvn n szn full
      | _, _, _, _ => "ERROR bad args"
    | ["reads", lv, v] => match lv.toNat?, Hex.toBytes? v with
      | some n, some bs => readsLine n bs []
      | _, _ => "ERROR bad args"
    | ["reads", lv, v, a] => match lv.toNat?, Hex.toBytes? v, Hex.toBytes? a with
      | some n, some bs, some af => readsLine n bs af
      | _, _, _ => "ERROR bad args"
    | ["outloop", t, l] => match t.toNat?, l.toNat? with
      | some a, some b => outloopLine a b
      | _, _ => "ERROR bad args"
    | w :: _ => if w.startsWith "#" then "" else "-"
  ((), [out])

def run (args : List String) : IO UInt32 := do
  match args with
  | ["consts"] =>
    IO.println s!"reasmGrowLoops={reasmGrowLoops} reasmNoBufferGuard={reasmNoBufferGuard} compressStrict={compressStrict} sendChecked={sendChecked} flushMarkerMax={flushMarkerMax} flushSpare={flushSpare} responseMax={responseMax} factor={reasmFactor} header={reasmHeader} slack={reasmSlack}"
    return 0
  | [] =>
    Cjet.runLines stepLine ()
    return 0
  | _ =>
    IO.eprintln s!"drv_deflate: unknown arguments {args}"
    return 2

end Cjet.Drv.Deflate
