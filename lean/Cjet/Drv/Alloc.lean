import Cjet.Basic
import Cjet.Alloc

/-!
Driver `drv_alloc`: runs the model `Cjet.Alloc` on the script language of `harness/comp/alloc.c`
and prints the same observation lines.

Arguments: `--cap-kb N` (CONFIG_MAX_HEAPSIZE_IN_KBYTE of the variant the harness was built with;
default: the generated constant), `--hdr N` (sizeof(size_t) reported by the harness; default: the
generated constant).

Script, one operation per line (all numbers decimal, size_t range):
  `info`                      -> `info cap_kb=<N> factor=<N> hdr=<N> bits=<N>`
  `malloc <size> <osok>`      -> `ptr <id>` | `null`
  `calloc <nmemb> <size> <osok>`
  `free <id>`                 -> `freed` | `nofree`
each followed on the same line by ` alloc=<cjet_get_alloc_size()> live=<id>:<header>,…` (`-` if none).
`osok` = 0 makes the underlying malloc/calloc fail.
-/

namespace Cjet.Drv.Alloc

open Cjet Cjet.Alloc

structure DState where
  P : Params
  s : St := {}

def showLive (l : List (Nat × Nat)) : String :=
  if l.isEmpty then "-" else ",".intercalate (l.map (fun e => s!"{e.1}:{e.2}"))

def showRes : Res → String
  | .ptr id => s!"ptr {id}"
  | .null => "null"
  | .freed => "freed"
  | .nofree => "nofree"

def obs (r : St × Res) : String := s!"{showRes r.2} alloc={r.1.allocated} live={showLive r.1.live}"

def stepLine (d : DState) (line : String) : DState × List String :=
  match words line with
  | [] => (d, [])
  | ["info"] =>
    (d, [s!"info cap_kb={d.P.capKByte} factor={d.P.factor} hdr={d.P.hdr} bits={Cjet.Generated.Alloc.sizeBits}"])
  | ["malloc", size, ok] =>
    match size.toNat? with
    | some n => let r := step d.P d.s (.malloc n (ok != "0")); ({ d with s := r.1 }, [obs r])
    | none => (d, ["error size"])
  | ["calloc", nmemb, size, ok] =>
    match nmemb.toNat?, size.toNat? with
    | some m, some n => let r := step d.P d.s (.calloc m n (ok != "0")); ({ d with s := r.1 }, [obs r])
    | _, _ => (d, ["error size"])
  | ["free", id] =>
    match id.toNat? with
    | some n => let r := step d.P d.s (.free n); ({ d with s := r.1 }, [obs r])
    | none => (d, ["error id"])
  | _ => (d, ["error op"])

partial def parseArgs (P : Params) : List String → Option Params
  | [] => some P
  | "--cap-kb" :: v :: rest => match v.toNat? with
    | some n => parseArgs { P with capKByte := n } rest
    | none => none
  | "--hdr" :: v :: rest => match v.toNat? with
    | some n => parseArgs { P with hdr := n } rest
    | none => none
  | _ => none

def run (args : List String) : IO UInt32 := do
  match parseArgs defaultParams args with
  | some P =>
    Cjet.runLines stepLine ({ P := P } : DState)
    return 0
  | none =>
    IO.eprintln s!"drv_alloc: unexpected arguments {args}"
    return 2

end Cjet.Drv.Alloc
