import Cjet.Basic
import Cjet.Accept
/-!
Driver for component `accept` (linux_io.c acceptance path; properties C11 / C07 / C04 / C08).
Script on stdin, one operation per line — the same script `harness/comp/accept.c` reads:

    call  <jet|http|null> <l> <answer>…          accept_common on listener descriptor l
    start <jet|http|null> <l> <0|1> <answer>…    start_server; 0|1 = does loop->add succeed
    stop  <l>                                     stop_server
    islocal <family> <hex>                        is_localhost on (family, bytes behind the family field)

answer:  `E<errno>`  |  `C<fd>:<family>:<hex>:<gsfamily>:<faults>`
  hex     bytes `accept` stores behind the family field (`-` = none)
  faults  letters of the steps that fail for this descriptor (`-` = none):
          g F_GETFL  s F_SETFL  n getsockname  d TCP_NODELAY  i TCP_KEEPIDLE  v TCP_KEEPINTVL  c TCP_KEEPCNT
          k SO_KEEPALIVE  p alloc peer/connection  b buffered_socket_acquire  t init_socket_peer/init_http_connection
When the answers are used up `accept` answers EAGAIN.

Output: one line per event, then `RET continue|abort used=<n>` (call), `START ret=<r>` (start),
`LOCAL 0|1` (islocal); every operation is closed by `END`.
-/
namespace Cjet.Drv.Accept

open Cjet Cjet.Accept

def parseKind (s : String) : Option Kind :=
  if s == "jet" then some .jet else if s == "http" then some .http else if s == "null" then some .none else none

def setupOf (gsfam : Nat) (faults : String) : Setup :=
  let f (c : Char) : Bool := !(faults.toList.contains c)
  { getfl := f 'g', setfl := f 's', getsockname := f 'n', gsFamily := gsfam, nodelay := f 'd',
    keepidle := f 'i', keepintvl := f 'v', keepcnt := f 'c', keepalive := f 'k',
    allocOwner := f 'p', acquireBs := f 'b', init := f 't' }

def parseAns (tok : String) : Option Ans :=
  match tok.toList with
  | 'E' :: ds => (String.ofList ds).toNat?.map Ans.err
  | 'C' :: rest =>
    match (String.ofList rest).splitOn ":" with
    | [fd, fam, hex, gsfam, faults] =>
      match fd.toNat?, fam.toNat?, Hex.toBytes? hex, gsfam.toNat? with
      | some fd, some fam, some sa, some gs => some (.conn fd fam sa (setupOf gs faults))
      | _, _, _, _ => none
    | _ => none
  | _ => none

def objName : Obj → String
  | .peer => "peer" | .conn => "conn" | .bs => "bs"

def sysName : Sys → String
  | .getfl => "getfl" | .setfl => "setfl" | .getsockname => "getsockname" | .nodelay => "nodelay"
  | .keepidle => "keepidle" | .keepintvl => "keepintvl" | .keepcnt => "keepcnt" | .keepalive => "keepalive"

def kindName : Kind → String
  | .jet => "jet" | .http => "http" | .none => "null"

def okName (b : Bool) : String := if b then "ok" else "fail"

def evLine : Ev → String
  | .acceptFd l fd => s!"ACCEPT l={l} fd={fd}"
  | .acceptErr l e => s!"ACCEPT l={l} errno={e}"
  | .sys fd c ok => s!"SYS fd={fd} {sysName c} {okName ok}"
  | .close fd => s!"CLOSE fd={fd}"
  | .alloc o => s!"ALLOC {objName o}"
  | .allocFail o => s!"ALLOCFAIL {objName o}"
  | .free o => s!"FREE {objName o}"
  | .initFail => "INITFAIL"
  | .owned fd loc k => s!"PEER fd={fd} local={if loc then 1 else 0} kind={kindName k}"
  | .add l ok => s!"ADD l={l} {okName ok}"
  | .remove l => s!"REMOVE l={l}"

def retName : Ret → String
  | .continueLoop => "continue" | .abortLoop => "abort"

def stepLine (_ : Unit) (line : String) : Unit × List String :=
  let line := line.trimAscii.toString
  if line.isEmpty || line.startsWith "#" then ((), []) else
  match words line with
  | "call" :: k :: l :: answers =>
    match parseKind k, l.toNat?, answers.mapM parseAns with
    | some k, some l, some script =>
      let r := acceptLoop k l script
      ((), r.trace.map evLine ++ [s!"RET {retName r.ret} used={r.used}", "END"])
    | _, _, _ => ((), ["ERROR bad call", "END"])
  | "start" :: k :: l :: a :: answers =>
    match parseKind k, l.toNat?, a.toNat?, answers.mapM parseAns with
    | some k, some l, some a, some script =>
      let r := startServer k l (a != 0) script
      ((), r.1.map evLine ++ [s!"START ret={r.2}", "END"])
    | _, _, _, _ => ((), ["ERROR bad start", "END"])
  | ["stop", l] =>
    match l.toNat? with
    | some l => ((), (stopServer l).map evLine ++ ["END"])
    | none => ((), ["ERROR bad stop", "END"])
  | ["islocal", fam, hex] =>
    match fam.toNat?, Hex.toBytes? hex with
    | some fam, some sa => ((), [s!"LOCAL {if isLocalhost fam sa then 1 else 0}", "END"])
    | _, _ => ((), ["ERROR bad islocal", "END"])
  | _ => ((), ["ERROR unknown op", "END"])

def run (args : List String) : IO UInt32 := do
  match args with
  | [] =>
    Cjet.runLines stepLine ()
    return 0
  | ["classes"] =>
    IO.println s!"fatal {Cjet.Generated.Accept.fatalErrnos}"
    IO.println s!"retry {Cjet.Generated.Accept.retryErrnos}"
    IO.println s!"stop {Cjet.Generated.Accept.stopErrnos}"
    IO.println s!"default {Cjet.Generated.Accept.defaultAction}"
    return 0
  | _ =>
    IO.eprintln s!"drv_accept: unknown arguments {args}"
    return 2

end Cjet.Drv.Accept
