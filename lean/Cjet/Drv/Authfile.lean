import Cjet.Authfile
/-!
Driver `drv_authfile`: runs the model `Cjet.Authfile` on the script of `harness/comp/authfile.c`
and prints the same observation lines.

The model's parameters are tabulated from the real code by the check (`vlib/props/c20.py`), which
reads them off the harness output and inserts them into the script:

  crypt <pwhex> <settinghex> <NULL|S<hex>>   one entry of the `crypt` table
  ser <hex>                                  `cJSON_Print` of the database the NEXT passwd request stores
  load <filehex> ok <u:…>… | load <filehex> fail
                                             the loader's verdict and image for a file given by the script
  reload ok <u:…>… | reload fail             the loader's verdict for the file as the MODEL has it now; when
                                             that file is the last serialisation written, the model predicts
                                             the image itself (assumption `parse (ser d) = d`)

and the operations proper, as for the harness:

  peer <i> | auth <i> <userhex> <passhex> | cred <userhex> <passhex>
  passwd <i> <targethex> <newhex> <rndhex> [outcomes]     outcomes: ok | err | s<k> | z, comma separated
-/
namespace Cjet.Drv.Authfile

open Cjet Cjet.Authfile

structure DState where
  db : Db := []
  loaded : Bool := false
  fs : Fs := ⟨[], 0⟩
  names : List (Option Bytes) := List.replicate 8 none
  tab : List (Bytes × Bytes × Option Bytes) := []
  ser : Option Bytes := none
  lastSer : Option (Bytes × Db) := none
  /-- does the model expect the file, as it is now, to load (it was loaded, or it is a complete serialisation) -/
  fileGood : Bool := false

def cryptOf (tab : List (Bytes × Bytes × Option Bytes)) : Crypt := fun p s =>
  match tab.find? (fun e => e.1 == p && e.2.1 == s) with
  | some e => e.2.2
  | none => some "MISSING".toUTF8.toList

def hexS (b : Bytes) : String := Hex.ofBytes b

def showOpt (o : Option Bytes) : String :=
  match o with
  | none => "NULL"
  | some b => "S" ++ (if b.isEmpty then "" else hexS b)

/-- `S<hex>` / `NULL` -/
def parseOpt (s : String) : Option (Option Bytes) :=
  if s == "NULL" then some none
  else match s.toList with
    | 'S' :: rest => if rest.isEmpty then some (some []) else (Hex.parseList rest).map some
    | _ => none

def showUser (u : User) : String :=
  let pw := match u.password with
    | .absent => "N"
    | .notString => "X"
    | .str h => "S" ++ (if h.isEmpty then "" else hexS h)
  let auth := match u.auth with
    | none => "N"
    | some a => "A" ++ (if a.isEmpty then "" else hexS a)
  s!"u:{hexS u.name}:{pw}:{if u.readonly then 1 else 0}:{if u.admin then 1 else 0}:{auth}"

def showDb (loaded : Bool) (db : Db) : String :=
  if !loaded then "db none"
  else if db.isEmpty then "db empty"
  else "db " ++ " ".intercalate (db.map showUser)

def tagged (c : Char) (s : String) : Option Bytes :=
  match s.toList with
  | x :: rest => if x == c then (if rest.isEmpty then some [] else Hex.parseList rest) else none
  | [] => none

def parseUser (w : String) : Option User :=
  match w.splitOn ":" with
  | ["u", n, pw, ro, adm, auth] =>
    match Hex.toBytes? n with
    | none => none
    | some name =>
      let pwf : Option PwField :=
        if pw == "N" then some .absent else if pw == "X" then some .notString
        else (tagged 'S' pw).map .str
      let authf : Option (Option Bytes) :=
        if auth == "N" then some none else (tagged 'A' auth).map some
      match pwf, authf with
      | some p, some a => some ⟨name, p, ro == "1", adm == "1", a⟩
      | _, _ => none
  | _ => none

def parseDbWords (ws : List String) : Option Db :=
  if ws == ["empty"] then some [] else ws.mapM parseUser

def parseOutcome (s : String) : Outcome :=
  if s == "err" then .err
  else if s == "z" then .short 0
  else match s.toList with
    | 's' :: rest => match (String.ofList rest).toNat? with
      | some k => .short k
      | none => .ok
    | _ => .ok

def parseOutcomes (s : String) : List Outcome :=
  ((s.splitOn ",").filter (· ≠ "")).map parseOutcome

def showRet (r : Ret) : String :=
  match r with
  | .ok => "ok"
  | .err => "err"
  | .count k => toString k

def showStep (i : Nat) (s : Step) : String :=
  match s.call with
  | .ftruncate len => s!"fs {i} ftruncate main {len} -> {showRet s.ret}"
  | .lseek pos => s!"fs {i} lseek main {pos} 0 -> {showRet s.ret}"
  | .write buf => s!"fs {i} write main {buf.length} {hexS buf} -> {showRet s.ret}"

/-- loadable verdict the ASSUMPTIONS give for a content: old and new load, a strict prefix of the
    new serialisation does not, anything else is not predicted -/
def classify (oldGood : Bool) (old new content : Bytes) : String × String :=
  if content == new then ("1", "new")
  else if content == old then (if oldGood then "1" else "?", "old")
  else if content.length < new.length && new.take content.length == content then ("0", "prefix")
  else ("?", "other")

def showSnap (oldGood : Bool) (old new : Bytes) (fs : Fs) : String :=
  let (l, cls) := classify oldGood old new fs.data
  s!"snap main={hexS fs.data} loadable={l} is={cls}"

def errCode (e : ErrKind) : String :=
  match e with
  | .writeFailed => "-32603"
  | _ => "-32602"

def errName (e : ErrKind) : String :=
  match e with
  | .notAuthenticated => "notAuthenticated"
  | .userNotInDb => "userNotInDb"
  | .notAllowed => "notAllowed"
  | .noPassword => "noPassword"
  | .passwordNotString => "passwordNotString"
  | .noSalt => "noSalt"
  | .cryptFailed => "cryptFailed"
  | .writeFailed => "writeFailed"

/-- the `crypt` call `credentials_ok` makes, if it gets that far -/
def credCall (db : Db) (user pw : Bytes) : Option (Bytes × Bytes) :=
  match lookup db user with
  | some u => match u.password with
    | .str h => some (pw, h)
    | _ => none
  | none => none

def cryptLine (crypt : Crypt) (pw setting : Bytes) : String :=
  s!"crypt {hexS pw} {hexS setting} {showOpt (crypt pw setting)}"

def showName (i : Nat) (n : Option Bytes) : String :=
  match n with
  | none => s!"peer {i} name=none"
  | some b => s!"peer {i} name=S{if b.isEmpty then "" else hexS b}"

def stepLine (st : DState) (line : String) : DState × List String :=
  let crypt := cryptOf st.tab
  match words line with
  | [] => (st, [])
  | ["mark", n] => (st, [s!"mark {n}"])
  | "crypt" :: pw :: setting :: res :: _ =>
    match Hex.toBytes? pw, Hex.toBytes? setting, parseOpt res with
    | some p, some s, some r => ({ st with tab := (p, s, r) :: st.tab }, [])
    | _, _, _ => (st, ["crypt badline"])
  | ["ser", h] =>
    match Hex.toBytes? h with
    | some b => ({ st with ser := some b }, [])
    | none => (st, ["ser badhex"])
  | "load" :: file :: "ok" :: ws =>
    match Hex.toBytes? file, parseDbWords ws with
    | some f, some db =>
      let st' := { st with db := db, loaded := true, fs := ⟨f, 0⟩, lastSer := none, fileGood := true }
      (st', ["load ok", showDb true db])
    | _, _ => (st, ["load badline"])
  | "load" :: file :: "fail" :: _ =>
    match Hex.toBytes? file with
    | some f => ({ st with db := [], loaded := false, fs := ⟨f, 0⟩, lastSer := none, fileGood := false }, ["load fail"])
    | none => (st, ["load badline"])
  | "reload" :: "ok" :: ws =>
    -- the model's file is what a fresh load sees
    let predicted : Option Db :=
      match st.lastSer with
      | some (b, d) => if b == st.fs.data then some d else none
      | none => none
    match predicted, parseDbWords ws with
    | some d, _ => ({ st with db := d, loaded := true, fs := { st.fs with off := 0 }, fileGood := true }, ["load ok", showDb true d])
    | none, some d => ({ st with db := d, loaded := true, fs := { st.fs with off := 0 }, fileGood := true }, ["load ok", showDb true d])
    | none, none => (st, ["reload badline"])
  | "reload" :: "fail" :: _ =>
    let predictedOk : Bool :=
      match st.lastSer with
      | some (b, _) => b == st.fs.data
      | none => false
    if predictedOk then
      -- the assumption says this file loads; say so, the comparison will flag the difference
      (st, ["load ok", showDb st.loaded st.db])
    else ({ st with db := [], loaded := false, fileGood := false }, ["load fail"])
  | ["peer", i] =>
    let i := i.toNat?.getD 0 % 8
    ({ st with names := st.names.set i none }, [showName i none])
  | ["auth", i, u, p] =>
    let i := i.toNat?.getD 0 % 8
    match Hex.toBytes? u, Hex.toBytes? p with
    | some user, some pw =>
      if !st.loaded then (st, ["auth notloaded"]) else
      let cl := match credCall st.db user pw with
        | some (a, b) => [cryptLine crypt a b]
        | none => []
      let (nm, ok) := authenticate crypt st.db (st.names.getD i none) user pw
      ({ st with names := st.names.set i nm },
        cl ++ [if ok then "auth ok" else "auth err -32602", showName i nm])
    | _, _ => (st, ["auth badhex"])
  | ["cred", u, p] =>
    match Hex.toBytes? u, Hex.toBytes? p with
    | some user, some pw =>
      if !st.loaded then (st, ["cred notloaded"]) else
      let cl := match credCall st.db user pw with
        | some (a, b) => [cryptLine crypt a b]
        | none => []
      (st, cl ++ [if (credentialsOk crypt st.db user pw).isSome then "cred ok" else "cred fail"])
    | _, _ => (st, ["cred badhex"])
  | "passwd" :: i :: t :: n :: r :: rest =>
    let i := i.toNat?.getD 0 % 8
    match Hex.toBytes? t, Hex.toBytes? n, Hex.toBytes? r with
    | some target, some newpw, some rnd =>
      if !st.loaded then (st, ["passwd notloaded"]) else
      let outs := match rest with
        | o :: _ => parseOutcomes o
        | [] => []
      let new := st.ser.getD []
      let codec : Codec := { ser := fun _ => new, parse := fun _ => none }
      let old := st.fs.data
      let res := changePassword crypt codec st.db st.fs (st.names.getD i none) target newpw rnd outs
      let cl := match res.hashed with
        | some (setting, r) => [s!"crypt {hexS newpw} {hexS setting} {showOpt r}"]
        | none => []
      let fsLines := (res.trace.zipIdx.map fun (s, k) => [showStep (k + 1) s, showSnap st.fileGood old new s.after]).flatten
      let resp := match res.err with
        | none => "passwd ok"
        | some e => s!"passwd err {errCode e} {errName e}"
      let wrote := !res.trace.isEmpty
      let st' := { st with db := res.db, fs := res.fs, ser := none,
                           lastSer := if wrote then some (new, res.db) else st.lastSer,
                           fileGood := if res.fs.data == new && wrote then true
                                       else if res.fs.data == old then st.fileGood else false }
      (st', [s!"old {hexS old}"] ++ cl ++ fsLines ++
        [resp, s!"calls {res.trace.length}", showDb true res.db, s!"file {hexS res.fs.data}"])
    | _, _, _ => (st, ["passwd badhex"])
  | w :: _ => (st, [s!"unknown {w}"])

def run (args : List String) : IO UInt32 := do
  match args with
  | [] =>
    Cjet.runLines stepLine ({} : DState)
    return 0
  | _ =>
    IO.eprintln s!"drv_authfile: unexpected arguments {args}"
    return 2

end Cjet.Drv.Authfile
