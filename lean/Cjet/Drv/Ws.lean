import Cjet.Ws
/-!
Line-protocol driver of the WebSocket model (component `ws`).  Same script as `harness/comp/ws.c`;
one observation line per script line.

  conn <server|client> <daemon|full> <stub|real> [bufsize]
  frame <hex> [align=N] [cb=err|closed] [wfail] [utf8=0|1] [chunks=…]   bytes appended to the connection's input
  eof
  send <opcode> <payloadhex> [key=<hex>] [wfail]
  close <code>
  unmask <align> <keyhex> <payloadhex>
  status <code> | statusall | proto <hex> | b64 <hex> | sha1 <hex> | accept <keyhex> | info
  handshake <event>…      ln url:<failed>:<pathhex|none> hf:<hex> hv:<hex> hc:<method>:<major>:<minor>:<upgrade> perr eof toolong [wfail] [target=<hex>]
-/
namespace Cjet.Drv.Ws
open Cjet Cjet.Ws Cjet.Generated.Ws

/-- RFC 3629 reference validator, used for close reasons unless the script supplies the verdict of
    the real validator (`utf8=0|1`) -/
def utf8Ref : Bytes → Bool
  | [] => true
  | b0 :: rest =>
    let n := b0.toNat
    if n < 0x80 then utf8Ref rest
    else if 0xC2 ≤ n ∧ n ≤ 0xDF then
      match rest with
      | b1 :: r => (0x80 ≤ b1.toNat && b1.toNat ≤ 0xBF) && utf8Ref r
      | _ => false
    else if 0xE0 ≤ n ∧ n ≤ 0xEF then
      match rest with
      | b1 :: b2 :: r =>
        let lo := if n = 0xE0 then 0xA0 else 0x80
        let hi := if n = 0xED then 0x9F else 0xBF
        (lo ≤ b1.toNat && b1.toNat ≤ hi) && (0x80 ≤ b2.toNat && b2.toNat ≤ 0xBF) && utf8Ref r
      | _ => false
    else if 0xF0 ≤ n ∧ n ≤ 0xF4 then
      match rest with
      | b1 :: b2 :: b3 :: r =>
        let lo := if n = 0xF0 then 0x90 else 0x80
        let hi := if n = 0xF4 then 0x8F else 0xBF
        (lo ≤ b1.toNat && b1.toNat ≤ hi) && (0x80 ≤ b2.toNat && b2.toNat ≤ 0xBF) &&
          (0x80 ≤ b3.toNat && b3.toNat ≤ 0xBF) && utf8Ref r
      | _ => false
    else false

structure DState where
  alive : Bool := false
  daemon : Bool := true
  isServer : Bool := true
  bufSize : Nat := Cjet.Generated.cfgMaxMessageSize
  st : St := {}
  pending : Bytes := []

def hx (tag : String) (b : Bytes) : String := tag ++ ":" ++ Hex.ofBytes b
def b01 (b : Bool) : String := if b then "1" else "0"

def showAction (daemon : Bool) : Action → String
  | .write ok b => hx (if ok then "W" else "WF") b
  | .closeConn => "CL"
  | .onError => if daemon then "ER FP" else "ER"
  | .peerFreed => "FP"
  | .textMessage p => hx "TM" p
  | .textFrame p l => hx "TF" p ++ ":" ++ b01 l
  | .binaryMessage p => hx "BM" p
  | .binaryFrame p l => hx "BF" p ++ ":" ++ b01 l
  | .ping p => hx "PI" p
  | .pong p => hx "PO" p
  | .closeReceived code => if daemon then s!"CR:{code} FP" else s!"CR:{code}"

def showActions (daemon : Bool) (as : List Action) : String :=
  if as.isEmpty then "-" else " ".intercalate (as.map (showAction daemon))

structure Opts where
  align : Nat := 0
  cb : CbRet := .ok
  wfail : Bool := false
  utf8 : Option Bool := none
  target : Option Bytes := none
  key : Bytes := [0, 0, 0, 0]

def parseOpts (ws : List String) : Opts :=
  ws.foldl (fun o w =>
    if w.startsWith "align=" then { o with align := (w.drop 6).toNat! }
    else if w == "cb=err" then { o with cb := .error }
    else if w == "cb=closed" then { o with cb := .closed }
    else if w == "wfail" then { o with wfail := true }
    else if w == "utf8=0" then { o with utf8 := some false }
    else if w == "utf8=1" then { o with utf8 := some true }
    else if w.startsWith "key=" then
      { o with key := (((Hex.toBytes? (w.drop 4).toString).getD []) ++ List.replicate 4 0).take 4 }
    else if w.startsWith "target=" then { o with target := Hex.toBytes? (w.drop 7).toString }
    else o) {}

def mkConf (d : DState) (o : Opts) : Conf :=
  { isServer := d.isServer
    extAccepted := false
    upgradeComplete := true
    cbs := if d.daemon then daemonCallbacks (fun _ => o.cb == .ok) else fullCallbacks o.cb
    utf8Valid := fun r => match o.utf8 with | some v => v | none => utf8Ref r
    sendOk := !o.wfail
    bufSize := d.bufSize
    word := 8
    clientKey := o.key }

def cbsetLine (c : Callbacks) : String :=
  "cb:" ++ b01 c.textMessage.isSome ++ b01 c.textFrame.isSome ++ b01 c.binaryMessage.isSome ++
    b01 c.binaryFrame.isSome ++ b01 c.ping.isSome ++ b01 c.pong.isSome ++ b01 c.close.isSome

def parseEvent (w : String) : Option HsEvent :=
  if w == "ln" then some .line
  else if w == "perr" then some .parserError
  else if w == "eof" then some .eof
  else if w == "toolong" then some .tooLong
  else
    match w.splitOn ":" with
    | ["url", f, p] => some (.url (f != "0") (if p == "none" then none else Hex.toBytes? p))
    | ["hf", h] => (Hex.toBytes? h).map .field
    | ["hv", h] => (Hex.toBytes? h).map .value
    | ["hc", m, ma, mi, u] => some (.headersComplete m.toNat! ma.toNat! mi.toNat! (u != "0"))
    | _ => none

def statusIntervals : List String := Id.run do
  let mut out : List String := []
  let mut start : Option Nat := none
  for c in [0:65537] do
    let inv := c ≤ 65535 && isStatusCodeInvalid c
    match start, inv with
    | none, true => start := some c
    | some s, false =>
      out := s!"I:{s}-{c - 1}" :: out
      start := none
    | _, _ => pure ()
  return out.reverse

def step (d : DState) (line : String) : DState × List String :=
  match words line with
  | [] => (d, ["-"])
  | op :: args =>
    if op.startsWith "#" then (d, ["-"]) else
    match op, args with
    | "conn", role :: cbset :: _reader :: rest =>
      let bs := match rest with | b :: _ => (if b.toNat! = 0 then cfgMax else b.toNat!) | [] => cfgMax
      let d' : DState := { alive := true, daemon := cbset == "daemon", isServer := role == "server", bufSize := bs,
                           st := {}, pending := [] }
      (d', [cbsetLine (mkConf d' {}).cbs])
    | "frame", h :: rest =>
      if !d.alive then (d, ["dead"]) else
      match Hex.toBytes? h with
      | none => (d, ["bad-hex"])
      | some b =>
        let o := parseOpts rest
        let c := mkConf d o
        let r := run c o.align d.st (d.pending ++ b)
        let alive := r.2.2.all (fun a => a != Action.closeConn)
        ({ d with st := r.1, pending := r.2.1, alive := alive }, [showActions d.daemon r.2.2])
    | "eof", rest =>
      if !d.alive then (d, ["dead"]) else
      let o := parseOpts rest
      let c := mkConf d o
      let r := eofStep c d.st
      ({ d with st := r.1, alive := false }, [showActions d.daemon r.2])
    | "send", opc :: h :: rest =>
      if !d.alive then (d, ["dead"]) else
      match Hex.toBytes? h with
      | none => (d, ["bad-hex"])
      | some p =>
        let o := parseOpts rest
        let c := mkConf d o
        let w := Action.write c.sendOk (c.frame 0 opc.toNat! p)
        (d, [showActions d.daemon [w] ++ (if c.sendOk then " r:0" else " r:-1")])
    | "close", code :: rest =>
      if !d.alive then (d, ["dead"]) else
      let o := parseOpts rest
      let c := mkConf d o
      ({ d with alive := false, st := { d.st with phase := .closed } }, [showActions d.daemon (websocketClose c code.toNat!)])
    | "unmask", a :: k :: p :: _ =>
      match Hex.toBytes? k, Hex.toBytes? p with
      | some k, some p => (d, [hx "U" (unmaskPayload 8 a.toNat! ((k ++ List.replicate 4 0).take 4) p)])
      | _, _ => (d, ["bad-hex"])
    | "status", c :: _ => (d, ["S:" ++ b01 (isStatusCodeInvalid (c.toNat! % 65536))])
    | "statusall", _ => (d, [" ".intercalate statusIntervals])
    | "proto", h :: _ =>
      match Hex.toBytes? h with
      | some b => (d, ["P:" ++ b01 (checkProtocol subProtocol b)])
      | none => (d, ["bad-hex"])
    | "b64", h :: _ =>
      match Hex.toBytes? h with
      | some b => (d, [hx "B" (Base64.encode b)])
      | none => (d, ["bad-hex"])
    | "sha1", h :: _ =>
      match Hex.toBytes? h with
      | some b => (d, [hx "H" (Sha1.sha1 b)])
      | none => (d, ["bad-hex"])
    | "accept", h :: _ =>
      match Hex.toBytes? h with
      | some b =>
        let ok := b.length == secKeyLength
        let keybuf := if ok then b ++ wsGuid else List.replicate (secKeyLength + secGuidLength) 0
        (d, [s!"K:{if ok then "0" else "-1"}:" ++ Hex.ofBytes (acceptValue keybuf)])
      | none => (d, ["bad-hex"])
    | "info", _ => (d, [s!"word:8 bufsize:{cfgMax} keylen:{secKeyLength} guidlen:{secGuidLength}"])
    | "handshake", evs =>
      let o := parseOpts evs
      let es := evs.filterMap parseEvent
      let d0 : DState := { d with daemon := true, isServer := true }
      let c := mkConf d0 o
      let target := o.target.getD "/api/jet/".toUTF8.toList
      let r := Hs.run c target {} es
      let tail := match r.1.phase with
        | .upgraded => " upgraded"
        | .closed => ""
        | .headers => " open"
      (d, [showActions true r.2 ++ tail])
    | _, _ => (d, ["bad-op"])
where cfgMax : Nat := Cjet.Generated.cfgMaxMessageSize

def run (_args : List String) : IO UInt32 := do
  Cjet.runLines step {}
  return 0

end Cjet.Drv.Ws
