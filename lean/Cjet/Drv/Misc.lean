import Cjet.Basic
/-! Driver for small self-tests of the line protocol. -/
namespace Cjet.Drv.Misc

def run (args : List String) : IO UInt32 := do
  match args with
  | ["echo"] =>
    Cjet.runLines (fun (n : Nat) line => (n + 1, [s!"{n} {line.trimAscii.toString}"])) 0
    return 0
  | _ =>
    IO.eprintln s!"drv_misc: unknown arguments {args}"
    return 2

end Cjet.Drv.Misc
