import Cjet.Matcher

/-!
Driver `drv_matcher` (property C16): runs the model `Cjet.Matcher` on the line protocol that
`harness/comp/matcher.c` runs the real fetch.c on.  One output line per input line.

```
fn <name> <ci> <pathhex> <ophex>[,<ophex>…]   -> fn 0|1          | fn unknown
libc <f> <ahex> <bhex> [n]                    -> libc <sign|offset|-1|len>
rule <enc> [<jsonhex, ignored by the model>]  -> ok n=<n> m=<slot>;…   | err <kind> [<why>]
match <pathhex>                               -> m 0|1 | m nofetch | m fault_null | m fault_oob
get <enc> <pathhex>[,<pathhex>…]              -> sel i,j,… | sel - | err <kind> [<why>]
sizes                                         -> sizes pm=24 pe=8 st=8 cap=<bytes> max=<n>
end                                           -> end
```

Rule encoding `<enc>` (no white space; bytes in hex; a 00 byte ends the C string):
```
~                      params has no "path"
!s !n !a !t !f !z      "path" is a string / number / array / true / false / null (all: not an object)
@m1;m2;…               "path" is an object with these members in this order ("@" alone = {})
member = <keyhex>=<value>
value  = s<hex> | a[<item>{,<item>}] | t | f | z | n | o
item   = s<hex> | n | t | f | z | a | o
```
Slots are printed as `<index in matchers[]>.<ci>:<ophex>,<ophex>…` or `null`.
-/

namespace Cjet.Drv.Matcher

open Cjet Cjet.Matcher
open Cjet.Generated.Matcher (CFn Entry table)

def parseItem (s : String) : Option JItem :=
  match s.toList with
  | 's' :: hex => (Hex.toBytes? (String.ofList hex)).map JItem.str
  | [c] => if c ∈ ['n', 't', 'f', 'z', 'a', 'o'] then some .other else none
  | _ => none

def parseItems : List String → Option (List JItem)
  | [] => some []
  | s :: rest =>
    match parseItem s, parseItems rest with
    | some i, some is => some (i :: is)
    | _, _ => none

def parseVal (s : String) : Option JVal :=
  match s.toList with
  | 's' :: hex => (Hex.toBytes? (String.ofList hex)).map JVal.str
  | ['a'] => some (.arr [])
  | 'a' :: rest => (parseItems ((String.ofList rest).splitOn ",")).map JVal.arr
  | ['t'] => some .tru
  | ['f'] => some .fls
  | ['z'] => some .other
  | ['n'] => some .other
  | ['o'] => some .other
  | _ => none

def parseMember (s : String) : Option (Bytes × JVal) :=
  match s.splitOn "=" with
  | [k, v] =>
    match Hex.toBytes? k, parseVal v with
    | some kb, some vv => some (kb, vv)
    | _, _ => none
  | _ => none

def parseMembers : List String → Option Members
  | [] => some []
  | s :: rest =>
    match parseMember s, parseMembers rest with
    | some m, some ms => some (m :: ms)
    | _, _ => none

def parsePath (s : String) : Option PathParam :=
  if s == "~" then some .absent
  else match s.toList with
    | ['!', c] => if c ∈ ['s', 'n', 'a', 't', 'f', 'z'] then some .notObject else none
    | ['@'] => some (.obj [])
    | '@' :: rest => (parseMembers ((String.ofList rest).splitOn ";")).map PathParam.obj
    | _ => none

def parseHexList (s : String) : Option (List Bytes) :=
  (s.splitOn ",").foldr (fun h acc =>
    match Hex.toBytes? h, acc with
    | some b, some l => some (b :: l)
    | _, _ => none) (some [])

def whyName : Why → String
  | .unknownName => "unknown_name"
  | .notArray => "not_array"
  | .notString => "not_string"
  | .allocFailed => "alloc_failed"
  | .memberNotString => "member_not_string"
  | .countMismatch => "count_mismatch"
  | .oobWrite => "FAULT_oob_write"

def errLine : Err → String
  | .pathNotObject => "err path_not_object"
  | .noMatcher => "err no_matcher"
  | .tooMany => "err too_many"
  | .addFailed w => s!"err add_failed {whyName w}"

/-- index in `matchers[]` and the case flag of a match function, as the harness derives them
    from the function pointer. -/
def fnIndex (fn : CFn) : String :=
  match table.findIdx? (·.caseSensitive == fn), table.findIdx? (·.caseInsensitive == fn) with
  | some i, _ => s!"{i}.0"
  | none, some i => s!"{i}.1"
  | none, none => "-1.-1"

def slotStr : Option PathMatcher → String
  | none => "null"
  | some pm => fnIndex pm.fn ++ ":" ++ ",".intercalate (pm.elems.map Hex.ofBytes)

def fetchLine (f : Fetch) : String :=
  s!"ok n={f.numberOfMatchers} m=" ++ ";".intercalate (f.matcher.map slotStr)

def resultStr : MatchResult → String
  | .verdict true => "1"
  | .verdict false => "0"
  | .fault .nullMatcher => "fault_null"
  | .fault .outOfBounds => "fault_oob"

def sign (i : Int) : String := if i < 0 then "-1" else if i > 0 then "1" else "0"

def optNat : Option Nat → String
  | none => "-1"
  | some n => toString n

def entryNamed (name : String) : Option Entry :=
  table.find? (·.name == name.toUTF8.toList)

/-- `get`: indices of the elements the fetch selects; a fault aborts. -/
def selectIdx (f : Fetch) : List Bytes → Nat → Except String (List Nat)
  | [], _ => .ok []
  | p :: ps, i =>
    match stateMatches f (cstr p) with
    | .verdict b =>
      match selectIdx f ps (i + 1) with
      | .ok l => .ok (if b then i :: l else l)
      | .error e => .error e
    | r => .error (resultStr r)

abbrev State := Option Fetch

def step (st : State) (line : String) : State × List String :=
  match words line with
  | ["fn", name, ci, pathHex, ops] =>
    match entryNamed name, Hex.toBytes? pathHex, parseHexList ops with
    | none, _, _ => (st, ["fn unknown"])
    | some e, some path, some opl =>
      let fn := if ci == "1" then e.caseInsensitive else e.caseSensitive
      let pm : PathMatcher := { fn := fn, elems := opl.map cstr }
      (st, [if evalFn fn pm (cstr path) != 0 then "fn 1" else "fn 0"])
    | _, _, _ => (st, ["bad_encoding"])
  | "libc" :: f :: aHex :: bHex :: rest =>
    match Hex.toBytes? aHex, Hex.toBytes? bHex with
    | some a0, some b0 =>
      let a := cstr a0
      let b := cstr b0
      let n := (rest.head?.bind String.toNat?).getD 0
      let r := match f with
        | "strcmp" => sign (strcmp a b)
        | "strncmp" => sign (strncmp a b n)
        | "strcasecmp" => sign (strcasecmp a b)
        | "strncasecmp" => sign (strncasecmp a b n)
        | "strstr" => optNat (strstr a b)
        | "strcasestr" => optNat (strcasestr a b)
        | "strlen" => toString (strlen a)
        | _ => "unknown"
      (st, ["libc " ++ r])
    | _, _ => (st, ["bad_encoding"])
  | "rule" :: enc :: _ =>
    match parsePath enc with
    | none => (none, ["bad_encoding"])
    | some p =>
      match createFetch Cfg.repo p with
      | .ok f => (some f, [fetchLine f])
      | .error e => (none, [errLine e])
  | ["match", pathHex] =>
    match st, Hex.toBytes? pathHex with
    | none, _ => (st, ["m nofetch"])
    | some f, some path => (st, ["m " ++ resultStr (stateMatches f (cstr path))])
    | _, none => (st, ["bad_encoding"])
  | ["get", enc, paths] =>
    match parsePath enc, parseHexList paths with
    | some p, some pl =>
      match createFetch Cfg.repo p with
      | .error e => (st, [errLine e])
      | .ok f =>
        match selectIdx f pl 0 with
        | .ok [] => (st, ["sel -"])
        | .ok l => (st, ["sel " ++ ",".intercalate (l.map toString)])
        | .error e => (st, ["sel " ++ e])
    | _, _ => (st, ["bad_encoding"])
  | ["sizes"] =>
    (st, [s!"sizes pm={sizeofPathMatcher} pe={sizeofPathElements} st={sizeofSizeT} cap={Cfg.repo.heapCapBytes} max={Cfg.repo.maxMatchers}"])
  | ["end"] => (none, ["end"])
  | [] => (st, ["empty"])
  | _ => (st, ["bad_op"])

def run (_args : List String) : IO UInt32 := do
  Cjet.runLines step (none : State)
  return 0

end Cjet.Drv.Matcher
