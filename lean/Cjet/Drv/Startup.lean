import Cjet.Basic
namespace Cjet.Drv.Startup
def run (_args : List String) : IO UInt32 := pure 0
end Cjet.Drv.Startup
