import Cjet.Basic
import Cjet.Startup
/-!
Driver for component `startup` (start-up / shut-down paths of linux_io.c; properties C07 / C15).
Script on stdin, one run of `run_io` per line — the same script `harness/comp/startup.c` reads:

    run <local 0|1> <user 0|1> <foreground 0|1> <answer>…

answer (one per call whose result the C code inspects, in call order; missing answers are `ok`):
    ok | fail | retry | conn | a:<n>      n: number of addrinfo entries getaddrinfo answers with

Output: one line per call (see `evLine`), then the tables at return
    OPEN <fds|->   REG <fds|->   PEERS <fds|->   HANDLERS term=… int=… pipe=…   AI <n>   RET <r> goahead=<0|1>
closed by `END`.
-/
namespace Cjet.Drv.Startup

open Cjet Cjet.Startup

def parseAns (tok : String) : Option Ans :=
  if tok == "ok" then some .ok
  else if tok == "fail" then some .fail
  else if tok == "retry" then some .retry
  else if tok == "conn" then some .conn
  else match tok.toList with
    | 'a' :: ':' :: ds => (String.ofList ds).toNat?.map Ans.addrs
    | _ => none

def okName (b : Bool) : String := if b then "ok" else "fail"
def sigName : Sig → String | .term => "term" | .int => "int" | .pipe => "pipe"
def dispName : Disp → String | .handler => "handler" | .ign => "ign" | .dfl => "dfl"
def famName : Fam → String | .inet6 => "inet6" | .inet => "inet" | .unix => "unix"
def kindName : Kind → String | .jet => "jet" | .http => "http"
def portName : Port → String | .jet => "jet" | .ws => "ws"
def nodeName : Node → String | .lo6 => "lo6" | .lo4 => "lo4"
def optName : Opt → String | .reuse => "reuse" | .v6only => "v6only"
def fcName : Fc → String | .getfl => "getfl" | .setfl => "setfl"
def targetName : Target → String
  | .any p => "any:" ++ portName p
  | .lo6 p => "lo6:" ++ portName p
  | .lo4 p => "lo4:" ++ portName p
  | .udsAbstract => "uds-abstract"

def evLine : Ev → String
  | .signal s d ok => s!"SIG {sigName s} {dispName d} {okName ok}"
  | .init ok => s!"INIT {okName ok}"
  | .destroy => "DESTROY"
  | .gai n p (some e) => s!"GAI {nodeName n} {portName p} {e}"
  | .gai n p none => s!"GAI {nodeName n} {portName p} fail"
  | .freeai => "FREEAI"
  | .socket f (some fd) => s!"SOCKET {famName f} {fd}"
  | .socket f none => s!"SOCKET {famName f} fail"
  | .sockopt fd o ok => s!"SOCKOPT {fd} {optName o} {okName ok}"
  | .fcntl fd c ok => s!"FCNTL {fd} {fcName c} {okName ok}"
  | .bind fd t ok => s!"BIND {fd} {targetName t} {okName ok}"
  | .listen fd ok => s!"LISTEN {fd} {okName ok}"
  | .add fd k ok => s!"ADD {fd} {kindName k} {okName ok}"
  | .remove fd => s!"REMOVE {fd}"
  | .accept fd .again => s!"ACCEPT {fd} again"
  | .accept fd .retry => s!"ACCEPT {fd} retry"
  | .accept fd .fatal => s!"ACCEPT {fd} fatal"
  | .accept fd (.conn p) => s!"ACCEPT {fd} conn {p}"
  | .peer p k => s!"PEER {p} {kindName k}"
  | .close fd => s!"CLOSE {fd}"
  | .unlinkUds => "UNLINK uds"
  | .getpwnam ok => s!"GETPWNAM {okName ok}"
  | .setgid ok => s!"SETGID {okName ok}"
  | .setuid ok => s!"SETUID {okName ok}"
  | .daemon ok => s!"DAEMON {okName ok}"
  | .run ok => if ok then "RUN 0" else "RUN -1"
  | .destroyPeers => "DESTROYPEERS"
  | .destroyConns => "DESTROYCONNS"

/-- ascending insertion sort (tables are printed sorted) -/
def insertSorted (x : Nat) : List Nat → List Nat
  | [] => [x]
  | y :: ys => if x ≤ y then x :: y :: ys else y :: insertSorted x ys

def sortNat (l : List Nat) : List Nat := l.foldr insertSorted []

def fdList (l : List Nat) : String :=
  if l.isEmpty then "-" else " ".intercalate ((sortNat l).map toString)

def parseBool (s : String) : Option Bool :=
  if s == "0" then some false else if s == "1" then some true else none

def runLine (code : Code) (toks : List String) : List String :=
  match toks with
  | l :: u :: f :: rest =>
    match parseBool l, parseBool u, parseBool f, rest.mapM parseAns with
    | some l, some u, some f, some script =>
      let r := Startup.run ⟨l, u, f, code⟩ script
      let L := r.2.led
      r.2.tr.map evLine ++
        [ "OPEN " ++ fdList L.opn, "REG " ++ fdList (L.reg.map (·.1)), "PEERS " ++ fdList (L.peers.map (·.1)),
          s!"HANDLERS term={dispName L.term} int={dispName L.int} pipe={dispName L.pipe}",
          s!"AI {L.ai}",
          s!"RET {r.1.ret} goahead={if r.2.goAhead then 1 else 0}", "END" ]
    | _, _, _, _ => ["ERROR bad run", "END"]
  | _ => ["ERROR bad run", "END"]

def stepLine (code : Code) (line : String) : Code × List String :=
  match words line with
  | [] => (code, [])
  | "run" :: toks => (code, runLine code toks)
  | w :: _ => if w.startsWith "#" then (code, []) else (code, ["ERROR unknown op", "END"])

/-- arguments: `destroy-at-end` and / or `restore-on-pipe-fail` select the repaired code paths -/
def run (args : List String) : IO UInt32 := do
  runLines stepLine ⟨args.contains "destroy-at-end", args.contains "restore-on-pipe-fail"⟩
  pure 0

end Cjet.Drv.Startup
