import Cjet.Bufread
/-!
Driver `drv_bufread`: runs the reader model of `Cjet.Bufread` on the script the C harness
`harness/comp/bufread.c` runs on the real `buffered_socket.c`.

Script (stdin), one op per line:
  new <cap> <raw|line|ws|mix> <fill hex byte> <answers>   new connection; the first reader is armed, which
                                                         runs go_reading once with these kernel answers
  event <answers>                                        one readiness event (ev.read_function)
answers: comma separated kernel answers to the successive socket_read calls: `C<hex>` bytes arrive (a read
asking for less gets a prefix, the rest stays for the next call; `C-` = read() returns 0), `W`/`B`
EAGAIN/EWOULDBLOCK, `E` end of stream, `X` error; `-` = no answers; an exhausted list answers `W`.

Observation lines (identical on both sides):
  read <asked> <C<hex>|W|E|X>     one socket_read call and what it returned
  deliver <hex>                   read callback invoked with this slice
  cb0                             read callback invoked with len 0
  closed                          the callback returned BS_CLOSED
  error                           the error handler was invoked
  end <wouldblock|peerclosed|clientclosed|error> ret=<continue|removed|-> (r=<r> w=<w> buf=<hex> req=<E<n>|U<hex>> | dead) unused=<n>
  dead                            `event` on a connection that is gone
-/
namespace Cjet.Drv.Bufread
open Cjet Cjet.Bufread

def rejectFF (b : Bytes) : Bool := b.head? != some 255

inductive Conn where
  | none
  | raw (cap : Nat) (rd : Reader) (s : RawSt)
  | line (cap : Nat) (rd : Reader) (s : Unit)
  | ws (cap : Nat) (rd : Reader) (s : WsSt)
  | mix (cap : Nat) (rd : Reader) (s : Req)

def parseAnswer (w : String) : Option KRes :=
  if w == "W" || w == "B" then some .wouldBlock
  else if w == "E" then some .eof
  else if w == "X" then some .err
  else if w.startsWith "C" then (Hex.toBytes? (w.drop 1).toString).map KRes.chunk
  else none

def parseAnswers (w : String) : Option (List KRes) :=
  if w == "-" then some [] else (w.splitOn ",").mapM parseAnswer

def fmtGot : Got → String
  | .data b => "C" ++ Hex.ofBytes b
  | .wouldBlock => "W"
  | .eof => "E"
  | .err => "X"

def fmtObs {σ : Type} : Obs σ → String
  | .read _ _ asked got => s!"read {asked} {fmtGot got}"
  | .deliver _ _ _ b => s!"deliver {Hex.ofBytes b}"
  | .cb0 => "cb0"
  | .closed => "closed"
  | .error => "error"

def fmtReq : Req → String
  | .exactly n => s!"E{n}"
  | .until d => s!"U{Hex.ofBytes d}"

def fmtOut : Outcome → String
  | .wouldBlock => "wouldblock"
  | .peerClosed => "peerclosed"
  | .clientClosed => "clientclosed"
  | .ioError => "error"
  | .tooMuch => "error"

/-- run one go_reading; `first` = the call made while arming the first reader (no event loop return value). -/
def runOne {σ : Type} (c : Client σ) (cap : Nat) (rd : Reader) (s : σ) (ks : List KRes) (first : Bool) :
    List String × Option (Reader × σ) :=
  let res := goReading c cap rd s ks
  let ret := if first then "-" else
    match res.out with
    | .peerClosed | .clientClosed => "removed"
    | _ => "continue"
  let alive := res.out == .wouldBlock
  let st := if alive then
      s!"r={res.rd.r} w={res.rd.w} buf={Hex.ofBytes res.rd.buf} req={fmtReq (c.want res.s)}"
    else "dead"
  (res.obs.map fmtObs ++ [s!"end {fmtOut res.out} ret={ret} {st} unused={res.rest.length}"],
   if alive then some (res.rd, res.s) else none)

instance : BEq Outcome := ⟨fun a b => decide (a = b)⟩

def stepConn (conn : Conn) (ks : List KRes) (first : Bool) : Conn × List String :=
  match conn with
  | .none => (.none, ["dead"])
  | .raw cap rd s =>
    match runOne (rawPeer rejectFF) cap rd s ks first with
    | (o, some (rd', s')) => (.raw cap rd' s', o)
    | (o, none) => (.none, o)
  | .line cap rd s =>
    match runOne (httpLine rejectFF) cap rd s ks first with
    | (o, some (rd', s')) => (.line cap rd' s', o)
    | (o, none) => (.none, o)
  | .ws cap rd s =>
    match runOne (wsHeader rejectFF) cap rd s ks first with
    | (o, some (rd', s')) => (.ws cap rd' s', o)
    | (o, none) => (.none, o)
  | .mix cap rd s =>
    match runOne mixClient cap rd s ks first with
    | (o, some (rd', s')) => (.mix cap rd' s', o)
    | (o, none) => (.none, o)

def stepLine (conn : Conn) (line : String) : Conn × List String :=
  match words line with
  | [] => (conn, [])
  | ["new", cap, client, fill, answers] =>
    match cap.toNat?, Hex.toBytes? fill, parseAnswers answers with
    | some cap, some [f], some ks =>
      let rd := Reader.init cap f
      let c0 : Option Conn :=
        if client == "raw" then some (.raw cap rd .len)
        else if client == "line" then some (.line cap rd ())
        else if client == "ws" then some (.ws cap rd .hdr)
        else if client == "mix" then some (.mix cap rd (.exactly 1))
        else none
      match c0 with
      | some c0 => stepConn c0 ks true
      | none => (conn, ["BADOP " ++ line.trimAscii.toString])
    | _, _, _ => (conn, ["BADOP " ++ line.trimAscii.toString])
  | ["event", answers] =>
    match parseAnswers answers with
    | some ks => stepConn conn ks false
    | none => (conn, ["BADOP " ++ line.trimAscii.toString])
  | _ => (conn, ["BADOP " ++ line.trimAscii.toString])

def run (_args : List String) : IO UInt32 := do
  Cjet.runLines stepLine Conn.none
  return 0

end Cjet.Drv.Bufread
