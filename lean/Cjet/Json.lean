/-
  Cjet.Json — JSON values as cJSON (1.7.x, as vendored in /repo/src/json) represents them.

  * objects are ordered member lists, duplicates preserved;
  * `getItem` is `cJSON_GetObjectItem`: the FIRST member whose key matches under ASCII
    case folding (cJSON's default lookup is case-insensitive: `{"ID":1}` carries an id);
  * strings are byte lists (cJSON does not validate UTF-8; the daemon compares with strcmp);
  * a number carries both fields cJSON keeps: `bits` (the IEEE-754 image of `valuedouble`)
    and `vint` (`valueint`, the saturating truncation) — the daemon uses either, depending
    on the place (fetch ids are compared by `vint`, timeouts read `valuedouble`).

  cJSON's parser and printer are NOT modelled: the text→value step is outside the model
  (the harness side parses with the real cJSON / a duplicate-preserving reader).
-/
import Cjet.Basic

namespace Cjet

structure JNum where
  bits : UInt64
  vint : Int
  deriving DecidableEq, Repr, Inhabited

inductive Json where
  | null
  | bool (b : Bool)
  | num (n : JNum)
  | str (s : Bytes)
  | arr (l : List Json)
  | obj (l : List (Bytes × Json))
  deriving Repr, Inhabited

namespace Json

def asciiLower (b : UInt8) : UInt8 :=
  if 65 ≤ b ∧ b ≤ 90 then b + 32 else b

/-- cJSON's `case_insensitive_strcmp` on NUL-free strings. -/
def keyEq (a b : Bytes) : Bool := a.map asciiLower == b.map asciiLower

def findItem (k : Bytes) : List (Bytes × Json) → Option Json
  | [] => none
  | (k', v) :: rest => if keyEq k' k then some v else findItem k rest

/-- `cJSON_GetObjectItem(obj, key)`; on a non-object cJSON walks `child` all the same:
    for an array the members have no name (NULL `string`), which never matches. -/
def getItem (j : Json) (k : Bytes) : Option Json :=
  match j with
  | .obj l => findItem k l
  | _ => none

def key (s : String) : Bytes := s.toUTF8.toList

def isString : Json → Bool | .str _ => true | _ => false
def isNumber : Json → Bool | .num _ => true | _ => false
def isObject : Json → Bool | .obj _ => true | _ => false
def isArray : Json → Bool | .arr _ => true | _ => false

/-- the double a small integer constant converts to, for numbers the daemon creates itself -/
def ofInt (i : Int) : Json := .num { bits := (Float.ofInt i).toBits, vint := i }

def mkStr (s : String) : Json := .str (key s)

/-- a one-member object -/
def single (k : String) (v : Json) : Json := .obj [(key k, v)]

/-! ### line protocol encoding (prefix form, whitespace separated tokens)
  `n` `t` `f` `d<bits-hex>:<vint>` `s<hex>` `a<count> item…` `o<count> <keyhex> value …` -/

def natToHex (n : Nat) : String :=
  if n = 0 then "0" else String.ofList (Nat.toDigits 16 n)

partial def encode : Json → List String
  | .null => ["n"]
  | .bool true => ["t"]
  | .bool false => ["f"]
  | .num n => [s!"d{natToHex n.bits.toNat}:{n.vint}"]
  | .str s => ["s" ++ Hex.ofBytes s]
  | .arr l => s!"a{l.length}" :: (l.map encode).flatten
  | .obj l => s!"o{l.length}" :: (l.map (fun (k, v) => Hex.ofBytes k :: encode v)).flatten

def render (j : Json) : String := " ".intercalate (encode j)

def hexNat? (s : String) : Option Nat :=
  s.toList.foldl (fun acc c => match acc, Hex.nibble? c with
    | some a, some d => some (a * 16 + d)
    | _, _ => none) (some 0)

/-- decoder with fuel = number of tokens (each step consumes at least one token) -/
def decodeAux : Nat → List String → Option (Json × List String)
  | 0, _ => none
  | _ + 1, [] => none
  | fuel + 1, tok :: rest =>
    match tok.toList with
    | ['n'] => some (.null, rest)
    | ['t'] => some (.bool true, rest)
    | ['f'] => some (.bool false, rest)
    | 'd' :: cs =>
      match (String.ofList cs).splitOn ":" with
      | [b, v] =>
        match hexNat? b, v.toInt? with
        | some bn, some vi => some (.num { bits := UInt64.ofNat bn, vint := vi }, rest)
        | _, _ => none
      | _ => none
    | 's' :: cs => (Hex.toBytes? (String.ofList cs)).map (fun b => (.str b, rest))
    | 'a' :: cs =>
      match (String.ofList cs).toNat? with
      | none => none
      | some n =>
        let rec items (fuel : Nat) (k : Nat) (toks : List String) (acc : List Json) : Option (List Json × List String) :=
          match k with
          | 0 => some (acc.reverse, toks)
          | k + 1 =>
            match decodeAux fuel toks with
            | some (j, toks') => items fuel k toks' (j :: acc)
            | none => none
        (items fuel n rest []).map (fun (l, r) => (.arr l, r))
    | 'o' :: cs =>
      match (String.ofList cs).toNat? with
      | none => none
      | some n =>
        let rec members (fuel : Nat) (k : Nat) (toks : List String) (acc : List (Bytes × Json)) : Option (List (Bytes × Json) × List String) :=
          match k with
          | 0 => some (acc.reverse, toks)
          | k + 1 =>
            match toks with
            | [] => none
            | kt :: toks1 =>
              match Hex.toBytes? kt, decodeAux fuel toks1 with
              | some kb, some (j, toks') => members fuel k toks' ((kb, j) :: acc)
              | _, _ => none
        (members fuel n rest []).map (fun (l, r) => (.obj l, r))
    | _ => none

def decode (toks : List String) : Option (Json × List String) := decodeAux (toks.length + 1) toks

end Json
end Cjet
